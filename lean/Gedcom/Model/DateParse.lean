/-
  DATE values: `NewDateRangeWithString` (date_range.go), `parseDateParts` (date.go), `Atoi` and
  `CleanSpace` (util.go), `DateConstraintFromString` (date_constraint.go), the `Equals` family and
  the three printers (`Date.String`, `DateRange.String`, `DateNode.String`).

  The model describes the code *after* the C04 repair (fixes/C04-date-keywords.patch, fixes/C04-range-string-uses-is.patch, fixes/C04-cleanspace-all-runs.patch): the keyword
  alternations of both patterns are quoted literally and tried longest first, and a word in the
  month position that is not a month makes the date invalid (checked after the calendar check).

  Modelled, not verified (tied by the C04 correspondence): Go's `regexp` — both patterns are
  replaced by deterministic matchers that follow RE2's leftmost-first (backtracking-order)
  semantics, see `matchDate` and `matchRange`; `strings.TrimSpace`/`Replace`/`ToLower`;
  `strconv.Atoi`/`Itoa`; `time.Parse` as calendar check (`calendarOK`, through `dim`, tied
  exhaustively in C05).  Keyword lists, keyword → constraint, month words and the printed
  spellings are *not* restated here: they come from `Gedcom.Generated.Dates`, regenerated from
  the code on every run.

  Core Lean only (the driver links against this file).
-/
import Gedcom.Model.Calendar
import Gedcom.Generated.Dates
namespace Gedcom

/-! ## bytes -/

def isDigitB (b : UInt8) : Bool := 48 ≤ b.toNat && b.toNat ≤ 57
def isUpperB (b : UInt8) : Bool := 65 ≤ b.toNat && b.toNat ≤ 90
def isLowerB (b : UInt8) : Bool := 97 ≤ b.toNat && b.toNat ≤ 122
/-- `\w` on one ASCII byte -/
def isWordB (b : UInt8) : Bool := isDigitB b || isUpperB b || isLowerB b || b.toNat == 95
def toLowerB (b : UInt8) : UInt8 := if isUpperB b then b + 32 else b
def toUpperB (b : UInt8) : UInt8 := if isLowerB b then b - 32 else b
/-- ASCII lower-casing.  (`strings.ToLower` also maps non-ASCII letters; the only places the
    code lower-cases are a matched keyword — ASCII — and the month word, which is then looked up
    in an ASCII table that contains no `k`, the one ASCII letter a non-ASCII rune (U+212A) maps to.) -/
def lowerStr (s : Str) : Str := s.map toLowerB

def isAsciiSpaceB (b : UInt8) : Bool :=
  b == 9 || b == 10 || b == 11 || b == 12 || b == 13 || b == 32

/-- U+0085, U+00A0 -/
def isSpace2 (a b : UInt8) : Bool := a == 0xC2 && (b == 0x85 || b == 0xA0)
/-- U+1680, U+2000..U+200A, U+2028, U+2029, U+202F, U+205F, U+3000 -/
def isSpace3 (a b c : UInt8) : Bool :=
  (a == 0xE1 && b == 0x9A && c == 0x80) ||
  (a == 0xE2 && b == 0x80 && ((0x80 ≤ c.toNat && c.toNat ≤ 0x8A) || c == 0xA8 || c == 0xA9 || c == 0xAF)) ||
  (a == 0xE2 && b == 0x81 && c == 0x9F) ||
  (a == 0xE3 && b == 0x80 && c == 0x80)

/-- the rest after one leading white-space rune (`unicode.IsSpace`, UTF-8), if there is one -/
def dropSpaceRune : Str → Option Str
  | [] => none
  | a :: r =>
    if isAsciiSpaceB a then some r else
    match r with
    | [] => none
    | b :: r' =>
      if isSpace2 a b then some r' else
      match r' with
      | [] => none
      | c :: r'' => if isSpace3 a b c then some r'' else none

/-- the same on the reversed string (trailing white-space rune) -/
def dropSpaceRuneRev : Str → Option Str
  | [] => none
  | c :: r =>
    if isAsciiSpaceB c then some r else
    match r with
    | [] => none
    | b :: r' =>
      if isSpace2 b c then some r' else
      match r' with
      | [] => none
      | a :: r'' => if isSpace3 a b c then some r'' else none

def trimFuel (f : Str → Option Str) : Nat → Str → Str
  | 0, s => s
  | n + 1, s => match f s with | some r => trimFuel f n r | none => s

def trimLeft (s : Str) : Str := trimFuel dropSpaceRune s.length s
def trimRight (s : Str) : Str := (trimFuel dropSpaceRuneRev s.length s.reverse).reverse

/-- `strings.TrimSpace` -/
def trimSpace (s : Str) : Str := trimRight (trimLeft s)

/-- the fixpoint of `strings.Replace(s, "  ", " ", -1)`: every run of spaces becomes one space
    (a space followed by a space is dropped) -/
def collapseSpaces : Str → Str
  | [] => []
  | a :: r => if a == 32 && r.head? == some 32 then collapseSpaces r else a :: collapseSpaces r

/-- `CleanSpace` (util.go) after the repair fixes/C04-cleanspace-all-runs.patch: the replace pass
    is repeated until no two consecutive spaces are left, then the result is trimmed. -/
def cleanSpace (s : Str) : Str := trimSpace (collapseSpaces s)

/-! ## numbers -/

def digitB (n : Nat) : UInt8 := UInt8.ofNat (48 + n)

/-- `strconv.Itoa` on a natural number.  Structural recursion on a fuel argument (the number
    itself is always enough) so that the kernel can evaluate it. -/
def natToDecAux : Nat → Nat → Str
  | 0, n => [digitB (n % 10)]
  | f + 1, n => if n < 10 then [digitB n] else natToDecAux f (n / 10) ++ [digitB (n % 10)]

def natToDec (n : Nat) : Str := natToDecAux n n

def decToNat (s : Str) : Nat := s.foldl (fun acc b => acc * 10 + (b.toNat - 48)) 0

def isDigits (s : Str) : Bool := !s.isEmpty && s.all isDigitB

/-- the largest `int` -/
def maxInt : Nat := 9223372036854775807

/-- `Atoi` (util.go) on what the date pattern hands it (`\d+`, possibly followed by a space):
    leading zeros dropped, spaces trimmed, `strconv.Atoi` with the error ignored — which yields 0
    for the empty string and the largest int on overflow. -/
def atoi (s : Str) : Nat :=
  let t := trimSpace (s.dropWhile (· == 48))
  if isDigits t then min (decToNat t) maxInt else 0

/-! ## the single-date pattern

  `(?i)^(W)? ?(\d+ )?(\w+ )?(\d+)$` where `W` is the quoted alternation of all keywords, longest
  first.  Leftmost-first semantics = the first success of a backtracking search that tries, in
  this order: each keyword alternative, then no keyword; a space, then no space; a day group,
  then none; a month group, then none.  `\d+` and `\w+` must be followed by a space, so only
  the maximal run can succeed. -/

/-- longest prefix matched by `\w+` under `(?i)`: ASCII word bytes and the two runes that
    case-fold onto ASCII letters, U+017F (`ſ`, bytes C5 BF) and U+212A (Kelvin sign, bytes
    E2 84 AA).  The first argument counts the continuation bytes of such a rune still to copy. -/
def spanWordAux : Nat → Str → Str × Str
  | _, [] => ([], [])
  | k + 1, a :: r =>
    let p := spanWordAux k r
    (a :: p.1, p.2)
  | 0, a :: r =>
    if isWordB a then
      let p := spanWordAux 0 r
      (a :: p.1, p.2)
    else if a == 0xC5 && r.head? == some 0xBF then
      let p := spanWordAux 1 r
      (a :: p.1, p.2)
    else if a == 0xE2 && r.take 2 == [0x84, 0xAA] then
      let p := spanWordAux 2 r
      (a :: p.1, p.2)
    else ([], a :: r)

def spanWord (s : Str) : Str × Str := spanWordAux 0 s

/-- `(\w+ )?(\d+)$` on `r`, month group first -/
def matchMonthYear (day r : Str) : Option (Str × Str × Str) :=
  let p := spanWord r
  match p.2 with
  | 32 :: r4 =>
    if !p.1.isEmpty && isDigits r4 then some (day, p.1 ++ [32], r4)
    else if isDigits r then some (day, [], r) else none
  | _ => if isDigits r then some (day, [], r) else none

/-- `(\d+ )?(\w+ )?(\d+)$`, day group first -/
def matchTail (s : Str) : Option (Str × Str × Str) :=
  let d := s.takeWhile isDigitB
  match s.dropWhile isDigitB with
  | 32 :: r2 =>
    if !d.isEmpty then
      match matchMonthYear (d ++ [32]) r2 with
      | some x => some x
      | none => matchMonthYear [] s
    else matchMonthYear [] s
  | _ => matchMonthYear [] s

/-- the four capture groups of the date pattern -/
structure DateParts where
  kw : Str
  day : Str
  month : Str
  year : Str
deriving DecidableEq, Repr

/-- ` ?(\d+ )?(\w+ )?(\d+)$` after keyword text `kw` -/
def matchAfterKw (kw r : Str) : Option DateParts :=
  let tail (t : Str) : Option DateParts := (matchTail t).map fun x => ⟨kw, x.1, x.2.1, x.2.2⟩
  match r with
  | 32 :: t => match tail t with | some x => some x | none => tail r
  | _ => tail r

/-- `(?i)` literal prefix test (keywords contain no `k`/`s`, the letters with non-ASCII folds) -/
def hasPrefixCI : Str → Str → Bool
  | [], _ => true
  | _ :: _, [] => false
  | k :: kw, a :: s => toLowerB k == toLowerB a && hasPrefixCI kw s

def insertByLen (w : Str) : List Str → List Str
  | [] => [w]
  | x :: xs => if x.length > w.length then x :: insertByLen w xs else w :: x :: xs

/-- `sort.SliceStable(words, len(i) > len(j))` -/
def sortLenDesc (l : List Str) : List Str := l.foldr insertByLen []

/-- `dateWordsPattern(DateWordsAbout, DateWordsBefore, DateWordsAfter)`: the order in which the
    keyword alternatives are tried -/
def dateKeywords : List Str :=
  sortLenDesc (Generated.wordsAbout ++ Generated.wordsBefore ++ Generated.wordsAfter)

def matchDateKw : List Str → Str → Option DateParts
  | [], s => matchAfterKw [] s
  | kw :: kws, s =>
    if hasPrefixCI kw s then
      match matchAfterKw (s.take kw.length) (s.drop kw.length) with
      | some p => some p
      | none => matchDateKw kws s
    else matchDateKw kws s

/-- `dateRegexp.FindStringSubmatch` -/
def matchDate (s : Str) : Option DateParts := matchDateKw dateKeywords s

/-! ## one date -/

/-- `DateConstraintFromString` -/
def constraintFromString (w : Str) : Constraint :=
  (Generated.constraintOfWord.lookup (lowerStr w)).getD .exact

/-- the `months` table -/
def monthOf (w : Str) : Option Nat := Generated.monthWords.lookup w

/-- `time.Parse("_2 1 2006", "<day> <month> <%04d year>")` succeeds -/
def calendarOK (day month year : Nat) : Bool :=
  month != 0 && decide (year ≤ 9999) && decide (1 ≤ day) && decide ((day : Int) ≤ dim (isLeap year) month)

/-- a parsed date: the `Date` struct without `IsEndOfRange`; `parseError` = `ParseError != nil` -/
structure PDate where
  day : Nat
  month : Nat
  year : Nat
  constraint : Constraint
  parseError : Bool
deriving DecidableEq, Repr, Inhabited

def PDate.failed (c : Constraint) : PDate := ⟨0, 0, 0, c, true⟩

def PDate.toDate (d : PDate) : Date := ⟨d.day, d.month, d.year⟩

/-- `parseDateParts` (date.go) -/
def parseDateParts (s : Str) : PDate :=
  match matchDate s with
  | none => PDate.failed .exact
  | some p =>
    let day := atoi p.day
    let mo := monthOf (cleanSpace (lowerStr p.month))
    let year := atoi p.year
    let c := constraintFromString p.kw
    if !p.day.isEmpty && !calendarOK day (mo.getD 0) year then PDate.failed c
    else if !p.month.isEmpty && mo.isNone then PDate.failed c
    else ⟨day, mo.getD 0, year, c, false⟩

/-! ## the range pattern

  `(?i)^(B) (.+) (A) (.+)$`, `B`/`A` the quoted between/and alternations.  `.` excludes the line
  feed, so a string with a line feed cannot match.  The first `(.+)` is greedy: the separator
  chosen is the rightmost `␠word␠` with something on both sides. -/

def betweenKeywords : List Str := sortLenDesc Generated.wordsBetween
def andKeywords : List Str := sortLenDesc Generated.wordsAnd

/-- `(A) ` at the start of `t`: the word as written and what follows the space -/
def sepWordAt (t : Str) : Option (Str × Str) :=
  andKeywords.findSome? fun w =>
    if hasPrefixCI w t then
      match t.drop w.length with
      | 32 :: r => some (t.take w.length, r)
      | _ => none
    else none

/-- `(.+) (A) (.+)$`; `acc` is the text already passed, reversed -/
def findSep : Str → Str → Option (Str × Str × Str)
  | _, [] => none
  | acc, c :: cs =>
    match findSep (c :: acc) cs with
    | some r => some r
    | none =>
      if c == 32 && !acc.isEmpty then
        match sepWordAt cs with
        | some (w, r) => if !r.isEmpty then some (acc.reverse, w, r) else none
        | none => none
      else none

/-- `dateRangeRegexp.FindStringSubmatch`: (between word, first date, and word, second date) -/
def matchRange (s : Str) : Option (Str × Str × Str × Str) :=
  if s.contains 10 then none else
  betweenKeywords.findSome? fun kw =>
    if hasPrefixCI kw s then
      match s.drop kw.length with
      | 32 :: rest => (findSep [] rest).map fun x => (s.take kw.length, x.1, x.2.1, x.2.2)
      | _ => none
    else none

/-- `DateRange` -/
structure DateRange where
  start : PDate
  end_ : PDate
  original : Str
deriving DecidableEq, Repr, Inhabited

/-- `NewDateRangeWithString` -/
def parseDateRange (s : Str) : DateRange :=
  let ds := cleanSpace s
  match matchRange ds with
  | some x => ⟨parseDateParts x.2.1, parseDateParts x.2.2.2, s⟩
  | none => ⟨parseDateParts ds, parseDateParts ds, s⟩

/-! ## predicates -/

def PDate.isZero (d : PDate) : Bool := d.day == 0 && d.month == 0 && d.year == 0

/-- `Date.Is` -/
def PDate.is (a b : PDate) : Bool :=
  a.day == b.day && a.month == b.month && a.year == b.year && a.constraint == b.constraint

/-- `Date.Years()` as an exact fraction (numerator, positive denominator).  Years 1..9999: the
    calendar model of C05.  Outside (what the parser can still produce): year 0 gives 0; a year
    above 9999 gives `year + 0.5` without a month and the `Years()` of the zero time, `1 + 1/366`,
    with one (`Time()` cannot represent it). -/
def PDate.yearsFrac (d : PDate) : Int × Int :=
  if d.year = 0 then (0, 1)
  else if d.year ≤ 9999 then
    ((d.year : Int) * d.toDate.yearsDen + d.toDate.yearsNum, d.toDate.yearsDen)
  else if d.month = 0 then (2 * (d.year : Int) + 1, 2)
  else (367, 366)

/-- `a.Years() < b.Years()` -/
def PDate.yearsLt (a b : PDate) : Bool :=
  decide (a.yearsFrac.1 * b.yearsFrac.2 < b.yearsFrac.1 * a.yearsFrac.2)

/-- `equalsA` -/
def PDate.sameDMY (a b : PDate) : Bool := a.day == b.day && a.month == b.month && a.year == b.year

/-- `Date.Equals`: `a` is the receiver ("left"), `b` the argument; the matrix is indexed
    `[b.constraint][a.constraint]` -/
def PDate.equals (a b : PDate) : Bool :=
  if a.isZero || b.isZero then false
  else if a.is b then true
  else
    match b.constraint, a.constraint with
    | .exact, .exact => a.sameDMY b
    | .exact, .about => a.sameDMY b
    | .exact, .before => b.yearsLt a
    | .exact, .after => a.yearsLt b
    | .about, .exact => a.sameDMY b
    | .about, .about => a.sameDMY b
    | .about, .before => false
    | .about, .after => false
    | .before, .exact => a.yearsLt b
    | .before, .about => false
    | .before, .before => a.yearsLt b
    | .before, .after => false
    | .after, .exact => b.yearsLt a
    | .after, .about => false
    | .after, .before => false
    | .after, .after => b.yearsLt a

/-- `DateRange.IsValid` -/
def DateRange.isValid (r : DateRange) : Bool := !r.start.isZero && !r.end_.isZero

/-- `DateRange.IsPhrase` -/
def DateRange.isPhrase (r : DateRange) : Bool :=
  match r.original with
  | [] => false
  | a :: _ => a == 40 && r.original.getLast? == some 41

/-- `DateRange.Equals` -/
def DateRange.equals (a b : DateRange) : Bool :=
  if a.isPhrase && b.isPhrase && a.original == b.original then true
  else if !a.isValid && !b.isValid && a.original == b.original then true
  else a.start.equals b.start && a.end_.equals b.end_

/-! ## printing -/

/-- `Date.String` -/
def PDate.toString (d : PDate) : Str :=
  let day := if d.day != 0 then natToDec d.day else []
  let mon := if d.month != 0 then (Generated.monthAbbrev[d.month - 1]?).getD [] else []
  let year := if d.year != 0 then natToDec d.year else []
  cleanSpace (Generated.constraintSpelling d.constraint ++ [32] ++ day ++ [32] ++ mon ++ [32] ++ year)

def rangeText (a b : PDate) : Str :=
  Generated.rangePrefix ++ a.toString ++ Generated.rangeInfix ++ b.toString

/-- `DateRange.String`: one date when both ends are the same date (`Is`), else both ends
    (after the repair fixes/C04-range-string-uses-is.patch; before it the test was `Equals`) -/
def DateRange.toString (r : DateRange) : Str :=
  if r.start.is r.end_ then r.start.toString else rangeText r.start r.end_

/-- `DateNode.String` of a DATE node whose value parsed to `r`: decides with `Is` -/
def dateNodeToString (r : DateRange) : Str :=
  if r.start.is r.end_ then r.start.toString else rangeText r.start r.end_

end Gedcom
