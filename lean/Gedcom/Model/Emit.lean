/-
  Target language of the translator for `SimpleNode.GEDCOMLine` (harness/extract_encoder.go): a
  line is written by a sequence of guarded writes of literal bytes and of the node's fields.
  `Generated/EncoderFacts.lean` holds the program translated from the current source;
  Props/C01 proves that running it is the model's `renderLine`.
-/
import Gedcom.Model.Decoder

namespace Gedcom.Emit
open Gedcom Gedcom.Dec

/-- something a write can contain -/
inductive Piece where
  | level            -- `indent` through `%d`
  | ptr              -- `node.Pointer()`
  | tag              -- `node.Tag().Tag()`
  | value            -- `node.Value()`
  | lit (bs : List UInt8)
deriving Repr, DecidableEq, Inhabited

/-- one statement of the function -/
inductive Emit where
  | always (ps : List Piece)
  | ifLevelNonNeg (ps : List Piece)        -- `if indent >= 0 { … }`
  | ifNonEmpty (src : Piece) (ps : List Piece)  -- `if x := node.F(); x != "" { … }`
  | unsupported
deriving Repr, DecidableEq, Inhabited

def Piece.eval (l : Line) : Piece → Str
  | .level => natToDec l.level
  | .ptr => l.ptr
  | .tag => l.tag
  | .value => l.value
  | .lit bs => bs

def evalPieces (l : Line) (ps : List Piece) : Str := ps.flatMap (Piece.eval l)

/-- The document encoder only passes levels ≥ 0 (`startIndent` 0, children at `indent + 1`), so
    the guard `indent >= 0` holds; `NoIndent` (-1) is outside the model. -/
def Emit.eval (l : Line) : Emit → Str
  | .always ps => evalPieces l ps
  | .ifLevelNonNeg ps => evalPieces l ps
  | .ifNonEmpty src ps => if src.eval l = [] then [] else evalPieces l ps
  | .unsupported => []

def runProgram (prog : List Emit) (l : Line) : Str := prog.flatMap (Emit.eval l)

def supported (prog : List Emit) : Bool := prog.all (fun e => e != .unsupported)

end Gedcom.Emit
