/-
  C17 — living people and the components that switch on the living visibility.

  `isLiving` is `IndividualNode.IsLiving` (individual_node.go:218).  A person is split into the
  part the visibility logic is allowed to look at (`Pub`: the living flag and the sex, which only
  selects a colour) and the private strings taken from the record (`Priv`: names, the rendered
  event dates, the page key derived from the name, list-row cells, surname, places).  Each
  component of html/ that switches on the visibility is a function from (person, visibility) to a
  fragment; `Frag` keeps file-derived text (`text`, `href`) apart from markup literals of the code
  (`raw`), which is all the theorems need.

  Anchors: html/individual_name.go, individual_dates.go, individual_link.go, individual_button.go,
  util.go PageIndividual, individual_list_page.go, surname_index.go, place_event.go,
  partners_and_children.go partnerSection, publish.go sendIndividualFiles / Places,
  publish_header.go getSurnames, surname_in_list.go, individual_index_header.go GetIndexLetters.
-/
import Gedcom.Model.Types
import Gedcom.Generated.Living
namespace Gedcom.Living
open Gedcom

/-! ## the living test -/

/-- `IndividualNode.IsLiving`.  `birthMicro` is `Years(EstimatedBirthDate())` in millionths of a
    year (0 = no usable birth/baptism date); `maxAge` is `Document.MaxLivingAge` (0 = only an
    explicit death counts).  `age <= maxAge` with `age = now - birthYear` is `now ≤ maxAge + birthYear`. -/
def isLiving (hasDeath : Bool) (birthMicro nowYear maxAge : Nat) : Bool :=
  !hasDeath && (maxAge == 0 || birthMicro == 0 || nowYear * 1000000 ≤ maxAge * 1000000 + birthMicro)

/-! ## people as the components see them -/

inductive Vis | show | hide | placeholder
deriving DecidableEq, Repr, Inhabited

inductive Sex | male | female | unknown
deriving DecidableEq, Repr, Inhabited

/-- what the visibility logic may depend on -/
structure Pub where
  living : Bool
  sex : Sex
deriving DecidableEq, Repr, Inhabited

/-- strings taken from the person's record -/
structure Priv where
  names : List Str        -- `Names()[i].String()`, primary first
  dates : Str             -- the rendered `EventDates()` ("b. … d. …")
  page : Str              -- `PageIndividual` when shown: the page key derived from the name
  cells : List Str        -- birth/death date and place cells of the list row
  surname : Str           -- `Name().Surname()`
  places : List Str       -- places of the person's events
deriving DecidableEq, Repr, Inhabited

structure Person where
  pub : Pub
  priv : Priv
deriving DecidableEq, Repr, Inhabited

/-- output of a component: markup literals of the code vs text and link targets from the file -/
inductive Frag where
  | nothing
  | raw (s : String)
  | text (s : Str)
  | dot (sex : Sex)
  | link (href : Str) (body : List Frag)
  | button (sex : Sex) (onclick : Option Str) (name dates : Frag)
  | row (cells : List Frag)
deriving Repr, Inhabited

mutual
/-- every file-derived string (text or link target) a fragment writes -/
def Frag.texts : Frag → List Str
  | .nothing => []
  | .raw _ => []
  | .text s => [s]
  | .dot _ => []
  | .link h b => h :: Frag.textsL b
  | .button _ oc n d => oc.toList ++ (n.texts ++ d.texts)
  | .row cs => Frag.textsL cs
def Frag.textsL : List Frag → List Str
  | [] => []
  | f :: fs => f.texts ++ Frag.textsL fs
end

def hidden (p : Person) (v : Vis) : Bool := p.pub.living && v != .show

def hashHref : Str := [35]

/-! ## components -/

/-- `IndividualName.WriteHTMLTo` -/
def individualName (p : Option Person) (v : Vis) : Frag :=
  match p with
  | none => .raw "<em>Unknown</em>"
  | some p =>
    let shown : Frag := match p.priv.names with
      | [] => .raw "<em>Unknown</em>"
      | n :: _ => .text n
    if p.pub.living then
      match v with
      | .show => shown
      | .hide => .nothing
      | .placeholder => .raw "<em>Hidden</em>"
    else shown

/-- `IndividualDates.WriteHTMLTo` -/
def individualDates (p : Option Person) (v : Vis) : Frag :=
  match p with
  | none => .text []
  | some p =>
    if p.pub.living && v == .hide then .nothing
    else if p.pub.living && v == .placeholder then .raw "living"
    else .text p.priv.dates

/-- `PageIndividual` -/
def pageIndividual (p : Option Person) (v : Vis) : Str :=
  match p with
  | none => hashHref
  | some p => if hidden p v then hashHref else p.priv.page

def sexOf (p : Option Person) : Sex :=
  match p with
  | none => .unknown
  | some p => p.pub.sex

/-- `IndividualLink.WriteHTMLTo` -/
def individualLink (p : Option Person) (v : Vis) : Frag :=
  match p with
  | some q =>
    if q.pub.living && v == .hide then .nothing
    else .link (pageIndividual p v) [.dot q.pub.sex, individualName p v]
  | none => .link (pageIndividual p v) [.dot .unknown, individualName p v]

/-- `IndividualButton.WriteHTMLTo` -/
def individualButton (p : Option Person) (v : Vis) : Frag :=
  match p with
  | none => .button .unknown none (individualName none v) (individualDates none v)
  | some q =>
    if q.pub.living && v == .hide then .nothing
    else if q.pub.living && v == .placeholder then
      .button q.pub.sex none (.raw "<em>Hidden</em>") (individualDates p v)
    else .button q.pub.sex (some (pageIndividual p v)) (individualName p v) (individualDates p v)

/-- `IndividualInList`: the row of a person on the list page -/
def listRow (p : Person) (v : Vis) : Frag :=
  .row (individualLink (some p) v :: p.priv.cells.map .text)

/-- the row loop of `IndividualListPage.WriteHTMLTo`: living people are skipped (and counted)
    unless they are shown -/
def listRows (ps : List Person) (v : Vis) : List Frag :=
  (ps.filter (fun p => !hidden p v)).map (fun p => listRow p v)

/-- the "N individuals are hidden because they are living." line: only in placeholder mode -/
def hiddenCount (ps : List Person) (v : Vis) : Option Nat :=
  let n := (ps.filter (fun p => hidden p v)).length
  if n == 0 || v != .placeholder then none else some n

/-- `SurnameIndex.WriteHTMLTo`: the surnames (of the selected letter) of the people that are listed -/
def surnameIndex (ps : List Person) (v : Vis) (selected : Person → Bool) : List Str :=
  (((ps.filter (fun p => !hidden p v)).filter selected).map (fun p => p.priv.surname)).eraseDups

/-- `PlaceEvent.WriteHTMLTo`: one event row of a place page; `date`/`descr` come from the event -/
def placeEvent (p : Option Person) (date : Str) (descr : String) (v : Vis) : Frag :=
  match p with
  | some q =>
    if q.pub.living && v == .hide then .nothing
    else if q.pub.living && v == .placeholder then .row [.text date, .raw descr, .raw "&nbsp;"]
    else .row [.text date, .raw descr, individualLink p v]
  | none => .row [.text date, .raw descr, individualLink p v]

/-- `partnerSection`: the children buttons of a family on a person's page -/
def partnerChildren (cs : List Person) (v : Vis) : List Frag :=
  (cs.filter (fun c => !(c.pub.living && v == .hide))).map (fun c => individualButton (some c) v)

/-- `sendIndividualFiles`: the names of the individual pages that are generated -/
def individualPages (ps : List Person) (v : Vis) : List Str :=
  (ps.filter (fun p => !hidden p v)).map (fun p => p.priv.page)

/-! ## site-level lists, with the regenerated facts about the visibility-blind code -/

structure Flags where
  surnamesRespectVisibility : Bool   -- getSurnames / SurnameInList skip living people unless shown
  placesRespectHide : Bool           -- Publisher.Places skips living people's events in hide mode
  hideLettersFromDead : Bool         -- GetIndexLetters(hide) = letters of the people who are not living
deriving DecidableEq, Repr

def generatedFlags : Flags :=
  ⟨Generated.Living.surnamesRespectVisibility, Generated.Living.placesRespectHide,
   Generated.Living.hideLettersFromDead⟩

def Flags.Safe (fl : Flags) : Prop := fl = ⟨true, true, true⟩
instance (fl : Flags) : Decidable fl.Safe := by unfold Flags.Safe; exact inferInstance

def unrepairedFlags : Flags := ⟨false, false, false⟩

/-- `getSurnames`: rows of surnames.html and the Surnames badge of every header -/
def surnameList (fl : Flags) (ps : List Person) (v : Vis) : List Str :=
  (((ps.filter (fun p => !(fl.surnamesRespectVisibility && hidden p v))).map (fun p => p.priv.surname)).filter
    (fun s => !s.isEmpty)).eraseDups

/-- `SurnameInList`: the "Number of Individuals" of a surname -/
def surnameCount (fl : Flags) (ps : List Person) (v : Vis) (s : Str) : Nat :=
  ((ps.filter (fun p => !(fl.surnamesRespectVisibility && hidden p v))).filter (fun p => p.priv.surname == s)).length

/-- `Publisher.Places`: the places that get a page / a row on places.html / the Places badge -/
def placeList (fl : Flags) (ps : List Person) (v : Vis) : List Str :=
  ((ps.filter (fun p => !(fl.placesRespectHide && p.pub.living && v == .hide))).flatMap (fun p => p.priv.places)).eraseDups

/-- `GetIndexLetters`: which people contribute an index letter (a list page) -/
def lettersFrom (fl : Flags) (ps : List Person) (v : Vis) : List Person :=
  match v with
  | .hide => if fl.hideLettersFromDead then ps.filter (fun p => !p.pub.living) else []
  | _ => ps

/-- everything of a published site that is computed from the people -/
structure Site where
  pages : List Str
  rows : List Frag
  surnameIdx : List Str
  surnames : List Str
  places : List Str
  letterPeople : List Person
deriving Inhabited

def site (fl : Flags) (ps : List Person) (v : Vis) : Site :=
  { pages := individualPages ps v
    rows := listRows ps v
    surnameIdx := surnameIndex ps v (fun _ => true)
    surnames := surnameList fl ps v
    places := placeList fl ps v
    letterPeople := lettersFrom fl ps v }

end Gedcom.Living
