/-
  The arithmetic that the translator reads from the Go source (Model/SimilaritySrc.lean, `AExp`,
  regenerated into Generated/SimilaritySrc.lean on every run) interpreted in **binary64**: every
  node of the expression tree is one rounded float64 operation, in the order the source writes
  them.  Props/C12Float.lean proves that the binary64 model functions (`F64.jwValueF`,
  `F64.simOfDist`) are this interpretation of the regenerated source expressions, so the *order of
  the roundings* in the model is the source's, by regeneration and not only by execution.

  A subtraction is interpreted as the magnitude `|a - b|` (`F64.absdiff`): the two places the
  fragment subtracts are `1.0 - x` with `x ≤ 1` and a difference that is squared afterwards.
-/
import Gedcom.Model.SimilaritySrc
import Gedcom.Model.Float64
namespace Gedcom.SimSrc
open Gedcom.F64

/-- a decimal constant of the source as the compiler converts it: the nearest float64 -/
def litF (n d : Nat) : Dbl := if d = 1 then ofNat n else rnd n d

def AExp.evalF (env : Var → Dbl) : AExp → Dbl
  | .var v => env v
  | .lit n d => litF n d
  | .add a b => F64.add (a.evalF env) (b.evalF env)
  | .sub a b => F64.absdiff (a.evalF env) (b.evalF env)
  | .mul a b => F64.mul (a.evalF env) (b.evalF env)
  | .div a b => F64.div (a.evalF env) (b.evalF env)
  | .pow2 a => F64.mul (a.evalF env) (a.evalF env)
  | .bad => ⟨0, 0⟩

def Cmp.holdsF (c : Cmp) (x y : Dbl) : Bool :=
  match c with
  | .lt => decide (F64.lt x y) | .le => decide (F64.le x y)
  | .gt => decide (F64.lt y x) | .ge => decide (F64.le y x)

def Guard.firesF (env : Var → Dbl) (g : Guard) : Bool := g.c.holdsF (g.l.evalF env) (g.r.evalF env)

def Fn.evalF (env : Var → Dbl) (f : Fn) : Dbl :=
  match f.guards.find? (Guard.firesF env) with
  | some g => g.v.evalF env
  | none => f.final.evalF env

end Gedcom.SimSrc
