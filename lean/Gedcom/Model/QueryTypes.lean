/-
  Go types as far as the query evaluator (package q) can tell them apart by reflection.
  Used by the regenerated reflection tables (Generated/Query.lean) and by Model/Query.lean.
-/
import Gedcom.Model.Types
namespace Gedcom.Q

/-- The Go type of a value that can flow through a query. -/
inductive Ty where
  | str | int | bool
  | float                            -- float64
  | map                              -- map[string]interface{}
  | doc                              -- *gedcom.Document
  | nodeI                            -- gedcom.Node (interface)
  | ptr (kind : String)              -- *gedcom.<kind>, a node type, e.g. "IndividualNode"
  | tag                              -- gedcom.Tag (struct)
  | date                             -- gedcom.Date (struct, passed by value)
  | slice (name : String) (elem : Ty) -- a slice type; `name` is "" for an unnamed `[]elem`
  | opaque (goName : String)         -- any other Go type: known by name only
deriving DecidableEq, Repr, Inhabited

end Gedcom.Q
