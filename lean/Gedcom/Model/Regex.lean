/-
  A small executable semantics of the regular-expression fragment the decoder's line grammar is
  written in (Go `regexp`, Perl syntax, leftmost-first = backtracking priority semantics):
  greedy `*` / `+` over one-character classes, greedy `?`, concatenation, capture groups,
  literals and `$`.  The pattern itself is not written here: `Generated/LineRegex.lean` is
  translated from the literal in decoder.go on every run (harness/extract_lineregex.go), and
  `Lemmas/Regex.lean` proves that the model's deterministic `parseLine` computes exactly what
  this semantics gives for that translated pattern.

  Byte level.  Go's engine works on runes decoded from UTF-8 (an invalid byte is U+FFFD, width 1).
  Here one step consumes one byte.  That is the same language and the same submatches whenever
  every class of the pattern is either ASCII-only or contains every rune ≥ 0x80 (`Re.byteSafe`,
  an obligation on the translated pattern): a multi-byte rune is then consumed by exactly the
  classes that accept each of its bytes, and no class can stop inside one.  (Trusted: this
  argument, and that Go implements the documented leftmost-first semantics; the correspondence
  stream `regex` of C02 runs Go's own engine on the same pattern and lines.)
-/
import Gedcom.Model.Types

namespace Gedcom.Regex

/-- a one-character class: rune ranges as `regexp/syntax` lists them, `.` and `(?s).` -/
inductive Cls where
  | ranges (rs : List (Nat × Nat))
  | anyNotNL
  | any
deriving Repr, DecidableEq, Inhabited

def maxRune : Nat := 0x10FFFF

def inRanges (rs : List (Nat × Nat)) (n : Nat) : Bool := rs.any (fun r => r.1 ≤ n && n ≤ r.2)

/-- does the class contain every rune ≥ 0x80? -/
def coversHigh (rs : List (Nat × Nat)) : Bool := rs.any (fun r => r.1 ≤ 128 && maxRune ≤ r.2)

def Cls.test : Cls → UInt8 → Bool
  | .ranges rs, b => if b.toNat < 128 then inRanges rs b.toNat else coversHigh rs
  | .anyNotNL, b => b != 10
  | .any, _ => true

/-- all-or-nothing above ASCII -/
def Cls.byteSafe : Cls → Bool
  | .ranges rs => coversHigh rs || rs.all (fun r => r.2 < 128)
  | _ => true

inductive Re where
  | lit (bs : List Nat)
  | one (c : Cls)
  | star (c : Cls)
  | plus (c : Cls)
  | quest (a : Re)
  | seq (a b : Re)
  | cap (i : Nat) (a : Re)
  | eol
  | unsupported
deriving Repr, DecidableEq, Inhabited

def Re.byteSafe : Re → Bool
  | .lit bs => bs.all (· < 128)
  | .one c | .star c | .plus c => c.byteSafe
  | .quest a | .cap _ a => a.byteSafe
  | .seq a b => a.byteSafe && b.byteSafe
  | .eol => true
  | .unsupported => false

/-- submatches: group number ↦ matched bytes; an unmatched group is the empty string, as in
    `FindStringSubmatch` -/
abbrev Caps := Nat → Str

def Caps.set (c : Caps) (i : Nat) (v : Str) : Caps := fun j => if j = i then v else c j

/-- greedy repetition of a one-byte test with backtracking: longest run first, then shorter ones;
    `acc` is what the enclosing capture has consumed so far, reversed -/
def starG (t : UInt8 → Bool) : Str → Str → (Str → Str → Option Caps) → Option Caps
  | acc, [], k => k acc []
  | acc, b :: r, k =>
    if t b then
      match starG t (b :: acc) r k with
      | some x => some x
      | none => k acc (b :: r)
    else k acc (b :: r)

/-- a literal, byte by byte -/
def litG : List Nat → Str → Str → Option (Str × Str)
  | [], acc, s => some (acc, s)
  | n :: ns, acc, b :: r => if b.toNat = n then litG ns (b :: acc) r else none
  | _ :: _, _, [] => none

/-- backtracking matcher in continuation-passing style.  `run re acc s caps k`: match `re` at the
    front of `s`, then continue with `k` on what is left; the first success in priority order
    wins. -/
def run : Re → Str → Str → Caps → (Str → Str → Caps → Option Caps) → Option Caps
  | .lit bs, acc, s, c, k =>
    match litG bs acc s with
    | some (acc', s') => k acc' s' c
    | none => none
  | .one cl, acc, s, c, k =>
    match s with
    | b :: r => if cl.test b then k (b :: acc) r c else none
    | [] => none
  | .star cl, acc, s, c, k => starG cl.test acc s (fun a r => k a r c)
  | .plus cl, acc, s, c, k =>
    match s with
    | b :: r => if cl.test b then starG cl.test (b :: acc) r (fun a r => k a r c) else none
    | [] => none
  | .quest a, acc, s, c, k =>
    match run a acc s c k with
    | some x => some x
    | none => k acc s c
  | .seq a b, acc, s, c, k => run a acc s c (fun acc' s' c' => run b acc' s' c' k)
  | .cap i a, acc, s, c, k =>
    run a [] s c (fun acc' s' c' => k (acc' ++ acc) s' (c'.set i acc'.reverse))
  | .eol, acc, s, c, k => if s = [] then k acc s c else none
  | .unsupported, _, _, _, _ => none

/-- `FindStringSubmatch` for a pattern anchored at the start of the text -/
def find (re : Re) (s : Str) : Option Caps :=
  run re [] s (fun _ => []) (fun _ _ c => some c)

end Gedcom.Regex
