/-
  Target language of the go/ast translator harness/extract_warningssrc.go: the *conditions* of the
  warning rules (family_node.go: siblingsBornTooCloseWarnings, appendMarriedOutOfRange,
  childrenBornBeforeParentsWarnings; individual_node.go: tooOldWarnings) as expression trees over
  the durations, ages and predicates the Go code has in scope.  Anything the translator does not
  recognise becomes `.bad` and is rejected by an obligation (Props/C20Src.lean); the theorems there
  prove that interpreting the translated conditions in source order is the hand-written model
  (Gedcom/Model/Warnings.lean) for all inputs.
-/
namespace Gedcom.WarnSrc

/-- numeric terms of the Go conditions -/
inductive Num
  /-- `child1Birth.DateRange().Duration().Duration` / `child2Birth…` -/
  | dur1 | dur2
  /-- `min.Duration`, `max.Duration` (results of `child1Birth.Sub(child2Birth)`) -/
  | min | max
  /-- the local variables `nineMonths`, `twoDays` -/
  | nineMonths | twoDays
  /-- `age.Years()` (appendMarriedOutOfRange) / `max.Years()` (tooOldWarnings) -/
  | ageYears
  /-- the constants `DefaultMinMarriageAge`, `DefaultMaxMarriageAge`, `DefaultMaxLivingAge` -/
  | minMarr | maxMarr | maxLiving
  | bad
deriving DecidableEq, Repr

inductive Cmp | lt | le | gt | ge
deriving DecidableEq, Repr

/-- boolean atoms -/
inductive Flag
  /-- `child1.Individual().Is(child2.Individual())` -/
  | same
  /-- `err != nil` after `min, max, err := child1Birth.Sub(child2Birth)` -/
  | subErr
  /-- `age.IsKnown` -/
  | ageKnown
  /-- `estimatedDeathDate != nil` -/
  | deathKnown
  /-- `childBirth.IsValid()`, `fatherBirth.IsValid()`, `motherBirth.IsValid()` -/
  | childValid | fatherValid | motherValid
  /-- `childBirth.IsBefore(fatherBirth)`, `childBirth.IsBefore(motherBirth)` -/
  | childBeforeFather | childBeforeMother
deriving DecidableEq, Repr

inductive Cond
  | cmp (op : Cmp) (a b : Num)
  | flag (f : Flag)
  | not (c : Cond)
  | and (a b : Cond)
  | or (a b : Cond)
  | bad
deriving DecidableEq, Repr

/-- which parent a ChildBornBeforeParent warning is made for:
    `node.Husband().Individual()` / `node.Wife().Individual()` -/
inductive Parent | husb | wife | bad
deriving DecidableEq, Repr

def Num.ok : Num → Bool
  | .bad => false
  | _ => true

def Cond.ok : Cond → Bool
  | .cmp _ a b => a.ok && b.ok
  | .flag _ => true
  | .not c => c.ok
  | .and a b => a.ok && b.ok
  | .or a b => a.ok && b.ok
  | .bad => false

/-- the constants in scope (nanoseconds / years) -/
structure Consts where
  nineMonthsNs : Int
  twoDaysNs : Int
  /-- `gedcom.Year`: `Age.Years()` is `ns / yearNs` -/
  yearNs : Int
  minMarr : Int
  maxMarr : Int
  maxLiving : Int

/-- the values in scope at the condition -/
structure Env where
  dur1 : Int := 0
  dur2 : Int := 0
  mn : Int := 0
  mx : Int := 0
  /-- `Age.Age` in nanoseconds -/
  ageNs : Int := 0
  same : Bool := false
  subErr : Bool := false
  ageKnown : Bool := false
  deathKnown : Bool := false
  childValid : Bool := false
  fatherValid : Bool := false
  motherValid : Bool := false
  childBeforeFather : Bool := false
  childBeforeMother : Bool := false

/-- a value as numerator and positive denominator (`Years()` is a quotient) -/
def Num.eval (k : Consts) (e : Env) : Num → Int × Int
  | .dur1 => (e.dur1, 1)
  | .dur2 => (e.dur2, 1)
  | .min => (e.mn, 1)
  | .max => (e.mx, 1)
  | .nineMonths => (k.nineMonthsNs, 1)
  | .twoDays => (k.twoDaysNs, 1)
  | .ageYears => (e.ageNs, k.yearNs)
  | .minMarr => (k.minMarr, 1)
  | .maxMarr => (k.maxMarr, 1)
  | .maxLiving => (k.maxLiving, 1)
  | .bad => (0, 1)

/-- comparison of two quotients with positive denominators, by cross-multiplication -/
def Cmp.eval (op : Cmp) (a b : Int × Int) : Bool :=
  match op with
  | .lt => decide (a.1 * b.2 < b.1 * a.2)
  | .le => decide (a.1 * b.2 ≤ b.1 * a.2)
  | .gt => decide (a.1 * b.2 > b.1 * a.2)
  | .ge => decide (a.1 * b.2 ≥ b.1 * a.2)

def Flag.eval (e : Env) : Flag → Bool
  | .same => e.same
  | .subErr => e.subErr
  | .ageKnown => e.ageKnown
  | .deathKnown => e.deathKnown
  | .childValid => e.childValid
  | .fatherValid => e.fatherValid
  | .motherValid => e.motherValid
  | .childBeforeFather => e.childBeforeFather
  | .childBeforeMother => e.childBeforeMother

def Cond.eval (k : Consts) (e : Env) : Cond → Bool
  | .cmp op a b => op.eval (a.eval k e) (b.eval k e)
  | .flag f => f.eval e
  | .not c => !c.eval k e
  | .and a b => a.eval k e && b.eval k e
  | .or a b => a.eval k e || b.eval k e
  | .bad => false

/-- a chain of `if c { continue }` statements: the iteration goes on iff none of them fires -/
def passes (k : Consts) (e : Env) (skips : List Cond) : Bool := skips.all fun c => !c.eval k e

end Gedcom.WarnSrc
