/-
  `MergeDocumentsAndIndividuals` (merge.go:255) as the composition of
    * `IndividualNodes.Compare` — its results (`Match.Res`, node ids) are what C11's model
      `Match.winners` produces; here they are consumed in their order of arrival,
    * `IndividualNodes.Merge` (individual_nodes.go:558): a pair becomes `MergeNodes(left, right)`
      (C09's `mergeNodes` on whole subtrees, with its error / panic outcomes), an unmatched
      individual is passed through *by reference*,
    * `MergeNodeSlices(nonIndividuals(left), nonIndividuals(right), …, EqualityMergeFunction)`
      (C09's `mergeNodeSlicesO` with `eqMergeF`),
    * `NewDocumentWithNodes(individuals ++ others)`.
  Trees carry identities (`INode`, Gedcom/Model/Ident.lean); `st` is C09's allocation state.
-/
import Gedcom.Model.Merge
import Gedcom.Model.Match
namespace Gedcom.MergeD
open Gedcom Gedcom.Match

/-- the Go type is `*IndividualNode`: decided by the tag -/
def isIndi (n : INode) : Bool := n.tag == lit "INDI"

def indisOf (d : List INode) : List INode := d.filter isIndi
def othersOf (d : List INode) : List INode := d.filter fun n => !isIndi n

/-- the node a comparison refers to -/
def byId (l : List INode) (x : Nat) : Option INode := l.find? fun n => n.id == x

inductive IndisOutcome
  /-- the merged individuals, each with the comparison it comes from -/
  | ok (out : List (Res × INode)) (st : MSt)
  | error
  | panic
  | outOfFuel
deriving Inhabited

def IndisOutcome.cons (c : Res) (m : INode) : IndisOutcome → IndisOutcome
  | .ok out st => .ok ((c, m) :: out) st
  | o => o

/-- the loop of `IndividualNodes.Merge` over the comparisons.  A comparison that names no node
    of the lists (impossible for `Compare`: C11 `no_empty_result`) is skipped, like the `switch`
    without a matching case. -/
def mergeIndis (L R : List INode) : List Res → MSt → IndisOutcome
  | [], st => .ok [] st
  | (some a, some b) :: rest, st =>
    match byId L a, byId R b with
    | some l, some r =>
      match mergeNodes codeFlags l r st with
      | .ok m st' => (mergeIndis L R rest st').cons (some a, some b) m
      | .error => .error
      | .panic => .panic
      | .outOfFuel => .outOfFuel
    | _, _ => mergeIndis L R rest st
  | (some a, none) :: rest, st =>
    match byId L a with
    | some l => (mergeIndis L R rest st).cons (some a, none) l
    | none => mergeIndis L R rest st
  | (none, some b) :: rest, st =>
    match byId R b with
    | some r => (mergeIndis L R rest st).cons (none, some b) r
    | none => mergeIndis L R rest st
  | (none, none) :: rest, st => mergeIndis L R rest st

inductive DocOutcome
  | ok (indis : List (Res × INode)) (others : List INode) (st : MSt)
  | error
  | panic
  | outOfFuel
deriving Inhabited

/-- `MergeDocumentsAndIndividuals(left, right, EqualityMergeFunction, options)` given the
    comparisons `res` -/
def mergeDocs (res : List Res) (Ld Rd : List INode) (st : MSt) : DocOutcome :=
  match mergeIndis (indisOf Ld) (indisOf Rd) res st with
  | .error => .error
  | .panic => .panic
  | .outOfFuel => .outOfFuel
  | .ok out st' =>
    let lo := othersOf Ld
    let ro := othersOf Rd
    match mergeNodeSlicesO codeFlags (eqMergeF codeFlags (mergeFuel lo ro)) lo ro st' with
    | .panic => .panic
    | .outOfFuel => .outOfFuel
    | .ok es st'' => .ok out (es.map (·.node)) st''

/-- the nodes of the merged document, in order -/
def DocOutcome.nodes : DocOutcome → Option (List Node)
  | .ok indis others _ => some (eraseList (indis.map (·.2)) ++ eraseList others)
  | _ => none

/-- the whole pipeline, end to end: C11's model of `Compare` (`Match.winners` on the jobs in their
    order of arrival) feeding `IndividualNodes.Merge` and the merge of the other records.  This is
    what the driver runs for the `mergecomposed` requests and what `accounting_end_to_end` is about. -/
def mergeComposed (Lp Rp : List Person) (minW : Rat) (arrival : List Job) (Ld Rd : List INode)
    (st : MSt) : DocOutcome :=
  mergeDocs (winners Lp Rp minW arrival) Ld Rd st

/-- the conclusion of `accounting_end_to_end`, as the driver evaluates it on every case: one
    output individual per comparison and every individual of either input in exactly one -/
def accountedB (L R : List INode) (out : List (Res × INode)) : Bool :=
  let rs := out.map (·.1)
  (L.map INode.id).all (fun x => rs.countP (fun r => r.1 == some x) == 1) &&
  (R.map INode.id).all (fun y => rs.countP (fun r => r.2 == some y) == 1)

end Gedcom.MergeD
