/-
  Node trees with identity (C07 copy, C09 merge).

  Go nodes are heap objects; "shares no node", "inputs are never modified" and "changes to the
  result never show through" are statements about object identity.  `INode` is a node tree in
  which every node carries the id of its Go object; allocation (`newNode`, i.e. every
  `shallowCopyNode`) takes the next unused id from a counter.  A mutation (`AddNode`, `DeleteNode`,
  `SetNodes` on the object with id `i`) acts on *every* occurrence of id `i` in *every* tree of
  the world (`applyMut`): a node shared between two trees changes in both, which is exactly what
  aliasing means on the Go heap.  Functions that write to existing objects also report the ids
  they wrote to (`writes`), so "inputs are never modified" is a statement about that log.

  * `INode.erase`   — the value of the tree (what `GEDCOMString`, `Equals`, `DeepEqual` can see).
  * `render`        — `GEDCOMString(indent)` (encoder.go renderNode / simple_node.go GEDCOMLine).
  * `copyTree`      — the tree walk of `DeepCopy` (copy.go:29 → filter.go:55): preorder, one
                      fresh node per source node, children attached by `AddNode` on the fresh node.
  * `deepCopy`      — `DeepCopy` with its failure branch (HUSB / WIFE / CHIL reached before any
                      FAM node was visited: `needsFamily` panics, decoder.go:384) and the families
                      the walk adds to the destination document (`document.AddFamily`, once per
                      source family, filter.go:61).
-/
import Gedcom.Model.Equal
namespace Gedcom

inductive INode where
  | mk (id : Nat) (tag value ptr : Str) (kids : List INode)
deriving Repr, Inhabited

namespace INode
def id : INode → Nat | mk i _ _ _ _ => i
def tag : INode → Str | mk _ t _ _ _ => t
def value : INode → Str | mk _ _ v _ _ => v
def ptr : INode → Str | mk _ _ _ p _ => p
def kids : INode → List INode | mk _ _ _ _ k => k
end INode

mutual
/-- forget identity -/
def INode.erase : INode → Node
  | .mk _ t v p ks => .mk t v p (eraseList ks)
def eraseList : List INode → List Node
  | [] => []
  | k :: ks => k.erase :: eraseList ks
end

mutual
/-- ids of all nodes, preorder -/
def INode.ids : INode → List Nat
  | .mk i _ _ _ ks => i :: idsList ks
def idsList : List INode → List Nat
  | [] => []
  | k :: ks => k.ids ++ idsList ks
end

mutual
/-- label a value tree with consecutive ids in preorder, starting at `next` (how the harness
    numbers the Go objects of an input tree) -/
def labelNode (next : Nat) : Node → INode × Nat
  | .mk t v p ks => let r := labelList (next + 1) ks; (.mk next t v p r.1, r.2)
def labelList (next : Nat) : List Node → List INode × Nat
  | [] => ([], next)
  | k :: ks =>
    let a := labelNode next k
    let b := labelList a.2 ks
    (a.1 :: b.1, b.2)
end

/-! ### GEDCOMString -/

/-- `GEDCOMLine(indent)` + "\n"; `indent = none` is `NoIndent` -/
def renderLine (indent : Option Nat) (t v p : Str) : Str :=
  (match indent with | some d => natToDec d ++ [32] | none => []) ++
  (if p.isEmpty then [] else [64] ++ p ++ [64, 32]) ++ t ++
  (if v.isEmpty then [] else 32 :: v) ++ [10]

mutual
def render (indent : Option Nat) : Node → Str
  | .mk t v p ks => renderLine indent t v p ++ renderList (indent.map (· + 1)) ks
def renderList (indent : Option Nat) : List Node → Str
  | [] => []
  | k :: ks => render indent k ++ renderList indent ks
end

/-! ### DeepCopy -/

mutual
/-- the walk of `Filter` with the copying function of `DeepCopy`: returns the copy, the next
    unused id and the ids `AddNode` was called on (always nodes created by this walk) -/
def copyTree (next : Nat) : INode → INode × Nat × List Nat
  | .mk _ t v p ks =>
    let r := copyKids (next + 1) next ks
    (.mk next t v p r.1, r.2.1, r.2.2)
/-- children of the node whose copy has id `parent` -/
def copyKids (next parent : Nat) : List INode → List INode × Nat × List Nat
  | [] => ([], next, [])
  | k :: ks =>
    let a := copyTree next k
    let b := copyKids a.2.1 parent ks
    (a.1 :: b.1, b.2.1, a.2.2 ++ parent :: b.2.2)
end

def tagFAM : Str := lit "FAM"
def needsFamily (t : Str) : Bool := t == lit "HUSB" || t == lit "WIFE" || t == lit "CHIL"

mutual
/-- family bookkeeping of the walk.  `fam` = id of the last FAM node visited (the closure variable
    `family` of DeepCopy), `seen` = source families already given a counterpart in the destination
    document (`entityMap`).  Result: `none` = panic "cannot create … without a family"; otherwise
    the new state and the pointers passed to `document.AddFamily`, in order. -/
def famWalk (fam : Option (Nat × Str)) (seen : List Nat) :
    INode → Option (Option (Nat × Str) × List Nat × List Str)
  | .mk i t _ p ks =>
    if t == tagFAM then famWalkList (some (i, p)) seen ks
    else if needsFamily t then
      match fam with
      | none => none
      | some (f, fp) =>
        if seen.contains f then famWalkList fam seen ks
        else (famWalkList fam (f :: seen) ks).map fun r => (r.1, r.2.1, fp :: r.2.2)
    else famWalkList fam seen ks
def famWalkList (fam : Option (Nat × Str)) (seen : List Nat) :
    List INode → Option (Option (Nat × Str) × List Nat × List Str)
  | [] => some (fam, seen, [])
  | k :: ks =>
    match famWalk fam seen k with
    | none => none
    | some (fam', seen', adds) =>
      (famWalkList fam' seen' ks).map fun r => (r.1, r.2.1, adds ++ r.2.2)
end

inductive CopyOutcome
  | ok (copy : INode) (next : Nat) (writes : List Nat) (famAdds : List Str)
  | panic
deriving Repr

/-- `DeepCopy(node, document)`, document not nil -/
def deepCopy (next : Nat) (n : INode) : CopyOutcome :=
  match famWalk none [] n with
  | none => .panic
  | some (_, _, adds) => let r := copyTree next n; .ok r.1 r.2.1 r.2.2 adds

/-! ### mutation of an object -/

inductive Mut
  /-- `AddNode(n)` on object `id` -/
  | add (id : Nat) (n : INode)
  /-- `DeleteNode(child)` on object `id`, child = its `j`-th child -/
  | del (id : Nat) (j : Nat)
  /-- `SetNodes(nil)` on object `id` -/
  | clear (id : Nat)
deriving Repr

def Mut.target : Mut → Nat
  | .add i _ => i | .del i _ => i | .clear i => i

def Mut.onKids : Mut → List INode → List INode
  | .add _ n, ks => ks ++ [n]
  | .del _ j, ks => ks.eraseIdx j
  | .clear _, _ => []

mutual
/-- effect of a mutation on a tree: every occurrence of the target object changes -/
def applyMut (m : Mut) : INode → INode
  | .mk i t v p ks =>
    let ks' := applyMutList m ks
    .mk i t v p (if i == m.target then m.onKids ks' else ks')
def applyMutList (m : Mut) : List INode → List INode
  | [] => []
  | k :: ks => applyMut m k :: applyMutList m ks
end

end Gedcom
