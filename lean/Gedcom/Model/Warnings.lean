/-
  `Document.Warnings()` (document.go) and the three `Warner`s it visits:
  `FamilyNode.Warnings` (family_node.go), `IndividualNode.Warnings` (individual_node.go),
  `DateNode.Warnings` (date_node.go), with the age arithmetic of `IndividualNode.ageAt / Age /
  AgeAt` (individual_node.go), `Date.Sub`, `NewDuration` (duration.go) and `Age.Years` (age.go).

  Documents are family graphs: a list of INDI and FAM records.  An INDI has SEX lines and event
  nodes (BIRT, BAPM, BAPL, DEAT, BURI, anything else) with their DATE children in file order; a FAM
  has its first HUSB and first WIFE pointer, its CHIL pointers in file order and event nodes
  (MARR, anything else).  A DATE is what `NewDateRangeWithString` makes of its value (C04's
  `parseDateRange`, applied by the driver): one exact calendar day (`ok`), nothing at all (`bad`,
  two zero dates with a parse error) or anything else (`gen`: approximate / before / after, month
  or year precision, ranges, half-parsed ranges); the label only identifies the DATE node.

  Modelled as coded: the pre-order walk (a record's own warnings, then those of its DATE
  descendants), `Birth()` = first DATE of the first dated BIRT, `EstimatedBirthDate/DeathDate` =
  `DateNodes.Minimum()` over *all* dates (an unparsable one has `Years() = 0` and wins),
  `time.Time.Sub` with its saturation, `NewDuration`'s negation (saturating at the maximum),
  the sibling loop with its pair set, `AgeAt` on the range of the valid dates of a MARR node.
  Modelled, not verified: float64 (`Years()` is an exact fraction, `Age.Years()` an exact
  quotient; for whole-day differences the Go float comparison against 16 / 100 is exact),
  `time.Now()` (explicit input).  Constants come from `Generated.Warnings`.
-/
import Gedcom.Model.Compare
import Gedcom.Model.DateParse
import Gedcom.Generated.Warnings
namespace Gedcom.Warn
open Gedcom

/-- a DATE value after `NewDateRangeWithString` (C04's `parseDateRange`):
    * `ok d`      — one exact calendar day: both ends are `d`, constraint exact, no parse error;
    * `bad l`     — nothing parsed: both ends are zero dates carrying a parse error;
    * `gen l s e` — everything else: About/Before/After, month or year precision, ranges,
                    half-parsed ranges, years 0 or above 9999 (`s`, `e` the parsed ends).
    The label only identifies the DATE node (its position in the document). -/
inductive DateV
  | ok (d : Date)
  | bad (label : Nat)
  | gen (label : Nat) (s e : PDate)
deriving DecidableEq, Repr, Inhabited

inductive EvKind | birt | bapm | bapl | deat | buri | marr | other
deriving DecidableEq, Repr, Inhabited

/-- an event node and its direct DATE children -/
structure Ev where
  kind : EvKind
  dates : List DateV
deriving DecidableEq, Repr, Inhabited

/-- value of a SEX line: `M`, `F`, anything else -/
inductive Sex | m | f | x
deriving DecidableEq, Repr, Inhabited

structure Indi where
  ptr : Nat
  sexes : List Sex
  events : List Ev
deriving DecidableEq, Repr, Inhabited

structure Fam where
  ptr : Nat
  husb : Option Nat
  wife : Option Nat
  chil : List Nat
  events : List Ev
deriving DecidableEq, Repr, Inhabited

inductive Rec
  | indi (i : Indi)
  | fam (f : Fam)
deriving DecidableEq, Repr, Inhabited

abbrev Doc := List Rec

inductive Warning
  | childBornBeforeParent (fam parent child : Nat)
  | siblingsBornTooClose (fam s1 s2 : Nat)
  /-- `k` = position of the MARR node among the family's events -/
  | marriedOutOfRange (fam spouse : Nat) (old : Bool) (k : Nat)
  | individualTooOld (indi : Nat)
  /-- "the `k2` (`d2`) was before the `k1` (`d1`)" -/
  | incorrectEventOrder (indi : Nat) (k2 : EvKind) (d2 : DateV) (k1 : EvKind) (d1 : DateV)
  | unparsableDate (inFam : Bool) (ptr : Nat) (label : Nat)
  | multipleSexes (indi : Nat) (n : Nat)
  | inverseSpouses (fam husb wife : Nat)
deriving DecidableEq, Repr, Inhabited

/-! ### from DATE values to `DateV` (used by the driver on every DATE string) -/

/-- what `NewDateRangeWithString` made of the value, sorted into the model's three shapes -/
def classifyDate (r : DateRange) : DateV :=
  let s := r.start
  let e := r.end_
  if s == e && !s.parseError && s.constraint == .exact && s.day != 0 && s.month != 0 &&
      decide (1 ≤ s.year) && decide (s.year ≤ 9999) then .ok ⟨s.day, s.month, s.year⟩
  else if s.parseError && e.parseError && s.isZero && e.isZero then .bad 0
  else .gen 0 s e

def relabelDate (n : Nat) : DateV → DateV
  | .ok d => .ok d
  | .bad _ => .bad n
  | .gen _ s e => .gen n s e

/-- the DATE node at position `l` of the document with value `v` -/
def dateOf (l : Nat) (v : Str) : DateV := relabelDate l (classifyDate (parseDateRange v))

/-! ### views -/

def indis (d : Doc) : List Indi := d.filterMap fun | .indi i => some i | .fam _ => none
def fams (d : Doc) : List Fam := d.filterMap fun | .fam f => some f | .indi _ => none

/-- `Document.NodeByPointer` for an individual -/
def indiOf (d : Doc) (p : Nat) : Option Indi := (indis d).find? (fun i => i.ptr == p)

def eventsOf (k : EvKind) (evs : List Ev) : List Ev := evs.filter (fun e => e.kind == k)

/-- `Dates(nodes...)`: all DATE children of the given event nodes, valid or not -/
def datesOf (evs : List Ev) : List DateV := evs.flatMap (·.dates)

/-- `DateRange.IsValid`: neither end is the zero date -/
def DateV.valid : DateV → Bool
  | .ok _ => true
  | .bad _ => false
  | .gen _ s e => !s.isZero && !e.isZero

def DateV.label : DateV → Nat
  | .ok _ => 0
  | .bad l => l
  | .gen l _ _ => l

/-- `(*DateNode).IsValid`, nil-safe -/
def validO : Option DateV → Bool
  | some x => x.valid
  | none => false

/-- `StartDate().Years()` as numerator and positive denominator; zero for an absent or
    unparsable date (`Date.Years()` is never negative) -/
def startFrac : Option DateV → Int × Int
  | some (.ok d) => ((d.year : Int) * d.yearsDen + d.yearsNum, d.yearsDen)
  | some (.gen _ s _) => s.yearsFrac
  | _ => (0, 1)

/-- `EndDate().Years()` -/
def endFrac : Option DateV → Int × Int
  | some (.ok d) => ((d.year : Int) * d.yearsDen + d.yearsNum, d.yearsDen)
  | some (.gen _ _ e) => e.yearsFrac
  | _ => (0, 1)

def fracLt (a b : Int × Int) : Bool := decide (a.1 * b.2 < b.1 * a.2)

/-- `a.StartDate().Years() < b.StartDate().Years()` (`DateRange.IsBefore`, `Minimum()`): nothing
    is before an absent or unparsable date (`Years() = 0`), which is before every exact day -/
def yearsLtV : Option DateV → Option DateV → Bool
  | _, none => false
  | _, some (.bad _) => false
  | some (.ok x), some (.ok y) => x.isBefore y
  | none, some (.ok _) => true
  | some (.bad _), some (.ok _) => true
  | a, b => fracLt (startFrac a) (startFrac b)

/-- `a.EndDate().Years() < b.EndDate().Years()` (`DateRange.IsAfter`, `Maximum()`) -/
def yearsLtE : Option DateV → Option DateV → Bool
  | _, none => false
  | _, some (.bad _) => false
  | some (.ok x), some (.ok y) => x.isBefore y
  | none, some (.ok _) => true
  | some (.bad _), some (.ok _) => true
  | a, b => fracLt (endFrac a) (endFrac b)

/-- `DateNodes.Minimum()` -/
def minimumV : List DateV → Option DateV
  | [] => none
  | x :: rest => some (rest.foldl (fun m y => if yearsLtV (some y) (some m) then y else m) x)

/-- `DateNodes.Maximum()` -/
def maximumV : List DateV → Option DateV
  | [] => none
  | x :: rest => some (rest.foldl (fun m y => if yearsLtE (some m) (some y) then y else m) x)

/-- `IndividualNode.Birth()`: `DateAndPlace` over the birth nodes -/
def birthOf (i : Option Indi) : Option DateV :=
  match i with
  | none => none
  | some i => (eventsOf .birt i.events).findSome? (fun e => e.dates.head?)

/-- `EstimatedBirthDate` -/
def estBirth (i : Indi) : Option DateV :=
  let births := datesOf (eventsOf .birt i.events)
  if births.isEmpty then
    minimumV (datesOf (eventsOf .bapm i.events ++ eventsOf .bapl i.events))
  else minimumV births

/-- `EstimatedDeathDate` -/
def estDeath (i : Indi) : Option DateV :=
  let deaths := datesOf (eventsOf .deat i.events)
  if deaths.isEmpty then minimumV (datesOf (eventsOf .buri i.events)) else minimumV deaths

/-! ### instants and durations (nanoseconds) -/

/-- `time.Time{}`: 00:00 on 1 Jan 0001 -/
def zeroTime : Int := nsPerDay

/-- `Date.Time()` is not the zero time: the year is 1..9999 (`time.Parse` of `%04d`) -/
def timeOK (d : PDate) : Bool := decide (1 ≤ d.year) && decide (d.year ≤ 9999)

/-- `StartDate().Time()`; an absent or unparsable date gives the zero time -/
def startI : Option DateV → Int
  | some (.ok d) => d.startInstant
  | some (.gen _ s _) => if timeOK s then s.toDate.startInstant else zeroTime
  | _ => zeroTime

/-- `EndDate().Time()` -/
def endI : Option DateV → Int
  | some (.ok d) => d.endInstant
  | some (.gen _ _ e) => if timeOK e then e.toDate.endInstant else zeroTime
  | _ => zeroTime

def maxDur : Int := 9223372036854775807
def minDur : Int := -9223372036854775808

/-- `time.Time.Sub`: saturates -/
def timeSub (a b : Int) : Int :=
  if a - b > maxDur then maxDur else if a - b < minDur then minDur else a - b

/-- `NewDuration`: `if duration < 0 { duration = -duration; if duration < 0 { duration = MaxInt64 } }`
    on an int64: the absolute value, saturating at the maximum (the minimum has no positive
    counterpart; fixes/C20-duration-saturates.patch) -/
def durAbs (x : Int) : Int := if x < 0 then (if x = minDur then maxDur else -x) else x

/-- the rule before the repair: `duration = -duration` alone leaves the minimum negative -/
def durAbsOld (x : Int) : Int := if x < 0 then (if x = minDur then minDur else -x) else x

/-- `Date.Sub(...).Duration` -/
def dateSub (a b : Int) : Int := durAbs (timeSub a b)

/-! ### family checks -/

/-- `IndividualNodePairs.Has` (pairs are only ever stored for resolved individuals) -/
def pairsHas (pairs : List (Nat × Nat)) (a b : Nat) : Bool :=
  pairs.any fun p => (p.1 == a && p.2 == b) || (p.1 == b && p.2 == a)

/-- `Warnings.oncePerPair` (warnings.go) with its two pair sets: the first ChildBornBeforeParent
    warning of each (parent, child) and the first SiblingsBornTooClose warning of each unordered
    pair of siblings are kept; everything else, and the order, is left alone.  People are compared
    with `IndividualNode.Is`, i.e. by pointer. -/
def oncePerPairGo : List Warning → List (Nat × Nat) → List (Nat × Nat) → List Warning
  | [], _, _ => []
  | .childBornBeforeParent f p c :: ws, pc, sb =>
    if pc.contains (p, c) then oncePerPairGo ws pc sb
    else .childBornBeforeParent f p c :: oncePerPairGo ws (pc ++ [(p, c)]) sb
  | .siblingsBornTooClose f a b :: ws, pc, sb =>
    if pairsHas sb a b then oncePerPairGo ws pc sb
    else .siblingsBornTooClose f a b :: oncePerPairGo ws pc (sb ++ [(a, b)])
  | w :: ws, pc, sb => w :: oncePerPairGo ws pc sb

def oncePerPair (ws : List Warning) : List Warning := oncePerPairGo ws [] []

/-- the loop of `childrenBornBeforeParentsWarnings`, before its `oncePerPair` -/
def childrenBornBeforeParentsRaw (d : Doc) (f : Fam) : List Warning :=
  let fb := birthOf (f.husb.bind (indiOf d))
  let mb := birthOf (f.wife.bind (indiOf d))
  f.chil.flatMap fun c =>
    let cb := birthOf (indiOf d c)
    if !validO cb then [] else
      (if validO fb && yearsLtV cb fb then [Warning.childBornBeforeParent f.ptr (f.husb.getD 0) c] else []) ++
      (if validO mb && yearsLtV cb mb then [Warning.childBornBeforeParent f.ptr (f.wife.getD 0) c] else [])

/-- `childrenBornBeforeParentsWarnings`: a child that is listed twice is still one child -/
def childrenBornBeforeParents (d : Doc) (f : Fam) : List Warning :=
  oncePerPair (childrenBornBeforeParentsRaw d f)

def nineMonths : Int := Generated.siblingMaxDays * nsPerDay
def twoDays : Int := Generated.siblingMinDays * nsPerDay

/-- `IndividualNode.Is` on the resolved children: both exist and have the same pointer -/
def sameIndi (a b : Option Indi) : Bool :=
  match a, b with
  | some x, some y => x.ptr == y.ptr
  | _, _ => false

/-- `DateNode.Sub` returns an error when either date carries a parse error (an absent date
    does not) -/
def subErr (b1 b2 : Option DateV) : Bool :=
  (match b1 with | some (.bad _) => true | some (.gen _ s e) => s.parseError || e.parseError | _ => false) ||
  (match b2 with | some (.bad _) => true | some (.gen _ s e) => s.parseError || e.parseError | _ => false)

/-- the body of the inner loop up to the pair set: is `(c1, c2)` reported?  Each conjunct is the
    negation of one `continue` of the code, in the code's order. -/
def siblingHit (d : Doc) (c1 c2 : Nat) : Bool :=
  let b1 := birthOf (indiOf d c1)
  let b2 := birthOf (indiOf d c2)
  let mn := dateSub (startI b1) (startI b2)
  let mx := dateSub (endI b1) (endI b2)
  !decide (dateSub (endI b1) (startI b1) ≥ nineMonths) &&   -- child1's own range too wide
  !sameIndi (indiOf d c1) (indiOf d c2) &&                   -- the same individual
  !subErr b1 b2 &&                                           -- Sub returned an error
  !decide (dateSub (endI b2) (startI b2) ≥ nineMonths) &&   -- child2's own range too wide
  !decide (mn < twoDays) &&                                  -- twins
  (decide (mn < nineMonths) || decide (mx < nineMonths))

/-- state of the sibling loops: the pair set and the warnings so far (both in order) -/
abbrev SibState := List (Nat × Nat) × List Warning

def siblingStep (d : Doc) (fam : Nat) (c1 : Nat) (st : SibState) (c2 : Nat) : SibState :=
  if siblingHit d c1 c2 && !pairsHas st.1 c1 c2 then
    (st.1 ++ [(c1, c2)], st.2 ++ [Warning.siblingsBornTooClose fam c1 c2])
  else st

def siblingsLoop (d : Doc) (f : Fam) : SibState :=
  f.chil.foldl (fun st c1 => f.chil.foldl (siblingStep d f.ptr c1) st) ([], [])

def siblingsBornTooClose (d : Doc) (f : Fam) : List Warning := (siblingsLoop d f).2

inductive AgeC | unknown | living | beforeBirth | afterDeath
deriving DecidableEq, Repr, Inhabited

/-- the pair of `Age`s returned by `ageAt` (both share `IsKnown` and the constraint) -/
structure Ages where
  known : Bool
  lo : Int
  hi : Int
  c : AgeC
deriving Repr, Inhabited

def unknownAges : Ages := ⟨false, 0, 0, .unknown⟩

/-- `IndividualNode.ageAt(at)` for `at = [atS.StartDate(), atE.EndDate()]` -/
def ageAt (i : Indi) (atS atE : DateV) : Ages :=
  let eb := estBirth i
  if !validO eb then unknownAges else
  let ed := estDeath i
  let s := dateSub (startI (some atS)) (startI eb)
  let e := dateSub (endI (some atE)) (endI eb)
  let c := if yearsLtV (some atS) eb then AgeC.beforeBirth
           else if yearsLtE ed (some atE) && ed.isSome then AgeC.afterDeath
           else AgeC.living
  if s > e then ⟨true, e, s, c⟩ else ⟨true, s, e, c⟩

/-- `IndividualNode.AgeAt(event)`: the valid dates of the event span the range -/
def ageAtEvent (i : Indi) (e : Ev) : Ages :=
  let ds := e.dates.filter DateV.valid
  match minimumV ds, maximumV ds with
  | some a, some b => ageAt i a b
  | _, _ => unknownAges

/-- `appendMarriedOutOfRange`: `Age.Years()` is `ns / Year` -/
def marriedCheck (fam k : Nat) (a : Ages) (spouse : Nat) : List Warning :=
  (if a.known && decide (a.hi < Generated.minMarriageAge * Generated.yearNs)
   then [Warning.marriedOutOfRange fam spouse false k] else []) ++
  (if a.hi > Generated.maxMarriageAge * Generated.yearNs
   then [Warning.marriedOutOfRange fam spouse true k] else [])

def marriedAt (d : Doc) (f : Fam) (k : Nat) (e : Ev) : List Warning :=
  if e.kind != .marr then [] else
  (match f.husb.bind (indiOf d) with
   | some h => marriedCheck f.ptr k (ageAtEvent h e) h.ptr
   | none => []) ++
  (match f.wife.bind (indiOf d) with
   | some w => marriedCheck f.ptr k (ageAtEvent w e) w.ptr
   | none => [])

def marriedFrom (d : Doc) (f : Fam) : Nat → List Ev → List Warning
  | _, [] => []
  | k, e :: rest => marriedAt d f k e ++ marriedFrom d f (k + 1) rest

def marriedOutOfRange (d : Doc) (f : Fam) : List Warning := marriedFrom d f 0 f.events

def firstSex (i : Option Indi) : Option Sex := i.bind (·.sexes.head?)

def inverseSpouses (d : Doc) (f : Fam) : List Warning :=
  let h := f.husb.bind (indiOf d)
  let w := f.wife.bind (indiOf d)
  if firstSex h == some .f && firstSex w == some .m then
    [Warning.inverseSpouses f.ptr (f.husb.getD 0) (f.wife.getD 0)]
  else []

/-- `DateNode.Warnings` for every DATE below the record, in file order -/
def unparsable (inFam : Bool) (ptr : Nat) (evs : List Ev) : List Warning :=
  (datesOf evs).flatMap fun x =>
    if x.valid then [] else [Warning.unparsableDate inFam ptr x.label]

def famOwn (d : Doc) (f : Fam) : List Warning :=
  childrenBornBeforeParents d f ++ siblingsBornTooClose d f ++ marriedOutOfRange d f ++
    inverseSpouses d f

/-! ### individual checks -/

/-- the four event-order groups and their tags, in the code's order -/
def orderGroups : List (List EvKind) := [[.birt], [.bapm, .bapl], [.deat], [.buri]]

/-- `(event, date)` pairs of one group: tag by tag, node by node, date by date -/
def groupEvents (i : Indi) (tags : List EvKind) : List (EvKind × DateV) :=
  tags.flatMap fun t => (eventsOf t i.events).flatMap fun e => e.dates.map fun dt => (t, dt)

/-- `Time().Truncate(24h)` of the two ends, as day numbers -/
def dayS (x : DateV) : Int := startI (some x) / nsPerDay
def dayE (x : DateV) : Int := endI (some x) / nsPerDay

def orderPair (ptr : Nat) (ev fut : EvKind × DateV) : List Warning :=
  match ev.2, fut.2 with
  | .ok d1, .ok d2 =>
    if compareDates d2 d2 d1 d1 = .entirelyBefore then
      [Warning.incorrectEventOrder ptr fut.1 (.ok d2) ev.1 (.ok d1)]
    else []
  | a, b =>
    if a.valid && b.valid &&
        decide (compare (dayS b) (dayE b) (dayS a) (dayE a) = .entirelyBefore) then
      [Warning.incorrectEventOrder ptr fut.1 b ev.1 a]
    else []

def orderFrom (ptr : Nat) : List (List (EvKind × DateV)) → List Warning
  | [] => []
  | g :: later =>
    (g.flatMap fun ev => later.flatMap fun fg => fg.flatMap fun fut => orderPair ptr ev fut) ++
      orderFrom ptr later

def incorrectEventOrder (i : Indi) : List Warning :=
  orderFrom i.ptr (orderGroups.map (groupEvents i))

/-- `Years()` as numerator and (positive) denominator; zero for absent / unparsable -/
def yearsFrac : Option DateV → Int × Int
  | some (.ok d) => ((d.year : Int) * d.yearsDen + d.yearsNum, d.yearsDen)
  | some (.gen _ s e) =>   -- `DateRange.Years()`: the mean of both ends
    (s.yearsFrac.1 * e.yearsFrac.2 + e.yearsFrac.1 * s.yearsFrac.2, 2 * (s.yearsFrac.2 * e.yearsFrac.2))
  | _ => (0, 1)

/-- division rounding towards zero (float64 → int64 conversion), for a positive divisor -/
def truncDiv (a b : Int) : Int := if a ≥ 0 then a / b else -((-a) / b)

/-- `IndividualNode.Age()`: as `ageAt(now)`, trimmed back to the death date -/
def ageNow (i : Indi) (now : Date) : Ages :=
  let a := ageAt i (.ok now) (.ok now)
  if a.c = .afterDeath then
    let ed := yearsFrac (estDeath i)
    let eb := yearsFrac (estBirth i)
    -- time.Duration(ageInYears * float64(Year)) truncates towards zero
    let ns := truncDiv ((ed.1 * eb.2 - eb.1 * ed.2) * Generated.yearNs) (ed.2 * eb.2)
    ⟨true, ns, ns, .afterDeath⟩
  else a

def tooOld (i : Indi) (now : Date) : List Warning :=
  if (ageNow i now).hi > Generated.maxLivingAge * Generated.yearNs && (estDeath i).isSome then
    [Warning.individualTooOld i.ptr]
  else []

def multipleSexes (i : Indi) : List Warning :=
  if i.sexes.length > 1 then [Warning.multipleSexes i.ptr i.sexes.length] else []

def indiOwn (i : Indi) (now : Date) : List Warning :=
  incorrectEventOrder i ++ tooOld i now ++ multipleSexes i

/-! ### the walk -/

def recWarnings (d : Doc) (now : Date) : Rec → List Warning
  | .indi i => indiOwn i now ++ unparsable false i.ptr i.events
  | .fam f => famOwn d f ++ unparsable true f.ptr f.events

/-- what the walk of `Document.Warnings()` collects, before the document-level `oncePerPair` -/
def rawWarnings (d : Doc) (now : Date) : List Warning := d.flatMap (recWarnings d now)

/-- `Document.Warnings()` with today's date as an input: the same two people may be related
    through more than one family; each pair is reported once -/
def warnings (d : Doc) (now : Date) : List Warning := oncePerPair (rawWarnings d now)

end Gedcom.Warn
