/-
  C13 — the caches of a gedcom document as a state machine over an id-heap.

  What is modelled (file:function in /repo):
    nodes.go        nodeCache (global, map node → tag → children), NodesWithTag with its
                    "first call only registers the node" behaviour, DeleteNodesWithTag
    simple_node.go  AddNode / DeleteNode / SetNodes (and whether they reset nodeCache)
    document.go     nodes, pointerCache, families; AddNode/addPointerToCache, AddIndividual,
                    AddFamily, AddFamilyWithHusbandAndWife, DeleteNode, NodeByPointer, Families,
                    Individuals, Warnings (read-only walk, or the copying filter when the flag says so)
    family_node.go  cachedHusband/husband, cachedWife/wife, Husband, Wife, Children, HasChild,
                    AddChild, SetHusband/SetWife (incl. nil), SetHusbandPointer/SetWifePointer,
                    resetCache, and the AddNode/DeleteNode/SetNodes overrides that reset caches
    individual_node.go  cachedFamilies/families, cachedSpouses/spouses, Families, Spouses, Parents,
                    Children, Names, Births, …, resetCache
    husband_node.go / wife_node.go / child_node.go  Individual(), IsIndividual

  A node is an index into `heap` (allocation = append, so node identity is the index).  The state
  is one document plus the process-global nodeCache.  `Abs` is the state with every cache
  forgotten; the `spec*` functions recompute each view from `Abs` alone.  Which edit resets which
  cache is *not* written here: it comes from `Generated.rawCacheFlags` (go/ast facts).

  Core Lean only.
-/
import Gedcom.Model.Types
import Gedcom.Model.Node
import Gedcom.Model.Decoder
import Gedcom.Generated.CacheFlags
namespace Gedcom.Cache
open Gedcom

abbrev Id := Nat

/-! ## flags -/

structure Flags where
  simpleAddResetsNodeCache : Bool
  simpleDeleteResetsNodeCache : Bool
  simpleSetNodesResetsNodeCache : Bool
  docAddStoresPointer : Bool
  docAddClearsFamilies : Bool
  docDeleteRebuildsPointers : Bool
  docDeleteClearsFamilies : Bool
  docDeleteResetsIndividuals : Bool
  addIndividualResetsIndividuals : Bool
  addFamilyResetsFamilies : Bool
  familyAddResetsCaches : Bool
  familyDeleteResetsCaches : Bool
  familySetNodesResetsCaches : Bool
  setHusbandPointerClearsCache : Bool
  setWifePointerClearsCache : Bool
  deleteNodesWithTagCopies : Bool
  warningsReadOnly : Bool
  docSetNodesRebuildsPointers : Bool
  docSetNodesClearsFamilies : Bool
  docSetNodesResetsIndividuals : Bool
  /-- `Document.AddNode` does `familyLinksVersion++` -/
  docAddBumpsLinks : Bool
deriving Repr, DecidableEq

/-- a fact that could not be located (`none`) is taken at the value of correct code: the tie for
    it is then the correspondence alone -/
def Flags.ofRaw (r : Generated.RawCacheFlags) : Flags where
  simpleAddResetsNodeCache := r.simpleAddResetsNodeCache.getD true
  simpleDeleteResetsNodeCache := r.simpleDeleteResetsNodeCache.getD true
  simpleSetNodesResetsNodeCache := r.simpleSetNodesResetsNodeCache.getD true
  docAddStoresPointer := r.docAddStoresPointer.getD true
  docAddClearsFamilies := r.docAddClearsFamilies.getD true
  docDeleteRebuildsPointers := r.docDeleteRebuildsPointers.getD true
  docDeleteClearsFamilies := r.docDeleteClearsFamilies.getD true
  docDeleteResetsIndividuals := r.docDeleteResetsIndividuals.getD true
  addIndividualResetsIndividuals := r.addIndividualResetsIndividuals.getD true
  addFamilyResetsFamilies := r.addFamilyResetsFamilies.getD true
  familyAddResetsCaches := r.familyAddResetsCaches.getD true
  familyDeleteResetsCaches := r.familyDeleteResetsCaches.getD true
  familySetNodesResetsCaches := r.familySetNodesResetsCaches.getD true
  setHusbandPointerClearsCache := r.setHusbandPointerClearsCache.getD true
  setWifePointerClearsCache := r.setWifePointerClearsCache.getD true
  deleteNodesWithTagCopies := r.deleteNodesWithTagCopies.getD true
  warningsReadOnly := r.warningsReadOnly.getD true
  docSetNodesRebuildsPointers := r.docSetNodesRebuildsPointers.getD true
  docSetNodesClearsFamilies := r.docSetNodesClearsFamilies.getD true
  docSetNodesResetsIndividuals := r.docSetNodesResetsIndividuals.getD true
  docAddBumpsLinks := r.docAddBumpsLinks.getD true

/-- the flags of the code as it is in /repo now -/
def flags : Flags := Flags.ofRaw Generated.rawCacheFlags

/-- every invalidation present: the flags the theorems are proved for -/
def Flags.good : Flags :=
  ⟨true, true, true, true, true, true, true, true, true, true, true, true, true, true, true, true, true,
   true, true, true, true⟩

/-- the invalidations coherence depends on.  The three flags not listed are redundant given
    these: `SetHusbandPointer`/`SetWifePointer` clear the cached flag, but they go through
    `FamilyNode.AddNode`, which already resets the family; `AddFamily` resets the husband/wife
    caches of every family, which do not depend on the root list. -/
def Flags.sufficient (f : Flags) : Bool :=
  f.simpleAddResetsNodeCache && f.simpleDeleteResetsNodeCache && f.simpleSetNodesResetsNodeCache &&
  f.docAddStoresPointer && f.docAddClearsFamilies && f.docDeleteRebuildsPointers &&
  f.docDeleteClearsFamilies && f.docDeleteResetsIndividuals && f.addIndividualResetsIndividuals &&
  f.familyAddResetsCaches && f.familyDeleteResetsCaches && f.familySetNodesResetsCaches &&
  f.deleteNodesWithTagCopies && f.warningsReadOnly && f.docSetNodesRebuildsPointers &&
  f.docSetNodesClearsFamilies && f.docSetNodesResetsIndividuals && f.docAddBumpsLinks

/-- the sufficient flags, with the three redundant ones left open -/
def Flags.goodWith (b1 b2 b3 : Bool) : Flags :=
  { Flags.good with setHusbandPointerClearsCache := b1, setWifePointerClearsCache := b2,
                    addFamilyResetsFamilies := b3 }

theorem Flags.eq_goodWith (f : Flags) (h : f.sufficient = true) :
    f = Flags.goodWith f.setHusbandPointerClearsCache f.setWifePointerClearsCache f.addFamilyResetsFamilies := by
  cases f
  simp only [Flags.sufficient, Bool.and_eq_true] at h
  simp only [Flags.goodWith, Flags.good]
  simp_all

/-! ## heap, abstract state -/

def tFAM : Str := [70, 65, 77]
def tINDI : Str := [73, 78, 68, 73]
def tHUSB : Str := [72, 85, 83, 66]
def tWIFE : Str := [87, 73, 70, 69]
def tCHIL : Str := [67, 72, 73, 76]
def tNAME : Str := [78, 65, 77, 69]
def tFAMS : Str := [70, 65, 77, 83]
def tFAMC : Str := [70, 65, 77, 67]
def tBIRT : Str := [66, 73, 82, 84]
def tDEAT : Str := [68, 69, 65, 84]
def tBAPM : Str := [66, 65, 80, 77]
def tBURI : Str := [66, 85, 82, 73]
def tSEX : Str := [83, 69, 88]
def tBAPL : Str := [66, 65, 80, 76]
def tMARR : Str := [77, 65, 82, 82]
def tDATE : Str := [68, 65, 84, 69]

structure NodeRec where
  tag : Str
  value : Str
  ptr : Str
  kids : List Id
  /-- the `family` field of a HUSB/WIFE/CHIL node (set at creation, never changed) -/
  fam : Id
deriving Repr, Inhabited

/-- the document with every cache forgotten -/
structure Abs where
  heap : List NodeRec
  roots : List Id
deriving Repr

namespace Abs
def kids (a : Abs) (n : Id) : List Id := match a.heap[n]? with | some r => r.kids | none => []
def tag (a : Abs) (n : Id) : Str := match a.heap[n]? with | some r => r.tag | none => []
def value (a : Abs) (n : Id) : Str := match a.heap[n]? with | some r => r.value | none => []
def ptr (a : Abs) (n : Id) : Str := match a.heap[n]? with | some r => r.ptr | none => []
def fam (a : Abs) (n : Id) : Id := match a.heap[n]? with | some r => r.fam | none => 0
end Abs

/-- `Node.Identifier()`: "@" + pointer + "@" -/
def ident (p : Str) : Str := 64 :: (p ++ [64])

/-- `valueToPointer` (util.go) -/
def innerPtr (v : Str) : Str :=
  if v.length > 2 && v.head? == some 64 && v.getLast? == some 64 then (v.drop 1).dropLast else []

/-! ## every view recomputed from the abstract state (what a document without caches answers) -/

/-- `NodesWithTag(n, t)` -/
def specNWT (a : Abs) (n : Id) (t : Str) : List Id := (a.kids n).filter (fun c => a.tag c == t)

def specIndividuals (a : Abs) : List Id := a.roots.filter (fun r => a.tag r == tINDI)
def specFamilies (a : Abs) : List Id := a.roots.filter (fun r => a.tag r == tFAM)

/-- `buildPointerCache` then `NodeByPointer`: the last root record carrying the pointer -/
def specByPtr (a : Abs) (p : Str) : Option Id :=
  if p.isEmpty then none
  else a.roots.foldl (fun acc r => if a.ptr r == p then some r else acc) none

def specHusband (a : Abs) (f : Id) : Option Id := (specNWT a f tHUSB).head?
def specWife (a : Abs) (f : Id) : Option Id := (specNWT a f tWIFE).head?
def specFamChildren (a : Abs) (f : Id) : List Id := specNWT a f tCHIL

/-- `HusbandNode.Individual()` / `WifeNode.Individual()` / `ChildNode.Individual()` -/
def specIndividualOf (a : Abs) (h : Id) : Option Id :=
  match specByPtr a (innerPtr (a.value h)) with
  | some r => if a.tag r == tINDI then some r else none
  | none => none

/-- `HusbandNode.IsIndividual(i)` on a possibly nil spouse node -/
def specIsInd (a : Abs) (h : Option Id) (i : Id) : Bool :=
  match h with
  | none => false
  | some h =>
    match specIndividualOf a h with
    | none => false
    | some j => a.ptr j == a.ptr i

def specHasChild (a : Abs) (f i : Id) : Bool :=
  (specNWT a f tCHIL).any (fun c => a.value c == ident (a.ptr i))

def specMember (a : Abs) (i f : Id) : Bool :=
  specHasChild a f i || specIsInd a (specHusband a f) i || specIsInd a (specWife a f) i

/-- `IndividualNode.Families()` -/
def specIndFamilies (a : Abs) (i : Id) : List Id := (specFamilies a).filter (specMember a i)

def specSpousesOf (a : Abs) (i f : Id) : List (Option Id) :=
  match specHusband a f, specWife a f with
  | some h, some w =>
    (if specIsInd a (some h) i then [specIndividualOf a w] else []) ++
    (if specIsInd a (some w) i then [specIndividualOf a h] else [])
  | _, _ => []

/-- `IndividualNode.Spouses()` (an entry is `none` when the other spouse does not resolve) -/
def specSpouses (a : Abs) (i : Id) : List (Option Id) := (specFamilies a).flatMap (specSpousesOf a i)

/-- `IndividualNode.Parents()` -/
def specParents (a : Abs) (i : Id) : List Id := (specIndFamilies a i).filter (fun f => specHasChild a f i)

/-- `IndividualNode.Children()` -/
def specChildren (a : Abs) (i : Id) : List Id :=
  ((specIndFamilies a i).filter (fun f => !specHasChild a f i)).flatMap (specFamChildren a)

/-- the tags `Tag.IsEvent()` answers true for: regenerated from the tag table of the linked library
    (`Generated.cacheEventTags`, written by harness/extract_cache.go) -/
def eventTags : List Str := Generated.cacheEventTags

def isEventTag (t : Str) : Bool := eventTags.contains t

/-- `IndividualNode.AllEvents()`: the children whose tag is an event tag (not cached) -/
def specAllEvents (a : Abs) (i : Id) : List Id := (a.kids i).filter (fun c => isEventTag (a.tag c))

/-- the event accessors that are a children-by-tag lookup: `Births()`, `Baptisms()`, `Deaths()`,
    `Burials()` -/
def eventAccessorTags : List Str := [tBIRT, tBAPM, tDEAT, tBURI]

/-! ## concrete state -/

structure St where
  heap : List NodeRec
  roots : List Id
  /-- `Document.pointerCache`; `Store` = cons, `Load` = first match -/
  ptrIdx : List (Str × Id)
  /-- `Document.families` (`none` = nil slice) -/
  dfams : Option (List Id)
  /-- nodes that already have an (empty) inner map in `nodeCache` -/
  known : List Id
  /-- `nodeCache`: (node, tag) ↦ children -/
  ncache : List ((Id × Str) × List Id)
  /-- `FamilyNode.cachedHusband/husband`, `cachedWife/wife` (entry present = flag set) -/
  cHusb : List (Id × Option Id)
  cWife : List (Id × Option Id)
  /-- `IndividualNode.cachedFamilies/families`, `cachedSpouses/spouses` -/
  cFams : List (Id × List Id)
  cSpouses : List (Id × List (Option Id))
deriving Repr

def abs (s : St) : Abs := ⟨s.heap, s.roots⟩

def lookup {κ β : Type} [BEq κ] (c : List (κ × β)) (k : κ) : Option β :=
  match c.find? (fun e => e.1 == k) with
  | some e => some e.2
  | none => none

def dropKey {β : Type} (c : List (Id × β)) (k : Id) : List (Id × β) := c.filter (fun e => e.1 != k)
def dropKeys {β : Type} (c : List (Id × β)) (ks : List Id) : List (Id × β) := c.filter (fun e => !ks.contains e.1)

/-! ## reads, as state transformers (a read may fill caches) -/

def M (α : Type) : Type := St → α × St

namespace M
protected def pure {α : Type} (x : α) : M α := fun s => (x, s)
protected def bind {α β : Type} (m : M α) (k : α → M β) : M β := fun s => k (m s).1 (m s).2
instance : Monad M where
  pure := M.pure
  bind := M.bind
/-- evaluate a pure function of the uncached part of the state (no cache is read or written) -/
def ofAbs {α : Type} (f : Abs → α) : M α := fun s => (f (abs s), s)
def mapM' {α β : Type} (k : α → M β) : List α → M (List β)
  | [] => M.pure []
  | x :: xs => M.bind (k x) fun y => M.bind (mapM' k xs) fun ys => M.pure (y :: ys)
def filterM' {α : Type} (k : α → M Bool) : List α → M (List α)
  | [] => M.pure []
  | x :: xs => M.bind (k x) fun b => M.bind (filterM' k xs) fun ys => M.pure (if b then x :: ys else ys)
end M

/-- `NodesWithTag` (nodes.go): hit ⇒ cached slice; miss ⇒ compute, and store only if the node
    already has an inner map, otherwise just create the (empty) inner map -/
def nwt (n : Id) (t : Str) : M (List Id) := fun s =>
  match lookup s.ncache (n, t) with
  | some ids => (ids, s)
  | none =>
    let r := specNWT (abs s) n t
    if s.known.contains n then (r, { s with ncache := ((n, t), r) :: s.ncache })
    else (r, { s with known := n :: s.known })

/-- `Document.Families()` -/
def docFamilies : M (List Id) := fun s =>
  match s.dfams with
  | some l => (l, s)
  | none => let l := specFamilies (abs s); (l, { s with dfams := some l })

/-- `Document.Individuals()` (not cached) -/
def docIndividuals : M (List Id) := M.ofAbs specIndividuals

/-- `Document.NodeByPointer` -/
def byPtr (p : Str) : M (Option Id) := fun s => (lookup s.ptrIdx p, s)

/-- `FamilyNode.Husband()` -/
def husband (f : Id) : M (Option Id) := fun s =>
  match lookup s.cHusb f with
  | some h => (h, s)
  | none =>
    let r := nwt f tHUSB s
    (r.1.head?, { r.2 with cHusb := (f, r.1.head?) :: r.2.cHusb })

/-- `FamilyNode.Wife()` -/
def wife (f : Id) : M (Option Id) := fun s =>
  match lookup s.cWife f with
  | some h => (h, s)
  | none =>
    let r := nwt f tWIFE s
    (r.1.head?, { r.2 with cWife := (f, r.1.head?) :: r.2.cWife })

/-- `FamilyNode.Children()` -/
def famChildren (f : Id) : M (List Id) := nwt f tCHIL

/-- `IndividualNode.Names()`: the NAME children, through the children-by-tag cache -/
def names (i : Id) : M (List Id) := nwt i tNAME

/-- `IndividualNode.Births()` / `Baptisms()` / `Deaths()` / `Burials()` -/
def eventsOf (i : Id) (t : Str) : M (List Id) := nwt i t

/-- `IndividualNode.AllEvents()` walks `node.Nodes()`; no cache is read or written -/
def allEvents (i : Id) : M (List Id) := M.ofAbs fun a => specAllEvents a i

/-- `HusbandNode.Individual()` and friends: pointer lookup, then the comma-ok type assertion -/
def individualOf (h : Id) : M (Option Id) :=
  M.bind (M.ofAbs fun a => innerPtr (a.value h)) fun p =>
  M.bind (byPtr p) fun r =>
  M.ofAbs fun a => match r with
    | some r => if a.tag r == tINDI then some r else none
    | none => none

/-- `(*HusbandNode).IsIndividual(i)`, nil receiver included -/
def isInd (h : Option Id) (i : Id) : M Bool :=
  match h with
  | none => M.pure false
  | some h =>
    M.bind (individualOf h) fun j =>
    M.ofAbs fun a => match j with
      | none => false
      | some j => a.ptr j == a.ptr i

/-- `FamilyNode.HasChild(i)` -/
def hasChild (f i : Id) : M Bool :=
  M.bind (nwt f tCHIL) fun cs =>
  M.ofAbs fun a => cs.any (fun c => a.value c == ident (a.ptr i))

/-- loop body of `IndividualNode.Families()` (all three tests are evaluated, as in the code) -/
def member (i f : Id) : M Bool :=
  M.bind (hasChild f i) fun c =>
  M.bind (husband f) fun h =>
  M.bind (isInd h i) fun ih =>
  M.bind (wife f) fun w =>
  M.bind (isInd w i) fun iw =>
  M.pure (c || ih || iw)

/-- `IndividualNode.Families()` -/
def indFamilies (i : Id) : M (List Id) := fun s =>
  match lookup s.cFams i with
  | some l => (l, s)
  | none =>
    let r := (M.bind docFamilies fun fs => M.filterM' (member i) fs) s
    (r.1, { r.2 with cFams := (i, r.1) :: r.2.cFams })

/-- loop body of `IndividualNode.Spouses()` -/
def spousesOf (i f : Id) : M (List (Option Id)) :=
  M.bind (husband f) fun h =>
  M.bind (wife f) fun w =>
  match h, w with
  | some h, some w =>
    M.bind (isInd (some h) i) fun ih =>
    M.bind (if ih then M.bind (individualOf w) fun x => M.pure [x] else M.pure []) fun l1 =>
    M.bind (isInd (some w) i) fun iw =>
    M.bind (if iw then M.bind (individualOf h) fun x => M.pure [x] else M.pure []) fun l2 =>
    M.pure (l1 ++ l2)
  | _, _ => M.pure []

/-- `IndividualNode.Spouses()` -/
def spouses (i : Id) : M (List (Option Id)) := fun s =>
  match lookup s.cSpouses i with
  | some l => (l, s)
  | none =>
    let r := (M.bind docFamilies fun fs => M.bind (M.mapM' (spousesOf i) fs) fun ls => M.pure ls.flatten) s
    (r.1, { r.2 with cSpouses := (i, r.1) :: r.2.cSpouses })

/-- `IndividualNode.Parents()` -/
def parents (i : Id) : M (List Id) :=
  M.bind (indFamilies i) fun fs => M.filterM' (fun f => hasChild f i) fs

/-- `IndividualNode.Children()` -/
def children (i : Id) : M (List Id) :=
  M.bind (indFamilies i) fun fs =>
  M.bind (M.filterM' (fun f => M.bind (hasChild f i) fun b => M.pure (!b)) fs) fun gs =>
  M.bind (M.mapM' famChildren gs) fun ls => M.pure ls.flatten

/-! ## edits -/

def setKids (h : List NodeRec) (n : Id) (ks : List Id) : List NodeRec :=
  match h[n]? with
  | some r => h.set n { r with kids := ks }
  | none => h

def setValue (h : List NodeRec) (n : Id) (v : Str) : List NodeRec :=
  match h[n]? with
  | some r => h.set n { r with value := v }
  | none => h

def resetNodeCache (s : St) : St := { s with known := [], ncache := [] }

/-- `for _, individual := range doc.Individuals() { individual.resetCache() }` -/
def resetIndividuals (s : St) : St :=
  let is := specIndividuals (abs s)
  { s with cFams := dropKeys s.cFams is, cSpouses := dropKeys s.cSpouses is }

/-- `doc.familyLinksVersion++`: every individual of the document (attached or not) recomputes its
    families and spouses on the next call -/
def bumpFamilyLinks (s : St) : St := { s with cFams := [], cSpouses := [] }

/-- `FamilyNode.resetCache()` -/
def resetFamily (f : Id) (s : St) : St :=
  { s with cHusb := dropKey s.cHusb f, cWife := dropKey s.cWife f }

/-- what follows a change of `n`'s child list: the reset in the SimpleNode method (if the flag
    says it is there) and, when `n` is a FamilyNode, the reset in its override -/
def afterKidsEdit (resetsNC famResets : Bool) (n : Id) (s : St) : St :=
  let s := if resetsNC then resetNodeCache s else s
  if (abs s).tag n == tFAM && famResets then bumpFamilyLinks (resetFamily n s) else s

/-- `n.AddNode(c)` for an already allocated `c` -/
def addKid (fl : Flags) (n c : Id) (s : St) : St :=
  afterKidsEdit fl.simpleAddResetsNodeCache fl.familyAddResetsCaches n
    { s with heap := setKids s.heap n ((abs s).kids n ++ [c]) }

/-- allocate a childless node; its id is the old heap length -/
def alloc (r : NodeRec) (s : St) : St := { s with heap := s.heap ++ [r] }

/-- `n.DeleteNode(c)`: removes the first occurrence, resets even when nothing was removed -/
def deleteKid (fl : Flags) (n c : Id) (s : St) : St :=
  afterKidsEdit fl.simpleDeleteResetsNodeCache fl.familyDeleteResetsCaches n
    { s with heap := setKids s.heap n (((abs s).kids n).erase c) }

/-- `n.SetNodes(ks)` -/
def setKidsOp (fl : Flags) (n : Id) (ks : List Id) (s : St) : St :=
  afterKidsEdit fl.simpleSetNodesResetsNodeCache fl.familySetNodesResetsCaches n
    { s with heap := setKids s.heap n ks }

/-- `Document.AddNode` of a freshly allocated childless record, up to the last statement -/
def docAppend0 (fl : Flags) (r : NodeRec) (s : St) : St :=
  let c := s.heap.length
  { s with
    heap := s.heap ++ [r]
    roots := s.roots ++ [c]
    ptrIdx := if fl.docAddStoresPointer && !r.ptr.isEmpty then (r.ptr, c) :: s.ptrIdx else s.ptrIdx
    dfams := if r.tag == tFAM && fl.docAddClearsFamilies then none else s.dfams }

/-- `Document.AddNode` of a freshly allocated childless record — of any tag: a plain node made by
    `NewNode`, or an INDI / FAM record made for this document elsewhere (`DeepCopy` of a record of
    another document).  Its last statement is `doc.familyLinksVersion++` (fix
    C13-addnode-bumps-family-links: without it an individual keeps spouses it remembered while a
    HUSB/WIFE reference to the new record's pointer did not resolve). -/
def docAppend (fl : Flags) (r : NodeRec) (s : St) : St :=
  if fl.docAddBumpsLinks then bumpFamilyLinks (docAppend0 fl r s) else docAppend0 fl r s

/-- `buildPointerCache` -/
def buildIdx (a : Abs) : List (Str × Id) :=
  a.roots.foldl (fun idx r => if (a.ptr r).isEmpty then idx else (a.ptr r, r) :: idx) []

/-- `Document.DeleteNode(r)` -/
def docDelete (fl : Flags) (r : Id) (s : St) : St :=
  if s.roots.contains r then
    let s := { s with roots := s.roots.erase r }
    let s := if fl.docDeleteClearsFamilies then { s with dfams := none } else s
    let s := if fl.docDeleteRebuildsPointers then { s with ptrIdx := buildIdx (abs s) } else s
    if fl.docDeleteResetsIndividuals then bumpFamilyLinks s else s
  else s

/-- `Document.SetNodes(ks)` -/
def docSetNodes (fl : Flags) (ks : List Id) (s : St) : St :=
  let s := { s with roots := ks }
  let s := if fl.docSetNodesClearsFamilies then { s with dfams := none } else s
  let s := if fl.docSetNodesRebuildsPointers then { s with ptrIdx := buildIdx (abs s) } else s
  if fl.docSetNodesResetsIndividuals then bumpFamilyLinks s else s

/-- Go's `for _, x := range xs { if p x { parent.DeleteNode(x) } }` where `xs` *is* the child
    slice being shrunk in place: `arr` is the backing array (fixed length), `len` the live
    prefix, `i` the loop index.  Deleting shifts the live tail left and leaves the old last
    element behind, so the element after a deleted one is skipped and the tail may be seen twice. -/
def inPlaceLoop (p : Id → Bool) : Nat → Nat → List Id → Nat → List Id
  | 0, _, arr, len => arr.take len
  | fuel + 1, i, arr, len =>
    match arr[i]? with
    | none => arr.take len
    | some x =>
      if p x then
        match (arr.take len).idxOf? x with
        | some j => inPlaceLoop p fuel (i + 1) (arr.take j ++ (arr.drop (j + 1)).take (len - j - 1) ++ arr.drop (len - 1)) (len - 1)
        | none => inPlaceLoop p fuel (i + 1) arr len
      else inPlaceLoop p fuel (i + 1) arr len

def eraseLoopInPlace (p : Id → Bool) (ks : List Id) : List Id := inPlaceLoop p ks.length 0 ks ks.length

/-- the same loop over a copy of the slice: every matching element is removed once per occurrence -/
def eraseLoopCopy (p : Id → Bool) (ks : List Id) : List Id := (ks.filter p).foldl List.erase ks

/-- `DeleteNodesWithTag(n, t)` -/
def deleteKidsWithTag (fl : Flags) (n : Id) (t : Str) (s : St) : St :=
  let a := abs s
  let p := fun c => a.tag c == t
  if (a.kids n).any p then
    let ks := if fl.deleteNodesWithTagCopies then eraseLoopCopy p (a.kids n) else eraseLoopInPlace p (a.kids n)
    afterKidsEdit fl.simpleDeleteResetsNodeCache fl.familyDeleteResetsCaches n { s with heap := setKids s.heap n ks }
  else s

def spouseTag (isHusb : Bool) : Str := if isHusb then tHUSB else tWIFE

/-- `node.Husband()` / `node.Wife()` -/
def spouseRead (isHusb : Bool) (f : Id) : M (Option Id) := if isHusb then husband f else wife f

/-- `husband.value = value` on the current spouse node, if there is one -/
def rewriteSpouseValue (h : Option Id) (v : Str) (s : St) : St :=
  match h with
  | some h => { s with heap := setValue s.heap h v }
  | none => s

/-- `node.cachedHusband = false` / `node.cachedWife = false` at the end of Set…Pointer -/
def dropSpouseCache (fl : Flags) (isHusb : Bool) (f : Id) (s : St) : St :=
  if isHusb then (if fl.setHusbandPointerClearsCache then { s with cHusb := dropKey s.cHusb f } else s)
  else (if fl.setWifePointerClearsCache then { s with cWife := dropKey s.cWife f } else s)

/-- second half of Set…Pointer: append one more spouse node, then clear the cached flag -/
def appendSpouseNode (fl : Flags) (isHusb : Bool) (f : Id) (p : Str) (s : St) : St :=
  dropSpouseCache fl isHusb f
    (addKid fl f s.heap.length (alloc ⟨spouseTag isHusb, ident p, [], [], f⟩ s))

/-- `SetHusbandPointer` / `SetWifePointer`: rewrite the value of the current spouse node (if any),
    then append one more spouse node, then clear the cached flag -/
def setSpousePointer (fl : Flags) (isHusb : Bool) (f : Id) (p : Str) (s : St) : St :=
  appendSpouseNode fl isHusb f p
    (rewriteSpouseValue (spouseRead isHusb f s).1 (ident p) (spouseRead isHusb f s).2)

/-- `n.AddNode(NewNode(tag, value, ptr))` -/
def addFresh (fl : Flags) (n : Id) (r : NodeRec) (s : St) : St :=
  addKid fl n s.heap.length (alloc r s)

/-- `SetHusband(i)` / `SetWife(i)` for a non-nil individual -/
def setSpouse (fl : Flags) (isHusb : Bool) (f i : Id) (s : St) : St :=
  setSpousePointer fl isHusb f ((abs s).ptr i)
    (addFresh fl i ⟨tFAMS, ident ((abs s).ptr f), [], [], 0⟩ s)

/-- `node.Husband().Individual()` / `node.Wife().Individual()` -/
def spouseIndividual (isHusb : Bool) (f : Id) : M (Option Id) :=
  M.bind (spouseRead isHusb f) fun h =>
    match h with
    | some h => individualOf h
    | none => M.pure none

/-- is `c` a FAMS link to family `f`? -/
def isSpouseLink (a : Abs) (f c : Id) : Bool := a.tag c == tFAMS && a.value c == ident (a.ptr f)

/-- the loop in `SetHusband(nil)` that deletes the individual's FAMS links to the family while
    ranging over the very slice it shrinks -/
def unlinkSpouse (fl : Flags) (f j : Id) (s : St) : St :=
  if ((abs s).kids j).any (isSpouseLink (abs s) f) then
    afterKidsEdit fl.simpleDeleteResetsNodeCache fl.familyDeleteResetsCaches j
      { s with heap := setKids s.heap j (eraseLoopInPlace (isSpouseLink (abs s) f) ((abs s).kids j)) }
  else s

/-- `node.husband = nil; node.cachedHusband = true` (or the wife fields) -/
def cacheNoSpouse (isHusb : Bool) (f : Id) (s : St) : St :=
  if isHusb then { s with cHusb := (f, none) :: dropKey s.cHusb f }
  else { s with cWife := (f, none) :: dropKey s.cWife f }

/-- `SetHusband(nil)` / `SetWife(nil)` once the current spouse `j` is known -/
def clearSpouseOf (fl : Flags) (isHusb : Bool) (f j : Id) (s : St) : St :=
  cacheNoSpouse isHusb f (deleteKidsWithTag fl f (spouseTag isHusb) (unlinkSpouse fl f j s))

/-- `SetHusband(nil)` / `SetWife(nil)` -/
def clearSpouse (fl : Flags) (isHusb : Bool) (f : Id) (s : St) : St :=
  match (spouseIndividual isHusb f s).1 with
  | none => (spouseIndividual isHusb f s).2
  | some j => clearSpouseOf fl isHusb f j (spouseIndividual isHusb f s).2

/-- `AddChild(i)` -/
def addChild (fl : Flags) (f i : Id) (s : St) : St :=
  addFresh fl f ⟨tCHIL, ident ((abs s).ptr i), [], [], f⟩
    (addFresh fl i ⟨tFAMC, ident ((abs s).ptr f), [], [], 0⟩ s)

/-- `AddBirthDate` / `AddBaptismDate` / `AddDeathDate` / `AddBurialDate`: the first event of that
    kind (`First(node.Births())` …, a cached read) — created and appended if there is none — gets
    one more DATE child -/
def addEventDate (fl : Flags) (i : Id) (t v : Str) (s : St) : St :=
  match (nwt i t s).1.head? with
  | some e => addFresh fl e ⟨tDATE, v, [], [], 0⟩ (nwt i t s).2
  | none =>
    addFresh fl (nwt i t s).2.heap.length ⟨tDATE, v, [], [], 0⟩
      (addFresh fl i ⟨t, [], [], [], 0⟩ (nwt i t s).2)

/-- `SetSex`: the value of the first SEX child (a cached read) is overwritten in place; without
    one a SEX child is appended -/
def setSex (fl : Flags) (i : Id) (v : Str) (s : St) : St :=
  match (nwt i tSEX s).1.head? with
  | some x => { (nwt i tSEX s).2 with heap := setValue (nwt i tSEX s).2.heap x v }
  | none => addFresh fl i ⟨tSEX, v, [], [], 0⟩ (nwt i tSEX s).2

/-- `Document.AddIndividual(ptr)` -/
def addIndividual (fl : Flags) (p : Str) (s : St) : St :=
  let s := docAppend fl ⟨tINDI, [], p, [], 0⟩ s
  if fl.addIndividualResetsIndividuals then resetIndividuals s else s

/-- `Document.AddFamily(ptr)`: the loop reads `doc.Families()` (which fills the cache again) -/
def addFamily (fl : Flags) (p : Str) (s : St) : St :=
  let s := docAppend fl ⟨tFAM, [], p, [], 0⟩ s
  let r := docFamilies s
  if fl.addFamilyResetsFamilies then { r.2 with cHusb := dropKeys r.2.cHusb r.1, cWife := dropKeys r.2.cWife r.1 }
  else r.2

/-- the copying walk that `Document.Warnings` used to be: per root record one `AddFamily` for every
    family that a HUSB/WIFE/CHIL child of the record belongs to; the copies it builds go through
    `AddNode`, which resets the node cache -/
def warningsCopying (fl : Flags) (s : St) : St :=
  let a := abs s
  let fams := a.roots.flatMap fun r =>
    (((a.kids r).filter fun c => a.tag c == tHUSB || a.tag c == tWIFE || a.tag c == tCHIL).map a.fam).eraseDups
  let s := fams.foldl (fun s f => addFamily fl (a.ptr f) s) s
  if fams.isEmpty && a.roots.all (fun r => (a.kids r).isEmpty) then s else resetNodeCache s

/-- a freshly decoded document: roots, pointer index built once, every cache empty -/
def initOf (heap : List NodeRec) (roots : List Id) : St :=
  { heap := heap, roots := roots, ptrIdx := buildIdx ⟨heap, roots⟩, dfams := none, known := [],
    ncache := [], cHusb := [], cWife := [], cFams := [], cSpouses := [] }

/-! ## between node trees and the heap -/

/-- ids of the root nodes of a forest laid out in preorder from id `b` on -/
def rootsAt (b : Nat) : List Node → List Id
  | [] => []
  | n :: ns => b :: rootsAt (b + n.size) ns

mutual
/-- preorder layout of a decoded tree from id `b` on (allocation = append, so a node's id is its
    preorder position); `fam` = most recent FAM record seen (the decoder's `family` cursor).
    Returns the records and the cursor afterwards. -/
def flatNode (b : Nat) (fam : Id) : Node → List NodeRec × Id
  | .mk t v p ks =>
    let r := flatForest (b + 1) (if t == tFAM then b else fam) ks
    (⟨t, v, p, rootsAt (b + 1) ks, if t == tFAM then b else fam⟩ :: r.1, r.2)
def flatForest (b : Nat) (fam : Id) : List Node → List NodeRec × Id
  | [] => ([], fam)
  | n :: ns =>
    ((flatNode b fam n).1 ++ (flatForest (b + n.size) (flatNode b fam n).2 ns).1,
     (flatForest (b + n.size) (flatNode b fam n).2 ns).2)
end

/-- the state right after decoding: what `NewDocumentFromString` builds from a forest -/
def ofForest (f : Forest) : St := initOf (flatForest 0 0 f).1 (rootsAt 0 f)

/-- the tree below node `n` (cut at depth `fuel`; `heap.length` suffices for a tree-shaped heap) -/
def toNode (a : Abs) : Nat → Id → Node
  | 0, n => .mk (a.tag n) (a.value n) (a.ptr n) []
  | fuel + 1, n => .mk (a.tag n) (a.value n) (a.ptr n) ((a.kids n).map (toNode a fuel))

/-- the forest `Document.String()` writes out -/
def toForest (a : Abs) : Forest := a.roots.map (toNode a a.heap.length)

/-! ## `Document.Warnings()` as a read (after 424e2bc it only walks the nodes)

  The walk visits every record; an individual's warnings look at its BIRT/BAPM/BAPL/DEAT/BURI events
  and their DATE children and at its SEX nodes, a family's warnings at husband, wife and children,
  the individuals they refer to, those individuals' births, and the MARR events — all through the
  cached getters, so the read fills caches.  (The order in which the real code touches them is not
  reproduced exactly; what matters here is *which* caches a pure read may fill.) -/

def eventDates (n : Id) (t : Str) : M Unit :=
  M.bind (nwt n t) fun es => M.bind (M.mapM' (fun e => nwt e tDATE) es) fun _ => M.pure ()

def birthOf (i : Option Id) : M Unit :=
  match i with
  | some i => eventDates i tBIRT
  | none => M.pure ()

def indiWarnReads (i : Id) : M Unit :=
  M.bind (eventDates i tBIRT) fun _ => M.bind (eventDates i tBAPM) fun _ =>
  M.bind (eventDates i tBAPL) fun _ => M.bind (eventDates i tDEAT) fun _ =>
  M.bind (eventDates i tBURI) fun _ => M.bind (nwt i tSEX) fun _ => M.pure ()

def spouseBirth (isHusb : Bool) (f : Id) : M Unit :=
  M.bind (spouseIndividual isHusb f) birthOf

def famWarnReads (f : Id) : M Unit :=
  M.bind (spouseBirth true f) fun _ => M.bind (spouseBirth false f) fun _ =>
  M.bind (famChildren f) fun cs =>
  M.bind (M.mapM' (fun c => M.bind (individualOf c) birthOf) cs) fun _ =>
  M.bind (eventDates f tMARR) fun _ => M.pure ()

def rootWarnReads (r : Id) : M Unit :=
  M.bind (M.ofAbs fun a => a.tag r) fun t =>
  if t == tINDI then indiWarnReads r else if t == tFAM then famWarnReads r else M.pure ()

def warningsRead : M Unit :=
  M.bind (M.ofAbs fun a => a.roots) fun rs => M.bind (M.mapM' rootWarnReads rs) fun _ => M.pure ()

/-! ## operations -/

inductive View
  | nodesWithTag (n : Id) (t : Str)
  | individuals
  | families
  | byPointer (p : Str)
  | indFamilies (i : Id)
  | spouses (i : Id)
  | parents (i : Id)
  | children (i : Id)
  | husband (f : Id)
  | wife (f : Id)
  | famChildren (f : Id)
  /-- `i.Names()` -/
  | names (i : Id)
  /-- `i.Births()` (tag BIRT), `Baptisms()` (BAPM), `Deaths()` (DEAT), `Burials()` (BURI) -/
  | eventsOf (i : Id) (t : Str)
  /-- `i.AllEvents()` -/
  | allEvents (i : Id)
deriving Repr

inductive Op
  /-- `n.AddNode(NewNode(tag, value, ptr))`, tag not INDI/FAM/HUSB/WIFE/CHIL -/
  | addNode (n : Id) (tag value ptr : Str)
  | deleteNode (n c : Id)
  /-- `DeleteNodesWithTag(n, t)` (nodes.go) -/
  | deleteNodesWithTag (n : Id) (t : Str)
  /-- `n.SetNodes(ks)`, `ks` drawn from the current children -/
  | setNodes (n : Id) (ks : List Id)
  /-- `doc.AddNode(record)`: `NewNode(tag, value, ptr)` for a plain tag, or an INDI / FAM record built
      for this document elsewhere (`gedcom.DeepCopy(recordOfAnotherDocument, doc)`); any pointer -/
  | docAddNode (tag value ptr : Str)
  | addIndividual (ptr : Str)
  | addFamily (ptr : Str)
  | addFamilyHW (ptr : Str) (h w : Option Id)
  | docDelete (r : Id)
  /-- `doc.SetNodes(ks)`, `ks` drawn from the current root records -/
  | docSetNodes (ks : List Id)
  | setHusband (f : Id) (i : Option Id)
  | setWife (f : Id) (i : Option Id)
  | setHusbandPointer (f : Id) (p : Str)
  | setWifePointer (f : Id) (p : Str)
  | addChild (f i : Id)
  /-- `i.AddBirthDate(v)` (tag BIRT), `AddBaptismDate` (BAPM), `AddDeathDate` (DEAT), `AddBurialDate` (BURI) -/
  | addEventDate (i : Id) (tag v : Str)
  /-- `i.SetSex(v)` -/
  | setSex (i : Id) (v : Str)
  | read (v : View)
  /-- `doc.Warnings()` -/
  | warnings
  /-- `doc.String()`: the encoder walks the nodes, no cache is involved -/
  | string
  /-- `n.GEDCOMString(0)` -/
  | gedcomString (n : Id)
  /-- a read whose implementation builds nodes elsewhere (DeepCopy, Filter, Compare, CompareNodes,
      decoding another document): the process-global node cache is reset, nothing else -/
  | foreign
  /-- a read without modelled effect (String, a query, publish) -/
  | inert
deriving Repr

inductive Obs
  | none
  | bad
  | ids (l : List (Option Id))
  /-- GEDCOM text -/
  | text (bytes : Str)
deriving Repr, BEq, DecidableEq

def Op.isRead : Op → Bool
  | .read _ | .warnings | .string | .gedcomString _ | .foreign | .inert => true
  | _ => false

def plainTag (t : Str) : Bool :=
  !(t == tINDI || t == tFAM || t == tHUSB || t == tWIFE || t == tCHIL)

/-- an attached individual / family record -/
def isIndi (a : Abs) (i : Id) : Bool := a.roots.contains i && a.tag i == tINDI
def isFam (a : Abs) (f : Id) : Bool := a.tag f == tFAM

/-- no root individual carries pointer `p` -/
def ptrFreeOfIndi (a : Abs) (p : Str) : Bool := a.roots.all fun r => !(a.tag r == tINDI && a.ptr r == p)

def runView (v : View) : M Obs :=
  match v with
  | .nodesWithTag n t => M.bind (nwt n t) fun l => M.pure (.ids (l.map some))
  | .individuals => M.bind docIndividuals fun l => M.pure (.ids (l.map some))
  | .families => M.bind docFamilies fun l => M.pure (.ids (l.map some))
  | .byPointer p => M.bind (byPtr p) fun r => M.pure (.ids [r])
  | .indFamilies i => M.bind (indFamilies i) fun l => M.pure (.ids (l.map some))
  | .spouses i => M.bind (spouses i) fun l => M.pure (.ids l)
  | .parents i => M.bind (parents i) fun l => M.pure (.ids (l.map some))
  | .children i => M.bind (children i) fun l => M.pure (.ids (l.map some))
  | .husband f => M.bind (husband f) fun r => M.pure (.ids [r])
  | .wife f => M.bind (wife f) fun r => M.pure (.ids [r])
  | .famChildren f => M.bind (famChildren f) fun l => M.pure (.ids (l.map some))
  | .names i => M.bind (names i) fun l => M.pure (.ids (l.map some))
  | .eventsOf i t => M.bind (eventsOf i t) fun l => M.pure (.ids (l.map some))
  | .allEvents i => M.bind (allEvents i) fun l => M.pure (.ids (l.map some))

/-- the same view on a document without caches -/
def specView (a : Abs) : View → Obs
  | .nodesWithTag n t => .ids ((specNWT a n t).map some)
  | .individuals => .ids ((specIndividuals a).map some)
  | .families => .ids ((specFamilies a).map some)
  | .byPointer p => .ids [specByPtr a p]
  | .indFamilies i => .ids ((specIndFamilies a i).map some)
  | .spouses i => .ids (specSpouses a i)
  | .parents i => .ids ((specParents a i).map some)
  | .children i => .ids ((specChildren a i).map some)
  | .husband f => .ids [specHusband a f]
  | .wife f => .ids [specWife a f]
  | .famChildren f => .ids ((specFamChildren a f).map some)
  | .names i => .ids ((specNWT a i tNAME).map some)
  | .eventsOf i t => .ids ((specNWT a i t).map some)
  | .allEvents i => .ids ((specAllEvents a i).map some)

/-- the receiver of the view has the Go type the method is defined on -/
def View.ok (a : Abs) : View → Bool
  | .nodesWithTag n _ => n < a.heap.length
  | .individuals | .families | .byPointer _ => true
  | .indFamilies i | .spouses i | .parents i | .children i => isIndi a i
  | .husband f | .wife f | .famChildren f => isFam a f
  | .names i | .allEvents i => isIndi a i
  | .eventsOf i t => isIndi a i && eventAccessorTags.contains t

/-- the arguments are ones the public API accepts and the model covers -/
def Op.ok (a : Abs) : Op → Bool
  | .addNode n t _ _ => n < a.heap.length && plainTag t
  | .deleteNode n _ => n < a.heap.length
  | .deleteNodesWithTag n _ => n < a.heap.length
  | .setNodes n ks => n < a.heap.length && ks.all (fun k => (a.kids n).contains k)
  | .docAddNode t _ _ => !(t == tHUSB || t == tWIFE || t == tCHIL)
  | .addIndividual _ => true
  | .addFamily p => ptrFreeOfIndi a p
  | .addFamilyHW p h w =>
    ptrFreeOfIndi a p && (match h with | some h => isIndi a h | none => true) &&
      (match w with | some w => isIndi a w | none => true)
  | .docDelete _ => true
  | .docSetNodes ks => ks.all (fun k => a.roots.contains k)
  | .setHusband f i | .setWife f i => isFam a f && (match i with | some i => isIndi a i | none => true)
  | .setHusbandPointer f _ | .setWifePointer f _ => isFam a f
  | .addChild f i => isFam a f && isIndi a i
  | .addEventDate i t _ => isIndi a i && (t == tBIRT || t == tBAPM || t == tDEAT || t == tBURI)
  | .setSex i _ => isIndi a i
  | .read v => v.ok a
  | .warnings | .string | .foreign | .inert => true
  | .gedcomString n => n < a.heap.length

/-- `SetHusband(x)` / `SetWife(x)` with a possibly nil argument -/
def setOrClear (fl : Flags) (isHusb : Bool) (f : Id) (i : Option Id) (s : St) : St :=
  match i with
  | some i => setSpouse fl isHusb f i s
  | none => clearSpouse fl isHusb f s

def exec (fl : Flags) (s : St) : Op → St × Obs
  | .addNode n t v p => (addFresh fl n ⟨t, v, p, [], 0⟩ s, .none)
  | .deleteNode n c => (deleteKid fl n c s, .none)
  | .deleteNodesWithTag n t => (deleteKidsWithTag fl n t s, .none)
  | .setNodes n ks => (setKidsOp fl n ks s, .none)
  | .docAddNode t v p => (docAppend fl ⟨t, v, p, [], 0⟩ s, .none)
  | .addIndividual p => (addIndividual fl p s, .none)
  | .addFamily p => (addFamily fl p s, .none)
  | .addFamilyHW p h w => (setOrClear fl false s.heap.length w (setOrClear fl true s.heap.length h (addFamily fl p s)), .none)
  | .docDelete r => (docDelete fl r s, .none)
  | .docSetNodes ks => (docSetNodes fl ks s, .none)
  | .setHusband f i => (setOrClear fl true f i s, .none)
  | .setWife f i => (setOrClear fl false f i s, .none)
  | .setHusbandPointer f p => (setSpousePointer fl true f p s, .none)
  | .setWifePointer f p => (setSpousePointer fl false f p s, .none)
  | .addChild f i => (addChild fl f i s, .none)
  | .addEventDate i t v => (addEventDate fl i t v s, .none)
  | .setSex i v => (setSex fl i v s, .none)
  | .read v => let r := runView v s; (r.2, r.1)
  | .warnings => (if fl.warningsReadOnly then (warningsRead s).2 else warningsCopying fl s, .none)
  | .string => (s, .text (Dec.encForest 0 (toForest (abs s))))
  | .gedcomString n => (s, .text (Dec.encNode 0 (toNode (abs s) s.heap.length n)))
  | .foreign => (resetNodeCache s, .none)
  | .inert => (s, .none)

/-- one operation; arguments outside the covered domain leave the state alone and answer `bad` -/
def step (fl : Flags) (s : St) (op : Op) : St × Obs :=
  if op.ok (abs s) then exec fl s op else (s, .bad)

def run (fl : Flags) (s : St) : List Op → St × List Obs
  | [] => (s, [])
  | o :: os =>
    let r := step fl s o
    let rs := run fl r.1 os
    (rs.1, r.2 :: rs.2)

/-! ## whole subtrees: `NewNode(tag, value, ptr, children…)` handed to `AddNode` / `AddIndividual`

  The constructor builds the subtree without touching any cache; one `AddNode` then attaches it.  The
  model runs this as the history of single-node `AddNode`s in preorder (the parent first, then each
  child below the id its parent has just been given).  For `n.AddNode(subtree)` this is the same
  state: the first step does everything `AddNode` does to `n`, the later ones only repeat the
  node-cache reset on nodes no cache mentions.  For `doc.AddNode(subtree)` and
  `doc.AddIndividual(ptr, children…)` the document is the same and the node cache of the model is
  emptier than the real one (the code does not reset it there), which no view can observe
  (`coherent_run`). -/

mutual
/-- `base` = the id the root of the subtree gets (the heap length when the history starts) -/
def addTreeOps (n : Id) (base : Nat) : Node → List Op
  | .mk t v p ks => Op.addNode n t v p :: addForestOps base (base + 1) ks
def addForestOps (n : Id) (base : Nat) : List Node → List Op
  | [] => []
  | k :: ks => addTreeOps n base k ++ addForestOps n (base + k.size) ks
end

/-- `doc.AddNode(NewNode(t, v, p, children…))` -/
def docAddTreeOps (base : Nat) : Node → List Op
  | .mk t v p ks => Op.docAddNode t v p :: addForestOps base (base + 1) ks

/-- `doc.AddIndividual(ptr, children…)` -/
def addIndividualWithOps (base : Nat) (p : Str) (ks : List Node) : List Op :=
  Op.addIndividual p :: addForestOps base (base + 1) ks

/-- a history that stands for ONE call: if any step is rejected (a tag `NewNode` panics for, a
    receiver that is not there, a pointer an individual already uses) the call did not happen -/
def runAtomic (fl : Flags) (s : St) (ops : List Op) : St × Obs :=
  if (run fl s ops).2.contains Obs.bad then (s, .bad) else ((run fl s ops).1, .none)

/-- renaming of the nodes a view mentions -/
def View.map (φ : Id → Id) : View → View
  | .nodesWithTag n t => .nodesWithTag (φ n) t
  | .individuals => .individuals
  | .families => .families
  | .byPointer p => .byPointer p
  | .indFamilies i => .indFamilies (φ i)
  | .spouses i => .spouses (φ i)
  | .parents i => .parents (φ i)
  | .children i => .children (φ i)
  | .husband f => .husband (φ f)
  | .wife f => .wife (φ f)
  | .famChildren f => .famChildren (φ f)
  | .names i => .names (φ i)
  | .eventsOf i t => .eventsOf (φ i) t
  | .allEvents i => .allEvents (φ i)

def Obs.map (φ : Id → Id) : Obs → Obs
  | .none => .none
  | .bad => .bad
  | .ids l => .ids (l.map (Option.map φ))
  | .text b => .text b

/-- the node a view is asked of -/
def View.subject : View → Option Id
  | .nodesWithTag n _ => some n
  | .individuals | .families | .byPointer _ => none
  | .indFamilies i | .spouses i | .parents i | .children i => some i
  | .husband f | .wife f | .famChildren f => some f
  | .names i | .eventsOf i _ | .allEvents i => some i

end Gedcom.Cache
