/-
  Target language for the go/ast translation of the decision logic of date.go (C04):
  the statements of `parseDateParts` and `parseMonthName`, the `months` table, and the
  statements / matrix / index order / comparisons of `Date.Equals`.  The program itself is not
  written here: `Generated/DateLogic.lean` is translated from the source on every run
  (harness/extract_datelogic.go); `Props/C04Source.lean` proves that interpreting it is the
  hand-written model (`parseDateParts`, `PDate.equals`) for all inputs.

  Primitives that stay library calls and are modelled, not translated: the pattern match that
  yields the groups (`matchDate`), `Atoi` (`atoi`), `strings.ToLower` / `CleanSpace`
  (`lowerStr`, `cleanSpace`), `DateConstraintFromString` (`constraintFromString`), `time.Parse`
  on `"<day> <month> <%04d year>"` with layout `"_2 1 2006"` (`calendarOK`), `Date.IsZero`,
  `Date.Is`, `Date.Years` comparison (`PDate.yearsLt`).  Core Lean only.
-/
import Gedcom.Model.DateParse
namespace Gedcom.DateLogic
open Gedcom

/-- `parts[<name>Pos]` -/
inductive Grp | constraint | day | month | year | bad
deriving DecidableEq, Repr

inductive Cond
  | grpNonEmpty (g : Grp)   -- parts[g] != ""
  | errSet                  -- err != nil
  | monthKnown              -- monthIsKnown
  | noMatch                 -- len(parts) == 0
  | not (c : Cond)
  | and (a b : Cond)
  | or (a b : Cond)
  | bad
deriving DecidableEq, Repr

inductive Field | day | month | year | isEndOfRange | constraint | parseError | bad
deriving DecidableEq, Repr

/-- right-hand sides of the fields of a returned `Date` and arguments of the calendar check -/
inductive Src | day | month | year | isEndOfRange | err | newError | constraintOf (g : Grp) | bad
deriving DecidableEq, Repr

inductive NumVar | day | year
deriving DecidableEq, Repr

inductive Stmt
  | findSubmatch                                   -- parts := dateRegexp.FindStringSubmatch(dateString)
  | positions (ps : List (String × Nat))           -- constraintPos, dayPos, … := 1, 2, …
  | monthName                                      -- monthName, err := parseMonthName(parts, monthPos)
  | monthLookup                                    -- month, monthIsKnown := months[monthName]
  | atoi (v : NumVar) (g : Grp)                    -- v := Atoi(parts[g])
  | calendarCheck (layout format : String) (args : List Src)
                                                   -- _, err = time.Parse(layout, fmt.Sprintf(format, args…))
  | ifReturn (c : Cond) (fields : List (Field × Src))   -- if c { return Date{fields} }
  | ret (fields : List (Field × Src))              -- return Date{fields}
  | bad
deriving DecidableEq, Repr

inductive MonthNameStmt | failIfNoMatch | lowerGroup | returnCleanSpace | bad
deriving DecidableEq, Repr

/-! ## fragment checks -/

def Cond.ok : Cond → Bool
  | .grpNonEmpty g => g != .bad
  | .errSet | .monthKnown | .noMatch => true
  | .not c => c.ok
  | .and a b | .or a b => a.ok && b.ok
  | .bad => false

/-- a field gets a value of its kind -/
def fieldOK : Field × Src → Bool
  | (.day, s) | (.month, s) | (.year, s) => s == .day || s == .month || s == .year
  | (.isEndOfRange, s) => s == .isEndOfRange
  | (.constraint, .constraintOf g) => g != .bad
  | (.parseError, s) => s == .err || s == .newError
  | _ => false

def Stmt.ok : Stmt → Bool
  | .findSubmatch | .monthName | .monthLookup => true
  | .positions ps => ps == [("constraintPos", 1), ("dayPos", 2), ("monthPos", 3), ("yearPos", 4)]
  | .atoi _ g => g != .bad
  | .calendarCheck layout format args =>
    layout == "_2 1 2006" && format == "%d %d %04d" && args == [.day, .month, .year]
  | .ifReturn c fs => c.ok && fs.all fieldOK
  | .ret fs => fs.all fieldOK
  | .bad => false

/-! ## interpretation -/

structure St where
  parts : Option DateParts
  monthName : Str := []
  err : Bool := false
  day : Nat := 0
  month : Nat := 0
  monthKnown : Bool := false
  year : Nat := 0

def St.grp (st : St) : Grp → Str
  | .constraint => (st.parts.map (·.kw)).getD []
  | .day => (st.parts.map (·.day)).getD []
  | .month => (st.parts.map (·.month)).getD []
  | .year => (st.parts.map (·.year)).getD []
  | .bad => []

def evalCond (st : St) : Cond → Bool
  | .grpNonEmpty g => !(st.grp g).isEmpty
  | .errSet => st.err
  | .monthKnown => st.monthKnown
  | .noMatch => st.parts.isNone
  | .not c => !evalCond st c
  | .and a b => evalCond st a && evalCond st b
  | .or a b => evalCond st a || evalCond st b
  | .bad => false

def srcNat (st : St) : Src → Nat
  | .day => st.day | .month => st.month | .year => st.year | _ => 0

/-- `Date{…}`: unset fields are zero values -/
def mkDate (st : St) : List (Field × Src) → PDate → PDate
  | [], d => d
  | (.day, s) :: r, d => mkDate st r { d with day := srcNat st s }
  | (.month, s) :: r, d => mkDate st r { d with month := srcNat st s }
  | (.year, s) :: r, d => mkDate st r { d with year := srcNat st s }
  | (.constraint, .constraintOf g) :: r, d => mkDate st r { d with constraint := constraintFromString (st.grp g) }
  | (.parseError, .err) :: r, d => mkDate st r { d with parseError := st.err }
  | (.parseError, .newError) :: r, d => mkDate st r { d with parseError := true }
  | _ :: r, d => mkDate st r d

def zeroDate : PDate := ⟨0, 0, 0, .exact, false⟩

/-- `parseMonthName(parts, monthPos)`: (name, err != nil) -/
def runMonthName (st : St) : List MonthNameStmt → Str → Str × Bool
  | [], _ => ([], true)
  | .failIfNoMatch :: r, n => if st.parts.isNone then ([], true) else runMonthName st r n
  | .lowerGroup :: r, _ => runMonthName st r (lowerStr (st.grp .month))
  | .returnCleanSpace :: _, n => (cleanSpace n, false)
  | .bad :: _, _ => ([], true)

/-- the statements of `parseDateParts` in order; `months` is the translated table, `mn` the
    translated body of `parseMonthName` -/
def run (months : List (Str × Nat)) (mn : List MonthNameStmt) : List Stmt → St → PDate
  | [], _ => zeroDate
  | .findSubmatch :: r, st => run months mn r st
  | .positions _ :: r, st => run months mn r st
  | .monthName :: r, st =>
    let x := runMonthName st mn []
    run months mn r { st with monthName := x.1, err := x.2 }
  | .monthLookup :: r, st =>
    let m := months.lookup st.monthName
    run months mn r { st with month := m.getD 0, monthKnown := m.isSome }
  | .atoi .day g :: r, st => run months mn r { st with day := atoi (st.grp g) }
  | .atoi .year g :: r, st => run months mn r { st with year := atoi (st.grp g) }
  | .calendarCheck layout format args :: r, st =>
    run months mn r { st with err :=
      !((Stmt.calendarCheck layout format args).ok && calendarOK st.day st.month st.year) }
  | .ifReturn c fs :: r, st => if evalCond st c then mkDate st fs zeroDate else run months mn r st
  | .ret fs :: _, st => mkDate st fs zeroDate
  | .bad :: _, _ => zeroDate

/-! ## `Date.Equals` -/

inductive Who | receiver | argument
deriving DecidableEq, Repr

inductive EqualsStmt | falseIfZero (w : Who) | trueIfIs | matrixDecl | returnCell | bad
deriving DecidableEq, Repr

/-- `Date.equalsA` … `Date.equalsD` -/
inductive Cell | a | b | c | d | bad
deriving DecidableEq, Repr

/-- `return leftYears > rightYears` / `<`, left = the method's receiver -/
inductive YearsCmp | receiverGreater | receiverLess
deriving DecidableEq, Repr

def pick (w : Who) (recv arg : PDate) : PDate := match w with | .receiver => recv | .argument => arg

def evalCmp (c : YearsCmp) (x y : PDate) : Bool :=
  match c with
  | .receiverGreater => y.yearsLt x
  | .receiverLess => x.yearsLt y

/-- call the matrix cell as a method value: `cell(x, y)` = `x.cell(y)` -/
def evalCell (cmpB cmpC : YearsCmp) : Cell → PDate → PDate → Bool
  | .a, x, y => x.sameDMY y
  | .b, x, y => evalCmp cmpB x y
  | .c, x, y => evalCmp cmpC x y
  | .d, _, _ => false
  | .bad, _, _ => false

def runEquals (matrix : List (List Cell)) (index : Who × Who × Who × Who) (cmpB cmpC : YearsCmp) :
    List EqualsStmt → PDate → PDate → Bool
  | [], _, _ => false
  | .falseIfZero w :: r, recv, arg =>
    if (pick w recv arg).isZero then false else runEquals matrix index cmpB cmpC r recv arg
  | .trueIfIs :: r, recv, arg =>
    if recv.is arg then true else runEquals matrix index cmpB cmpC r recv arg
  | .matrixDecl :: r, recv, arg => runEquals matrix index cmpB cmpC r recv arg
  | .returnCell :: _, recv, arg =>
    let i := (pick index.1 recv arg).constraint.toNat
    let j := (pick index.2.1 recv arg).constraint.toNat
    let cell := ((matrix[i]?).getD [])[j]?.getD .bad
    evalCell cmpB cmpC cell (pick index.2.2.1 recv arg) (pick index.2.2.2 recv arg)
  | .bad :: _, _, _ => false

end Gedcom.DateLogic
