/-
  Target language of the translator harness/extract_similaritysrc.go (C12): the arithmetic of the
  similarity scores as the Go source writes it — straight-line functions made of local
  definitions (inlined by the translator), `if a ⋈ b { return v }` guards in source order, an
  optional "either operand is nil" guard, and a returned expression — interpreted over `Rat`.
  `.bad` marks anything outside the fragment; obligations in Props/C12Src.lean reject it.
-/
namespace Gedcom.SimSrc

/-- the operands the formulas are written over -/
inductive Var
  | name | birth | death | ratio                       -- IndividualNode.Similarity
  | ind | par | spo | chi | wInd | wPar | wSpo | wChi  -- WeightedSimilarity
  | left | right | maxYears                            -- DateRange.Similarity
  | inner                                              -- the delegated call of a wrapper
  | j | boost | pm                                     -- JaroWinkler
deriving DecidableEq, Repr

inductive AExp
  | var (v : Var)
  | lit (num den : Nat)
  | add (a b : AExp) | sub (a b : AExp) | mul (a b : AExp) | div (a b : AExp)
  | pow2 (a : AExp)            -- math.Pow(a, 2)
  | bad
deriving DecidableEq, Repr

inductive Cmp | lt | le | gt | ge
deriving DecidableEq, Repr

/-- `if l c r { return v }` -/
structure Guard where
  c : Cmp
  l : AExp
  r : AExp
  v : AExp
deriving DecidableEq, Repr

structure Fn where
  /-- the kinds of the statements of the body, in order -/
  shape : List String
  /-- `if a == nil || b == nil { return v }` as first statement -/
  nilValue : Option AExp
  guards : List Guard
  final : AExp
deriving DecidableEq, Repr

def AExp.ok : AExp → Bool
  | .var _ | .lit _ _ => true
  | .add a b | .sub a b | .mul a b | .div a b => a.ok && b.ok
  | .pow2 a => a.ok
  | .bad => false

def Fn.ok (f : Fn) : Bool :=
  !f.shape.contains "bad" && f.final.ok && f.guards.all (fun g => g.l.ok && g.r.ok && g.v.ok) &&
  (match f.nilValue with | some v => v.ok | none => true)

def AExp.eval (env : Var → Rat) : AExp → Rat
  | .var v => env v
  | .lit n d => (n : Rat) / (d : Rat)
  | .add a b => a.eval env + b.eval env
  | .sub a b => a.eval env - b.eval env
  | .mul a b => a.eval env * b.eval env
  | .div a b => a.eval env / b.eval env
  | .pow2 a => a.eval env * a.eval env
  | .bad => 0

def Cmp.holds (c : Cmp) (x y : Rat) : Bool :=
  match c with
  | .lt => decide (x < y) | .le => decide (x ≤ y) | .gt => decide (x > y) | .ge => decide (x ≥ y)

def Guard.fires (env : Var → Rat) (g : Guard) : Bool := g.c.holds (g.l.eval env) (g.r.eval env)

/-- the value of the function when no operand is nil: the first guard that fires, else the
    returned expression -/
def Fn.eval (env : Var → Rat) (f : Fn) : Rat :=
  match f.guards.find? (Guard.fires env) with
  | some g => g.v.eval env
  | none => f.final.eval env

/-- the value when an operand is nil (`none`: the function has no such guard) -/
def Fn.nilEval (env : Var → Rat) (f : Fn) : Option Rat := f.nilValue.map (·.eval env)

end Gedcom.SimSrc
