/-
  C18 — page assembly inside the model: *component programs*.

  A `Prog` is what the `WriteHTMLTo` body of a page component of package `html` builds, as a term
  over the `html/core` algebra (`Gedcom.Html.Comp`) with *holes*:
    * string holes  — every string expression that is not a literal of the source (file content
      flows through these): `SExp.hole i`;
    * control holes — ints (counts, `core.NewNumber`), bools (the `if … { return … }` guards),
      child components (`kid`: a component built by another constructor of package html, or a
      component-typed field) and slices of child components (`kids`: the `for … { xs = append(xs,
      NewX(…)) }` loops);
    * raw holes     — a non-literal that reaches a raw sink (`core.NewHTML`, the Google Analytics
      id of `core.NewPage`): identified by the call id of `Generated.sinkCalls`; a program is only
      accepted (`progOk`) when that id is on `rawSinkAllowList`.
  The type has no way to put a string hole into a raw sink (tag name, attribute name, raw HTML,
  class of a cell/table): there the translator must find a literal.
  The programs themselves are regenerated from the source (`Generated.Pages`, go/ast).
  Core Lean only.
-/
import Gedcom.Model.Html
import Gedcom.Model.HtmlSinks
namespace Gedcom.Html

/-- assignment of values to the holes of a program -/
structure Env where
  strs : List Str := []
  ints : List Int := []
  bools : List Bool := []
  kids : List Comp := []
  lists : List (List Comp) := []
  raws : List (Nat × Str) := []     -- raw holes by call id
  ga : Str := []                    -- the -google-analytics-id option
deriving Repr, Inhabited

inductive IExp
  | lit (n : Int)
  | hole (i : Nat)
deriving Repr, Inhabited

inductive SExp
  | lit (s : Str)
  | hole (i : Nat)
  | cat (a b : SExp)
  | itoa (n : IExp)
deriving Repr, Inhabited

/-- what reaches a raw sink: a literal of the source, or an allow-listed expression (call id) -/
inductive RExp
  | lit (s : Str)
  | hole (id : Nat)
deriving Repr, Inhabited

inductive Prog
  | nil
  | seq (a b : Prog)
  | kid (i : Nat)                         -- a child component (opaque here; a program of its own)
  | kids (i : Nat)                        -- a slice of child components
  | cond (b : Nat) (t e : Prog)           -- `if <bool hole b> { return t } … e`
  | text (s : SExp)                       -- core.NewText
  | raw (r : RExp)                        -- core.NewHTML / writeString
  | anchor (s : SExp)                     -- core.NewAnchor
  | tableHead (cols : List SExp)          -- core.NewTableHead
  | number (n : IExp)                     -- core.NewNumber
  | tag (name : Str) (attrs : List (Str × SExp)) (body : Prog)   -- core.NewTag, attrs sorted by name
  | cell (hdr : Bool) (cls : Str) (noWrap : Bool) (style : Str) (body : Prog)  -- core.NewTableCell
  | table (cls : Str) (body : Prog)       -- core.NewTable
  | tableRow (body : Prog)                -- core.NewTableRow
  | row (body : Prog)                     -- core.NewRow
  | page (title : SExp) (ga : Option Nat) (body : Prog)   -- core.NewPage; `some id`: the GA option
deriving Repr, Inhabited

def evalI (ρ : Env) : IExp → Int
  | .lit n => n
  | .hole i => ρ.ints.getD i 0

def evalS (ρ : Env) : SExp → Str
  | .lit s => s
  | .hole i => ρ.strs.getD i []
  | .cat a b => evalS ρ a ++ evalS ρ b
  | .itoa n => itoa (evalI ρ n)

def lookupRaw (raws : List (Nat × Str)) (id : Nat) : Str :=
  match raws.lookup id with
  | some v => v
  | none => []

def evalR (ρ : Env) : RExp → Str
  | .lit s => s
  | .hole id => lookupRaw ρ.raws id

def evalKV (ρ : Env) (kv : Str × SExp) : Str × Str := (kv.1, evalS ρ kv.2)

/-- the component tree the program builds under an assignment -/
def eval (ρ : Env) : Prog → Comp
  | .nil => .nil
  | .seq a b => .seq (eval ρ a) (eval ρ b)
  | .kid i => ρ.kids.getD i .nil
  | .kids i => seqs (ρ.lists.getD i [])
  | .cond b t e => if ρ.bools.getD b false then eval ρ t else eval ρ e
  | .text s => .text (evalS ρ s)
  | .raw r => .raw (evalR ρ r)
  | .anchor s => .anchor (evalS ρ s)
  | .tableHead cols => .tableHead (cols.map (evalS ρ))
  | .number n => .number (evalI ρ n)
  | .tag name attrs body => mkTag name (attrs.map (evalKV ρ)) (eval ρ body)
  | .cell h c w s body => .tableCell h c w s (eval ρ body)
  | .table c body => .table c (eval ρ body)
  | .tableRow body => .tableRow (eval ρ body)
  | .row body => .row (eval ρ body)
  | .page t g body => mkPage (evalS ρ t) (eval ρ body) (match g with | some _ => ρ.ga | none => [])

/-! ## The composite constructors of html/core as program builders (same trees as `Html.div` …) -/

namespace Prog
def seqs : List Prog → Prog
  | [] => .nil
  | c :: cs => .seq c (seqs cs)
def div (cls : SExp) (b : Prog) : Prog := .tag (b!"div") [(b!"class", cls)] b
def span (cls : SExp) (b : Prog) : Prog := .tag (b!"span") [(b!"class", cls)] b
def heading (n : Int) (cls : SExp) (b : Prog) : Prog := .tag (b!"h" ++ itoa n) [(b!"class", cls)] b
def column (w : Int) (b : Prog) : Prog := div (.lit (b!"col-" ++ itoa w)) b
def badgePill (color cls : SExp) (v : Prog) : Prog :=
  span (.cat (.lit b!"badge badge-pill badge-") (.cat color (.cat (.lit b!" ") cls))) v
def countBadge (n : IExp) : Prog := badgePill (.lit b!"light") (.lit []) (.number n)
def bigTitle (size : Int) (t : Prog) : Prog := .row (column 12 (heading size (.lit b!"text-center") t))
def cardNoCount (title body : Prog) : Prog :=
  div (.lit b!"card") (.seq (heading 5 (.lit b!"card-header") title) (.seq body .nil))
def cardCount (title : Prog) (count : IExp) (body : Prog) : Prog :=
  div (.lit b!"card") (.seq (heading 5 (.lit b!"card-header")
    (.seq title (.seq (badgePill (.lit b!"secondary") (.lit b!"float-right") (.text (.itoa count))) .nil)))
    (.seq body .nil))
def empty : Prog := .raw (.lit b!"&nbsp;")
def lineBreak : Prog := .raw (.lit b!"<br/>")
def horizontalRule : Prog := .raw (.lit b!"<hr/>")
def horizontalRuleRow : Prog := .row (column 12 horizontalRule)
def space : Prog := .row (column 12 (.raw (.lit b!"&nbsp;")))
def link (body : Prog) (dest style : SExp) : Prog := .tag (b!"a") [(b!"href", dest), (b!"style", style)] body
def keyedRow (title : SExp) (v : Prog) : Prog :=
  seqs [.tableRow (seqs [.cell true [] false [] (.text title), .cell false [] false [] v])]
def lines : List Prog → Prog
  | [] => .nil
  | [c] => .seq c .nil
  | c :: cs => .seq c (.seq lineBreak (lines cs))
def navAnchor (active : Bool) (href : SExp) (body : Prog) : Prog :=
  .tag (b!"li") [(b!"class", .lit b!"nav-item")]
    (.tag (b!"a") [(b!"class", .lit (b!"nav-link " ++ (if active then b!"active" else []))), (b!"href", href)] body)
def navPills (links : Prog) : Prog := .tag (b!"ul") [(b!"class", .lit b!"nav nav-pills nav-fill")] links
def navPillsRow (links : Prog) : Prog := .row (column 12 (div (.lit []) (navPills links)))
def navTabs (items : Prog) : Prog := .row (column 12 (.tag (b!"ul") [(b!"class", .lit b!"nav nav-tabs")] items))
def octicon (name style : SExp) : Prog :=
  .tag (b!"span") [(b!"class", .cat (.lit b!"Octicon Octicon-") name), (b!"style", style)] (.text (.lit []))
end Prog

/-! ## The obligation on a program (decidable, never looks at an assignment) -/

def subs {α : Type} : List α → List (List α)
  | [] => [[]]
  | a :: l => subs l ++ (subs l).map (a :: ·)

def chainLe : List Str → Bool
  | [] => true
  | [_] => true
  | a :: b :: t => strLe a b && chainLe (b :: t)

/-- whichever attributes survive `core.NewTag` dropping the empty ones, the start tag and the end
    tag are complete and fit -/
def tagFits (name : Str) (keys : List Str) : Bool :=
  (subs keys).all fun s => wrapOk (tagOpen name (s.map fun k => (k, []))) (tagClose name)

/-- a non-literal may feed a raw sink when its call is on the allow-list (with a reason), or when
    the regenerated sink map classifies the argument as built from literals of the source only
    (class 0: e.g. the `Sprintf` of integer constants in `PlusSVG`) -/
def allowedRaw (id : Nat) : Bool :=
  (rawSinkAllowList.map (·.1)).contains id || Generated.sinkCalls.any (fun c => c.1 == id && c.2.2 == 0)

/-- the literal bytes of every node form complete fitting tags, the attribute lists are in the
    order `core.Tag` writes them, and every raw hole is on the allow-list -/
def progOk : Prog → Bool
  | .nil => true
  | .seq a b => progOk a && progOk b
  | .kid _ => true
  | .kids _ => true
  | .cond _ t e => progOk t && progOk e
  | .text _ => true
  | .raw (.lit s) => leafOk [lit s]
  | .raw (.hole id) => allowedRaw id
  | .anchor _ => true
  | .tableHead _ => true
  | .number _ => true
  | .tag name attrs body => chainLe (attrs.map (·.1)) && tagFits name (attrs.map (·.1)) && progOk body
  | .cell h c w s body => wrapOk (cellOpen h c w s) (cellClose h) && progOk body
  | .table c body => wrapOk (Comp.table c .nil).pre (Comp.table c .nil).post && progOk body
  | .tableRow body => progOk body
  | .row body => progOk body
  | .page _ g body => (match g with | some id => allowedRaw id | none => true) && progOk body

/-- the assumptions on the control holes: child components are trusted themselves (they are
    programs of their own, or execution-only components), raw holes hold inert HTML, the Google
    Analytics id fits its script -/
def envOk (ρ : Env) : Bool :=
  ρ.kids.all trusted && ρ.lists.all (·.all trusted) && ρ.raws.all (fun kv => leafOk [lit kv.2])
  && trusted (mkPage [] .nil ρ.ga)

/-- two assignments that differ only in the *content* of the string holes (an empty string stays
    empty: `core.NewTag` drops an attribute whose value is empty) and in the data inside the
    children -/
def sameCtl (ρ ρ' : Env) : Prop :=
  ρ'.strs.map List.isEmpty = ρ.strs.map List.isEmpty ∧ ρ'.ints = ρ.ints ∧ ρ'.bools = ρ.bools
  ∧ ρ'.kids.map shape = ρ.kids.map shape ∧ ρ'.lists.map (·.map shape) = ρ.lists.map (·.map shape)
  ∧ ρ'.raws = ρ.raws ∧ ρ'.ga = ρ.ga

/-- every non-empty string hole replaced by `x` -/
def blankEnv (ρ : Env) : Env :=
  { ρ with strs := ρ.strs.map fun s => if s.isEmpty then [] else [120] }

end Gedcom.Html
