/-
  Target language of the `Decoder.readLine` translator (harness/extract_readline.go) and its
  meaning: one iteration of the byte loop is a list of clauses in source order; a program of the
  understood shape is `readLine` below with its set of stop bytes; the `Decode` loop calls it
  until the reader reports the end of the input and processes every returned line, including the
  one returned together with the end of input.
-/
import Gedcom.Model.Types
namespace Gedcom.ReadLine
open Gedcom

inductive Clause
  | onErrReturn                      -- the read failed: return the accumulated line and the error
  | onByteStop (bs : List UInt8)     -- the byte is one of `bs`: return the accumulated line
  | appendByte                       -- the byte joins the accumulated line
  | unsupported (what : String)
deriving DecidableEq, Repr

/-- the stop bytes of a program of the understood shape (error check first, then the stop test,
    then the append — any other order or any further clause is not understood) -/
def stops : List Clause → Option (List UInt8)
  | [.onErrReturn, .onByteStop bs, .appendByte] => some bs
  | _ => none

/-- one call: the line, the unread rest, and whether the end of the input was reported -/
def readLine (bs : List UInt8) : Str → Str → Str × Str × Bool
  | [], acc => (acc.reverse, [], true)
  | b :: rest, acc =>
    if bs.contains b then (acc.reverse, rest, false) else readLine bs rest (b :: acc)

/-- the lines the `Decode` loop sees: `readLine` until the end of the input is reported -/
def allLines (bs : List UInt8) : Nat → Str → List Str
  | 0, _ => []
  | fuel + 1, s =>
    match readLine bs s [] with
    | (line, _, true) => [line]
    | (line, rest, false) => line :: allLines bs fuel rest

end Gedcom.ReadLine
