/-
  C13 — a small effect language for the cache-affecting statements of the mutators, and its
  interpretation on the cache model's state.  `Generated/CacheEffects.lean` holds, for every mutator
  of a child list (SimpleNode / FamilyNode / IndividualNode .AddNode/.DeleteNode/.SetNodes) and of the
  root list (Document.DeleteNode/.SetNodes), the statements of its body in source order, translated
  from the Go source by go/ast.  `Props/C13` proves that running these lists is the model's step.
  Core Lean only.
-/
import Gedcom.Model.Cache
namespace Gedcom.CacheEff
open Gedcom Gedcom.Cache

/-- the three mutators of a child list -/
inductive Meth | addNode | deleteNode | setNodes
deriving Repr, DecidableEq

/-- one statement of a mutator's body -/
inductive Eff
  /-- `node.children = append(node.children, n)` -/
  | kidsAppend
  /-- `node.children, didDelete = node.children.deleteNode(n)` -/
  | kidsErase
  /-- `node.children = nodes` -/
  | kidsSet
  /-- `doc.nodes, didDelete = doc.nodes.deleteNode(node)` -/
  | rootsErase
  /-- `doc.nodes = nodes` -/
  | rootsSet
  /-- `doc.nodes = append(doc.nodes, node)` -/
  | rootsAppend
  /-- `pointer := node.Pointer()` (a local read) -/
  | readPointer
  /-- `doc.pointerCache.Store(pointer, node)` -/
  | storePointer
  /-- `if !IsNil(node) {`: what follows runs (the model never hands over nil) -/
  | nilCheck
  /-- `resetNodeCache()` (or the plain assignment it replaced) -/
  | resetNodeCache
  /-- `doc.families = nil` -/
  | clearFamilies
  /-- `doc.buildPointerCache()` -/
  | rebuildPointers
  /-- `familyLinksVersion++` -/
  | bumpLinks
  /-- `node.resetCache()` in a FamilyNode method -/
  | resetOwnFamily
  /-- `node.cachedUniqueIDs = nil` (a cache the model does not have) -/
  | resetUniqueIDs
  /-- mutex operations: no effect on what is remembered -/
  | lock
  | unlock
  /-- `node.SimpleNode.M(…)`: the statements of SimpleNode.M -/
  | super (m : Meth)
  /-- bare `return` -/
  | ret
  /-- a statement outside the fragment (source text kept for the report) -/
  | bad (src : String)
deriving Repr, DecidableEq

/-- the condition a statement is under -/
inductive Guard
  | always
  /-- inside `if didDelete { … }` -/
  | deleted
  /-- inside `if node.document != nil { … }` (a FamilyNode always has a document: `needsDocument`) -/
  | hasDocument
  /-- inside `if pointer != "" { … }` (Document.addPointerToCache) -/
  | hasPointer
  /-- under `switch node.Tag() { case TagFamily: … }` (Document.addPointerToCache) -/
  | isFamily
deriving Repr, DecidableEq

structure GEff where
  g : Guard
  e : Eff
deriving Repr, DecidableEq

def Eff.inFragment : Eff → Bool
  | .bad _ => false
  | _ => true

def inFragment (l : List GEff) : Bool := l.all fun ge => ge.e.inFragment

/-- receiver and arguments of the call -/
structure Ctx where
  /-- the receiver node (node methods) -/
  n : Id
  /-- the node argument: child to add / delete, record to delete -/
  c : Id
  /-- the list argument of SetNodes -/
  ks : List Id

/-- interpreter state: the model state and the local `didDelete` -/
structure Run where
  s : St
  deleted : Bool

def guardHolds (g : Guard) (r : Run) : Bool :=
  match g with
  | .always => true
  | .deleted => r.deleted
  | .hasDocument => true
  -- guards about the record handed to `Document.AddNode`: not part of the child-list / root-list
  -- mutators this interpreter is for (see `runDocAdd`)
  | .hasPointer | .isFamily => false

/-- one statement that is not a delegation -/
def runBase (x : Ctx) (ge : GEff) (r : Run) : Run :=
  if guardHolds ge.g r then
    match ge.e with
    | .kidsAppend => { r with s := { r.s with heap := setKids r.s.heap x.n ((abs r.s).kids x.n ++ [x.c]) } }
    | .kidsErase =>
      { s := { r.s with heap := setKids r.s.heap x.n (((abs r.s).kids x.n).erase x.c) },
        deleted := ((abs r.s).kids x.n).contains x.c }
    | .kidsSet => { r with s := { r.s with heap := setKids r.s.heap x.n x.ks } }
    | .rootsErase => { s := { r.s with roots := r.s.roots.erase x.c }, deleted := r.s.roots.contains x.c }
    | .rootsSet => { r with s := { r.s with roots := x.ks } }
    | .resetNodeCache => { r with s := Cache.resetNodeCache r.s }
    | .clearFamilies => { r with s := { r.s with dfams := none } }
    | .rebuildPointers => { r with s := { r.s with ptrIdx := buildIdx (abs r.s) } }
    | .bumpLinks => { r with s := bumpFamilyLinks r.s }
    | .resetOwnFamily => { r with s := resetFamily x.n r.s }
    | .resetUniqueIDs | .lock | .unlock | .ret | .super _ | .bad _ => r
    | .rootsAppend | .readPointer | .storePointer | .nilCheck => r
  else r

/-- one statement; `sup m` = the statements of `SimpleNode.m` -/
def runOne (sup : Meth → List GEff) (x : Ctx) (r : Run) (ge : GEff) : Run :=
  match ge.e with
  | .super m => if guardHolds ge.g r then (sup m).foldl (fun r e => runBase x e r) r else r
  | _ => runBase x ge r

/-- a whole body, in source order -/
def runBody (sup : Meth → List GEff) (x : Ctx) (l : List GEff) (s : St) : St :=
  (l.foldl (runOne sup x) ⟨s, false⟩).s

/-! ## `Document.AddNode(record)`: the statements of its body (helper `addPointerToCache` inlined) -/

/-- the guards of `Document.AddNode`, about the record `c` being added -/
def docAddGuard (c : Id) (g : Guard) (s : St) : Bool :=
  match g with
  | .always => true
  | .hasPointer => !((abs s).ptr c).isEmpty
  | .isFamily => (abs s).tag c == tFAM
  | .deleted | .hasDocument => false

/-- one statement of `Document.AddNode` on the model state, `c` = the (already allocated) record -/
def docAddStmt (c : Id) (ge : GEff) (s : St) : St :=
  if docAddGuard c ge.g s then
    match ge.e with
    | .rootsAppend => { s with roots := s.roots ++ [c] }
    | .storePointer => { s with ptrIdx := ((abs s).ptr c, c) :: s.ptrIdx }
    | .clearFamilies => { s with dfams := none }
    | .bumpLinks => bumpFamilyLinks s
    | _ => s
  else s

/-- the fragment `Document.AddNode` may use -/
def docAddFragment (l : List GEff) : Bool :=
  l.all fun ge => match ge.e with
    | .rootsAppend | .storePointer | .clearFamilies | .bumpLinks | .lock | .unlock | .readPointer | .nilCheck => true
    | _ => false

def runDocAdd (c : Id) (l : List GEff) (s : St) : St := l.foldl (fun s ge => docAddStmt c ge s) s

/-! ## `DeleteNodesWithTag`: a loop over the children that calls `DeleteNode` -/

/-- what the `for … range` ranges over -/
inductive RangeOver
  /-- a copy of the child list made before the loop: `children := append(Nodes{}, node.Nodes()...)` -/
  | copyOfKids
  /-- `node.Nodes()` itself, the slice the body shrinks in place -/
  | kidsInPlace
  | bad (src : String)
deriving Repr, DecidableEq

inductive LoopTest
  /-- `n.Tag().Is(tag)` -/
  | tagIs
  | bad (src : String)
deriving Repr, DecidableEq

inductive LoopStmt
  /-- `node.DeleteNode(n)` on the loop variable -/
  | deleteNodeCall
  | bad (src : String)
deriving Repr, DecidableEq

structure TagLoop where
  over : RangeOver
  test : LoopTest
  body : List LoopStmt
deriving Repr, DecidableEq

/-- the loop run on the model: for every child `c` of the copy, in order, if its tag is `t` then the
    model's own `n.DeleteNode(c)` step.  Any other shape is outside the fragment. -/
def runTagLoop (fl : Flags) (l : TagLoop) (n : Id) (t : Str) (s : St) : Option St :=
  match l.over, l.test, l.body with
  | .copyOfKids, .tagIs, [.deleteNodeCall] =>
    some (((abs s).kids n).foldl
      (fun u c => if (abs u).tag c == t then (exec fl u (.deleteNode n c)).1 else u) s)
  | _, _, _ => none

/-! ## the version protocol of a cached getter -/

inductive HitCond
  /-- `cached && version == node.document.familyLinksVersion` → `return remembered` -/
  | cachedAndVersionCurrent
  | bad (src : String)
deriving Repr, DecidableEq

inductive StoreVal
  /-- the computed result -/
  | result
  /-- `true` -/
  | yes
  /-- `node.document.familyLinksVersion` -/
  | docVersion
  | bad (src : String)
deriving Repr, DecidableEq

/-- fields read as (cached, version, remembered); the hit test; the deferred stores -/
structure Getter where
  snapshot : List String
  hit : HitCond
  stores : List (String × StoreVal)
deriving Repr, DecidableEq

/-- a remembered answer with its stamp -/
structure Cell (α : Type) where
  cached : Bool
  version : Nat
  value : α

/-- the hit test of the getters -/
def Cell.get {α : Type} (c : Cell α) (docVersion : Nat) : Option α :=
  if c.cached && c.version == docVersion then some c.value else none

/-- the deferred stores of the getters -/
def Cell.store {α : Type} (docVersion : Nat) (v : α) : Cell α := ⟨true, docVersion, v⟩

end Gedcom.CacheEff
