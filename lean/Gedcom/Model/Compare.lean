/-
  `DateRange.Compare` (date_range.go).  The receiver is `[a,b]`, the argument `[c,d]`;
  all four are day numbers (`Date.firstDay` of the start date, `Date.lastDay` of the end
  date), because `compareDatesForLetter` truncates every instant to whole days.
  The 5×5 table and the three verdict predicates are `Generated` (probed from the code).
-/
import Gedcom.Model.Calendar
import Gedcom.Generated.Compare
namespace Gedcom

/-- `compareDatesForLetter(value, start, end)`: the code's test order. -/
def letterOf (v s e : Int) : Letter :=
  if v = s then .e else if v = e then .E else if v < s then .b else if e < v then .A else .a

/-- the start endpoint of the receiver -/
def letterStart (v s e : Int) : Letter := letterOf v s e

/-- the end endpoint of the receiver: an end that coincides with both ends of a
    single-day argument is classified against the argument's end -/
def letterEnd (v s e : Int) : Letter :=
  if letterOf v s e = .e ∧ letterOf v e e = .e then .E else letterOf v s e

def compare (a b c d : Int) : Rel :=
  Generated.compareMatrix (letterStart a c d) (letterEnd b c d)

/-- the converse relation (operands swapped) -/
def conv : Rel → Rel
  | .inside => .outside | .outside => .inside
  | .insideStart => .outsideStart | .outsideStart => .insideStart
  | .insideEnd => .outsideEnd | .outsideEnd => .insideEnd
  | .partiallyBefore => .partiallyAfter | .partiallyAfter => .partiallyBefore
  | .before => .after | .after => .before
  | .entirelyBefore => .entirelyAfter | .entirelyAfter => .entirelyBefore
  | .equal => .equal | .invalid => .invalid

/-- The documentation's diagram (date_range_comparison.go) as endpoint inequalities.
    `x = [a,b]` is the receiver, `[c,d]` the argument that frames the picture
    (this is how `TestDateRange_Compare` reads it: `dr.Compare(base)`).
    For single-day ranges several rows coincide; the order of the tests below is the
    tie-break, and each answer still satisfies its row's inequalities in weak form. -/
def documentedRel (a b c d : Int) : Rel :=
  if a = c ∧ b = d then .equal
  else if a = c then (if b < d then .insideStart else .outsideStart)
  else if b = d then (if c < a then .insideEnd else .outsideEnd)
  else if a < c then
    (if b < c then .entirelyBefore else if b = c then .before
     else if b < d then .partiallyBefore else .outside)
  else -- c < a
    (if d < a then .entirelyAfter else if a = d then .after
     else if b < d then .inside else .partiallyAfter)

/-- `DateRange.Compare` on dates -/
def compareDates (s1 e1 s2 e2 : Date) : Rel :=
  compare s1.firstDay e1.lastDay s2.firstDay e2.lastDay

end Gedcom
