/-
  C14, round 4: partial operations of the *root package* that have no local syntactic guard in the
  function that performs them (harness/c14ops.go lists them), modelled with the operation as an
  explicit panic outcome, so that "the command does not crash here" is a theorem about the
  invariant that protects the site and not an observation.

    * maxInt64 / maxInt (util.go) and their users `notifierStep`, `ConcurrentJobs`
      (individual_nodes_compare_options.go): `values[0]`, `values[i]`
    * the progress tick of `collectResults` (individual_nodes.go): `done % o.notifierStep()`
    * `MultipleSexesWarning.String` (multiple_sexes_warning.go): `sexes[:len(sexes)-1]`,
      `sexes[len(sexes)-1]`, protected by `len(sexes) > 1` in `multipleSexesWarnings`
    * `NameNode.GivenName/Surname/Suffix` (name_node.go): `node.parts()[1|2|3]` on the result of
      `nameRegexp.FindStringSubmatch`, protected by "the pattern matches every string"
    * `PlaceNode.JurisdictionalEntities` (place_node.go): `placeParts[0..3]`
    * `Date.String` (date.go): `date.Month.String()[:3]`

  Core Lean only.  Everything here is executed by the driver (Driver/Handlers/Totality.lean).
-/
import Gedcom.Model.Resolve
namespace Gedcom.Totality
open Gedcom

/-- where a Go panic can originate in this layer -/
inductive Op
  | maxFirst | maxNext        -- util.go maxInt64/maxInt: values[0], values[i]
  | progressMod               -- individual_nodes.go collectResults: done % o.notifierStep()
  | sexesInit | sexesLast     -- multiple_sexes_warning.go: sexes[:len(sexes)-1], sexes[len(sexes)-1]
  | namePart                  -- name_node.go: node.parts()[k]
  | surnameSlice              -- name_node.go: lastName[1 : lastNameLength-1]
  | placePart                 -- place_node.go: placeParts[k]
  | monthAbbrev               -- date.go: date.Month.String()[:3]
deriving DecidableEq, Repr, Inhabited

def Op.name : Op → String
  | .maxFirst => "maxFirst" | .maxNext => "maxNext" | .progressMod => "progressMod"
  | .sexesInit => "sexesInit" | .sexesLast => "sexesLast" | .namePart => "namePart"
  | .surnameSlice => "surnameSlice"
  | .placePart => "placePart" | .monthAbbrev => "monthAbbrev"

/-- result of a Go call: a value or a run-time panic at a site -/
inductive R (α : Type) where
  | ok (a : α)
  | panic (o : Op)
deriving Repr, DecidableEq

namespace R
def bind {α β} : R α → (α → R β) → R β
  | ok a, f => f a
  | panic o, _ => panic o
def map {α β} (f : α → β) : R α → R β
  | ok a => ok (f a)
  | panic o => panic o
def isOk {α} : R α → Bool
  | ok _ => true
  | panic _ => false
end R

/-! ## the partial primitives -/

/-- `xs[i]` with a Go `int` index -/
def idx {α} (op : Op) (xs : List α) (i : Int) : R α :=
  if i < 0 then .panic op else
  match xs[i.toNat]? with
  | some a => .ok a
  | none => .panic op

/-- `xs[:hi]` -/
def sliceTo {α} (op : Op) (xs : List α) (hi : Int) : R (List α) :=
  if 0 ≤ hi ∧ hi ≤ (xs.length : Int) then .ok (xs.take hi.toNat) else .panic op

/-- `xs[lo:hi]` -/
def sliceMid {α} (op : Op) (xs : List α) (lo hi : Int) : R (List α) :=
  if 0 ≤ lo ∧ lo ≤ hi ∧ hi ≤ (xs.length : Int) then .ok ((xs.drop lo.toNat).take (hi.toNat - lo.toNat)) else .panic op

/-- `a % b` on Go integers (truncated; panics on a zero divisor) -/
def modOp (op : Op) (a b : Int) : R Int :=
  if b = 0 then .panic op else .ok (a.tmod b)

/-! ## maxInt64 / maxInt, notifierStep, ConcurrentJobs -/

/-- `for i := 1; i < valuesLen; i++ { if values[i] > r { r = values[i] } }` -/
def maxLoop (xs : List Int) : (fuel : Nat) → (i : Nat) → (r : Int) → R Int
  | 0, _, r => .ok r
  | f + 1, i, r =>
    if i < xs.length then
      (idx .maxNext xs i).bind fun v => maxLoop xs f (i + 1) (if v > r then v else r)
    else .ok r

/-- `maxInt64(values...)` / `maxInt(values...)`: zero for no values (the guard is in the function) -/
def maxOf (xs : List Int) : R Int :=
  if xs.length == 0 then .ok 0
  else (idx .maxFirst xs 0).bind fun r => maxLoop xs xs.length 1 r

/-- `o.notifierStep()` = `maxInt64(o.NotifierStep, 1)` -/
def notifierStep (n : Int) : R Int := maxOf [n, 1]
/-- `o.ConcurrentJobs()` = `maxInt(o.Jobs, 1)` -/
def concurrentJobs (n : Int) : R Int := maxOf [n, 1]

/-- the loop of `collectResults` over `results` comparison results: the `Done` values that are
    notified before the final message (`if done%o.notifierStep() == 0 { notify }; done++`) -/
def progressLoop (step : Int) : (results : Nat) → (done : Nat) → R (List Nat)
  | 0, _ => .ok []
  | f + 1, done =>
    (notifierStep step).bind fun s =>
    (modOp .progressMod done s).bind fun m =>
    (progressLoop step f (done + 1)).bind fun rest =>
    .ok (if m == 0 then done :: rest else rest)

def progressDones (step : Int) (results : Nat) : R (List Nat) := progressLoop step results 0

/-! ## MultipleSexesWarning -/

/-- `multipleSexesWarnings`: a warning only for more than one SEX node -/
def multipleSexesWarnings {α} (sexes : List α) : Option (List α) :=
  if sexes.length > 1 then some sexes else none

/-- `MultipleSexesWarning.String`: all but the last, and the last -/
def sexesString {α} (sexes : List α) : R (List α × α) :=
  (sliceTo .sexesInit sexes ((sexes.length : Int) - 1)).bind fun init =>
  (idx .sexesLast sexes ((sexes.length : Int) - 1)).bind fun last =>
  .ok (init, last)

/-- what `IndividualNode.Warnings()` followed by `String()` on each warning does with the SEX nodes -/
def sexesSentence {α} (sexes : List α) : R (Option (List α × α)) :=
  match multipleSexesWarnings sexes with
  | none => .ok none
  | some s => (sexesString s).map some

/-! ## NameNode.parts -/

/-- `nameRegexp.FindStringSubmatch(v)` for `([^/]*)(/[^/]*/)?(.*)`: the pattern is unanchored and
    every part is optional, so the leftmost match starts at 0 and always exists: group 1 is the
    slash-free prefix, group 2 the first `/…/` (Resolve.surnameGroup), group 3 the rest of the line
    (`.` stops at a line feed). -/
def nameParts (v : Str) : List Str :=
  let g1 := v.takeWhile (· != 47)
  let g2 := Resolve.surnameGroup v
  let g3 := ((v.dropWhile (· != 47)).drop g2.length).takeWhile (· != 10)
  [g1 ++ g2 ++ g3, g1, g2, g3]

/-- `NameNode.GivenName()` without a GIVN child -/
def givenNameFallback (v : Str) : R Str := (idx .namePart (nameParts v) 1).map Resolve.cleanSpace
/-- the group that `NameNode.Surname()` reads without a SURN child -/
def surnameGroupPart (v : Str) : R Str := idx .namePart (nameParts v) 2
/-- `NameNode.Surname()` without a SURN child: the group without its slashes (as Resolve.surnameOf) -/
def surnameFallback (v : Str) : R Str :=
  (surnameGroupPart v).map fun g =>
    let last := Resolve.cleanSpace g
    if last.isEmpty then [] else (last.drop 1).take (last.length - 2)
/-- `NameNode.Surname()` without a SURN child, with the slice as the code has it:
    `lastName[1 : lastNameLength-1]` after the `lastName == ""` exit -/
def surnameSliced (v : Str) : R Str :=
  (surnameGroupPart v).bind fun g =>
    let last := Resolve.cleanSpace g
    if last.isEmpty then .ok [] else sliceMid .surnameSlice last 1 ((last.length : Int) - 1)
/-- `NameNode.Suffix()` without an NSFX child -/
def suffixFallback (v : Str) : R Str := (idx .namePart (nameParts v) 3).map Resolve.cleanSpace

/-! ## PlaceNode.JurisdictionalEntities -/

/-- `strings.Split(s, ",")` -/
def splitComma : Str → List Str
  | [] => [[]]
  | b :: r =>
    if b == 44 then [] :: splitComma r
    else match splitComma r with
      | [] => [[b]]
      | p :: ps => (b :: p) :: ps

/-- name, county, state, country -/
def jurisdictionalEntities (name : Str) : R (List Str) :=
  let parts := splitComma name
  let parts := if parts.length != 4 then [name, [], [], []] else parts
  (idx .placePart parts 0).bind fun a =>
  (idx .placePart parts 1).bind fun b =>
  (idx .placePart parts 2).bind fun c =>
  (idx .placePart parts 3).bind fun d =>
  .ok [Resolve.trimSpace a, Resolve.trimSpace b, Resolve.trimSpace c, Resolve.trimSpace d]

/-! ## Date.String: the month abbreviation -/

def monthName : Nat → Option String
  | 1 => some "January" | 2 => some "February" | 3 => some "March" | 4 => some "April"
  | 5 => some "May" | 6 => some "June" | 7 => some "July" | 8 => some "August"
  | 9 => some "September" | 10 => some "October" | 11 => some "November" | 12 => some "December"
  | _ => none

/-- `time.Month.String()`: a name for 1..12, `%!Month(n)` otherwise -/
def monthChars (m : Int) : List Char :=
  match (if 0 ≤ m then monthName m.toNat else none) with
  | some s => s.toList
  | none => "%!Month(".toList ++ (toString m).toList ++ [')']

/-- the month part of `Date.String()`: empty for month 0, the first three bytes of the name otherwise -/
def monthAbbrev (m : Int) : R (List Char) :=
  if m = 0 then .ok [] else sliceTo .monthAbbrev (monthChars m) 3

end Gedcom.Totality
