/-
  C18 — the `html/core` component algebra, its rendering to bytes, and a page tokenizer.

  * `Comp` has one constructor per *primitive* Go component (the ones that write bytes
    themselves); the composite Go components (`Div`, `Card`, `NavItem`, …) are functions that
    build the same tree their `WriteHTMLTo` builds.
  * Rendering goes through *pieces*: literal bytes of the component (format strings — the
    regenerated `Generated.*` literals) and data values with the encoder the code applies to
    them.  The per-byte tables of the encoders are regenerated from the code on every run
    (`Generated.textEscTable`, `anchorEscTable`, `headEscTable`, `attrEscTable`, …): a sink
    that stops escaping shows up as a changed table.
  * `lexHtml` / `wellNested` tokenize a page (tags, attributes, quoted values, comments,
    script raw text, void and self-closing elements) and check nesting with a stack.
  Core Lean only.
-/
import Gedcom.Model.Types
import Gedcom.Generated.Html
namespace Gedcom.Html
open Gedcom

/-! ## Byte helpers -/

def isPrefix : Str → Str → Bool
  | [], _ => true
  | _ :: _, [] => false
  | a :: as, b :: bs => a == b && isPrefix as bs

/-- Go's `strings.Replace(s, old, new, -1)` for non-empty `old`: leftmost, non-overlapping.
    `skip` counts the bytes of a match still to be dropped (structural recursion on `s`). -/
def replaceGo (old new : Str) : Nat → Str → Str
  | _, [] => []
  | k+1, _ :: t => replaceGo old new k t
  | 0, b :: t =>
    if isPrefix old (b :: t) then new ++ replaceGo old new (old.length - 1) t
    else b :: replaceGo old new 0 t

def replaceAll (old new s : Str) : Str := if old.isEmpty then s else replaceGo old new 0 s

/-- per-byte encoder given by a table of the bytes that are *not* copied -/
def escByte (tbl : List (UInt8 × Str)) (b : UInt8) : Str :=
  match tbl.lookup b with
  | some e => e
  | none => [b]

def escWith (tbl : List (UInt8 × Str)) (s : Str) : Str := s.flatMap (escByte tbl)

/-- `html.EscapeString` as `core.Anchor`/`core.TableHead` use it (pure per-byte table) -/
def escapeString (s : Str) : Str := escWith Generated.headEscTable s

/-- `core.Text`: `&nbsp;` survives — it is swapped for a marker, the rest is escaped, and the
    marker is swapped back (so the marker itself also turns into `&nbsp;`). -/
def renderText (s : Str) : Str :=
  let s1 := replaceAll Generated.textReplaceBefore.1 Generated.textReplaceBefore.2 s
  let s2 := escWith Generated.textEscTable s1
  replaceAll Generated.textReplaceAfter.1 Generated.textReplaceAfter.2 s2

/-- the encoders the code applies to data before it reaches a sink -/
inductive Enc
  | text        -- core.Text
  | head        -- core.TableHead column
  | anchor      -- core.Anchor name
  | attr        -- core.Tag attribute value
deriving DecidableEq, Repr

def encode : Enc → Str → Str
  | .text, s => renderText s
  | .head, s => escWith Generated.headEscTable s
  | .anchor, s => escWith Generated.anchorEscTable s
  | .attr, s => escWith Generated.attrEscTable s

/-- raw sinks: the value is written as the code writes it (today: copied) and is *not* data for
    the theorems — `trusted` inspects it -/
def rawCellClass (s : Str) : Str := escWith Generated.cellAttrEscTable s
def rawCellStyle (s : Str) : Str := escWith Generated.cellStyleEscTable s
def rawTableClass (s : Str) : Str := escWith Generated.tableClassEscTable s
def rawGaId (s : Str) : Str := escWith Generated.gaEscTable s

/-! ## Pieces -/

inductive Piece
  | lit (s : Str)                -- bytes written by the code itself
  | data (e : Enc) (v : Str)     -- a value, after the encoder of its sink
deriving Repr

def lit (s : Str) : Piece := .lit s

def Piece.bytes : Piece → Str
  | .lit s => s
  | .data e v => encode e v

def flat (ps : List Piece) : Str := ps.flatMap Piece.bytes

/-- `fmt.Sprintf` for formats that only use `%s`/`%d` (argument already printed) and `%%` -/
def fmtPieces : Str → List Piece → List Piece
  | [], _ => []
  | [b], _ => [.lit [b]]
  | b :: c :: t, args =>
    if b == 37 then
      if c == 37 then .lit [37] :: fmtPieces t args
      else match args with
        | a :: rest => a :: fmtPieces t rest
        | [] => .lit [37, 33] :: fmtPieces t []          -- %!s(MISSING): never happens
    else .lit [b] :: fmtPieces (c :: t) args

/-! ## Decimal numbers -/

def digitChar (d : Nat) : UInt8 := [48, 49, 50, 51, 52, 53, 54, 55, 56, 57].getD d 48

def natToDecF : Nat → Nat → Str
  | 0, _ => []
  | f+1, n => if n < 10 then [digitChar n] else natToDecF f (n / 10) ++ [digitChar (n % 10)]

/-- decimal digits of `n` (`strconv.Itoa` for naturals) -/
def natToDec (n : Nat) : Str := natToDecF (n + 1) n

/-- thousands separators from the right (`message.NewPrinter(language.English)`, `%d`) -/
def groupRev : Str → Str
  | a :: b :: c :: d :: t => a :: b :: c :: 44 :: groupRev (d :: t)
  | l => l

def renderNumber (n : Int) : Str :=
  let body := (groupRev (natToDec n.natAbs).reverse).reverse
  if n < 0 then 45 :: body else body

def itoa (n : Int) : Str := if n < 0 then 45 :: natToDec n.natAbs else natToDec n.natAbs

/-! ## Components -/

/-- Primitive components.  Sequences are binary (`nil`/`seq`) so that the type is not nested. -/
inductive Comp
  | nil                                                   -- nothing / writeNothing()
  | seq (a b : Comp)                                      -- Components
  | text (s : Str)                                        -- core.Text
  | raw (s : Str)                                         -- core.HTML and literal writes
  | tag (name : Str) (attrs : List (Str × Str)) (body : Comp)   -- core.Tag (attrs sorted, non-empty)
  | anchor (name : Str)                                   -- core.Anchor
  | tableHead (cols : List Str)                           -- core.TableHead
  | tableCell (hdr : Bool) (cls : Str) (noWrap : Bool) (style : Str) (body : Comp)
  | table (cls : Str) (body : Comp)                       -- core.Table
  | tableRow (body : Comp)                                -- core.TableRow
  | row (body : Comp)                                     -- core.Row
  | number (n : Int)                                      -- core.Number
  | ga (id : Str)                                         -- core.GoogleAnalytics
  | page (title ga : Str) (body footer : Comp)            -- core.Page
deriving Repr, Inhabited

/-- one attribute of `core.Tag`: ` name="value"` (the value goes through the attribute encoder) -/
def attrPieces (kv : Str × Str) : List Piece :=
  [lit [32], lit kv.1, lit [61, 34], .data .attr kv.2, lit [34]]

/-- start tag of `core.Tag`: `<name k="v" …>` — the Go code builds `" " + k="v" + " " …` and trims
    the spaces on the right, which is one space before every attribute -/
def tagOpen (name : Str) (attrs : List (Str × Str)) : List Piece :=
  [lit [60], lit name] ++ attrs.flatMap attrPieces ++ [lit [62]]

def tagClose (name : Str) : List Piece := [lit [60, 47], lit name, lit [62]]

def cellTag (hdr : Bool) : Str := if hdr then Generated.cellTagTh else Generated.cellTagTd

def cellOpen (hdr : Bool) (cls : Str) (noWrap : Bool) (style : Str) : List Piece :=
  fmtPieces Generated.cellOpenFmt [lit (cellTag hdr)]
  ++ (if cls.isEmpty then [] else fmtPieces Generated.cellClassFmt [lit (rawCellClass cls)])
  ++ (if noWrap then [lit Generated.cellNoWrap] else [])
  ++ (if style.isEmpty then [] else fmtPieces Generated.cellStyleFmt [lit (rawCellStyle style)])
  ++ [lit Generated.cellOpenEnd]

def cellClose (hdr : Bool) : List Piece := fmtPieces Generated.cellCloseFmt [lit (cellTag hdr)]

def gaPieces (id : Str) : List Piece :=
  if id.isEmpty then [] else fmtPieces Generated.gaFmt [lit (rawGaId id), lit (rawGaId id)]

def Comp.pre : Comp → List Piece
  | .tag n a _ => tagOpen n a
  | .tableCell h c w s _ => cellOpen h c w s
  | .table c _ => fmtPieces Generated.tableOpenFmt [lit (rawTableClass c)]
  | .tableRow _ => [lit Generated.trOpen]
  | .row _ => [lit Generated.rowOpen]
  | .page t g _ _ => [lit Generated.pageHead] ++ gaPieces g
      ++ tagOpen Generated.pageTitleTag [] ++ [.data .text t] ++ tagClose Generated.pageTitleTag
      ++ [lit Generated.pageMid]
  | _ => []

def Comp.post : Comp → List Piece
  | .tag n _ _ => tagClose n
  | .tableCell h _ _ _ _ => cellClose h
  | .table _ _ => [lit Generated.tableClose]
  | .tableRow _ => [lit Generated.trClose]
  | .row _ => [lit Generated.rowClose]
  | .page _ _ _ _ => [lit Generated.pageTail]
  | _ => []

def headPieces (cols : List Str) : List Piece :=
  [lit Generated.headPre] ++ cols.flatMap (fun c => fmtPieces Generated.headCellFmt [.data .head c])
  ++ [lit Generated.headPost]

/-- the pieces a component writes, in order -/
def pieces : Comp → List Piece
  | .nil => []
  | .seq a b => pieces a ++ pieces b
  | .text s => [.data .text s]
  | .raw s => [lit s]
  | .anchor n => fmtPieces Generated.anchorFmt [.data .anchor n]
  | .tableHead cols => headPieces cols
  | .number n => [lit (renderNumber n)]
  | .ga id => gaPieces id
  | c@(.tag _ _ b) => c.pre ++ pieces b ++ c.post
  | c@(.tableCell _ _ _ _ b) => c.pre ++ pieces b ++ c.post
  | c@(.table _ b) => c.pre ++ pieces b ++ c.post
  | c@(.tableRow b) => c.pre ++ pieces b ++ c.post
  | c@(.row b) => c.pre ++ pieces b ++ c.post
  | c@(.page _ _ b f) => c.pre ++ pieces b ++ pieces f ++ c.post

/-- the bytes `WriteHTMLTo` writes -/
def render (c : Comp) : Str := flat (pieces c)

/-! ## Composite components (what their `WriteHTMLTo` builds) -/

def seqs : List Comp → Comp
  | [] => .nil
  | c :: cs => .seq c (seqs cs)

def strLe : Str → Str → Bool
  | [], _ => true
  | _ :: _, [] => false
  | a :: as, b :: bs => a < b || (a == b && strLe as bs)

/-- `core.NewTag`: attributes come from a Go map — sorted by name, empty values dropped -/
def insertAttr (a : Str × Str) : List (Str × Str) → List (Str × Str)
  | [] => [a]
  | b :: bs => if strLe a.1 b.1 then a :: b :: bs else b :: insertAttr a bs

def sortAttrs (attrs : List (Str × Str)) : List (Str × Str) := attrs.foldr insertAttr []

def mkTag (name : Str) (attrs : List (Str × Str)) (body : Comp) : Comp :=
  .tag name ((sortAttrs attrs).filter (fun a => !a.2.isEmpty)) body

open Lean in
/-- `b!"abc"` is the byte list of the literal, written out as numerals (kernel-friendly) -/
macro:max "b!" s:str : term => do
  let elems := s.getString.toUTF8.toList.map fun b => Syntax.mkNumLit (toString b.toNat)
  `(([$(elems.toArray),*] : Str))

def div (cls : Str) (b : Comp) : Comp := mkTag (b!"div") [(b!"class", cls)] b
def span (cls : Str) (b : Comp) : Comp := mkTag (b!"span") [(b!"class", cls)] b
def heading (n : Int) (cls : Str) (b : Comp) : Comp := mkTag (b!"h" ++ itoa n) [(b!"class", cls)] b
def column (w : Int) (b : Comp) : Comp := div (b!"col-" ++ itoa w) b
def badgePill (color cls : Str) (v : Comp) : Comp :=
  span (b!"badge badge-pill badge-" ++ color ++ b!" " ++ cls) v
def countBadge (n : Int) : Comp := badgePill (b!"light") [] (.number n)
def bigTitle (size : Int) (t : Comp) : Comp := .row (column 12 (heading size (b!"text-center") t))
def card (title : Comp) (count : Int) (body : Comp) : Comp :=
  let t := if count == -1 then title
           else .seq title (.seq (badgePill (b!"secondary") (b!"float-right") (.text (itoa count))) .nil)
  div (b!"card") (.seq (heading 5 (b!"card-header") t) (.seq body .nil))
def empty : Comp := .raw (b!"&nbsp;")
def lineBreak : Comp := .raw (b!"<br/>")
def horizontalRule : Comp := .raw (b!"<hr/>")
def horizontalRuleRow : Comp := .row (column 12 horizontalRule)
def space : Comp := .row (column 12 (.raw (b!"&nbsp;")))
def link (body : Comp) (dest style : Str) : Comp :=
  mkTag (b!"a") [(b!"style", style), (b!"href", dest)] body
def footerRow : Comp :=
  seqs [horizontalRuleRow,
        .row (column 12 (div (b!"text-center")
          (seqs [.text (b!"Generated with "),
                 link (.text (b!"github.com/elliotchance/gedcom")) (b!"https://github.com/elliotchance/gedcom") []]))),
        space]
def keyedTableRow (title : Str) (visible : Bool) (v : Comp) : Comp :=
  if visible then seqs [.tableRow (seqs [.tableCell true [] false [] (.text title), .tableCell false [] false [] v])]
  else .nil
def lines : List Comp → Comp
  | [] => .nil
  | [c] => .seq c .nil
  | c :: cs => .seq c (.seq lineBreak (lines cs))
def navAnchor (active : Bool) (href : Str) (body : Comp) : Comp :=
  mkTag (b!"li") [(b!"class", b!"nav-item")]
    (mkTag (b!"a") [(b!"class", b!"nav-link " ++ (if active then b!"active" else [])), (b!"href", href)] body)
def navItem (body : Comp) (active : Bool) (href : Str) : Comp := navAnchor active href body
def navLink (text link : Str) (sel : Bool) : Comp := navAnchor sel link (.text text)
def navPills (links : List Comp) : Comp := mkTag (b!"ul") [(b!"class", b!"nav nav-pills nav-fill")] (seqs links)
def navPillsRow (links : List Comp) : Comp := .row (column 12 (div [] (navPills links)))
def navTabs (items : List Comp) : Comp :=
  .row (column 12 (mkTag (b!"ul") [(b!"class", b!"nav nav-tabs")] (seqs items)))
def octicon (name style : Str) : Comp :=
  mkTag (b!"span") [(b!"class", b!"Octicon Octicon-" ++ name), (b!"style", style)] (.text [])
def mkPage (title : Str) (body : Comp) (ga : Str) : Comp := .page title ga body footerRow

/-! ## Tokenizer -/

inductive Tok
  | open (name : Str) (attrs : List Str)
  | close (name : Str)
  | selfClose (name : Str) (attrs : List Str)
  | comment
  | bad
deriving DecidableEq, Repr

/-- what is known about the tag being read -/
structure TagCtx where
  closing : Bool
  name : Str
  attrs : List Str      -- attribute names, most recent first
deriving DecidableEq, Repr

inductive LState
  | data
  | lt                                    -- just after `<`
  | bang (dashes : Nat)                   -- inside `<!…`, number of trailing `-` (capped at 2)
  | tagName (closing : Bool) (acc : Str)  -- reading the tag name (reversed)
  | inTag (c : TagCtx) (slash : Bool)     -- between attributes; `slash`: last byte was `/`
  | attrName (c : TagCtx) (acc : Str)     -- reading an attribute name (reversed)
  | afterEq (c : TagCtx)                  -- after `name=`
  | quoted (c : TagCtx) (q : UInt8)       -- inside a quoted attribute value
  | rawText (e : Str) (m : Nat)           -- raw text of <script> <style> <title> <textarea>;
                                          -- e = the end tag `</name>`, m = matched prefix of it
  | dead                                  -- after a lexical error
deriving DecidableEq, Repr

def lower (b : UInt8) : UInt8 := if 65 ≤ b ∧ b ≤ 90 then b + 32 else b
def isAlpha (b : UInt8) : Bool := (65 ≤ b && b ≤ 90) || (97 ≤ b && b ≤ 122)
def isNameByte (b : UInt8) : Bool := isAlpha b || (48 ≤ b && b ≤ 57) || b == 45 || b == 95 || b == 58
def isSpace (b : UInt8) : Bool := b == 32 || b == 9 || b == 10 || b == 13 || b == 12

/-- elements whose content is raw text (script, style) or escapable raw text (title, textarea):
    no tag is recognised inside them until their own end tag -/
def rawTextNames : List Str :=
  [[115, 99, 114, 105, 112, 116], [115, 116, 121, 108, 101], [116, 105, 116, 108, 101],
   [116, 101, 120, 116, 97, 114, 101, 97]]   -- script style title textarea

def endTagOf (name : Str) : Str := [60, 47] ++ name ++ [62]

/-- the token of a finished tag and the state after it -/
def finishTag (c : TagCtx) (slash : Bool) : LState × List Tok :=
  let attrs := c.attrs.reverse
  if c.closing then
    if attrs.isEmpty && !slash then (.data, [.close c.name]) else (.dead, [.bad])
  else if slash then (.data, [.selfClose c.name attrs])
  else if rawTextNames.contains c.name then (.rawText (endTagOf c.name) 0, [.open c.name attrs])
  else (.data, [.open c.name attrs])

def lexStep : LState → UInt8 → LState × List Tok
  | .data, b => if b == 60 then (.lt, []) else (.data, [])
  | .lt, b =>
    if b == 47 then (.tagName true [], [])
    else if b == 33 then (.bang 0, [])
    else if isAlpha b then (.tagName false [lower b], [])
    else (.dead, [.bad])
  | .bang d, b =>
    if b == 62 && d ≥ 2 then (.data, [.comment])
    else if b == 45 then (.bang (if d ≥ 2 then 2 else d + 1), [])
    else (.bang 0, [])
  | .tagName cl acc, b =>
    if isNameByte b then (.tagName cl (lower b :: acc), [])
    else if acc.isEmpty then (.dead, [.bad])
    else if isSpace b then (.inTag ⟨cl, acc.reverse, []⟩ false, [])
    else if b == 47 then (.inTag ⟨cl, acc.reverse, []⟩ true, [])
    else if b == 62 then finishTag ⟨cl, acc.reverse, []⟩ false
    else (.dead, [.bad])
  | .inTag c slash, b =>
    if isSpace b then (.inTag c false, [])
    else if b == 47 then (.inTag c true, [])
    else if b == 62 then finishTag c slash
    else if isNameByte b then (.attrName c [lower b], [])
    else (.dead, [.bad])
  | .attrName c acc, b =>
    if isNameByte b then (.attrName c (lower b :: acc), [])
    else if b == 61 then (.afterEq ⟨c.closing, c.name, acc.reverse :: c.attrs⟩, [])
    else if isSpace b then (.inTag ⟨c.closing, c.name, acc.reverse :: c.attrs⟩ false, [])
    else if b == 47 then (.inTag ⟨c.closing, c.name, acc.reverse :: c.attrs⟩ true, [])
    else if b == 62 then finishTag ⟨c.closing, c.name, acc.reverse :: c.attrs⟩ false
    else (.dead, [.bad])
  | .afterEq c, b =>
    if b == 34 || b == 39 then (.quoted c b, [])
    else (.dead, [.bad])          -- the code never writes unquoted values
  | .quoted c q, b => if b == q then (.inTag c false, []) else (.quoted c q, [])
  | .rawText e m, b =>
    if lower b == e.getD m 0 then
      if m + 1 == e.length then (.data, [.close ((e.drop 2).dropLast)]) else (.rawText e (m + 1), [])
    else if b == 60 then (.rawText e 1, [])
    else (.rawText e 0, [])
  | .dead, _ => (.dead, [])

/-- specification of the tokenizer: one step per byte -/
def lexRun : LState → Str → LState × List Tok
  | st, [] => (st, [])
  | st, b :: bs =>
    let r := lexStep st b
    let r' := lexRun r.1 bs
    (r'.1, r.2 ++ r'.2)

/-- tail-recursive tokenizer (what the driver runs on whole pages) -/
def lexGo : LState → List Tok → Str → LState × List Tok
  | st, acc, [] => (st, acc.reverse)
  | st, acc, b :: bs =>
    let r := lexStep st b
    lexGo r.1 (r.2.reverse ++ acc) bs

def lexHtml (s : Str) : LState × List Tok := lexGo .data [] s

def voidNames : List Str :=
  [[109, 101, 116, 97], [108, 105, 110, 107], [98, 114], [104, 114], [105, 109, 103], [105, 110, 112, 117, 116]]
  -- meta link br hr img input

/-- nesting check: the stack of open elements (innermost first) after the tokens -/
def chk : List Str → List Tok → Option (List Str)
  | σ, [] => some σ
  | σ, .open n _ :: ts => if voidNames.contains n then chk σ ts else chk (n :: σ) ts
  | [], .close _ :: _ => none
  | m :: σ, .close n :: ts => if n == m then chk σ ts else none
  | σ, .selfClose _ _ :: ts => chk σ ts
  | σ, .comment :: ts => chk σ ts
  | _, .bad :: _ => none

/-- every tag is lexically complete, every element is closed in order, nothing is left open -/
def wellNested (s : Str) : Bool :=
  match lexHtml s with
  | (.data, ts) => chk [] ts == some []
  | _ => false

/-- the structure of a page: its tokens (tag names and attribute names; no values, no text) -/
def skeleton (s : Str) : LState × List Tok := lexHtml s

/-! ## Abstract run over pieces (no data value is looked at) -/

/-- states in which a data value may stand: element content, a double-quoted attribute value, or
    the raw text of `<title>` … (no `<` can start the end tag there either) -/
def dataOk : LState → Bool
  | .data => true
  | .quoted _ q => q == 34
  | .rawText e m => m == 0 && e.head? == some 60
  | _ => false

def runPieces : LState → List Piece → Option (LState × List Tok)
  | st, [] => some (st, [])
  | st, .lit s :: ps =>
    let r := lexRun st s
    match runPieces r.1 ps with
    | some (st', ts) => some (st', r.2 ++ ts)
    | none => none
  | st, .data _ _ :: ps => if dataOk st then runPieces st ps else none

/-- a fragment that starts and ends in element content and leaves the element stack as it was -/
def leafOk (ps : List Piece) : Bool :=
  match runPieces .data ps with
  | some (.data, ts) => chk [] ts == some []
  | _ => false

/-- an opening and a closing fragment that fit -/
def wrapOk (pre post : List Piece) : Bool :=
  match runPieces .data pre, runPieces .data post with
  | some (.data, t1), some (.data, t2) =>
    match chk [] t1 with
    | some ρ => chk ρ t2 == some []
    | none => false
  | _, _ => false

/-- `RawSinksTrusted`: every node's own literal bytes (tag and attribute names, raw HTML, raw
    class/style/id sinks as far as the generated tables say they are raw) form complete tags that
    fit together.  Data values are never inspected. -/
def trusted : Comp → Bool
  | .nil => true
  | .seq a b => trusted a && trusted b
  | .text _ => true
  | .raw s => leafOk [lit s]
  | .anchor n => leafOk (pieces (.anchor n))
  | .tableHead cols => leafOk (headPieces cols)
  | .number n => leafOk [lit (renderNumber n)]
  | .ga id => leafOk (gaPieces id)
  | c@(.tag _ _ b) => wrapOk c.pre c.post && trusted b
  | c@(.tableCell _ _ _ _ b) => wrapOk c.pre c.post && trusted b
  | c@(.table _ b) => wrapOk c.pre c.post && trusted b
  | c@(.tableRow b) => wrapOk c.pre c.post && trusted b
  | c@(.row b) => wrapOk c.pre c.post && trusted b
  | c@(.page _ _ b f) => wrapOk c.pre c.post && trusted b && trusted f

/-- the component with every data value erased -/
def shape : Comp → Comp
  | .nil => .nil
  | .seq a b => .seq (shape a) (shape b)
  | .text _ => .text []
  | .raw s => .raw s
  | .anchor _ => .anchor []
  | .tableHead cols => .tableHead (cols.map fun _ => [])
  | .number n => .number n
  | .ga id => .ga id
  | .tag n a b => .tag n (a.map fun kv => (kv.1, [])) (shape b)
  | .tableCell h c w s b => .tableCell h c w s (shape b)
  | .table c b => .table c (shape b)
  | .tableRow b => .tableRow (shape b)
  | .row b => .row (shape b)
  | .page _ g b f => .page [] g (shape b) (shape f)

end Gedcom.Html
