/-
  Target language of the source translator for the naming decisions of the publisher
  (harness/extract_publishsrc.go, go/ast of html/util.go and html/individual_index_header.go):

  * conditions over one byte (`c >= 'a' && c <= 'z'`, `name[0] < 'a'`, `name == ""`),
  * `fmt.Sprintf` format strings with the verbs `%s`, `%d`, `%02x` and the shape of their arguments,
  * the `continue` conditions of the probing loop of `getUniqueKey`, in source order,
  * the page-name calls `isFixedPageKey` compares a key with.

  Anything outside the fragment is translated to `.bad` and rejected by an obligation in
  Props/C19.  The interpreters below run the translated pieces; Props/C19 proves that they are the
  definitions of Model/PublishNames.lean (`sourceKeyRaw`, `escapeFirst`, `candidate`, `uniqueKey`,
  `fixedNames`/`isFixedKey`, `indexLetter`) for all inputs.  Core Lean only.
-/
import Gedcom.Model.PublishNames
namespace Gedcom.PublishSrc
open Gedcom Gedcom.Publish

/-! ## byte conditions -/

/-- a condition over the byte under the cursor (`c`, or `name[0]`); `empty` is `name == ""` -/
inductive BCond where
  | ge (n : Nat) | le (n : Nat) | lt (n : Nat) | gt (n : Nat) | eq (n : Nat)
  | empty
  | and (a b : BCond)
  | or (a b : BCond)
  | bad
deriving Repr, DecidableEq, Inhabited

def BCond.ok : BCond → Bool
  | .bad => false
  | .and a b | .or a b => a.ok && b.ok
  | _ => true

/-- `first = none`: the string is empty (Go evaluates `name == ""` before any `name[0]`) -/
def BCond.eval (first : Option UInt8) : BCond → Bool
  | .ge n => match first with | some c => decide (c.toNat ≥ n) | none => false
  | .le n => match first with | some c => decide (c.toNat ≤ n) | none => false
  | .lt n => match first with | some c => decide (c.toNat < n) | none => false
  | .gt n => match first with | some c => decide (c.toNat > n) | none => false
  | .eq n => match first with | some c => decide (c.toNat = n) | none => false
  | .empty => first.isNone
  | .and a b => a.eval first && b.eval first
  | .or a b => a.eval first || b.eval first
  | .bad => false

/-- the expressions of one `case a, b, c:` are alternatives -/
def anyCond (first : Option UInt8) (cs : List BCond) : Bool := cs.any (·.eval first)

/-! ## format strings -/

inductive FmtPart where
  | lit (s : Str)     -- literal text
  | str               -- `%s`
  | dec               -- `%d`
  | hex02             -- `%02x`
  | bad
deriving Repr, DecidableEq, Inhabited

/-- what the source passes for a verb -/
inductive FArg where
  | byteVar           -- the byte `c`
  | keyVar            -- the whole string variable (`key`, `s`)
  | counter           -- the loop counter `i`
  | first             -- `key[0]`
  | rest              -- `key[1:]`
  | bad
deriving Repr, DecidableEq, Inhabited

def FmtPart.ok : FmtPart → Bool
  | .bad => false
  | _ => true
def FArg.ok : FArg → Bool
  | .bad => false
  | _ => true

/-- the values the arguments stand for at run time -/
structure FEnv where
  byte : UInt8 := 0
  key : Str := []
  counter : Nat := 0

def hex02 (b : UInt8) : Str := [hexDigit (b.toNat / 16), hexDigit (b.toNat % 16)]

/-- one verb applied to one argument; a verb that does not fit the argument is a `%!` error text
    in Go: `none` -/
def fmtOne (env : FEnv) : FmtPart → FArg → Option Str
  | .str, .keyVar => some env.key
  | .str, .rest => some (env.key.drop 1)
  | .dec, .counter => some (natToDec env.counter)
  | .hex02, .byteVar => some (hex02 env.byte)
  | .hex02, .first => env.key.head?.map hex02
  | _, _ => none

/-- `fmt.Sprintf(parts, args…)` -/
def fmtRun (env : FEnv) : List FmtPart → List FArg → Option Str
  | [], [] => some []
  | [], _ :: _ => none
  | .lit s :: ps, as => (fmtRun env ps as).map (s ++ ·)
  | _ :: _, [] => none
  | p :: ps, a :: as =>
    match fmtOne env p a, fmtRun env ps as with
    | some x, some y => some (x ++ y)
    | _, _ => none

/-! ## `sourceKey` -/

/-- the translated `switch` of the loop body of `sourceKey`: the alternatives of the case whose
    body is `key += string(c)`, and the `Sprintf` of the default case -/
structure SourceKeySrc where
  keep : List BCond
  keepAppendsByte : Bool        -- the case body is exactly `key += string(c)`
  other : List FmtPart
  otherArgs : List FArg
  fixedGuard : Bool             -- the statement after the loop is `if isFixedPageKey(key) { key = Sprintf(…) }`
  fixed : List FmtPart
  fixedArgs : List FArg
deriving Repr

def SourceKeySrc.ok (s : SourceKeySrc) : Bool :=
  s.keep.all (·.ok) && !s.keep.isEmpty && s.keepAppendsByte && s.other.all (·.ok) && s.otherArgs.all (·.ok)
  && s.fixedGuard && s.fixed.all (·.ok) && s.fixedArgs.all (·.ok)

/-- what one byte of the pointer contributes to the key -/
def SourceKeySrc.byte (s : SourceKeySrc) (c : UInt8) : Str :=
  if anyCond (some c) s.keep then [c] else (fmtRun { byte := c } s.other s.otherArgs).getD []

/-- the rewrite of a key that names a fixed page -/
def SourceKeySrc.escape (s : SourceKeySrc) (key : Str) : Option Str := fmtRun { key := key } s.fixed s.fixedArgs

/-! ## `isFixedPageKey` -/

/-- a page name the key (plus suffix) is compared with -/
inductive FixedItem where
  | places | families | surnames | sources | statistics
  | individualsSymbol                    -- `PageIndividuals(symbolLetter)`
  | individualsRange (lo hi : Nat)       -- `for letter := lo; letter <= hi; letter++ { … PageIndividuals(letter) … }`
  | bad
deriving Repr, DecidableEq, Inhabited

def FixedItem.ok : FixedItem → Bool
  | .bad => false
  | _ => true

def FixedItem.names : FixedItem → List Str
  | .places => [Generated.pagePlacesName]
  | .families => [Generated.pageFamiliesName]
  | .surnames => [Generated.pageSurnamesName]
  | .sources => [Generated.pageSourcesName]
  | .statistics => [Generated.pageStatisticsName]
  | .individualsSymbol => [pageIndividuals Generated.symbolLetter]
  | .individualsRange lo hi => (List.range (hi + 1 - lo)).map (fun i => pageIndividuals (UInt8.ofNat (lo + i)))
  | .bad => []

structure FixedSrc where
  page : List FmtPart           -- `page := fmt.Sprintf("%s.html", key)`
  pageArgs : List FArg
  items : List FixedItem        -- switch cases, then the loop
  elseFalse : Bool              -- every match returns true, the function ends with `return false`
deriving Repr

def FixedSrc.ok (s : FixedSrc) : Bool :=
  s.page.all (·.ok) && s.pageArgs.all (·.ok) && s.items.all (·.ok) && !s.items.isEmpty && s.elseFalse

def FixedSrc.names (s : FixedSrc) : List Str := s.items.flatMap (·.names)

def FixedSrc.isFixed (s : FixedSrc) (key : Str) : Bool :=
  match fmtRun { key := key } s.page s.pageArgs with
  | some page => s.names.contains page
  | none => false

/-- `sourceKey` as the source composes it: byte by byte, then the rewrite if the key names a fixed
    page -/
def sourceKeyOf (s : SourceKeySrc) (f : FixedSrc) (ptr : Str) : Str :=
  let raw := ptr.flatMap s.byte
  if f.isFixed raw then (s.escape raw).getD raw else raw

/-! ## the probing loop of `getUniqueKey` -/

/-- a condition that makes the loop `continue` with the next number; all are about `testString` -/
inductive KCond where
  | inIndividuals        -- `if _, ok := individualMap[testString]; ok`
  | inPlaces             -- `if _, ok := placesMap[testString]; ok`
  | reserved             -- `reserved[testString]`
  | fixed                -- `isFixedPageKey(testString)`
  | or (a b : KCond)
  | bad
deriving Repr, DecidableEq, Inhabited

def KCond.ok : KCond → Bool
  | .bad => false
  | .or a b => a.ok && b.ok
  | _ => true

def KCond.eval (isFixed : Str → Bool) (taken places reserved : List Str) (c : Str) : KCond → Bool
  | .inIndividuals => taken.contains c
  | .inPlaces => places.contains c
  | .reserved => reserved.contains c
  | .fixed => isFixed c
  | .or a b => a.eval isFixed taken places reserved c || b.eval isFixed taken places reserved c
  | .bad => false

structure UniqueKeySrc where
  /-- `i := -1; for { i += 1; testString := s; if i > 0 { testString = Sprintf(…) } …; return testString }` -/
  loopShape : Bool
  numbered : List FmtPart       -- the `Sprintf` of the numbered candidate
  numberedArgs : List FArg
  skips : List KCond            -- the `if … { continue }` statements, in order
deriving Repr

def UniqueKeySrc.ok (s : UniqueKeySrc) : Bool :=
  s.loopShape && s.numbered.all (·.ok) && s.numberedArgs.all (·.ok) && s.skips.all (·.ok)

/-- the i-th `testString` -/
def UniqueKeySrc.candidate (u : UniqueKeySrc) (s : Str) (i : Nat) : Option Str :=
  if i = 0 then some s else fmtRun { key := s, counter := i } u.numbered u.numberedArgs

/-- does the loop go on to the next number for this candidate? -/
def UniqueKeySrc.skip (u : UniqueKeySrc) (isFixed : Str → Bool) (taken places reserved : List Str) (c : Str) : Bool :=
  u.skips.any (·.eval isFixed taken places reserved c)

/-! ## `indexLetterForSurname` -/

structure IndexLetterSrc where
  lowers : Bool                 -- `name := strings.ToLower(surname)`
  symbolIf : List BCond         -- the alternatives of the case that returns `symbolLetter`
  elseFirst : Bool              -- the function ends with `return rune(name[0])`
deriving Repr

def IndexLetterSrc.ok (s : IndexLetterSrc) : Bool :=
  s.lowers && s.symbolIf.all (·.ok) && !s.symbolIf.isEmpty && s.elseFirst

/-- `first` = first byte of the lower-cased surname -/
def IndexLetterSrc.letter (s : IndexLetterSrc) (first : Option UInt8) : UInt8 :=
  if anyCond first s.symbolIf then Generated.symbolLetter else first.getD Generated.symbolLetter

end Gedcom.PublishSrc
