/-
  Target language of the translator for the escaping code of html/core
  (harness/extract_escapers.go): a value is rewritten by a sequence of operations, each a call the
  Go code makes — `strings.Replace(x, old, new, -1)`, `html.EscapeString(x)`,
  `<strings.NewReplacer(pairs…)>.Replace(x)`.  `Generated/Escapers.lean` holds the programs
  translated from the current source; Props/C18 proves that running them is the model's
  `renderText` / `encode`.
-/
import Gedcom.Model.Html
namespace Gedcom.Rewrite
open Gedcom Gedcom.Html

inductive Op where
  | replaceAll (old new : Str)
  | escapeString
  | replacer (pairs : List (Str × Str))
  | bad (what : String)           -- source text outside the fragment
deriving Repr, Inhabited

/-- `strings.Replacer` (generic algorithm): at every position the first pair, in argument order,
    whose `old` is a prefix of the rest is applied; matches do not overlap.  `skip` = bytes of the
    current match still to be dropped.  (Empty `old` strings are outside the fragment.) -/
def replacerGo (pairs : List (Str × Str)) : Nat → Str → Str
  | _, [] => []
  | k+1, _ :: t => replacerGo pairs k t
  | 0, b :: t =>
    match pairs.find? (fun p => isPrefix p.1 (b :: t)) with
    | some p => p.2 ++ replacerGo pairs (p.1.length - 1) t
    | none => b :: replacerGo pairs 0 t

/-- one operation; `esc` is the per-byte table of `html.EscapeString` -/
def runOp (esc : List (UInt8 × Str)) : Op → Str → Option Str
  | .replaceAll old new, s => some (replaceAll old new s)
  | .escapeString, s => some (escWith esc s)
  | .replacer pairs, s => some (replacerGo pairs 0 s)
  | .bad _, _ => none

def runProg (esc : List (UInt8 × Str)) : List Op → Str → Option Str
  | [], s => some s
  | op :: ops, s =>
    match runOp esc op s with
    | some s' => runProg esc ops s'
    | none => none

/-- inside the fragment: nothing untranslated, no empty search string -/
def opOk : Op → Bool
  | .replaceAll old _ => !old.isEmpty
  | .escapeString => true
  | .replacer pairs => pairs.all (fun p => !p.1.isEmpty)
  | .bad _ => false

def progOk (p : List Op) : Bool := p.all opOk

/-- the per-byte table of a replacer whose search strings are single bytes -/
def tableOf : List (Str × Str) → List (UInt8 × Str)
  | [] => []
  | ([b], n) :: rest => (b, n) :: tableOf rest
  | _ :: rest => tableOf rest

def singleByte (pairs : List (Str × Str)) : Bool := pairs.all (fun p => p.1.length == 1)

end Gedcom.Rewrite
