/-
  MergeNodes / MergeNodeSlices / EqualityMergeFunction (merge.go) on identity-carrying trees (C09).

  State threaded through everything (`MSt`): the allocation counter, the log of objects written to
  (`AddNode` / `SetNodes` targets), a sticky out-of-fuel flag for the nested recursion
  MergeNodes → MergeNodeSlices → EqualityMergeFunction → MergeNodes (see `mergeNodesF`) and a
  sticky `panicked` flag: in the unrepaired code `DeepCopy` panics ("cannot create Husband without
  a family") when its walk reaches a HUSB / WIFE / CHIL node before any FAM node; the repaired
  code seeds the family from the node (`copySeeds`, regenerated).  The state also logs what the
  call adds to the destination document (`famAdds`: `document.AddFamily` inside Filter).
  The Go call is aborted by the panic; the model keeps computing and the outcome of the whole
  call is `panic` when the flag is set (`mergeNodes`, `mergeNodeSlicesO`).

  Whether the three places that are documented to copy really pass their node through `DeepCopy`
  is not assumed: `MergeFlags` is regenerated from the code by a behavioural probe
  (Generated/Merge.lean) and the model shares the node instead of copying it when a flag is off.

  `mergeLoop` is the `for len(right) > 0` loop of MergeNodeSlices; `pass` is one sweep of its
  `for i := 0; i < len(newSlice); i++` loop over the slice (written as a zipper `done ++ todo`: a
  merge at position i removes that element, appends the merged node and, because of the `i++` that
  follows the in-place removal, skips the element that moved into position i); `firstMerge` is the
  innermost `for j, node2 := range right`.  Slice elements carry a ghost provenance (`Elem.prov`:
  which left / right input positions went into them) that the Go code does not have and that no
  model decision depends on; the theorems about "each element merged at most once" speak about it.
-/
import Gedcom.Model.Ident
import Gedcom.Generated.Merge
namespace Gedcom

structure MergeFlags where
  /-- MergeNodes: the unmatched right child is added as `DeepCopy(child)` (not `child` itself) -/
  nodesCopyRight : Bool
  /-- MergeNodeSlices: left nodes enter the new slice as deep copies -/
  sliceCopyLeft : Bool
  /-- MergeNodeSlices: an unmatched right node is appended as a deep copy -/
  sliceCopyRight : Bool
deriving Repr, DecidableEq

/-- the flags of the code as it is now -/
def codeFlags : MergeFlags :=
  ⟨Generated.mergeNodesCopiesRight, Generated.mergeSlicesCopyLeft, Generated.mergeSlicesCopyRight⟩

structure MSt where
  next : Nat
  writes : List Nat
  oof : Bool
  panicked : Bool := false
  /-- pointers passed to `document.AddFamily` on the destination document, in order: every
      DeepCopy walk adds one empty `0 @ptr@ FAM` record per source family whose HUSB / WIFE /
      CHIL nodes it copies (filter.go:61) -/
  famAdds : List Str := []
  /-- the family a HUSB / WIFE / CHIL object belongs to (`FamilyNoder.Family()`): object id ↦
      (key of the family object, its pointer).  Keys are object id + 1; key 0 = unknown.  Given
      for the inputs by the caller, extended for every role node the call copies. -/
  famOf : List (Nat × Nat × Str) := []
deriving Repr

/-- `DeepCopy(n, document)` panics in the unrepaired code: a HUSB / WIFE / CHIL node is reached
    before any FAM node -/
def copyPanics (n : INode) : Bool := (famWalk none [] n).isNone

/-- DeepCopy seeds its family cursor from `FamilyNoder.Family()` when it meets a HUSB / WIFE /
    CHIL node before any FAM node (copy.go, repair "a role node copied on its own keeps its
    family"); regenerated from the code by a probe.  When false such a walk panics. -/
def copySeeds : Bool := Generated.deepCopySeedsFamily

/-- state of the family bookkeeping of one DeepCopy walk -/
structure FW where
  /-- the closure variable `family` of DeepCopy: (key, pointer) of the source family -/
  fam : Option (Nat × Str)
  /-- `entityMap` of Filter: source family key ↦ key of the family added to the destination -/
  seen : List (Nat × Nat)
  /-- preorder position of the node being visited (its copy gets id `base + pos`) -/
  pos : Nat
  /-- next unused object id (families added to the destination are objects too) -/
  key : Nat
  adds : List Str
  /-- copied role node (by position) ↦ (key, pointer) of its destination family -/
  links : List (Nat × Nat × Str)
  ok : Bool
deriving Repr

/-- what the walk of `DeepCopy` / `Filter` does at one node (object `i`, tag `t`, pointer `p`)
    before it descends into the children, as far as families are concerned -/
def fwStep (seeds : Bool) (env : List (Nat × Nat × Str)) (w : FW) (i : Nat) (t p : Str) : FW :=
  if t == tagFAM then { w with fam := some (i + 1, p), pos := w.pos + 1 }
  else if needsFamily t then
    let fam1 : Option (Nat × Str) :=
      match w.fam with
      | some f => some f
      | none => if seeds then some ((env.lookup i).getD (0, [])) else none
    match fam1 with
    | none => { w with ok := false, pos := w.pos + 1 }
    | some (k, fp) =>
      match w.seen.lookup k with
      | some dk => { w with fam := fam1, links := w.links ++ [(w.pos, dk, fp)], pos := w.pos + 1 }
      | none =>
        { w with fam := fam1, seen := (k, w.key + 1) :: w.seen, adds := w.adds ++ [fp],
                 links := w.links ++ [(w.pos, w.key + 1, fp)], key := w.key + 1, pos := w.pos + 1 }
  else { w with pos := w.pos + 1 }

mutual
/-- the walk of `DeepCopy` / `Filter` over a tree, preorder -/
def fwNode (seeds : Bool) (env : List (Nat × Nat × Str)) (w : FW) : INode → FW
  | .mk i t _ p ks => fwList seeds env (fwStep seeds env w i t p) ks
def fwList (seeds : Bool) (env : List (Nat × Nat × Str)) (w : FW) : List INode → FW
  | [] => w
  | k :: ks => fwList seeds env (fwNode seeds env w k) ks
end

/-- the effect of finished walks on the state; `base` = id of the copy at position 0 -/
def MSt.afterWalk (st : MSt) (base : Nat) (writes : List Nat) (w : FW) : MSt :=
  { st with next := w.key, writes := st.writes ++ writes, panicked := st.panicked || !w.ok,
            famAdds := st.famAdds ++ w.adds,
            famOf := st.famOf ++ w.links.map fun l => (base + l.1, l.2) }

/-- `DeepCopy(n, document)` in the state -/
def copyM (n : INode) (st : MSt) : INode × MSt :=
  let r := copyTree st.next n
  let w := fwNode copySeeds st.famOf ⟨none, [], 0, r.2.1, [], [], true⟩ n
  (r.1, st.afterWalk st.next r.2.2 w)

/-- separate DeepCopy walks over the children of a node whose copy sits at position `pos - 1`
    (`for _, grandChild := range child.Nodes() { n.AddNode(DeepCopy(grandChild, document)) }`) -/
def fwKids (seeds : Bool) (env : List (Nat × Nat × Str)) (w : FW) : List INode → FW
  | [] => w
  | k :: ks => fwKids seeds env (fwNode seeds env { w with fam := none, seen := [] } k) ks

/-- `copyChildFor(parent, child, document)` (merge.go:99): a HUSB / WIFE / CHIL child of a FAM
    parent is created for that family with `newNode` (no family is added to the destination; the
    copy belongs to the merged family — an object nothing in the call walks again, so its link is
    not recorded) and its children are deep-copied one by one; everything else goes through
    `DeepCopy`.  Objects and values are those of the `DeepCopy` walk (one new object per source
    node, preorder); only the family bookkeeping differs. -/
def copyChildM (parentTag : Str) (child : INode) (st : MSt) : INode × MSt :=
  let r := copyTree st.next child
  let w0 : FW := ⟨none, [], 0, r.2.1, [], [], true⟩
  let w := if parentTag == tagFAM && needsFamily child.tag
           then fwKids copySeeds st.famOf { w0 with pos := 1 } child.kids
           else fwNode copySeeds st.famOf w0 child
  (r.1, st.afterWalk st.next r.2.2 w)

def copyIf (flag : Bool) (n : INode) (st : MSt) : INode × MSt :=
  if flag then copyM n st else (n, st)

/-- a MergeFunction: `none` = nil (do not merge) -/
abbrev MergeFn := INode → INode → MSt → Option INode × MSt

inductive Src | L (i : Nat) | R (j : Nat)
deriving Repr, DecidableEq

/-- an element of `newSlice` with its ghost provenance -/
structure Elem where
  prov : List Src
  node : INode
deriving Repr

/-- `for j, node2 := range right { merged := mergeFn(node, node2, document); if merged != nil … break }`:
    the merged node, the provenance of the right node used, and `right` without it -/
def firstMerge (f : MergeFn) (node : INode) :
    List (Nat × INode) → MSt → Option (INode × Nat × List (Nat × INode)) × MSt
  | [], st => (none, st)
  | (j, r) :: rs, st =>
    match f node r st with
    | (some m, st') => (some (m, j, rs), st')
    | (none, st') =>
      match firstMerge f node rs st' with
      | (some (m, j', rs'), st'') => (some (m, j', (j, r) :: rs'), st'')
      | (none, st'') => (none, st'')

structure PassResult where
  slice : List Elem
  right : List (Nat × INode)
  merged : List Nat
  st : MSt
  found : Bool

/-- one sweep over the slice; `merged` = ids in `alreadyMerged` -/
def pass (f : MergeFn) (done todo : List Elem) (right : List (Nat × INode)) (merged : List Nat)
    (st : MSt) (found : Bool) : PassResult :=
  match todo with
  | [] => ⟨done, right, merged, st, found⟩
  | e :: rest =>
    if merged.contains e.node.id then pass f (done ++ [e]) rest right merged st found
    else
      match firstMerge f e.node right st with
      | (none, st') => pass f (done ++ [e]) rest right merged st' found
      | (some (m, j, right'), st') =>
        let me : Elem := ⟨e.prov ++ [.R j], m⟩
        match rest with
        | [] => ⟨done ++ [me], right', m.id :: merged, st', true⟩
        | x :: xs => pass f (done ++ [x]) (xs ++ [me]) right' (m.id :: merged) st' true
termination_by todo.length
decreasing_by all_goals simp_wf <;> omega

/-- the outer loop.  The recursive call after a sweep that merged something is guarded by
    `right'.length < right.length`; `pass_found_lt` (Lemmas/Merge.lean) shows the guard always
    holds, i.e. the `else` branch is dead and the loop terminates because every iteration
    consumes at least one right node. -/
def mergeLoop (fl : MergeFlags) (f : MergeFn) (slice : List Elem) (right : List (Nat × INode))
    (merged : List Nat) (st : MSt) : List Elem × MSt :=
  match right with
  | [] => (slice, st)
  | (j0, r0) :: rtail =>
    let p := pass f [] slice ((j0, r0) :: rtail) merged st false
    if p.found then
      if _h : p.right.length < rtail.length + 1 then mergeLoop fl f p.slice p.right p.merged p.st
      else (p.slice, p.st)
    else
      let c := copyIf fl.sliceCopyRight r0 p.st
      mergeLoop fl f (p.slice ++ [⟨[.R j0], c.1⟩]) rtail (c.1.id :: p.merged) c.2
termination_by right.length
decreasing_by all_goals simp_wf <;> omega

def indexed {α : Type} (l : List α) (from_ : Nat := 0) : List (Nat × α) :=
  match l with
  | [] => []
  | x :: xs => (from_, x) :: indexed xs (from_ + 1)

/-- "We start by adding all of the items on the left" -/
def copyLeft (fl : MergeFlags) : List (Nat × INode) → MSt → List Elem × MSt
  | [], st => ([], st)
  | (i, n) :: ns, st =>
    let c := copyIf fl.sliceCopyLeft n st
    let r := copyLeft fl ns c.2
    (⟨[.L i], c.1⟩ :: r.1, r.2)

/-- `MergeNodeSlices(left, right, document, mergeFn)` with provenance -/
def mergeNodeSlicesP (fl : MergeFlags) (f : MergeFn) (left right : List INode) (st : MSt) :
    List Elem × MSt :=
  let l := copyLeft fl (indexed left) st
  mergeLoop fl f l.1 (indexed right) [] l.2

/-- `MergeNodeSlices(left, right, document, mergeFn)` -/
def mergeNodeSlices (fl : MergeFlags) (f : MergeFn) (left right : List INode) (st : MSt) :
    List INode × MSt :=
  let r := mergeNodeSlicesP fl f left right st
  (r.1.map (·.node), r.2)

/-! ### MergeNodes -/

/-- replace the children of the first node of `ks` for which `p` holds -/
def setKidsOfFirst (p : INode → Bool) (newKids : List INode) : List INode → List INode
  | [] => []
  | .mk i t v q ks :: rest =>
    if p (.mk i t v q ks) then .mk i t v q newKids :: rest
    else .mk i t v q ks :: setKidsOfFirst p newKids rest

inductive MergeOutcome
  | ok (node : INode) (st : MSt)
  /-- a `DeepCopy` inside the call panicked ("cannot create … without a family") -/
  | panic
  /-- "cannot merge X and Y nodes" -/
  | error
  /-- nesting budget exhausted (never happens with `mergeFuel`, see `mergeNodes_fuel`) -/
  | outOfFuel
deriving Repr

/-- the loop `for _, child := range right.Nodes()` of MergeNodes over the current children `cur`
    of the result node (object `root`); `eqf` = EqualityMergeFunction one level down -/
def foldRight (fl : MergeFlags) (eqf : MergeFn) (root : Nat) (rootTag : Str) :
    List INode → List INode → MSt → List INode × MSt
  | cur, [], st => (cur, st)
  | cur, child :: rest, st =>
    match cur.find? (fun n => equalsShallow n.erase child.erase) with
    | some n =>
      -- newNodes := MergeNodeSlices(child.Nodes(), n.Nodes(), document, EqualityMergeFunction); n.SetNodes(newNodes)
      let r := mergeNodeSlices fl eqf child.kids n.kids st
      let cur' := setKidsOfFirst (fun n => equalsShallow n.erase child.erase) r.1 cur
      foldRight fl eqf root rootTag cur' rest { r.2 with writes := r.2.writes ++ [n.id] }
    | none =>
      -- r.AddNode(copyChildFor(r, child, document))
      let c := if fl.nodesCopyRight then copyChildM rootTag child st else (child, st)
      foldRight fl eqf root rootTag (cur ++ [c.1]) rest { c.2 with writes := c.2.writes ++ [root] }

/-- EqualityMergeFunction, given MergeNodes one nesting level down -/
def eqMergeWith (mn : INode → INode → MSt → MergeOutcome) : MergeFn := fun a b s =>
  if equalsShallow a.erase b.erase then
    match mn a b s with
    | .ok m s' => (some m, s')
    | .error => (none, s)
    | .panic => (none, { s with panicked := true })
    | .outOfFuel => (none, { s with oof := true })
  else (none, s)

/-- `MergeNodes(left, right, document)` for non-nil nodes; `fuel` bounds the nesting depth of
    MergeNodes inside EqualityMergeFunction (each nesting descends two levels of both trees, so
    the height of the taller tree is ample; running out sets `oof` and declines the merge) -/
def mergeNodesF (fl : MergeFlags) : Nat → INode → INode → MSt → MergeOutcome
  | 0, _, _, _ => .outOfFuel
  | fuel + 1, l, r, st =>
    if l.tag != r.tag then .error
    else
      let c := copyM l st
      let k := foldRight fl (eqMergeWith (mergeNodesF fl fuel)) c.1.id l.tag c.1.kids r.kids c.2
      .ok (.mk c.1.id c.1.tag c.1.value c.1.ptr k.1) k.2

/-- `EqualityMergeFunction` at nesting budget `fuel` -/
def eqMergeF (fl : MergeFlags) (fuel : Nat) : MergeFn := eqMergeWith (mergeNodesF fl fuel)

mutual
def INode.height : INode → Nat
  | .mk _ _ _ _ ks => 1 + heightList ks
def heightList : List INode → Nat
  | [] => 0
  | k :: ks => max k.height (heightList ks)
end

/-- budget used by the driver -/
def mergeFuel (l r : List INode) : Nat := heightList l + heightList r + 2

/-- `MergeNodes(left, right, document)` for non-nil nodes -/
def mergeNodes (fl : MergeFlags) (l r : INode) (st : MSt) : MergeOutcome :=
  match mergeNodesF fl (mergeFuel [l] [r]) l r st with
  | .ok m st' => if st'.panicked then .panic else if st'.oof then .outOfFuel else .ok m st'
  | o => o

inductive SliceOutcome
  | ok (nodes : List Elem) (st : MSt)
  | panic
  | outOfFuel

/-- `MergeNodeSlices(left, right, document, mergeFn)` with its panic outcome -/
def mergeNodeSlicesO (fl : MergeFlags) (f : MergeFn) (left right : List INode) (st : MSt) :
    SliceOutcome :=
  let r := mergeNodeSlicesP fl f left right st
  if r.2.panicked then .panic else if r.2.oof then .outOfFuel else .ok r.1 r.2

/-! ### the merge functions of the harness -/

def neverMerge : MergeFn := fun _ _ s => (none, s)

/-- copies of the children of a list of nodes, attached to object `parent` -/
def copyKidsM (parent : Nat) : List INode → MSt → List INode × MSt
  | [], st => ([], st)
  | k :: ks, st =>
    let c := copyM k st
    let r := copyKidsM parent ks { c.2 with writes := c.2.writes ++ [parent] }
    (c.1 :: r.1, r.2)

/-- always merges: a new node with the left node's tag, value and pointer and deep copies of the
    children of both -/
def alwaysMerge : MergeFn := fun a b s =>
  let id := s.next
  let s1 := { s with next := s.next + 1 }
  let ka := copyKidsM id a.kids s1
  let kb := copyKidsM id b.kids ka.2
  (some (.mk id a.tag a.value a.ptr (ka.1 ++ kb.1)), kb.2)

end Gedcom
