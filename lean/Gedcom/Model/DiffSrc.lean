/-
  Target language of the translator for the decision logic of node_diff.go
  (harness/extract_diffsrc.go):

  * the two guarded assignments at the head of `(*NodeDiff).traverse`
    (`if isLeft && nd.Left == nil { nd.Left = n }`, `if !isLeft && nd.Right == nil { nd.Right = n }`);
  * the conditions under which the inner loop of `traverse` sends a child into an existing entry
    (`diffChild.Left != nil && diffChild.Left.Equals(child)`, the same for `Right`), in source order;
  * the comparison cascade of `isLessThan` (ordered `if … { return … }` cases and the final `return`),
    with the local variables resolved to what they were assigned from.

  Conditions are `BExp`s over named atoms and comparisons of `VExp`s; anything the translator does
  not recognise is `.bad` and rejected by `…inFragment` obligations in Props/C08.  The interpreters
  below evaluate the pieces in the order the source has them; Props/C08 proves the results equal to
  `fillL`/`fillR`, `Diff.matchesNode` and `lessKey` of Model/Diff.lean for all inputs.
-/
import Gedcom.Model.Diff
namespace Gedcom.DiffSrc
open Gedcom

/-- the two operands of `isLessThan` after flattening: `nd` (receiver) and `nd2` (argument) -/
inductive Who | a | b
deriving Repr, DecidableEq, Inhabited

/-- what `isLessThan` reads of a flattened node -/
inductive VExp where
  | level (w : Who)   -- `x.Tag().sortValue`
  | years (w : Who)   -- `y.Years()` of the value obtained by `x.(Yearer)`
  | value (w : Who)   -- `x.Value()`
  | bad
deriving Repr, DecidableEq, Inhabited

inductive Atom where
  | isLeft                       -- the parameter `isLeft`
  | leftNil | rightNil           -- `nd.Left == nil`, `nd.Right == nil`
  | leftNonNil | rightNonNil     -- `diffChild.Left != nil`, `diffChild.Right != nil`
  | leftEquals | rightEquals     -- `diffChild.Left.Equals(child)`, `diffChild.Right.Equals(child)`
  | yearer (w : Who)             -- the `ok` of `x.(Yearer)`
deriving Repr, DecidableEq, Inhabited

inductive BExp where
  | atom (a : Atom)
  | not (x : BExp)
  | and (x y : BExp)
  | or (x y : BExp)
  | ne (x y : VExp)
  | lt (x y : VExp)
  | bad
deriving Repr, DecidableEq, Inhabited

inductive Slot | left | right | bad
deriving Repr, DecidableEq, Inhabited

/-- `if cond { nd.<slot> = n }` (no `else`) -/
structure Guarded where
  cond : BExp
  slot : Slot
deriving Repr, DecidableEq, Inhabited

/-- `if cond { return result }` -/
structure Case where
  cond : BExp
  result : BExp
deriving Repr, DecidableEq, Inhabited

/-- which atoms and comparisons each of the three contexts may use -/
inductive Ctx | side | matching | less
deriving DecidableEq

def Atom.allowed : Ctx → Atom → Bool
  | .side, .isLeft | .side, .leftNil | .side, .rightNil => true
  | .matching, .leftNonNil | .matching, .rightNonNil | .matching, .leftEquals | .matching, .rightEquals => true
  | .less, .yearer _ => true
  | _, _ => false

/-- a comparison must compare like with like -/
def VExp.sameKind : VExp → VExp → Bool
  | .level _, .level _ | .years _, .years _ | .value _, .value _ => true
  | _, _ => false

def BExp.inFragment (c : Ctx) : BExp → Bool
  | .atom a => a.allowed c
  | .not x => x.inFragment c
  | .and x y | .or x y => x.inFragment c && y.inFragment c
  | .ne x y | .lt x y => c == .less && x.sameKind y
  | .bad => false

/-! ### interpreters -/

/-- evaluation with a valuation of the atoms and of the two comparison forms -/
def BExp.eval (ρ : Atom → Bool) (ne lt : VExp → VExp → Bool) : BExp → Bool
  | .atom a => ρ a
  | .not x => !x.eval ρ ne lt
  | .and x y => x.eval ρ ne lt && y.eval ρ ne lt
  | .or x y => x.eval ρ ne lt || y.eval ρ ne lt
  | .ne x y => ne x y
  | .lt x y => lt x y
  | .bad => false

def noCmp (_ _ : VExp) : Bool := false

/-- atoms of the head of `traverse` in the state (`isLeft`, `nd.Left`, `nd.Right`) -/
def sideAtoms (isLeft : Bool) (L R : Option INode) : Atom → Bool
  | .isLeft => isLeft
  | .leftNil => L.isNone
  | .rightNil => R.isNone
  | _ => false

/-- the guarded assignments, executed in source order -/
def runGuarded (isLeft : Bool) (n : INode) : List Guarded → Option INode × Option INode →
    Option INode × Option INode
  | [], s => s
  | g :: gs, (L, R) =>
    let s' := if g.cond.eval (sideAtoms isLeft L R) noCmp noCmp then
        (match g.slot with
         | .left => (some n, R)
         | .right => (L, some n)
         | .bad => (L, R))
      else (L, R)
    runGuarded isLeft n gs s'

/-- atoms of the inner loop of `traverse` for the diff child `c` and the child `k`; `Equals` on a
    nil node is never reached in the source (guarded by `!= nil &&`) and is `false` here -/
def matchAtoms (eq : INode → INode → Bool) (k : INode) (c : Diff) : Atom → Bool
  | .leftNonNil => c.left.isSome
  | .rightNonNil => c.right.isSome
  | .leftEquals => (match c.left with | some x => eq x k | none => false)
  | .rightEquals => (match c.right with | some y => eq y k | none => false)
  | _ => false

/-- the child goes into the diff child when one of the conditions holds (every one of the `if`
    bodies is "traverse into it, found, break") -/
def runMatch (eq : INode → INode → Bool) (k : INode) (c : Diff) (conds : List BExp) : Bool :=
  conds.any fun b => b.eval (matchAtoms eq k c) noCmp noCmp

def lessAtoms (a b : SortKey) : Atom → Bool
  | .yearer .a => a.yearer
  | .yearer .b => b.yearer
  | _ => false

def keyOf (a b : SortKey) : Who → SortKey
  | .a => a
  | .b => b

def lessNe (a b : SortKey) : VExp → VExp → Bool
  | .level x, .level y => (keyOf a b x).level != (keyOf a b y).level
  | .years x, .years y => (keyOf a b x).years != (keyOf a b y).years
  | .value x, .value y => (keyOf a b x).value != (keyOf a b y).value
  | _, _ => false

def lessLt (a b : SortKey) : VExp → VExp → Bool
  | .level x, .level y => decide ((keyOf a b x).level < (keyOf a b y).level)
  | .years x, .years y => (keyOf a b x).years.lt (keyOf a b y).years
  | .value x, .value y => goStrLt (keyOf a b x).value (keyOf a b y).value
  | _, _ => false

/-- the cascade: the first case whose condition holds returns its result, else the final `return` -/
def runCascade (a b : SortKey) : List Case → BExp → Bool
  | [], dflt => dflt.eval (lessAtoms a b) (lessNe a b) (lessLt a b)
  | c :: cs, dflt =>
    if c.cond.eval (lessAtoms a b) (lessNe a b) (lessLt a b) then
      c.result.eval (lessAtoms a b) (lessNe a b) (lessLt a b)
    else runCascade a b cs dflt

end Gedcom.DiffSrc
