/-
  Proleptic Gregorian calendar as Go's `time` package computes it, and the parts of
  date.go that sit on top of it: `Date.Time()` (both range ends) and `Date.Years()`.
  Modelled, not verified: `time.Parse`, `AddDate`, `YearDay`, `Truncate`, float64
  (Years is an exact fraction here).  Tied by the C05 correspondence, exhaustively over
  all days of years 1..9999 in the thorough tier.
-/
import Gedcom.Model.Types
namespace Gedcom

def isLeap (y : Int) : Bool := y % 4 == 0 && (y % 100 != 0 || y % 400 == 0)

def daysInYear (y : Int) : Int := if isLeap y then 366 else 365

/-- days before 1 Jan of year `y`, counted from 1 Jan 0001 -/
def daysBeforeYear (y : Int) : Int :=
  365 * (y - 1) + (y - 1) / 4 - (y - 1) / 100 + (y - 1) / 400

/-- days of the year before the first of month `m` -/
def cum (leap : Bool) : Nat → Int
  | 1 => 0 | 2 => 31 | 3 => 59 + (if leap then 1 else 0)
  | 4 => 90 + (if leap then 1 else 0) | 5 => 120 + (if leap then 1 else 0)
  | 6 => 151 + (if leap then 1 else 0) | 7 => 181 + (if leap then 1 else 0)
  | 8 => 212 + (if leap then 1 else 0) | 9 => 243 + (if leap then 1 else 0)
  | 10 => 273 + (if leap then 1 else 0) | 11 => 304 + (if leap then 1 else 0)
  | 12 => 334 + (if leap then 1 else 0) | _ => 0

/-- days in month -/
def dim (leap : Bool) : Nat → Int
  | 1 => 31 | 2 => if leap then 29 else 28 | 3 => 31 | 4 => 30 | 5 => 31 | 6 => 30
  | 7 => 31 | 8 => 31 | 9 => 30 | 10 => 31 | 11 => 30 | 12 => 31 | _ => 0

/-- 1 Jan 0001 has day number 1 -/
def dayNumber (y : Int) (m : Nat) (d : Int) : Int :=
  daysBeforeYear y + cum (isLeap y) m + d

/-- day of the year, 1-based -/
def yearDay (y : Int) (m : Nat) (d : Int) : Int := cum (isLeap y) m + d

/-- A date as the parser produces it: 0 means "not given". -/
structure Date where
  day : Nat
  month : Nat
  year : Nat
deriving DecidableEq, Repr, Inhabited

/-- the shapes for which `Date.Time()` is not the zero time -/
def Date.WF (d : Date) : Prop :=
  1 ≤ d.year ∧
  ((d.month = 0 ∧ d.day = 0) ∨
   (1 ≤ d.month ∧ d.month ≤ 12 ∧ (d.day = 0 ∨ (1 ≤ d.day ∧ (d.day : Int) ≤ dim (isLeap d.year) d.month))))

instance (d : Date) : Decidable d.WF := by unfold Date.WF; exact inferInstance

/-- first day of the period the date denotes -/
def Date.firstDay (d : Date) : Int :=
  if d.month = 0 then dayNumber d.year 1 1
  else if d.day = 0 then dayNumber d.year d.month 1
  else dayNumber d.year d.month d.day

/-- last day of the period the date denotes -/
def Date.lastDay (d : Date) : Int :=
  if d.month = 0 then dayNumber d.year 12 31
  else if d.day = 0 then dayNumber d.year d.month (dim (isLeap d.year) d.month)
  else dayNumber d.year d.month d.day

def nsPerDay : Int := 86400 * 1000000000

/-- `Date.Time()` with `IsEndOfRange = false`, in nanoseconds since 00:00 of day 0 -/
def Date.startInstant (d : Date) : Int := d.firstDay * nsPerDay
/-- `Date.Time()` with `IsEndOfRange = true`: the last nanosecond of the last day -/
def Date.endInstant (d : Date) : Int := (d.lastDay + 1) * nsPerDay - 1

/-- number of days in the period -/
def Date.periodDays (d : Date) : Int :=
  if d.month = 0 then daysInYear d.year
  else if d.day = 0 then dim (isLeap d.year) d.month
  else 1

/-- `Date.Years()` as an exact fraction `year + yearsNum / yearsDen`, `0 ≤ num < den`.
    Full date: `yearDay / (daysInYear + 1)`; month-year: mean of its first and last day;
    year only: one half. Common denominator `2 * (daysInYear + 1)`. -/
def Date.yearsDen (d : Date) : Int := 2 * (daysInYear d.year + 1)
def Date.yearsNum (d : Date) : Int :=
  if d.month = 0 then daysInYear d.year + 1
  else if d.day = 0 then
    yearDay d.year d.month 1 + yearDay d.year d.month (dim (isLeap d.year) d.month)
  else 2 * yearDay d.year d.month d.day

/-- `a.Years() < b.Years()` by cross-multiplication (denominators are positive) -/
def Date.yearsLt (a b : Date) : Prop :=
  ((a.year : Int) * a.yearsDen + a.yearsNum) * b.yearsDen <
  ((b.year : Int) * b.yearsDen + b.yearsNum) * a.yearsDen

instance (a b : Date) : Decidable (a.yearsLt b) := by unfold Date.yearsLt; exact inferInstance

def Date.yearsLe (a b : Date) : Prop :=
  ((a.year : Int) * a.yearsDen + a.yearsNum) * b.yearsDen ≤
  ((b.year : Int) * b.yearsDen + b.yearsNum) * a.yearsDen

instance (a b : Date) : Decidable (a.yearsLe b) := by unfold Date.yearsLe; exact inferInstance

/-- `Date.IsBefore` / `Date.IsAfter` (date.go): comparison of `Years()` -/
def Date.isBefore (a b : Date) : Bool := decide (a.yearsLt b)
def Date.isAfter (a b : Date) : Bool := decide (b.yearsLt a)

/-- `DateNodes.Minimum()` (date_nodes.go): index of the first date whose `Years()` is strictly
    smaller than every earlier candidate -/
def minimumIdx (ds : List Date) : Option Nat :=
  let rec go : List Date → Nat → Option (Nat × Date) → Option (Nat × Date)
    | [], _, acc => acc
    | d :: rest, i, none => go rest (i+1) (some (i, d))
    | d :: rest, i, some (j, m) => go rest (i+1) (if d.yearsLt m then some (i, d) else some (j, m))
  (go ds 0 none).map (·.1)

/-- `DateNodes.Maximum()` -/
def maximumIdx (ds : List Date) : Option Nat :=
  let rec go : List Date → Nat → Option (Nat × Date) → Option (Nat × Date)
    | [], _, acc => acc
    | d :: rest, i, none => go rest (i+1) (some (i, d))
    | d :: rest, i, some (j, m) => go rest (i+1) (if m.yearsLt d then some (i, d) else some (j, m))
  (go ds 0 none).map (·.1)

end Gedcom
