/-
  IEEE-754 binary64 arithmetic as far as `Date.Years()` (date.go) uses it: conversion of small
  integers, one division, additions, a division by two — all on positive finite values below
  2^53, in the normal range, rounded to nearest, ties to even.  A value is kept as an exact
  fraction `mant / 2^frac`; an operation computes the exact rational result and rounds it to 53
  significant bits.  Core Lean only: the driver executes these definitions and the harness
  compares the result with the bits of Go's float64, date by date (exhaustively over the
  implementation's domain in the thorough tier).

  Modelled, not verified: that Go's `float64` `/` and `+` are the IEEE operations (the language
  specification says so for amd64/arm64; the correspondence checks it on every date) and that
  no fused multiply-add is involved (there is no multiplication in `Years`).
-/
import Gedcom.Model.Calendar
namespace Gedcom.F64

/-- a finite, non-negative binary64 value `mant / 2^frac` -/
structure Dbl where
  mant : Nat
  frac : Nat
deriving Repr, DecidableEq, Inhabited

/-- search for the scale of a positive fraction `n/d`: the least `k ≥ k₀` with
    `2^52 ≤ n·2^k / d` (so that the quotient has 53 significant bits when `k₀ = 0` was not
    already enough) -/
def fracBitsAux (n d : Nat) : Nat → Nat → Nat
  | 0, k => k
  | fuel + 1, k => if 2 ^ 52 * d ≤ n * 2 ^ k then k else fracBitsAux n d fuel (k + 1)

/-- number of fractional bits of the binary64 nearest to `n/d`, for `0 < n/d < 2^53`
    (1100 steps reach every normal binary64 below one) -/
def fracBits (n d : Nat) : Nat := fracBitsAux n d 1100 0

/-- `n·2^k / d` rounded to the nearest integer, ties to the even one -/
def roundDiv (n d k : Nat) : Nat :=
  let q := n * 2 ^ k / d
  let r := n * 2 ^ k % d
  if 2 * r < d then q
  else if d < 2 * r then q + 1
  else if q % 2 = 0 then q else q + 1

/-- the binary64 nearest to the fraction `n/d` (ties to even); domain `n/d < 2^53`, `d > 0` -/
def rnd (n d : Nat) : Dbl :=
  if n = 0 then ⟨0, 0⟩ else ⟨roundDiv n d (fracBits n d), fracBits n d⟩

/-- the guard of the domain: the exact value is below 2^53 (above it binary64 has no fractional
    bits and the model does not apply; `Years()` stays below 10 000) -/
def inDomain (n d : Nat) : Bool := decide (0 < d) && decide (n < 2 ^ 53 * d)

def ofNat (i : Nat) : Dbl := ⟨i, 0⟩

/-- `a / b` -/
def div (a b : Dbl) : Dbl := rnd (a.mant * 2 ^ b.frac) (b.mant * 2 ^ a.frac)

/-- `a + b` -/
def add (a b : Dbl) : Dbl := rnd (a.mant * 2 ^ b.frac + b.mant * 2 ^ a.frac) (2 ^ (a.frac + b.frac))

/-- `a < b` on the exact values -/
def lt (a b : Dbl) : Prop := a.mant * 2 ^ b.frac < b.mant * 2 ^ a.frac
instance (a b : Dbl) : Decidable (lt a b) := by unfold lt; exact inferInstance

def le (a b : Dbl) : Prop := a.mant * 2 ^ b.frac ≤ b.mant * 2 ^ a.frac
instance (a b : Dbl) : Decidable (le a b) := by unfold le; exact inferInstance

/-- lowest terms (odd mantissa or no fractional bits): the form in which the harness prints
    Go's value (`big.Rat.SetFloat64`) -/
def normalize : Dbl → Dbl
  | ⟨m, 0⟩ => ⟨m, 0⟩
  | ⟨m, f + 1⟩ => if m % 2 = 0 then normalize ⟨m / 2, f⟩ else ⟨m, f + 1⟩

/-- `Date.Years()` for a full date, statement by statement:
    `float64(t.Year()) + float64(t.YearDay()) / float64(daysInYear)` with
    `daysInYear` = length of the year + 1 -/
def yearsOf (y yd diy : Nat) : Dbl := add (ofNat y) (div (ofNat yd) (ofNat diy))

def yearsFull (y : Nat) (m : Nat) (d : Nat) : Dbl :=
  yearsOf y (yearDay y m d).toNat ((daysInYear y).toNat + 1)

/-- `Date.Years()`: full date, month-year (`(start + end) / 2` over the first and the last day
    of the month), year only (`year + 0.5`), otherwise 0 -/
def years (dt : Date) : Dbl :=
  if dt.year = 0 then ⟨0, 0⟩
  else if dt.month = 0 then add (ofNat dt.year) ⟨1, 1⟩
  else if dt.day = 0 then
    let s := yearsFull dt.year dt.month 1
    let e := yearsFull dt.year dt.month (dim (isLeap dt.year) dt.month).toNat
    div (add s e) (ofNat 2)
  else yearsFull dt.year dt.month dt.day

/-! ### `DateRange.Years()` and `DateRange.Similarity()` (date_range.go) -/

/-- `|a - b|`: the magnitude of the float64 difference (rounding is symmetric in the sign) -/
def absdiff (a b : Dbl) : Dbl :=
  let x := a.mant * 2 ^ b.frac
  let y := b.mant * 2 ^ a.frac
  rnd (if y ≤ x then x - y else y - x) (2 ^ (a.frac + b.frac))

/-- `a * b` -/
def mul (a b : Dbl) : Dbl := rnd (a.mant * b.mant) (2 ^ (a.frac + b.frac))

def one : Dbl := ⟨1, 0⟩

/-- `1 - p` for `p ≤ 1` -/
def oneMinus (p : Dbl) : Dbl := rnd (2 ^ p.frac - p.mant) (2 ^ p.frac)

/-- `DateRange.Years()`: `(start.Years() + end.Years()) / 2.0` -/
def rangeYears (s e : Dbl) : Dbl := div (add s e) (ofNat 2)

/-- `DateRange.Similarity(dr2, maxYears)` on the `Years()` values of the two ranges:
    `similarity := math.Pow((left - right) / maxYears, 2)` (the square is one multiplication of
    the magnitude), `0` when it exceeds one, else `1 - similarity` -/
def simOfDist (dist maxYears : Dbl) : Dbl :=
  let q := div dist maxYears
  let p := mul q q
  if lt one p then ⟨0, 0⟩ else oneMinus p

def dateSimilarity (l r maxYears : Dbl) : Dbl := simOfDist (absdiff l r) maxYears

end Gedcom.F64
