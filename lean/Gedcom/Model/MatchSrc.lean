/-
  Target language of the translator harness/extract_matchsrc.go (C11): a comparison between two
  of the operands the matching passes compare — the weighted similarity of a result (of elements
  i and j for the sort comparator), `MinimumWeightedSimilarity`, `PreferPointerAbove`.
  `.bad` marks an operator or operand outside the fragment.
-/
namespace Gedcom.MatchSrc

inductive Op | lt | le | gt | ge | bad
deriving DecidableEq, Repr

inductive Operand | scoreI | scoreJ | score | minW | prefer | bad
deriving DecidableEq, Repr

structure Fact where
  op : Op
  l : Operand
  r : Operand
deriving DecidableEq, Repr

def Fact.ok (f : Fact) : Bool := f.op != .bad && f.l != .bad && f.r != .bad

def Fact.eval (env : Operand → Rat) (f : Fact) : Bool :=
  match f.op with
  | .lt => decide (env f.l < env f.r)
  | .le => decide (env f.l ≤ env f.r)
  | .gt => decide (env f.l > env f.r)
  | .ge => decide (env f.l ≥ env f.r)
  | .bad => false

end Gedcom.MatchSrc
