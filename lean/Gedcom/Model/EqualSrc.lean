/-
  Interpretation of the pieces of the node-equality logic that are translated from the Go source
  on every run (`Generated/EqualSrc.lean`): the steps of `SimpleNode.Equals`, and `Date.Equals`
  with its 4×4 table of method values, the index expression and the bodies of `equalsA..D`.
  Props/C07 proves that these interpretations are the model's definitions for all inputs, and
  pins the statements of the remaining methods.
-/
import Gedcom.Model.Equal
import Gedcom.Generated.EqualSrc
namespace Gedcom.EqualSrc
open Gedcom

/-! ### SimpleNode.Equals -/

def nodeFieldEq (f : String) (a b : Node) : Option Bool :=
  if f == "tag" then some (a.tag == b.tag)
  else if f == "value" then some (a.value == b.value)
  else if f == "pointer" then some (a.ptr == b.ptr)
  else none

/-- run the steps on two non-nil nodes; `got` = the local variable assigned by the last `get`.
    `none` = a step outside the fragment, or no `return` reached -/
def runSimple (got : String) : List (String × String) → Node → Node → Option Bool
  | [], _, _ => none
  | (kind, arg) :: rest, a, b =>
    if kind == "nil" then (if arg == "node" || arg == "node2" then runSimple got rest a b else none)
    else if kind == "get" then runSimple arg rest a b
    else if kind == "ne" then
      (if arg == got then
        match nodeFieldEq arg a b with
        | some true => runSimple got rest a b
        | some false => some false
        | none => none
      else none)
    else if kind == "ret-eq" then nodeFieldEq arg a b
    else none

def srcSimpleEquals (a b : Node) : Option Bool := runSimple "" Generated.simpleEqualsSteps a b

/-! ### Date.Equals -/

def constraintName : Constraint → String
  | .exact => "DateConstraintExact" | .about => "DateConstraintAbout"
  | .before => "DateConstraintBefore" | .after => "DateConstraintAfter"

/-- the numeric value of a constant = its position in the `iota` block -/
def constraintIndex (c : Constraint) : Option Nat :=
  let i := Generated.dateConstraintOrder.findIdx (· == constraintName c)
  if i < Generated.dateConstraintOrder.length then some i else none

/-- an index expression of `matchers[…][…]`: receiver `date` = `a`, argument `date2` = `b` -/
def selConstraint (e : String) (a b : PDate) : Option Constraint :=
  if e == "date.Constraint" then some a.constraint
  else if e == "date2.Constraint" then some b.constraint
  else none

def dateFieldEq (f : String) (a b : PDate) : Option Bool :=
  if f == "Day" then some (a.day == b.day)
  else if f == "Month" then some (a.month == b.month)
  else if f == "Year" then some (a.year == b.year)
  else none

def allFields : List String → PDate → PDate → Option Bool
  | [], _, _ => some true
  | f :: fs, a, b =>
    match dateFieldEq f a b, allFields fs a b with
    | some x, some y => some (x && y)
    | _, _ => none

/-- body of one matcher, receiver `x`, argument `y` -/
def runMatcher (kind : String) (args : List String) (x y : PDate) : Option Bool :=
  if kind == "fields" then allFields args x y
  else if kind == "years" then
    (match args with
      | [">"] => some (y.yearsLt x)
      | ["<"] => some (x.yearsLt y)
      | _ => none)
  else if kind == "const" then
    (match args with
      | ["false"] => some false
      | ["true"] => some true
      | _ => none)
  else none

/-- `Date.Equals` from the translated pieces; the three guards before the table are pinned by the
    obligation `equal_source_shape` -/
def srcDateEquals (a b : PDate) : Option Bool :=
  if a.isZero then some false
  else if b.isZero then some false
  else if a.is b then some true
  else do
    let rc ← selConstraint Generated.dateEqualsRow a b
    let cc ← selConstraint Generated.dateEqualsCol a b
    let row ← constraintIndex rc
    let col ← constraintIndex cc
    let r ← Generated.dateEqualsMatchers[row]?
    let name ← r[col]?
    let body ← Generated.dateMatcherBodies.find? (·.1 == name)
    match Generated.dateEqualsArgs with
    | ["date", "date2"] => runMatcher body.2.1 body.2.2 a b
    | ["date2", "date"] => runMatcher body.2.1 body.2.2 b a
    | _ => none

end Gedcom.EqualSrc
