/-
  `jaro` (jaro.go) on the float64 values: the matching (matches, halfs) is the model's
  (`Sim.jaroFinal`), the arithmetic is the binary64 model — three divisions, two additions
  (`sum` starts from 0, and `0 + x` is exact), one division by `float64(3)`.
-/
import Gedcom.Model.Similarity
import Gedcom.Model.SimilarityRaw
import Gedcom.Model.Float64
namespace Gedcom.F64
open Gedcom

/-- `avg(matches/la, matches/lb, (matches - transposes)/matches)` with
    `transposes = floor(halfs / 2)`; 0 when nothing matches -/
def jaroValueF (m h la lb : Nat) : Dbl :=
  if m = 0 then ⟨0, 0⟩ else
  let aM := div (ofNat m) (ofNat la)
  let bM := div (ofNat m) (ofNat lb)
  let cM := div (ofNat (m - h / 2)) (ofNat m)
  div (add (add aM bM) cM) (ofNat 3)

def jaroF (a b : Str) : Dbl :=
  let st := Sim.jaroFinal a b
  jaroValueF st.nMatch st.nHalf a.length b.length

/-- the constant `0.1` of `JaroWinkler` as a float64 -/
def tenth : Dbl := rnd 1 10

/-- `j + 0.1*prefixMatch*(1.0-j)` above the boost threshold, `j` itself up to it -/
def jwValueF (j boost : Dbl) (pm : Nat) : Dbl :=
  if le j boost then j else add j (mul (mul tenth (ofNat pm)) (oneMinus j))

def jaroWinklerF (a b : Str) (boost : Dbl) (prefixSize : Nat) : Dbl :=
  jwValueF (jaroF a b) boost (Sim.prefixMatches prefixSize a b)

/-- `StringSimilarity`: Jaro-Winkler of the names as they are compared (`Sim.comparedNames`:
    lower-cased, reduced to a-z 0-9 and spaces, or as written when nothing is left) -/
def stringSimilarityF (a b : Str) (boost : Dbl) (prefixSize : Nat) : Dbl :=
  let p := Sim.comparedNames a b
  jaroWinklerF p.1 p.2 boost prefixSize

/-! ### `(*IndividualNode).Similarity` (individual_node.go) on the float64 values -/

/-- an option value `float64(n)/float64(d)` (also what a decimal literal of the defaults is) -/
def ofRat (q : Rat) : Dbl := rnd q.num.toNat q.den

/-- the running maximum over the matrix of names, starting from 0.0 -/
def nameSimilarityF (ns ms : List Str) (boost : Dbl) (pre : Nat) : Dbl :=
  ns.foldl (fun acc n =>
    ms.foldl (fun acc m =>
      let s := stringSimilarityF n m boost pre
      if lt acc s then s else acc) acc) ⟨0, 0⟩

def half : Dbl := ⟨1, 1⟩

/-- `(*DateNode).Similarity`: 0.5 when a node is missing -/
def dateNodeSimilarityF (l r : Option Sim.DateR) (maxYears : Dbl) : Dbl :=
  match l, r with
  | some l, some r =>
    dateSimilarity (rangeYears (years l.start) (years l.stop)) (rangeYears (years r.start) (years r.stop)) maxYears
  | _, _ => half

/-- `nameSimilarity*ratio + (birth+death)/2.0*(1.0-ratio)` -/
def mixF (name birth death ratio : Dbl) : Dbl :=
  add (mul name ratio) (mul (div (add birth death) (ofNat 2)) (absdiff (ofNat 1) ratio))

def indiSimilarityF (x y : Sim.Indi) (o : Sim.SimOpts) : Dbl :=
  let my := ofRat o.maxYears
  mixF (nameSimilarityF x.names y.names (ofRat o.jaroBoostThreshold) o.jaroPrefixSize)
    (dateNodeSimilarityF x.birth y.birth my) (dateNodeSimilarityF x.death y.death my)
    (ofRat o.nameToDateRatio)

/-- the dates the binary64 model of `Years()` covers: nothing, or a calendar date of the years
    1..9999 (outside, `Date.Time()` is the zero time and the driver answers `skip`) -/
def dateInDomain (d : Date) : Bool :=
  (d.year == 0 && d.month == 0 && d.day == 0) ||
  (1 ≤ d.year && d.year ≤ 9999 && d.month ≤ 12 && (d.month != 0 || d.day == 0) &&
    (d.day == 0 || (d.day : Int) ≤ dim (isLeap d.year) d.month))

def rangeInDomain : Option Sim.DateR → Bool
  | none => true
  | some r => dateInDomain r.start && dateInDomain r.stop

/-- the float64 sum of the four weighted components, before the cut -/
def weightedSumF (ind par spo chi wI wP wS wC : Dbl) : Dbl :=
  add (add (add (mul ind wI) (mul par wP)) (mul spo wS)) (mul chi wC)

/-- `SurroundingSimilarity.WeightedSimilarity` on the float64 values (since the repair: the sum, cut
    at one) -/
def weightedF (ind par spo chi wI wP wS wC : Dbl) : Dbl :=
  if lt one (weightedSumF ind par spo chi wI wP wS wC) then one
  else weightedSumF ind par spo chi wI wP wS wC

/-- `DateNodes.Minimum()` with the float64 comparison `date.StartDate().Years() < min.StartDate().Years()`
    (the exact model has to set ties such as `Dec 1880` / `16 Dec 1880` aside; the last bit decides
    here as it does in Go) -/
def minimumRangeF : List Gedcom.DateRange → Option Gedcom.DateRange
  | [] => none
  | d :: ds => some (ds.foldl (fun m x =>
      if lt (years x.start.toDate) (years m.start.toDate) then x else m) d)

def estimatedDateF (primary secondary : List Str) : Option Sim.DateR :=
  let ds := if primary.isEmpty then secondary else primary
  (minimumRangeF (ds.map parseDateRange)).map Sim.ofParsed

def rawToIndiF (r : Sim.RawIndi) : Sim.Indi :=
  ⟨r.id, r.names, estimatedDateF r.births r.baptisms, estimatedDateF r.deaths r.burials⟩

/-- every DATE value of the raw record lies in the domain of the binary64 `Years()` model -/
def rawInDomain (r : Sim.RawIndi) : Bool :=
  (r.births ++ r.baptisms ++ r.deaths ++ r.burials).all fun s =>
    rangeInDomain (some (Sim.ofParsed (parseDateRange s)))

end Gedcom.F64
