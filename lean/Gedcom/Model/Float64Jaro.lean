/-
  `jaro` (jaro.go) on the float64 values: the matching (matches, halfs) is the model's
  (`Sim.jaroFinal`), the arithmetic is the binary64 model — three divisions, two additions
  (`sum` starts from 0, and `0 + x` is exact), one division by `float64(3)`.
-/
import Gedcom.Model.Similarity
import Gedcom.Model.Float64
namespace Gedcom.F64
open Gedcom

/-- `avg(matches/la, matches/lb, (matches - transposes)/matches)` with
    `transposes = floor(halfs / 2)`; 0 when nothing matches -/
def jaroValueF (m h la lb : Nat) : Dbl :=
  if m = 0 then ⟨0, 0⟩ else
  let aM := div (ofNat m) (ofNat la)
  let bM := div (ofNat m) (ofNat lb)
  let cM := div (ofNat (m - h / 2)) (ofNat m)
  div (add (add aM bM) cM) (ofNat 3)

def jaroF (a b : Str) : Dbl :=
  let st := Sim.jaroFinal a b
  jaroValueF st.nMatch st.nHalf a.length b.length

/-- the constant `0.1` of `JaroWinkler` as a float64 -/
def tenth : Dbl := rnd 1 10

/-- `j + 0.1*prefixMatch*(1.0-j)` above the boost threshold, `j` itself up to it -/
def jwValueF (j boost : Dbl) (pm : Nat) : Dbl :=
  if le j boost then j else add j (mul (mul tenth (ofNat pm)) (oneMinus j))

def jaroWinklerF (a b : Str) (boost : Dbl) (prefixSize : Nat) : Dbl :=
  jwValueF (jaroF a b) boost (Sim.prefixMatches prefixSize a b)

/-- `StringSimilarity`: Jaro-Winkler of the names as they are compared (`Sim.comparedNames`:
    lower-cased, reduced to a-z 0-9 and spaces, or as written when nothing is left) -/
def stringSimilarityF (a b : Str) (boost : Dbl) (prefixSize : Nat) : Dbl :=
  let p := Sim.comparedNames a b
  jaroWinklerF p.1 p.2 boost prefixSize

end Gedcom.F64
