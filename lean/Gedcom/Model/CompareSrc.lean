/-
  Interpretation of the pieces of `DateRange.Compare` that are translated from date_range.go on
  every run (`Generated/CompareSrc.lean`): the ordered switch cases of `compareDatesForLetter`,
  the map literal `dateRangeCompareMatrix`, and the four statements of `Compare`.
  Props/C06 proves that this interpretation is the model's `compare` on all day numbers.
-/
import Gedcom.Model.Compare
import Gedcom.Generated.CompareSrc
namespace Gedcom.CompareSrc
open Gedcom

def letterName : Letter → String
  | .b => "b" | .e => "e" | .a => "a" | .E => "E" | .A => "A"

/-- the constant's name without the `DateRangeComparison` prefix -/
def relName : Rel → String
  | .invalid => "Invalid" | .equal => "Equal" | .inside => "Inside"
  | .insideStart => "InsideStart" | .insideEnd => "InsideEnd" | .outside => "Outside"
  | .outsideStart => "OutsideStart" | .outsideEnd => "OutsideEnd"
  | .partiallyBefore => "PartiallyBefore" | .partiallyAfter => "PartiallyAfter"
  | .before => "Before" | .after => "After"
  | .entirelyBefore => "EntirelyBefore" | .entirelyAfter => "EntirelyAfter"

/-- one case of the switch, on whole-day numbers (`Time().Truncate(24h)` of the three dates):
    `valueTime.Equal(x)`, `valueTime.Before(x)`, `valueTime.After(x)` with `x` one of
    `startTime`, `endTime` -/
def caseHolds (op arg : String) (v s e : Int) : Bool :=
  let rhs := if arg == "startTime" then s else e
  if op == "Equal" then v == rhs
  else if op == "Before" then decide (v < rhs)
  else if op == "After" then decide (rhs < v)
  else false

/-- are all cases of a shape `caseHolds` understands? -/
def casesUnderstood (cs : List (String × String × String)) : Bool :=
  cs.all (fun c => (c.1 == "Equal" || c.1 == "Before" || c.1 == "After") &&
    (c.2.1 == "startTime" || c.2.1 == "endTime"))

/-- `compareDatesForLetter(value, start, end)`: first case that holds, else the default -/
def srcLetter (v s e : Int) : String :=
  match Generated.letterCases.find? (fun c => caseHolds c.1 c.2.1 v s e) with
  | some c => c.2.2
  | none => Generated.letterDefault

/-- the four statements of `DateRange.Compare` (their text is pinned by the obligation
    `compare_source_shape`): receiver `[a,b]`, argument `[c,d]` -/
def srcCompare (a b c d : Int) : Option String :=
  let start := srcLetter a c d
  let end0 := srcLetter b c d
  let end1 := if end0 == "e" && srcLetter b d d == "e" then "E" else end0
  Generated.matrixSrc.lookup (start ++ end1)

end Gedcom.CompareSrc
