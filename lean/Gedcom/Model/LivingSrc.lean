/-
  Target language of the go/ast translator harness/extract_livingsrc.go (C17):

  * the statements of `(*IndividualNode).IsLiving` (individual_node.go): the early returns
    `if <cond> { return <bool> }` in source order and the final `return <cond>`, as condition trees
    over the values the function binds (`len(deaths)`, `maxLivingAge`, `birthYear`, `age`);
  * the `switch <visibility>` statements of the components of html/ that decide what is written
    for a living person: per case the visibility constants and a classified body (*what the case
    does*: nothing / a literal / "#" / skip the row / proceed …), whether the switch sits under an
    `IsLiving()` test and whether it has a `default`;
  * two conditions: the place filter of `Publisher.Places` and the two tests of `IndividualDates`.

  Anything the translator does not recognise becomes `.bad`; Props/C17Src.lean rejects it by an
  obligation and proves that interpreting the translated pieces is the hand-written model
  (Gedcom/Model/Living.lean, Pages.lean) for all inputs.  Core Lean only.
-/
namespace Gedcom.LivingSrc

/-! ## IsLiving -/

inductive Num
  | lenDeaths    -- `len(deaths)` with `deaths := node.Deaths()`
  | maxAge       -- `maxLivingAge` (= `node.Document().MaxLivingAge`)
  | birthYear    -- `birthYear` (= `Years(birthDate)`, `birthDate, _ := node.EstimatedBirthDate()`)
  | age          -- `age` (= `nowYear - birthYear`, `nowYear := float64(time.Now().Year())`)
  | zero         -- the literal 0
  | bad
deriving DecidableEq, Repr

inductive Cmp | eq | ne | lt | le | gt | ge
deriving DecidableEq, Repr

inductive Cond
  | nodeNil                       -- `node == nil`
  | cmp (op : Cmp) (a b : Num)
  | visIs (v : Nat)               -- `<visibility> == LivingVisibility…` (0 show, 1 hide, 2 placeholder)
  | living                        -- `isLiving` / `x.IsLiving()` of the person at hand
  | ownerLiving                   -- `individualForNode(doc, node).IsLiving()`
  | not (c : Cond)
  | and (a b : Cond)
  | or (a b : Cond)
  | bad
deriving DecidableEq, Repr

def Num.ok : Num → Bool
  | .bad => false
  | _ => true

def Cond.ok : Cond → Bool
  | .cmp _ a b => a.ok && b.ok
  | .visIs v => v < 3
  | .not c => c.ok
  | .and a b => a.ok && b.ok
  | .or a b => a.ok && b.ok
  | .bad => false
  | _ => true

/-- the values in scope; years in millionths (`birthMicro` as in `Living.isLiving`) -/
structure Env where
  nodeNil : Bool := false
  deaths : Nat := 0
  maxAge : Nat := 100
  birthMicro : Nat := 0
  now : Nat := 2000
  vis : Nat := 0
  living : Bool := false
  ownerLiving : Bool := false

def Num.eval (e : Env) : Num → Int
  | .lenDeaths => e.deaths
  | .maxAge => (e.maxAge : Int) * 1000000
  | .birthYear => e.birthMicro
  | .age => (e.now : Int) * 1000000 - e.birthMicro
  | .zero => 0
  | .bad => 0

def Cmp.eval : Cmp → Int → Int → Bool
  | .eq, a, b => a == b
  | .ne, a, b => a != b
  | .lt, a, b => (b - a).toNat != 0     -- a < b  ⇔  0 < b - a
  | .le, a, b => (a - b).toNat == 0     -- a ≤ b  ⇔  a - b ≤ 0
  | .gt, a, b => (a - b).toNat != 0
  | .ge, a, b => (b - a).toNat == 0

def Cond.eval (e : Env) : Cond → Bool
  | .nodeNil => e.nodeNil
  | .cmp op a b => op.eval (a.eval e) (b.eval e)
  | .visIs v => e.vis == v
  | .living => e.living
  | .ownerLiving => e.ownerLiving
  | .not c => !c.eval e
  | .and a b => a.eval e && b.eval e
  | .or a b => a.eval e || b.eval e
  | .bad => false

/-- `if g₁ { return b₁ } … if gₙ { return bₙ } return final` -/
def runReturns (e : Env) : List (Cond × Bool) → Cond → Bool
  | [], final => final.eval e
  | (g, b) :: rest, final => if g.eval e then b else runReturns e rest final

/-! ## the visibility switches -/

/-- what the body of a case does -/
inductive Act
  | proceed                 -- empty body (a comment): carry on as for everybody
  | nothing                 -- `return writeNothing()`
  | lit (s : String)        -- `return writeString(w, "<s>")`
  | hash                    -- `return "#"`
  | skip                    -- `continue`
  | skipCounted             -- `<counter> += 1; continue`
  | emptyPerson             -- `person = core.NewEmpty()`
  | hiddenButton            -- `name = core.NewHTML("<em>Hidden</em>"); onclick = ""`
  | addLetter               -- `letterMap[getIndexLetter(individual)] = true`
  | addLetterIfDead         -- `if !individual.IsLiving() { letterMap[getIndexLetter(individual)] = true }`
  | bad
deriving DecidableEq, Repr

structure Sw where
  underLiving : Bool                  -- the switch is the body of `if <person>.IsLiving() { … }` / `if isLiving { … }`
  cases : List (List Nat × Act)       -- constants of each case (0 show, 1 hide, 2 placeholder; 9 = unknown), body
  hasDefault : Bool
deriving DecidableEq, Repr

def Sw.ok (s : Sw) : Bool :=
  !s.hasDefault && s.cases.all (fun c => c.1.all (· < 3) && c.2 != .bad)

/-- the action for visibility `v`: the first case that lists it; no case (Go: no default) = carry on -/
def Sw.act (s : Sw) (v : Nat) : Act :=
  match s.cases.find? (fun c => c.1.contains v) with
  | some c => c.2
  | none => .proceed

/-- every visibility constant is listed exactly once -/
def Sw.exhaustive (s : Sw) : Bool :=
  [0, 1, 2].all (fun v => (s.cases.filter (fun c => c.1.contains v)).length == 1)

end Gedcom.LivingSrc
