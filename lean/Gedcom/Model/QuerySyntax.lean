/-
  The query language of package q: tokens, tokenizer, syntax tree and the recursive-descent
  parser with rollback (q/token.go, q/parser.go).  Core Lean only.

  * Tokenizer.  `TokenizeString` grows a buffer byte by byte, tries the token regular expressions
    in order on the whole buffer, and on the first match keeps extending the buffer while the
    *same* expression still matches; whitespace is dropped; a buffer that never matches swallows
    the rest of the input and is dropped silently.  `tokScan` is that loop as a one-pass state
    machine; `reMatch` holds deterministic equivalents of the regular expressions, selected by
    the *source text* regenerated from the code (`Generated.Query.tokenPatterns`).
  * Parser.  One function per `consume…` method; the token position is the remaining token list
    and every function returns the remaining list together with a proof that it is a strictly
    (or weakly) shorter list, which is what makes Lean accept the mutual recursion: the parser
    is a total function, i.e. it terminates on every token sequence.  Rollback is implicit —
    a failed alternative simply continues from the list it was given.
-/
import Gedcom.Model.QueryTypes
import Gedcom.Generated.Query
namespace Gedcom.Q

def ascii (s : String) : Str := s.toList.map (fun c => UInt8.ofNat c.toNat)

structure Token where
  kind : String
  value : Str
deriving Repr, BEq, Inhabited, DecidableEq

/-! ### Deterministic equivalents of the token patterns -/

def isSpaceB (c : UInt8) : Bool := c == 9 || c == 10 || c == 12 || c == 13 || c == 32   -- RE2 \s
def isDigitB (c : UInt8) : Bool := 48 ≤ c && c ≤ 57
def isAlphaB (c : UInt8) : Bool := (65 ≤ c && c ≤ 90) || (97 ≤ c && c ≤ 122) || c == 95
def isWordB (c : UInt8) : Bool := isAlphaB c || isDigitB c

/-- `^".*"$` on bytes: starts and ends with a quote (two distinct bytes), no newline in between
    (`.` matches every byte sequence that has no `\n`: invalid UTF-8 is matched bytewise). -/
def matchString (b : Str) : Bool :=
  match b with
  | 34 :: rest =>
    match rest.reverse with
    | 34 :: midRev => midRev.all (· != 10)
    | _ => false
  | _ => false

/-- A pattern of the form `^c$` or `^\c$` for one literal character. -/
def literalOf (src : String) : Option UInt8 :=
  match src.toList with
  | ['^', c, '$'] => if c.isAlphanum || c == ':' || c == ';' || c == ',' || c == '!' || c == '=' || c == '<' || c == '>' then some (UInt8.ofNat c.toNat) else none
  | ['^', '\\', c, '$'] => if c.isAlphanum then none else some (UInt8.ofNat c.toNat)
  | _ => none

/-- Does the regular expression with this source text match the whole buffer?  `none`: the
    model has no deterministic equivalent for this source (the pattern changed in the code). -/
def reMatch? (src : String) (b : Str) : Option Bool :=
  match literalOf src with
  | some c => some (b == [c])
  | none =>
    if src == "^\\s+$" then some (!b.isEmpty && b.all isSpaceB)
    else if src == "^\".*\"$" then some (matchString b)
    else if src == "^\\.[a-zA-Z0-9_]*$" then
      some (match b with | 46 :: rest => rest.all isWordB | _ => false)
    else if src == "^[a-zA-Z_][a-zA-Z0-9_]*$" then
      some (match b with | c :: rest => isAlphaB c && rest.all isWordB | _ => false)
    else if src == "^[0-9]+$" then some (!b.isEmpty && b.all isDigitB)
    else none

def reMatch (src : String) (b : Str) : Bool := (reMatch? src b).getD false

/-- every regenerated pattern has a deterministic equivalent in the model -/
def patternsKnown : Bool := Generated.Query.tokenPatterns.all (fun p => (reMatch? p.1 []).isSome)

/-- first pattern (in table order) that matches the buffer -/
def firstMatch (b : Str) : Option (String × String) :=
  Generated.Query.tokenPatterns.find? (fun p => reMatch p.1 b)

def emit (kind : String) (buf : Str) (acc : List Token) : List Token :=
  if kind == "whitespace" then acc else ⟨kind, buf⟩ :: acc

/-- The accumulation loop of `TokenizeString`.  `cur = some (src, kind)`: the buffer matched
    `src` and is being extended; `none`: nothing matched the buffer yet. `acc` is reversed. -/
def tokScan (cur : Option (String × String)) (buf : Str) (acc : List Token) : Str → List Token
  | [] =>
    match cur with
    | some (_, k) => (emit k buf acc).reverse
    | none => acc.reverse            -- an unmatched rest is dropped silently
  | c :: rest =>
    match cur with
    | some (src, k) =>
      if reMatch src (buf ++ [c]) then tokScan cur (buf ++ [c]) acc rest
      else tokScan (firstMatch [c]) [c] (emit k buf acc) rest
    | none => tokScan (firstMatch (buf ++ [c])) (buf ++ [c]) acc rest

def tokenize (s : Str) : List Token := tokScan none [] [] s

/-! ### Syntax tree -/

mutual
inductive Expr where
  | const (s : Str)                        -- ConstantExpr (numbers are strings, too)
  | acc (q : Str)                          -- AccessorExpr, `q` includes the leading dot
  | var (n : Str)                          -- VariableExpr
  | call (f : Str) (args : List Stmt)      -- CallExpr{Functions[f], args}
  | question                               -- QuestionMarkExpr
  | obj (fs : List (Str × Stmt))           -- ObjectExpr; the map as key/value pairs sorted by key
  | bin (l : Expr) (op : String) (r : Expr) -- BinaryExpr
inductive Stmt where
  | mk (name : Str) (es : List Expr)       -- Statement{VariableName, Expressions}
end

instance : Inhabited Expr := ⟨.question⟩
instance : Inhabited Stmt := ⟨.mk [] []⟩

def Stmt.name : Stmt → Str | .mk n _ => n
def Stmt.body : Stmt → List Expr | .mk _ es => es

/-- `Engine.Statements` as parsed (before `Evaluate` prepends the document variables). -/
abbrev Engine := List Stmt

/-! ### Parser -/

abbrev Suf (ts : List Token) := { r : List Token // r.length < ts.length }
abbrev SufLe (ts : List Token) := { r : List Token // r.length ≤ ts.length }

def matchKinds : (ks : List String) → (ts : List Token) → Option (SufLe ts)
  | [], ts => some ⟨ts, Nat.le_refl _⟩
  | k :: ks, t :: ts =>
    if t.kind == k then
      match matchKinds ks ts with
      | some ⟨r, h⟩ => some ⟨r, by simp; omega⟩
      | none => none
    else none
  | _ :: _, [] => none

def matchOpAt (t : Token) (rest : List Token) : List (String × List String) → Option (String × Suf (t :: rest))
  | [] => none
  | (name, k :: ks) :: more =>
    if t.kind == k then
      match matchKinds ks rest with
      | some ⟨r, h⟩ => some (name, ⟨r, by simp; omega⟩)
      | none => matchOpAt t rest more
    else matchOpAt t rest more
  | (_, []) :: more => matchOpAt t rest more

def matchOp (ts : List Token) : Option (String × Suf ts) :=
  match ts with
  | [] => none
  | t :: rest => matchOpAt t rest Generated.Query.operators

/-- bytewise order of Go strings (sort.Strings) -/
def strLe : Str → Str → Bool
  | [], _ => true
  | _ :: _, [] => false
  | a :: as, b :: bs => if a < b then true else if a > b then false else strLe as bs

/-- `ObjectExpr.Data` is a Go map filled while parsing: a repeated key keeps the last statement
    (the earlier one is never evaluated).  The model keeps the surviving pairs sorted by key. -/
def normFields (kvs : List (Str × Stmt)) : List (Str × Stmt) :=
  let dedup := kvs.foldl (fun acc kv => (acc.filter (·.1 != kv.1)) ++ [kv]) []
  dedup.mergeSort (fun a b => strLe a.1 b.1)

/-- `Functions[word]` exists (the generated table is keyed by the ASCII function name) -/
def isFunction (w : Str) : Bool := Generated.Query.functions.any (fun f => ascii f.1 == w)

mutual
def pStmts (sep : String) (ts : List Token) : Option (List Stmt × Suf ts) :=
  match pStmt ts with
  | none => none
  | some (s, ⟨r, h⟩) =>
    let (ss, ⟨r', h'⟩) := pStmtsTail sep r
    some (s :: ss, ⟨r', by omega⟩)
termination_by (ts.length, 6)

def pStmtsTail (sep : String) (ts : List Token) : List Stmt × SufLe ts :=
  match ts with
  | t :: rest =>
    if t.kind == sep then
      match pStmt rest with
      | some (s, ⟨r, h⟩) =>
        let (ss, ⟨r', h'⟩) := pStmtsTail sep r
        (s :: ss, ⟨r', by simp; omega⟩)
      | none => ([], ⟨t :: rest, Nat.le_refl _⟩)
    else ([], ⟨t :: rest, Nat.le_refl _⟩)
  | [] => ([], ⟨[], Nat.le_refl _⟩)
termination_by (ts.length, 6)

def pStmt (ts : List Token) : Option (Stmt × Suf ts) :=
  let named : Option (Stmt × Suf ts) :=
    match ts with
    | w1 :: w2 :: rest =>
      if w1.kind == "word" && w2.kind == "word" then
        match pExprs rest with
        | some (es, ⟨r, h⟩) => some (.mk w1.value es, ⟨r, by simp; omega⟩)
        | none => none
      else none
    | _ => none
  match named with
  | some x => some x
  | none =>
    match pExprs ts with
    | some (es, r) => some (.mk [] es, r)
    | none => none
termination_by (ts.length, 5)

def pExprs (ts : List Token) : Option (List Expr × Suf ts) :=
  match pExpr ts with
  | none => none
  | some (e, ⟨r, h⟩) =>
    let (es, ⟨r', h'⟩) := pExprsTail r
    some (e :: es, ⟨r', by omega⟩)
termination_by (ts.length, 4)

def pExprsTail (ts : List Token) : List Expr × SufLe ts :=
  match ts with
  | t :: rest =>
    if t.kind == "|" then
      match pExpr rest with
      | some (e, ⟨r, h⟩) =>
        let (es, ⟨r', h'⟩) := pExprsTail r
        (e :: es, ⟨r', by simp; omega⟩)
      | none => ([], ⟨t :: rest, Nat.le_refl _⟩)
    else ([], ⟨t :: rest, Nat.le_refl _⟩)
  | [] => ([], ⟨[], Nat.le_refl _⟩)
termination_by (ts.length, 4)

def pExpr (ts : List Token) : Option (Expr × Suf ts) :=
  match pPrimary ts with
  | none => none
  | some (e, ⟨r, h⟩) =>
    match matchOp r with
    | none => some (e, ⟨r, h⟩)
    | some (op, ⟨r2, h2⟩) =>
      match pExpr r2 with
      | some (right, ⟨r3, h3⟩) => some (.bin e op right, ⟨r3, by omega⟩)
      | none => some (e, ⟨r2, by omega⟩)
termination_by (ts.length, 3)

def pPrimary (ts : List Token) : Option (Expr × Suf ts) :=
  match ts with
  | [] => none
  | t :: rest =>
    if t.kind == "number" then some (.const t.value, ⟨rest, by simp⟩)
    else if t.kind == "string" then some (.const ((t.value.drop 1).dropLast), ⟨rest, by simp⟩)
    else if t.kind == "accessor" then some (.acc t.value, ⟨rest, by simp⟩)
    else if t.kind == "word" then
      let args : List Stmt × SufLe rest :=
        match rest with
        | o :: rest2 =>
          if o.kind == "(" then
            match pStmts "," rest2 with
            | some (ss, ⟨r, h⟩) =>
              match r, h with
              | c :: r', h =>
                if c.kind == ")" then (ss, ⟨r', by simp at h ⊢; omega⟩) else ([], ⟨o :: rest2, Nat.le_refl _⟩)
              | [], _ => ([], ⟨o :: rest2, Nat.le_refl _⟩)
            | none => ([], ⟨o :: rest2, Nat.le_refl _⟩)
          else ([], ⟨o :: rest2, Nat.le_refl _⟩)
        | [] => ([], ⟨[], Nat.le_refl _⟩)
      let (as, ⟨r, h⟩) := args
      if isFunction t.value then some (.call t.value as, ⟨r, by simp; omega⟩)
      else some (.var t.value, ⟨r, by simp; omega⟩)
    else if t.kind == "?" then some (.question, ⟨rest, by simp⟩)
    else if t.kind == "{" then
      match rest with
      | c :: rest2 =>
        if c.kind == "}" then some (.obj [], ⟨rest2, by simp; omega⟩)
        else
          match pKVs (c :: rest2) with
          | some (kvs, ⟨r, h⟩) =>
            match r, h with
            | c2 :: r', h => if c2.kind == "}" then some (.obj (normFields kvs), ⟨r', by simp at h ⊢; omega⟩) else none
            | [], _ => none
          | none => none
      | [] => none
    else none
termination_by (ts.length, 2)

def pKVs (ts : List Token) : Option (List (Str × Stmt) × Suf ts) :=
  match pKV ts with
  | none => none
  | some (kv, ⟨r, h⟩) =>
    let (kvs, ⟨r', h'⟩) := pKVsTail r
    some (kv :: kvs, ⟨r', by omega⟩)
termination_by (ts.length, 1)

def pKVsTail (ts : List Token) : List (Str × Stmt) × SufLe ts :=
  match ts with
  | t :: rest =>
    if t.kind == "," then
      match pKV rest with
      | some (kv, ⟨r, h⟩) =>
        let (kvs, ⟨r', h'⟩) := pKVsTail r
        (kv :: kvs, ⟨r', by simp; omega⟩)
      | none => ([], ⟨t :: rest, Nat.le_refl _⟩)
    else ([], ⟨t :: rest, Nat.le_refl _⟩)
  | [] => ([], ⟨[], Nat.le_refl _⟩)
termination_by (ts.length, 1)

def pKV (ts : List Token) : Option ((Str × Stmt) × Suf ts) :=
  match ts with
  | w :: c :: rest =>
    if w.kind == "word" && c.kind == ":" then
      match pStmt rest with
      | some (s, ⟨r, h⟩) => some ((w.value, s), ⟨r, by simp; omega⟩)
      | none => none
    else none
  | _ => none
termination_by (ts.length, 0)
end

/-- `Parser.ParseString`: statements separated by `;`, then end of input.  The Go errors are
    reduced to their class. -/
inductive ParseResult where
  | ok (e : Engine)
  | syntaxError
deriving Inhabited

def parseTokens (ts : List Token) : ParseResult :=
  match pStmts ";" ts with
  | some (ss, ⟨[], _⟩) => .ok ss
  | _ => .syntaxError

def parse (s : Str) : ParseResult := parseTokens (tokenize s)

end Gedcom.Q
