/-
  C14 — the layer where file content meets partial Go operations.

  Every Go operation that can panic on file content (string index, slice index, type assertion on
  whatever a pointer resolves to) is a *partial primitive* here (`byteAt`, `assertIndi`, `first`,
  `tailFrom1`) with an explicit `panic <site>` outcome; the library functions are written on top of
  them in the order the Go code evaluates them.  Whether a guard is present in the code is a
  regenerated fact (`Generated.Resolve`, behavioural probes of the public API): the model is
  parameterised by `Flags`, the theorems of `Props/C14.lean` are proved for every flag vector that
  is `Safe` and instantiated at the regenerated one, so reverting a repair flips a flag, breaks the
  instantiation, and the same model — now evaluated with the new flags — exhibits the panic.

  Anchors: util.go valueToPointer; document.go NodeByPointer/Families/Individuals/Warnings;
  husband_node.go, wife_node.go, child_node.go Individual; child_nodes.go Individuals;
  individual_node.go Spouses/Families/Parents/Children/FamilyWithSpouse/FamilyWithUnknownSpouse/
  SpouseChildren; family_node.go Husband/Wife/Children/HasChild/Warnings; name_node.go Surname;
  html/individual_index_header.go GetIndexLetters/getIndexLetter; html/util.go surnameStartsWith;
  html/surname_link.go; html/publish_header.go; html/individual_page.go,
  individual_name_and_sex.go, individual_additional_names.go; html/publish.go sendFiles.
-/
import Gedcom.Model.Node
import Gedcom.Generated.Tags
import Gedcom.Generated.Resolve
namespace Gedcom.Resolve
open Gedcom

/-! ## outcomes -/

/-- where a Go panic can originate in the modelled layer -/
inductive Site
  | valueToPointer      -- util.go: val[0] / val[len-1]
  | husband | wife | child   -- n.(*IndividualNode) in the three Individual() methods
  | childNodes          -- individual.(*IndividualNode) in ChildNodes.Individuals
  | header              -- publish_header.go: indexLetters[0]
  | page                -- individual_page.go: Names()[0]
  | nameAndSex          -- individual_name_and_sex.go: Names()[0]
  | additionalNames     -- individual_additional_names.go: Names()[1:]
  | surnameLink         -- surname_link.go: surname[0]
  | startsWith          -- html/util.go surnameStartsWith: lowerName[0]
  | eventDate           -- html/event_date.go: c.dates[0]
  | eventDates          -- html/individual_dates.go: births[0] / baptisms[0] / deaths[0] / burials[0]
  | placePage           -- html/place_page.go, publish.go: field of placesMap[key] (nil when absent)
deriving DecidableEq, Repr, Inhabited

def Site.name : Site → String
  | .valueToPointer => "valueToPointer" | .husband => "husband" | .wife => "wife" | .child => "child"
  | .childNodes => "childNodes" | .header => "header" | .page => "page" | .nameAndSex => "nameAndSex"
  | .additionalNames => "additionalNames" | .surnameLink => "surnameLink" | .startsWith => "startsWith"
  | .eventDate => "eventDate" | .eventDates => "eventDates" | .placePage => "placePage"

/-- result of a Go call: a value or a panic at a site -/
inductive Res (α : Type) where
  | ok (a : α)
  | panic (s : Site)
deriving Repr

namespace Res
def bind {α β} : Res α → (α → Res β) → Res β
  | ok a, f => f a
  | panic s, _ => panic s
instance : Monad Res where
  pure := ok
  bind := bind
def isOk {α} : Res α → Bool
  | ok _ => true
  | panic _ => false
def panicSite {α} : Res α → Option Site
  | ok _ => none
  | panic s => some s
def val? {α} : Res α → Option α
  | ok a => some a
  | panic _ => none
end Res

/-! ## regenerated guard facts -/

/-- a reference accessor tolerates a pointer that resolves to nothing / to another kind of record -/
structure RefFlags where
  nilSafe : Bool
  kindSafe : Bool
deriving DecidableEq, Repr

structure Flags where
  vtpEmptyGuard : Bool          -- valueToPointer("") returns "" instead of indexing
  husband : RefFlags
  wife : RefFlags
  child : RefFlags
  childNodes : RefFlags
  headerGuard : Bool            -- PublishHeader does not index an empty letter list
  pageGuard : Bool              -- IndividualPage does not index an empty name list
  nameAndSexGuard : Bool
  additionalNamesGuard : Bool
deriving DecidableEq, Repr

/-- the guards as the current source has them (behavioural probes, `gvh extract`) -/
def generatedFlags : Flags :=
  { vtpEmptyGuard := Generated.Resolve.vtpEmptyGuard
    husband := ⟨Generated.Resolve.husbandNilSafe, Generated.Resolve.husbandKindSafe⟩
    wife := ⟨Generated.Resolve.wifeNilSafe, Generated.Resolve.wifeKindSafe⟩
    child := ⟨Generated.Resolve.childNilSafe, Generated.Resolve.childKindSafe⟩
    childNodes := ⟨Generated.Resolve.childNodesNilSafe, Generated.Resolve.childNodesKindSafe⟩
    headerGuard := Generated.Resolve.headerGuard
    pageGuard := Generated.Resolve.pageGuard
    nameAndSexGuard := Generated.Resolve.nameAndSexGuard
    additionalNamesGuard := Generated.Resolve.additionalNamesGuard }

/-- every guard of the repaired code is present -/
def Flags.Safe (fl : Flags) : Prop :=
  fl = ⟨true, ⟨true, true⟩, ⟨true, true⟩, ⟨true, true⟩, ⟨true, true⟩, true, true, true, true⟩

instance (fl : Flags) : Decidable fl.Safe := by unfold Flags.Safe; exact inferInstance

/-- the tree before the repairs of defect 15 (used for the counterexamples) -/
def unrepairedFlags : Flags :=
  ⟨false, ⟨true, false⟩, ⟨true, false⟩, ⟨true, false⟩, ⟨false, false⟩, false, false, false, false⟩

/-! ## partial primitives -/

/-- `s[i]` on a Go string -/
def byteAt (site : Site) (v : Str) (i : Nat) : Res UInt8 :=
  if h : i < v.length then .ok v[i] else .panic site

/-- `xs[0]` on a Go slice -/
def first {α} (site : Site) (xs : List α) : Res α :=
  match xs with
  | x :: _ => .ok x
  | [] => .panic site

/-- `xs[1:]` on a Go slice -/
def tailFrom1 {α} (site : Site) (xs : List α) : Res (List α) :=
  match xs with
  | _ :: t => .ok t
  | [] => .panic site

def mapRes {α β} (f : α → Res β) : List α → Res (List β)
  | [] => .ok []
  | x :: xs => do
    let y ← f x
    let ys ← mapRes f xs
    pure (y :: ys)

def concatMapRes {α β} (f : α → Res (List β)) : List α → Res (List β)
  | [] => .ok []
  | x :: xs => do
    let y ← f x
    let ys ← concatMapRes f xs
    pure (y ++ ys)

def findRes {α} (p : α → Res Bool) : List α → Res (Option α)
  | [] => .ok none
  | x :: xs => do
    if (← p x) then pure (some x) else findRes p xs

/-- `[x]` when the condition holds (the call is made only then), else `[]` -/
def whenList {α} (b : Bool) (x : Res α) : Res (List α) :=
  if b then x >>= fun a => pure [a] else .ok []

/-- Go's short-circuit `a && b` over calls that may panic -/
def andThen (a : Res Bool) (b : Res Bool) : Res Bool :=
  a >>= fun v => if v then b else .ok false

/-! ## bytes, tags, kinds -/

def bs (s : String) : Str := s.toList.map (fun c => UInt8.ofNat c.toNat)

def tagKind (t : Str) : String :=
  match Generated.kindTable.find? (fun e => bs e.1 == t) with
  | some e => e.2
  | none => Generated.unknownKind

def isIndi (n : Node) : Bool := tagKind n.tag == "IndividualNode"
def isFam (n : Node) : Bool := tagKind n.tag == "FamilyNode"

def tHUSB := bs "HUSB"
def tWIFE := bs "WIFE"
def tCHIL := bs "CHIL"
def tNAME := bs "NAME"
def tSURN := bs "SURN"

/-- `First(NodesWithTag(node, tag))` -/
def firstWithTag (t : Str) (n : Node) : Option Node := n.kids.find? (fun k => k.tag == t)
/-- `NodesWithTag(node, tag)` -/
def withTag (t : Str) (n : Node) : List Node := n.kids.filter (fun k => k.tag == t)

/-! ## documents and reference resolution -/

/-- a root record together with its position in the file (Go pointer identity) -/
structure Ent where
  idx : Nat
  node : Node
deriving Inhabited

abbrev Doc := Forest

def enumFrom (i : Nat) : List Node → List Ent
  | [] => []
  | n :: ns => ⟨i, n⟩ :: enumFrom (i + 1) ns

def roots (doc : Doc) : List Ent := enumFrom 0 doc

/-- `Document.Individuals()` / `Document.Families()`: root records only, in file order -/
def individuals (doc : Doc) : List Ent := (roots doc).filter (fun e => isIndi e.node)
def families (doc : Doc) : List Ent := (roots doc).filter (fun e => isFam e.node)

/-- `valueToPointer` (util.go) -/
def valueToPointer (fl : Flags) (v : Str) : Res Str :=
  if fl.vtpEmptyGuard && v.length == 0 then .ok [] else do
    let a ← byteAt .valueToPointer v 0
    let b ← byteAt .valueToPointer v (v.length - 1)
    if v.length > 2 && a == 64 && b == 64 then pure ((v.drop 1).take (v.length - 2)) else pure []

/-- `Document.NodeByPointer`: the pointer cache holds root records with a non-empty pointer; a
    later record with the same pointer replaces an earlier one. -/
def nodeByPointer (doc : Doc) (p : Str) : Option Ent :=
  if p.isEmpty then none else (roots doc).reverse.find? (fun e => e.node.ptr == p)

/-- `n.(*IndividualNode)` with the checks the code makes around it -/
def assertIndi (site : Site) (rf : RefFlags) (n : Option Ent) : Res (Option Ent) :=
  match n with
  | none => if rf.nilSafe then .ok none else .panic site
  | some e => if isIndi e.node then .ok (some e) else if rf.kindSafe then .ok none else .panic site

/-- `HusbandNode/WifeNode/ChildNode.Individual()` on a non-nil role node -/
def roleIndividual (fl : Flags) (site : Site) (rf : RefFlags) (doc : Doc) (role : Node) : Res (Option Ent) := do
  let p ← valueToPointer fl role.value
  assertIndi site rf (nodeByPointer doc p)

def husbandNode (fam : Node) : Option Node := firstWithTag tHUSB fam
def wifeNode (fam : Node) : Option Node := firstWithTag tWIFE fam
def childNodes (fam : Node) : List Node := withTag tCHIL fam

/-- `family.Husband().Individual()` (nil-tolerant on the role node) -/
def husbandIndividual (fl : Flags) (doc : Doc) (fam : Node) : Res (Option Ent) :=
  match husbandNode fam with
  | none => .ok none
  | some h => roleIndividual fl .husband fl.husband doc h

def wifeIndividual (fl : Flags) (doc : Doc) (fam : Node) : Res (Option Ent) :=
  match wifeNode fam with
  | none => .ok none
  | some w => roleIndividual fl .wife fl.wife doc w

def childIndividual (fl : Flags) (doc : Doc) (c : Node) : Res (Option Ent) :=
  roleIndividual fl .child fl.child doc c

/-- `ChildNodes.Individuals()` -/
def childNodesIndividuals (fl : Flags) (doc : Doc) (cs : List Node) : Res (List Ent) :=
  concatMapRes (fun c => do
    let p ← valueToPointer fl c.value
    match nodeByPointer doc p with
    | none => if fl.childNodes.nilSafe then pure [] else .panic .childNodes
    | some e => if isIndi e.node then pure [e] else if fl.childNodes.kindSafe then pure [] else .panic .childNodes) cs

/-- `IndividualNode.Is`: same pointer -/
def sameIndi (a : Option Ent) (b : Ent) : Bool :=
  match a with
  | none => false
  | some x => x.node.ptr == b.node.ptr

/-- `role.IsIndividual(node2)` for a possibly nil role node and a possibly nil individual -/
def roleIs (fl : Flags) (site : Site) (rf : RefFlags) (doc : Doc) (role : Option Node) (indi : Option Ent) : Res Bool :=
  match role, indi with
  | some r, some i => do
    let x ← roleIndividual fl site rf doc r
    pure (sameIndi x i)
  | _, _ => .ok false

def husbandIs (fl : Flags) (doc : Doc) (fam : Node) (indi : Option Ent) : Res Bool :=
  roleIs fl .husband fl.husband doc (husbandNode fam) indi
def wifeIs (fl : Flags) (doc : Doc) (fam : Node) (indi : Option Ent) : Res Bool :=
  roleIs fl .wife fl.wife doc (wifeNode fam) indi

/-- `FamilyNode.HasChild` -/
def hasChild (fam : Node) (indi : Ent) : Bool :=
  (childNodes fam).any (fun c => c.value == [64] ++ indi.node.ptr ++ [64])

/-- `IndividualNode.Spouses()`; entries may be nil -/
def spouses (fl : Flags) (doc : Doc) (indi : Ent) : Res (List (Option Ent)) :=
  concatMapRes (fun (f : Ent) =>
    match husbandNode f.node, wifeNode f.node with
    | some h, some w => do
      let hi ← roleIndividual fl .husband fl.husband doc h
      let l1 ← whenList (sameIndi hi indi) (roleIndividual fl .wife fl.wife doc w)
      let wi ← roleIndividual fl .wife fl.wife doc w
      let l2 ← whenList (sameIndi wi indi) (roleIndividual fl .husband fl.husband doc h)
      pure (l1 ++ l2)
    | _, _ => pure []) (families doc)

/-- `IndividualNode.Families()` -/
def familiesOf (fl : Flags) (doc : Doc) (indi : Ent) : Res (List Ent) :=
  concatMapRes (fun (f : Ent) => do
    let c := hasChild f.node indi
    let h ← husbandIs fl doc f.node (some indi)
    let w ← wifeIs fl doc f.node (some indi)
    pure (if c || h || w then [f] else [])) (families doc)

/-- `IndividualNode.Parents()` -/
def parents (fl : Flags) (doc : Doc) (indi : Ent) : Res (List Ent) := do
  let fs ← familiesOf fl doc indi
  pure (fs.filter (fun f => hasChild f.node indi))

/-- `IndividualNode.Children()` (the CHIL nodes of the families where the person is a partner) -/
def childrenOf (fl : Flags) (doc : Doc) (indi : Ent) : Res (List Node) := do
  let fs ← familiesOf fl doc indi
  pure ((fs.filter (fun f => !hasChild f.node indi)).flatMap (fun f => childNodes f.node))

/-- `IndividualNode.FamilyWithSpouse` -/
def familyWithSpouse (fl : Flags) (doc : Doc) (indi : Ent) (spouse : Option Ent) : Res (Option Ent) :=
  findRes (fun (f : Ent) => do
    let a ← andThen (husbandIs fl doc f.node (some indi)) (wifeIs fl doc f.node spouse)
    let b ← andThen (wifeIs fl doc f.node (some indi)) (husbandIs fl doc f.node spouse)
    pure (a || b)) (families doc)

/-- `IndividualNode.FamilyWithUnknownSpouse` -/
def familyWithUnknownSpouse (fl : Flags) (doc : Doc) (indi : Ent) : Res (Option Ent) :=
  findRes (fun (f : Ent) => do
    let a ← andThen (husbandIs fl doc f.node (some indi)) (.ok (wifeNode f.node).isNone)
    let b ← andThen (wifeIs fl doc f.node (some indi)) (.ok (husbandNode f.node).isNone)
    pure (a || b)) (families doc)

/-- the other partner of a family in which `indi` is husband or wife (nil when unknown) -/
def partnerIn (fl : Flags) (doc : Doc) (indi : Ent) (f : Ent) : Res (Option Ent) := do
  let h ← husbandIs fl doc f.node (some indi)
  if h then wifeIndividual fl doc f.node
  else do
    let w ← wifeIs fl doc f.node (some indi)
    if w then husbandIndividual fl doc f.node else pure none

/-- `IndividualNode.SpouseChildren()`: the keys (spouse or nil) in insertion order; the Go map
    keeps one entry per key, the keys are what the page iterates over. -/
def spouseChildrenKeys (fl : Flags) (doc : Doc) (indi : Ent) : Res (List (Option Ent)) := do
  let fs ← familiesOf fl doc indi
  concatMapRes (fun (f : Ent) =>
    if hasChild f.node indi then pure [] else do
      let spouse ← partnerIn fl doc indi f
      let _ ← familyWithSpouse fl doc indi spouse
      let u ← familyWithUnknownSpouse fl doc indi
      pure (if u.isSome then [spouse, none] else [spouse])) fs

/-! ## names, surnames, index letters -/

def isAsciiSpace (b : UInt8) : Bool := b == 32 || (9 ≤ b && b ≤ 13)

/-- strips one leading white-space character as `strings.TrimSpace` sees it (ASCII, U+0085, U+00A0,
    U+1680, U+2000–U+200A, U+2028, U+2029, U+202F, U+205F, U+3000) -/
def dropSpaceFront : Str → Option Str
  | 0xC2 :: 0x85 :: r => some r
  | 0xC2 :: 0xA0 :: r => some r
  | 0xE1 :: 0x9A :: 0x80 :: r => some r
  | 0xE2 :: 0x80 :: c :: r =>
    if (0x80 ≤ c && c ≤ 0x8A) || c == 0xA8 || c == 0xA9 || c == 0xAF then some r else none
  | 0xE2 :: 0x81 :: 0x9F :: r => some r
  | 0xE3 :: 0x80 :: 0x80 :: r => some r
  | b :: r => if isAsciiSpace b then some r else none
  | [] => none

/-- the same, on the reversed string -/
def dropSpaceBack : Str → Option Str
  | 0x85 :: 0xC2 :: r => some r
  | 0xA0 :: 0xC2 :: r => some r
  | 0x80 :: 0x9A :: 0xE1 :: r => some r
  | 0x9F :: 0x81 :: 0xE2 :: r => some r
  | 0x80 :: 0x80 :: 0xE3 :: r => some r
  | c :: 0x80 :: 0xE2 :: r =>
    if (0x80 ≤ c && c ≤ 0x8A) || c == 0xA8 || c == 0xA9 || c == 0xAF then some r
    else if isAsciiSpace c then some (0x80 :: 0xE2 :: r) else none
  | b :: r => if isAsciiSpace b then some r else none
  | [] => none

def trimFront (fuel : Nat) (s : Str) : Str :=
  match fuel with
  | 0 => s
  | f + 1 => match dropSpaceFront s with
    | some r => trimFront f r
    | none => s

def trimBackRev (fuel : Nat) (s : Str) : Str :=
  match fuel with
  | 0 => s
  | f + 1 => match dropSpaceBack s with
    | some r => trimBackRev f r
    | none => s

/-- `strings.TrimSpace` -/
def trimSpace (s : Str) : Str :=
  let a := trimFront s.length s
  (trimBackRev a.length a.reverse).reverse

/-- one pass of `strings.Replace(s, "  ", " ", -1)` -/
def replaceDouble : Str → Str
  | 32 :: 32 :: r => 32 :: replaceDouble r
  | b :: r => b :: replaceDouble r
  | [] => []

/-- `strings.Replace(s, "  ", " ", -1)` repeated while the string contains two spaces in a row:
    every run of spaces becomes one space -/
def collapseRuns : Str → Str
  | [] => []
  | b :: r => if b == 32 && r.head? == some 32 then collapseRuns r else b :: collapseRuns r

/-- `CleanSpace` (util.go): collapse every run of spaces, then TrimSpace — as the code is -/
def cleanSpace (s : Str) : Str := trimSpace (collapseRuns s)

/-- second group of `nameRegexp = ([^/]*)(/[^/]*/)?(.*)`: the first `/…/` after the slash-free
    prefix, slashes included; empty when there is no closing slash -/
def surnameGroup (v : Str) : Str :=
  let rest := v.dropWhile (· != 47)
  match rest with
  | [] => []
  | _ :: r =>
    let inner := r.takeWhile (· != 47)
    if inner.length < r.length then 47 :: inner ++ [47] else []

/-- `NameNode.Surname()` (nil-tolerant: no NAME gives "") -/
def surnameOf (name : Option Node) : Str :=
  match name with
  | none => []
  | some n =>
    match withTag tSURN n with
    | s :: _ => cleanSpace s.value
    | [] =>
      let last := cleanSpace (surnameGroup n.value)
      if last.isEmpty then [] else (last.drop 1).take (last.length - 2)

/-- `IndividualNode.Name()`: the first NAME child -/
def primaryName (indi : Node) : Option Node := firstWithTag tNAME indi
/-- `IndividualNode.Names()` -/
def names (indi : Node) : List Node := withTag tNAME indi

/-- first byte of `strings.ToLower(s)`: ASCII capitals fold; the only non-ASCII letters whose lower
    case is ASCII are U+212A (Kelvin, → k) and U+0130 (İ, → i); every other first byte stays ≥ 0x80
    (an invalid byte becomes U+FFFD). -/
def lowerFirstByte (s : Str) : Option UInt8 :=
  match s with
  | [] => none
  | 0xE2 :: 0x84 :: 0xAA :: _ => some 107
  | 0xC4 :: 0xB0 :: _ => some 105
  | b :: _ => if 65 ≤ b && b ≤ 90 then some (b + 32) else some b

def symbolLetter : UInt8 := 35

/-- `getIndexLetter` on the surname: `name == "" || name[0] < 'a' || name[0] > 'z'` → '#' -/
def indexLetterOf (surname : Str) : UInt8 :=
  match lowerFirstByte surname with
  | none => symbolLetter
  | some b => if b < 97 || b > 122 then symbolLetter else b

def indexLetter (indi : Node) : UInt8 := indexLetterOf (surnameOf (primaryName indi))

/-- `surnameStartsWith` (html/util.go) on the index-formatted name: "" is replaced by "#" before the
    first byte of the lower-cased string is taken -/
def startsWithLetter (indexName : Str) (letter : UInt8) : Res Bool :=
  let name := if indexName.isEmpty then [symbolLetter] else indexName
  match lowerFirstByte name with
  | some b => .ok (b == letter)
  | none => .panic .startsWith

/-- `GetIndexLetters`: '#' first, then a..z, of the individuals that are listed (`listed` is the
    visibility filter: everybody for show/placeholder, the non-living for hide) -/
def indexLetters (doc : Doc) (listed : Ent → Bool) : List UInt8 :=
  let ls := ((individuals doc).filter listed).map (fun e => indexLetter e.node)
  (if ls.contains symbolLetter then [symbolLetter] else []) ++
    ((List.range 26).map (fun i => UInt8.ofNat (97 + i))).filter (fun c => ls.contains c)

/-- `getSurnames`: the distinct non-empty surnames of the primary names -/
def getSurnames (doc : Doc) : List Str :=
  (((individuals doc).map (fun e => surnameOf (primaryName e.node))).filter (fun s => !s.isEmpty)).eraseDups

/-- `SurnameLink.WriteHTMLTo`: `rune(surname[0])` -/
def surnameLink (surname : Str) : Res UInt8 := byteAt .surnameLink surname 0

/-- the rows of `SurnameListPage` -/
def surnameList (doc : Doc) : Res (List UInt8) := mapRes surnameLink (getSurnames doc)

/-! ## page assembly (only the operations that index file-derived lists) -/

/-- `PublishHeader.WriteHTMLTo`: the Individuals tab links to `indexLetters[0]` -/
def header (fl : Flags) (showIndividuals : Bool) (letters : List UInt8) : Res (Option UInt8) :=
  if showIndividuals then
    if fl.headerGuard && letters.isEmpty then .ok none
    else do
      let l ← first .header letters
      pure (some l)
  else .ok none

/-- `Names()[0]` unless the code uses the nil-tolerant `Name()` -/
def primaryOr (guard : Bool) (site : Site) (indi : Node) : Res (Option Node) :=
  if guard then .ok (primaryName indi) else first site (names indi) >>= fun n => pure (some n)

/-- `Names()[1:]` unless the code checks the length first -/
def additionalNames (guard : Bool) (ns : List Node) : Res (List Node) :=
  if guard && ns.isEmpty then .ok [] else tailFrom1 .additionalNames ns

/-- `IndividualPage`, `IndividualNameAndSex`, `IndividualAdditionalNames` on one person: number of
    additional names shown -/
def individualPage (fl : Flags) (showIndividuals : Bool) (letters : List UInt8) (indi : Node) : Res Nat := do
  let _ ← primaryOr fl.pageGuard .page indi
  let _ ← header fl showIndividuals letters
  let _ ← primaryOr fl.nameAndSexGuard .nameAndSex indi
  let extra ← additionalNames fl.additionalNamesGuard (names indi)
  pure extra.length

/-- `EventDate.WriteHTMLTo`: `c.dates[0]` after the `IsBlank` (no dates) check -/
def eventDate {α} (dates : List α) : Res (Option α) :=
  if dates.isEmpty then .ok none else first .eventDate dates >>= fun d => pure (some d)

/-- one `switch` of `IndividualDates.EventDates`: the first primary event (`births[0]`), else the
    first fallback event (`baptisms[0]`), each under its `len(…) > 0` case -/
def pickEvent {α} (primary fallback : List α) : Res (Option α) :=
  if primary.length > 0 then first .eventDates primary >>= fun e => pure (some e)
  else if fallback.length > 0 then first .eventDates fallback >>= fun e => pure (some e)
  else .ok none

/-- `IndividualDates.EventDates`: birth-or-baptism, then death-or-burial -/
def eventDates {α} (births baptisms deaths burials : List α) : Res (List α) := do
  let b ← pickEvent births baptisms
  let d ← pickEvent deaths burials
  pure (b.toList ++ d.toList)

/-- `c.placesMap[key]` followed by a field access: a nil-pointer panic when the key is absent -/
def lookupPlace {α} (m : List (Str × α)) (key : Str) : Res α :=
  match m.find? (fun e => e.1 == key) with
  | some e => .ok e.2
  | none => .panic .placePage

/-- `sendPlaceFiles`: one place page per key *of the map the pages look the key up in* -/
def placePages {α} (m : List (Str × α)) : Res (List α) := mapRes (lookupPlace m) (m.map (·.1))

/-! ## the warnings walk -/

/-- `FamilyNode.Warnings()`: the reference resolutions it performs, in evaluation order
    (father, mother, then every child; the sibling, marriage and partner checks resolve the same
    references again) -/
def familyWarnings (fl : Flags) (doc : Doc) (fam : Node) : Res Unit := do
  let _ ← husbandIndividual fl doc fam
  let _ ← wifeIndividual fl doc fam
  let _ ← mapRes (childIndividual fl doc) (childNodes fam)
  pure ()

/-- the `Warner` of a node: families resolve their members (individuals, dates, … resolve nothing) -/
def nodeWarnings (fl : Flags) (doc : Doc) (n : Node) : Res Unit :=
  if isFam n then familyWarnings fl doc n else .ok ()

mutual
/-- `Filter(node, …)` as used by `Document.Warnings`: preorder over the *tree* (never over family
    links); returns the number of nodes visited -/
def walkNode (fl : Flags) (doc : Doc) : Node → Res Nat
  | .mk t v p ks => do
    let _ ← nodeWarnings fl doc (.mk t v p ks)
    let n ← walkForest fl doc ks
    pure (n + 1)
def walkForest (fl : Flags) (doc : Doc) : List Node → Res Nat
  | [] => .ok 0
  | n :: ns => do
    let a ← walkNode fl doc n
    let b ← walkForest fl doc ns
    pure (a + b)
end

/-- `Document.Warnings()` -/
def warningsWalk (fl : Flags) (doc : Doc) : Res Nat := walkForest fl doc doc

/-! ## commands -/

/-- a family as the pages show it: both partners and every child are resolved -/
def familyRow (fl : Flags) (doc : Doc) (f : Ent) : Res Unit := do
  let _ ← husbandIndividual fl doc f.node
  let _ ← wifeIndividual fl doc f.node
  let _ ← mapRes (childIndividual fl doc) (childNodes f.node)
  pure ()

/-- what rendering one person's page touches -/
def personPage (fl : Flags) (doc : Doc) (showIndividuals : Bool) (letters : List UInt8) (e : Ent) : Res Nat := do
  let k ← individualPage fl showIndividuals letters e.node
  let _ ← spouses fl doc e
  let fs ← familiesOf fl doc e
  let _ ← parents fl doc e
  let _ ← spouseChildrenKeys fl doc e
  let _ ← mapRes (familyRow fl doc) fs
  pure k

def surnamePage (showSurnames : Bool) (doc : Doc) : Res (List UInt8) :=
  if showSurnames then surnameList doc else .ok []

/-- what `publish` touches in the modelled layer: the header of every page, the page of every
    person that gets one (`hasPage`) with their relatives, the rows of the family list page, the
    surname list (each only when its page group is switched on);
    returns the number of individual pages -/
def publish (fl : Flags) (doc : Doc) (showIndividuals showFamilies showSurnames : Bool) (listed hasPage : Ent → Bool) : Res Nat := do
  let letters := indexLetters doc listed
  let _ ← header fl showIndividuals letters
  let pages ← mapRes (personPage fl doc showIndividuals letters)
    (if showIndividuals then (individuals doc).filter hasPage else [])
  let _ ← mapRes (familyRow fl doc) (if showFamilies then families doc else [])
  let _ ← surnamePage showSurnames doc
  pure pages.length

/-- what `diff` touches per individual (`SurroundingSimilarity`) -/
def surrounding (fl : Flags) (doc : Doc) (indi : Ent) : Res Unit := do
  let _ ← spouses fl doc indi
  let cs ← childrenOf fl doc indi
  let _ ← childNodesIndividuals fl doc cs
  let ps ← parents fl doc indi
  let _ ← mapRes (familyRow fl doc) ps
  pure ()

def diffSide (fl : Flags) (doc : Doc) : Res Unit := do
  let _ ← mapRes (surrounding fl doc) (individuals doc)
  pure ()

end Gedcom.Resolve
