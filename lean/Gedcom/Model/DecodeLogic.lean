/-
  Target language of the translator for the level arithmetic of `Decoder.Decode`
  (harness/extract_decodelogic.go): integer expressions over `indent` and `len(indents)`,
  conditions over them and the `AllowInvalidIndents` option, and the three slice operations the
  switch performs.  `srcDecide` interprets the translated pieces in the order the source has them;
  Props/C02 proves that the result is the placement the model's `place` computes.
-/
import Gedcom.Model.Decoder
namespace Gedcom.DecodeLogic
open Gedcom

inductive IExp where
  | indent | len
  | lit (n : Int)
  | add (a b : IExp)
  | sub (a b : IExp)
  | bad
deriving Repr, DecidableEq, Inhabited

inductive BExp where
  | eq (a b : IExp) | ge (a b : IExp) | gt (a b : IExp) | lt (a b : IExp)
  | and (a b : BExp)
  | allow
  | bad
deriving Repr, DecidableEq, Inhabited

/-- `indents = append(indents, node)`, `indents = indents[:e]`, `indents[e] = node` -/
inductive Op where
  | append
  | truncate (e : IExp)
  | set (e : IExp)
  | bad
deriving Repr, DecidableEq, Inhabited

def IExp.eval (indent len : Int) : IExp → Int
  | .indent => indent
  | .len => len
  | .lit n => n
  | .add a b => a.eval indent len + b.eval indent len
  | .sub a b => a.eval indent len - b.eval indent len
  | .bad => 0

def BExp.eval (indent len : Int) (allow : Bool) : BExp → Bool
  | .eq a b => a.eval indent len == b.eval indent len
  | .ge a b => decide (a.eval indent len ≥ b.eval indent len)
  | .gt a b => decide (a.eval indent len > b.eval indent len)
  | .lt a b => decide (a.eval indent len < b.eval indent len)
  | .and a b => a.eval indent len allow && b.eval indent len allow
  | .allow => allow
  | .bad => false

def IExp.ok : IExp → Bool
  | .bad => false
  | .add a b | .sub a b => a.ok && b.ok
  | _ => true
def BExp.ok : BExp → Bool
  | .bad => false
  | .and a b => a.ok && b.ok
  | .eq a b | .ge a b | .gt a b | .lt a b => a.ok && b.ok
  | .allow => true
def Op.ok : Op → Bool
  | .bad => false
  | .truncate e | .set e => e.ok
  | .append => true

/-- what the slice operations do to (length of `indents`, index the new node was stored at);
    an operation outside the slice's bounds is a run-time panic in Go: `none` -/
def Op.run (indent : Int) : Op → Int × Option Int → Option (Int × Option Int)
  | .append, (len, _) => some (len + 1, some len)
  | .truncate e, (len, pos) =>
    let k := e.eval indent len
    if 0 ≤ k ∧ k ≤ len then some (k, pos) else none
  | .set e, (len, _) =>
    let k := e.eval indent len
    if 0 ≤ k ∧ k < len then some (len, some k) else none
  | .bad, _ => none

def runOps (indent : Int) : List Op → Int × Option Int → Option (Int × Option Int)
  | [], st => some st
  | op :: ops, st => (op.run indent st).bind (runOps indent ops)

/-- where the line goes -/
inductive Decision where
  | root
  | error
  | panic
  | place (newLen nodeAt parentAt : Int)
  | outOfBounds        -- a slice operation or the parent index outside the slice
deriving Repr, DecidableEq, Inhabited

structure Pieces where
  rootCond : BExp
  overCond : BExp
  clampCond : BExp
  clampValue : IExp
  errorCond : BExp
  panicOtherwise : Bool
  parentIndex : IExp
  switchCases : List (BExp × List Op)
  switchDefault : List Op

def Pieces.ok (p : Pieces) : Bool :=
  p.rootCond.ok && p.overCond.ok && p.clampCond.ok && p.clampValue.ok && p.errorCond.ok &&
  p.panicOtherwise && p.parentIndex.ok &&
  p.switchCases.all (fun c => c.1.ok && c.2.all Op.ok) && p.switchDefault.all Op.ok

/-- first case of the switch whose condition holds, else the default -/
def selectOps (indent len : Int) (allow : Bool) (dflt : List Op) : List (BExp × List Op) → List Op
  | [] => dflt
  | c :: rest => if c.1.eval indent len allow then c.2 else selectOps indent len allow dflt rest

def finish (parent : Int) : Option (Int × Option Int) → Decision
  | some (newLen, some pos) => .place newLen pos parent
  | _ => .outOfBounds

/-- the statements of `Decode` between `parseLine` and `i.AddNode(node)`, in source order -/
def srcDecide (p : Pieces) (indent len : Int) (allow : Bool) : Decision :=
  if p.rootCond.eval indent len allow then .root
  else if p.overCond.eval indent len allow then
    if p.clampCond.eval indent len allow then
      let i := p.clampValue.eval indent len
      let parent := p.parentIndex.eval i len
      if 0 ≤ parent ∧ parent < len then
        finish parent (runOps i (selectOps i len allow p.switchDefault p.switchCases) (len, none))
      else .outOfBounds
    else if p.errorCond.eval indent len allow then .error else .panic
  else
    let parent := p.parentIndex.eval indent len
    if 0 ≤ parent ∧ parent < len then
      finish parent (runOps indent (selectOps indent len allow p.switchDefault p.switchCases) (len, none))
    else .outOfBounds

/-- the model's `place`, as a decision on the numbers only -/
def modelDecide (indent len : Int) (allow : Bool) : Decision :=
  if indent = 0 then .root
  else if indent - 1 ≥ len then
    if allow then (if len = 0 then .error else .place (len + 1) len (len - 1))
    else .panic
  else .place (indent + 1) indent (indent - 1)

/-! ## continuation rules -/

/-- conditions over `dec.AllowMultiLine` and `previousNode != nil` -/
inductive CExp where
  | multi | prev
  | and (a b : CExp)
  | bad
deriving Repr, DecidableEq, Inhabited

def CExp.eval (multi prev : Bool) : CExp → Bool
  | .multi => multi
  | .prev => prev
  | .and a b => a.eval multi prev && b.eval multi prev
  | .bad => false

def CExp.ok : CExp → Bool
  | .bad => false
  | .and a b => a.ok && b.ok
  | _ => true

/-- what `previousNode.RawSimpleNode().value += …` appends -/
inductive SPiece where
  | lit (bs : List UInt8)
  | line
  | bad
deriving Repr, DecidableEq, Inhabited

def SPiece.eval (line : Str) : SPiece → Str
  | .lit bs => bs
  | .line => line
  | .bad => []

def evalAppend (line : Str) (ps : List SPiece) : Str := ps.flatMap (SPiece.eval line)

end Gedcom.DecodeLogic
