/-
  C17 — page assembly: the pages whose content depends on the living visibility, as functions from
  (document abstraction, visibility, page groups) to the *skeleton* of the page: the sequence of
  text nodes (`T`) and link targets (`H`) in document order.  Every person-dependent piece is one of
  the components of `Gedcom.Model.Living` (`individualName`, `individualDates`, `individualLink`,
  `individualButton`, `placeEvent`, `pageIndividual`); what is modelled here is *which component is
  used where, for whom, and behind which filter*.

  A person has three parts: `pub` (living flag, sex), the relations (`st`: parents' families,
  spouses with their children, families with an unknown partner — the links of the file, not
  personal data) and the private strings (`priv`, `pp`: names, dates, page key, index letters,
  sort key, cards, event rows, events with places).

  Anchors: html/publish.go sendFiles; publish_header.go; individual_list_page.go;
  individual_index_header.go; surname_index.go; individual_in_list.go; surname_list_page.go;
  surname_in_list.go; surname_link.go; place_list_page.go; place_in_list.go; place_page.go;
  place_event.go; family_list_page.go; family_in_list.go; individual_page.go;
  all_parent_buttons.go; parent_buttons.go; individual_events.go; individual_event.go;
  partners_and_children.go; html/core/page.go (title, footer).

  Deviation that is tied, not proved: Go sorts (people by index name, a place's events by year /
  tag / name, surnames and place keys) *before* it skips hidden entries; the model skips first and
  sorts the rest with a stable insertion sort on the same keys.  The two agree whenever the keys
  of the entries that remain are distinct.
-/
import Gedcom.Model.Living
import Gedcom.Model.PublishNames
namespace Gedcom.Pages
open Gedcom Gedcom.Living

inductive Atom
  | T (s : Str)
  | H (s : Str)
deriving DecidableEq, Repr, Inhabited

def bs (s : String) : Str := s.toList.map (fun c => UInt8.ofNat c.toNat)
def lit (s : String) : Atom := .T (bs s)

/-! ## atoms of the components -/

/-- splits on the unit separator 0x1F (several text nodes carried in one string) -/
def splitUS (s : Str) : List Str :=
  let rec go (cur : Str) : Str → List Str
    | [] => if cur.isEmpty then [] else [cur.reverse]
    | b :: r => if b == 0x1F then (if cur.isEmpty then go [] r else cur.reverse :: go [] r) else go (b :: cur) r
  go [] s

/-- an atom list carried in strings: first byte `T` (84) or `H` (72), then the content -/
def decodeAtoms (l : List Str) : List Atom :=
  l.filterMap fun s => match s with
    | 84 :: r => some (.T r)
    | 72 :: r => some (.H r)
    | _ => none

/-- the text node of a markup literal of the code -/
def rawAtoms (s : String) : List Atom :=
  if s == "<em>Hidden</em>" then [lit "Hidden"]
  else if s == "<em>Unknown</em>" then [lit "Unknown"]
  else if s == "&nbsp;" || s == "" then []
  else [lit s]

mutual
def fragAtoms : Frag → List Atom
  | .nothing => []
  | .raw s => rawAtoms s
  | .text s => (splitUS s).map .T
  | .dot _ => []
  | .link h b => .H h :: fragsAtoms b
  | .button _ oc n d => (oc.map Atom.H).toList ++ (fragAtoms n ++ fragAtoms d)
  | .row cs => fragsAtoms cs
def fragsAtoms : List Frag → List Atom
  | [] => []
  | f :: fs => fragAtoms f ++ fragsAtoms fs
end

/-! ## the document abstraction -/

/-- an event that has a place (a row of a place page) -/
structure PlEv where
  key : Str        -- file key of the place
  pretty : Str     -- `prettyPlaceName`
  country : Str
  date : Str       -- `Dates(node).Minimum().Value()`
  descr : Str      -- `node.Tag().String()`
  sortKey : Str    -- years / tag / name-or-value, as the page orders the rows
deriving DecidableEq, Repr, Inhabited

inductive Desc
  | none                       -- an own event
  | unknown                    -- marriage, partner not recorded
  | spouse (i : Option Nat)    -- marriage, link to the partner
deriving DecidableEq, Repr, Inhabited

structure EvRow where
  cells : List Str   -- age, type, date, place link: atoms in coded form
  desc : Desc
deriving DecidableEq, Repr, Inhabited

/-- further private strings of a person -/
structure PPriv where
  idxLetter : UInt8 := 35     -- `getIndexLetter` (from the surname)
  listLetter : UInt8 := 35    -- `surnameStartsWith` (from the index-formatted name)
  sortKey : Str := []         -- `Name().Format(NameFormatIndex)`
  title : Str := []           -- `Name().String()`: page title and extra tab
  nameCard : List Str := []   -- "Name & Sex" rows, coded atoms
  altCard : List Str := []    -- "Additional Names" rows, coded atoms
  events : List EvRow := []   -- rows of the Events card, in page order
  placeEvents : List PlEv := []
deriving DecidableEq, Repr, Inhabited

/-- the links of the file around a person (indices into the people; `none` = not recorded) -/
structure Rel where
  parentFams : List (Option Nat × Option Nat) := []                  -- families where the person is only a child
  spouses : List (Option Nat × Option (List (Option Nat))) := []     -- `Spouses()` with the children of `FamilyWithSpouse`
  unknownFams : List (List (Option Nat)) := []                       -- families with one partner node missing: their children
  evTags : List Str := []                                            -- which events the record has: `Tag().String()` of `AllEvents()`, in order (what `EventStatistics` counts; see Model/PagesStats.lean)
deriving DecidableEq, Repr, Inhabited

structure PPerson where
  pub : Pub
  st : Rel
  priv : Priv
  pp : PPriv
deriving DecidableEq, Repr, Inhabited

structure FamA where
  husb : Option Nat
  wife : Option Nat
  date : Str                -- marriage date cell of families.html ("-" when there is none)
deriving DecidableEq, Repr, Inhabited

structure DocA where
  people : List PPerson
  fams : List FamA
  otherEvents : List PlEv   -- events with a place that belong to no individual (family events, …)
  sourcePtrs : List Str     -- pointers of the SOUR records, document order
deriving Repr, Inhabited

structure Opts where
  ind : Bool
  pla : Bool
  fam : Bool
  sur : Bool
  sou : Bool
  sta : Bool
deriving DecidableEq, Repr, Inhabited

def PPerson.person (p : PPerson) : Person := ⟨p.pub, p.priv⟩
def hiddenP (p : PPerson) (v : Vis) : Bool := p.pub.living && v != .show
def get (d : DocA) (i : Option Nat) : Option PPerson := i.bind (fun k => d.people[k]?)
def per (p : Option PPerson) : Option Person := p.map PPerson.person

/-! ## sorting (stable insertion sort on byte strings) -/

def strLt : Str → Str → Bool
  | [], [] => false
  | [], _ :: _ => true
  | _ :: _, [] => false
  | a :: as, b :: bs => if a < b then true else if b < a then false else strLt as bs

def insertBy {α} (key : α → Str) (x : α) : List α → List α
  | [] => [x]
  | y :: ys => if strLt (key y) (key x) then y :: insertBy key x ys else x :: y :: ys   -- stable: equal keys keep their order

def sortBy {α} (key : α → Str) (l : List α) : List α := l.foldr (insertBy key) []

/-! ## file names -/

/-- `PageIndividuals` — the naming model of C19 (`Gedcom.Model.PublishNames`) -/
def pageIndividuals (letter : UInt8) : Str := Publish.pageIndividuals letter

def lowerByte (b : UInt8) : UInt8 := if 65 ≤ b && b ≤ 90 then b + 32 else b
def upperByte (b : UInt8) : UInt8 := if 97 ≤ b && b ≤ 122 then b - 32 else b

/-! ## what is computed from all people at once -/

/-- `GetIndexLetters`: '#' first, then a..z -/
def indexLetters (fl : Flags) (d : DocA) (v : Vis) : List UInt8 :=
  let from_ : List PPerson := match v with
    | .hide => if fl.hideLettersFromDead then d.people.filter (fun (p : PPerson) => !p.pub.living) else []
    | _ => d.people
  let ls := from_.map (fun p => Publish.indexLetter p.priv.surname)
  (if ls.contains 35 then [35] else []) ++
    ((List.range 26).map (fun i => UInt8.ofNat (97 + i))).filter (fun c => ls.contains c)

/-- `getSurnames(...).Strings()`: sorted distinct non-empty surnames of the people that are listed -/
def surnames (fl : Flags) (d : DocA) (v : Vis) : List Str :=
  sortBy id ((((d.people.filter (fun p => !(fl.surnamesRespectVisibility && hiddenP p v))).map
    (fun p => p.priv.surname)).filter (fun s => !s.isEmpty)).eraseDups)

def surnameCount (fl : Flags) (d : DocA) (v : Vis) (s : Str) : Nat :=
  ((d.people.filter (fun p => !(fl.surnamesRespectVisibility && hiddenP p v))).filter (fun p => p.priv.surname == s)).length

/-- all events with a place, with their owner (`individualForNode`), as `Publisher.Places` sees
    them: in hide mode the events of living people are skipped -/
def placeEvents (fl : Flags) (d : DocA) (v : Vis) : List (Option PPerson × PlEv) :=
  ((d.people.filter (fun p => !(fl.placesRespectHide && p.pub.living && v == .hide))).flatMap
      (fun p => p.pp.placeEvents.map (fun e => (some p, e)))) ++
    d.otherEvents.map (fun e => ((none : Option PPerson), e))

structure PlaceA where
  key : Str
  pretty : Str
  country : Str
  events : List (Option PPerson × PlEv)
deriving Inhabited

/-- the file key of a place: `Publisher.Places()` as the naming model of C19 has it — the sanitized
    pretty name, kept off the fixed page names and the source pages -/
def placeKeyOf (d : DocA) (e : PlEv) : Str := Publish.placeKey (Publish.reservedKeys d.sourcePtrs) e.pretty

/-- `Publisher.Places`: one entry per key (sorted by key), the events of a place sorted -/
def places (fl : Flags) (d : DocA) (v : Vis) : List PlaceA :=
  let evs := placeEvents fl d v
  let keys := sortBy id ((evs.map (fun e => placeKeyOf d e.2)).eraseDups)
  keys.map fun k =>
    let here := evs.filter (fun e => placeKeyOf d e.2 == k)
    let mine := sortBy (fun (e : Option PPerson × PlEv) => e.2.sortKey) here
    match here with
    | e :: _ => ⟨k, e.2.pretty, e.2.country, mine⟩   -- the first place in document order names the page
    | [] => ⟨k, [], [], []⟩

/-! ## the frame of every page -/

def natStr (n : Nat) : Str := bs (toString n)

/-- `PublishHeader`; `nPlaces` is the size of the place map the page was given (since /repo 5934dbb the
    places are collected in `NewPublisher`, so every page sees the same map; nil when places are off) -/
def headerAtoms (fl : Flags) (d : DocA) (v : Vis) (o : Opts) (nPlaces : Nat) (extra : Str) : List Atom :=
  let letters := indexLetters fl d v
  (match o.ind, letters with
    | true, l :: _ => [.H (pageIndividuals l), lit "Individuals", .T (natStr d.people.length)]
    | _, _ => []) ++
  (if o.pla then [.H (bs "places.html"), lit "Places", .T (natStr nPlaces)] else []) ++
  (if o.fam then [.H (bs "families.html"), lit "Families", .T (natStr d.fams.length)] else []) ++
  (if o.sur then [.H (bs "surnames.html"), lit "Surnames", .T (natStr (surnames fl d v).length)] else []) ++
  (if o.sou then [.H (bs "sources.html"), lit "Sources", .T (natStr d.sourcePtrs.length)] else []) ++
  (if o.sta then [.H (bs "statistics.html"), lit "Statistics"] else []) ++
  (if extra.isEmpty then [] else [.H hashHref, .T extra])

def footerAtoms : List Atom :=
  [lit "Generated with", .H (bs "https://github.com/elliotchance/gedcom"), lit "github.com/elliotchance/gedcom"]

/-- `core.NewPage(title, header + body)` -/
def pageAtoms (title : Str) (header body : List Atom) : List Atom :=
  (if title.isEmpty then [] else [.T title]) ++ header ++ body ++ footerAtoms

/-! ## pages -/

/-- `IndividualInList` -/
def listRowAtoms (p : PPerson) (v : Vis) : List Atom :=
  fragAtoms (individualLink (some p.person) v) ++ decodeAtoms p.priv.cells

/-- rows with a heading row whenever the surname changes -/
def rowsWithHeadings (v : Vis) : Str → List PPerson → List Atom
  | _, [] => []
  | last, p :: ps =>
    (if p.priv.surname != last then [.T p.priv.surname] else []) ++ listRowAtoms p v ++
      rowsWithHeadings v p.priv.surname ps

/-- `IndividualListPage` of one letter -/
def individualListPage (fl : Flags) (d : DocA) (v : Vis) (o : Opts) (nPlaces : Nat) (letter : UInt8) : List Atom :=
  let mine := d.people.filter (fun p => p.pp.listLetter == letter)
  let listed := sortBy (fun (p : PPerson) => p.pp.sortKey) (mine.filter (fun p => !hiddenP p v))
  let nHidden := (mine.filter (fun p => hiddenP p v)).length
  let hiddenLine := if nHidden == 0 || v != .placeholder then []
    else [Atom.T (natStr nHidden ++ bs " individuals are hidden because they are living.")]
  let pills := (indexLetters fl d v).flatMap (fun l => [Atom.H (pageIndividuals l), .T [upperByte l]])
  let surnamePills := (sortBy id ((listed.map (fun p => p.priv.surname)).eraseDups)).flatMap
    (fun s => [Atom.H (35 :: s), .T s])
  pageAtoms (bs "Individuals") (headerAtoms fl d v o nPlaces []) <|
    hiddenLine ++ pills ++ surnamePills ++ [lit "Name", lit "Birth", lit "Death"] ++ rowsWithHeadings v [] listed

/-- `SurnameListPage` -/
def surnameListPage (fl : Flags) (d : DocA) (v : Vis) (o : Opts) (nPlaces : Nat) : List Atom :=
  pageAtoms (bs "Surnames") (headerAtoms fl d v o nPlaces []) <|
    [lit "Surname", lit "Number of Individuals"] ++
    (surnames fl d v).flatMap (fun s =>
      [Atom.H (Publish.surnameLinkPage s ++ (35 :: s)), .T s, .T (natStr (surnameCount fl d v s))])

/-- `PlaceListPage` -/
def placeRows (last : Option Str) : List PlaceA → List Atom
  | [] => []
  | p :: r =>
    (if last != some p.country then [Atom.T p.country] else []) ++
      [.H (p.key ++ bs ".html"), .T p.pretty, .T (natStr p.events.length)] ++ placeRows (some p.country) r

def placeListBody (ps : List PlaceA) : List Atom :=
  (sortBy id ((ps.map (fun p => p.country)).eraseDups)).flatMap (fun c => [Atom.H (35 :: c), .T c]) ++
    placeRows none (sortBy (fun (p : PlaceA) => p.country ++ [0] ++ p.pretty) ps)

def placeListPage (fl : Flags) (d : DocA) (v : Vis) (o : Opts) : List Atom :=
  pageAtoms (bs "Places") (headerAtoms fl d v o (places fl d v).length []) (placeListBody (places fl d v))

/-- `PlacePage` -/
def placePage (fl : Flags) (d : DocA) (v : Vis) (o : Opts) (p : PlaceA) : List Atom :=
  pageAtoms p.pretty (headerAtoms fl d v o (places fl d v).length p.pretty) <|
    [.T p.pretty, lit "Date", lit "Event", lit "Individual"] ++
    p.events.flatMap (fun e => fragAtoms (placeEvent (per e.1) e.2.date (String.ofList (e.2.descr.map (fun b => Char.ofNat b.toNat))) v))

/-- `FamilyListPage` -/
def familyListPage (fl : Flags) (d : DocA) (v : Vis) (o : Opts) (nPlaces : Nat) : List Atom :=
  pageAtoms (bs "Families") (headerAtoms fl d v o nPlaces []) <|
    [lit "Husband", lit "Date", lit "Wife"] ++
    d.fams.flatMap (fun f =>
      fragAtoms (individualLink (per (get d f.husb)) v) ++ [.T f.date] ++ fragAtoms (individualLink (per (get d f.wife)) v))

/-- a child is skipped only when living and hidden -/
def keepChild (v : Vis) (c : Option PPerson) : Bool :=
  match c with
  | some c => !(c.pub.living && v == .hide)
  | none => true

/-- `partnerSection`: the children buttons -/
def childrenAtoms (d : DocA) (v : Vis) (cs : List (Option Nat)) : List Atom :=
  ((cs.map (get d)).filter (keepChild v)).flatMap (fun c => fragAtoms (individualButton (per c) v))

def entryTail (d : DocA) (v : Vis) (cs : Option (List (Option Nat))) : List Atom :=
  match cs with
  | some cs => childrenAtoms d v cs
  | none => []

/-- one entry of `Spouses()`: the partner's button and the children of the family they share -/
def spouseEntryAtoms (d : DocA) (v : Vis) (e : Option Nat × Option (List (Option Nat))) : List Atom :=
  match get d e.1 with
  | some s =>
    if s.pub.living && v == .hide then []
    else fragAtoms (individualButton (some s.person) v) ++ entryTail d v e.2
  | none => fragAtoms (individualButton none v) ++ entryTail d v e.2

def spouseShown (d : DocA) (v : Vis) (e : Option Nat × Option (List (Option Nat))) : Bool :=
  keepChild v (get d e.1)

/-- `PartnersAndChildren` -/
def partnersAtoms (d : DocA) (v : Vis) (p : PPerson) : List Atom :=
  let known := p.st.spouses.flatMap (spouseEntryAtoms d v)
  let unknown := p.st.unknownFams.flatMap (fun cs => fragAtoms (individualButton none v) ++ childrenAtoms d v cs)
  let shown := (p.st.spouses.filter (spouseShown d v)).length + p.st.unknownFams.length
  [lit "Spouses & Children"] ++ known ++ unknown ++
    (if shown == 0 then [lit "There are no known spouses or children."] else [])

/-- the Description cell of an event row -/
def descAtoms (d : DocA) (v : Vis) : Desc → List Atom
  | .none => []
  | .unknown => [lit "Unknown"]
  | .spouse i => fragAtoms (individualLink (per (get d i)) v)

/-- `IndividualEvents` -/
def eventsAtoms (d : DocA) (v : Vis) (p : PPerson) : List Atom :=
  [lit "Events", .T (natStr p.pp.events.length), lit "Age", lit "Type", lit "Date", lit "Place", lit "Description"] ++
  p.pp.events.flatMap (fun r => decodeAtoms r.cells ++ descAtoms d v r.desc)

/-- `AllParentButtons` -/
def parentsAtoms (d : DocA) (v : Vis) (p : PPerson) : List Atom :=
  let fams := if p.st.parentFams.isEmpty then [((none : Option Nat), (none : Option Nat))] else p.st.parentFams
  fams.flatMap (fun f => fragAtoms (individualButton (per (get d f.1)) v) ++ fragAtoms (individualButton (per (get d f.2)) v))

/-- `IndividualPage` -/
def individualPage (fl : Flags) (d : DocA) (v : Vis) (o : Opts) (nPlaces : Nat) (p : PPerson) : List Atom :=
  pageAtoms p.pp.title (headerAtoms fl d v o nPlaces p.pp.title) <|
    parentsAtoms d v p ++ fragAtoms (individualName (some p.person) v) ++ fragAtoms (individualDates (some p.person) v) ++
    [lit "Name & Sex"] ++ decodeAtoms p.pp.nameCard ++ [lit "Additional Names"] ++ decodeAtoms p.pp.altCard ++
    eventsAtoms d v p ++ partnersAtoms d v p

/-! ## page names: the key hand-out of the naming model of C19 (`Publish.individualKeysV`) -/

/-- writes the keys into the people (`none`: the person gets no page and keeps what it had) -/
def setPages : List (Option Str) → List PPerson → List PPerson
  | some k :: ks, p :: ps => { p with priv := { p.priv with page := k ++ Publish.html } } :: setPages ks ps
  | none :: ks, p :: ps => p :: setPages ks ps
  | [], ps => ps
  | _ :: _, [] => []

/-- the keys `getUniqueKey` must avoid for individuals: the place keys the publisher holds and the
    reserved keys (fixed pages, source pages) -/
def avoidKeys (fl : Flags) (d : DocA) (v : Vis) (o : Opts) : List Str :=
  (if o.pla then (places fl d v).map (·.key) else []) ++ Publish.reservedKeys d.sourcePtrs

/-- the page key of every person, `none` for the hidden ones: `Publish.individualKeysV` over the
    written names in document order -/
def pageKeys (fl : Flags) (d : DocA) (v : Vis) (o : Opts) : List (Option Str) :=
  Publish.individualKeysV (d.people.map (fun p => p.pp.title)) (d.people.map (fun p => hiddenP p v)) (avoidKeys fl d v o)

/-- the document with the page name of every person computed -/
def rekey (fl : Flags) (d : DocA) (v : Vis) (o : Opts) : DocA :=
  { d with people := setPages (pageKeys fl d v o) d.people }

/-! ## the site: every modelled file with its skeleton, in the order of `sendFiles` -/

def siteOf (fl : Flags) (d : DocA) (v : Vis) (o : Opts) : List (Str × List Atom) :=
  let pls := if o.pla then places fl d v else []
  (if o.ind then
    (indexLetters fl d v).map (fun l => (pageIndividuals l, individualListPage fl d v o pls.length l)) ++
    (d.people.filter (fun p => !hiddenP p v)).map (fun p => (p.priv.page, individualPage fl d v o pls.length p))
   else []) ++
  (if o.pla then
    (bs "places.html", placeListPage fl d v o) :: pls.map (fun p => (p.key ++ bs ".html", placePage fl d v o p))
   else []) ++
  (if o.fam then [(bs "families.html", familyListPage fl d v o pls.length)] else []) ++
  (if o.sur then [(bs "surnames.html", surnameListPage fl d v o pls.length)] else [])

/-- the published site: page names assigned, then every page assembled -/
def site (fl : Flags) (d : DocA) (v : Vis) (o : Opts) : List (Str × List Atom) :=
  siteOf fl (rekey fl d v o) v o

end Gedcom.Pages
