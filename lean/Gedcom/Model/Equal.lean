/-
  Node equality as coded in /repo (C07; also used by C08 diff and C09 merge).

  * `equalsShallow a b`  — `a.Equals(b)`: the rule is chosen by the Go type of the *receiver* `a`,
    which is a function of its tag (`Generated.kindOfTag`):
      - SimpleNode and every kind that does not override Equals: tag, value and pointer
        (simple_node.go:77);
      - BirthNode / DeathNode / BurialNode / BaptismNode: the other node has the same Go type
        (birth_node.go:37 …);
      - ResidenceNode: the other is a ResidenceNode and some pair of DATE children is equal, or
        neither side has a DATE child and the PLAC children are DeepEqualNodes (residence_node.go:33);
      - EventNode: the other is an EventNode and some pair of DATE children is equal, or neither
        side has a DATE child, the values are equal and the children are DeepEqualNodes
        (event_node.go:37);
      - DateNode: the other is a DateNode and `DateRange.Equals` of the parsed values
        (date_node.go:81) — `dateValueEquals`;
      - UniqueIDNode: the other is a UniqueIDNode and the normalised UUIDs are equal; when either
        value is not a UUID the raw values are compared (unique_id_node.go:128, after the repair
        of "a malformed _UID is not equal to its own copy").
  * `deepEqual a b`      — `DeepEqual(a, b)` for two distinct non-nil nodes (equal.go:29).
  * `deepEqualNodes l r` — `DeepEqualNodes(l, r)` (equal.go:68): equal lengths, then every left
    node takes the *first not yet used* right node it is DeepEqual to (greedy, no backtracking).

  The three functions are one structural recursion on the left argument; the unfolding equations
  used by proofs are in `Gedcom/Lemmas/Equal.lean`.
-/
import Gedcom.Model.Node
import Gedcom.Model.DateParse
import Gedcom.Generated.Tags
namespace Gedcom

/-- Go string → Lean `String` for table lookups (bytes as Latin-1; registered tags are ASCII). -/
def bytesToString (s : Str) : String := String.ofList (s.map fun b => Char.ofNat b.toNat)

/-- ASCII literal → bytes -/
def lit (s : String) : Str := s.toList.map (fun c => UInt8.ofNat c.toNat)

/-- the Go node type, e.g. "BirthNode" / "SimpleNode": decided by the tag alone -/
def Node.kind (n : Node) : String := Generated.kindOfTag (bytesToString n.tag)

/-- which `Equals` method the Go type has -/
inductive EqRule | simple | vital | resi | even | date | uid
deriving DecidableEq, Repr

def ruleOfKind (k : String) : EqRule :=
  if k == "BirthNode" || k == "DeathNode" || k == "BurialNode" || k == "BaptismNode" then .vital
  else if k == "ResidenceNode" then .resi
  else if k == "EventNode" then .even
  else if k == "DateNode" then .date
  else if k == "UniqueIDNode" then .uid
  else .simple

def Node.rule (n : Node) : EqRule := ruleOfKind n.kind

/-! ### DATE values -/

/-- `DateNode.Equals` on the two values:
    `NewDateRangeWithString(a).Equals(NewDateRangeWithString(b))` (date_range.go:245, date.go:472;
    parser and constraint matrix are the C04 model, Gedcom/Model/DateParse.lean). -/
def dateValueEquals (a b : Str) : Bool := (parseDateRange a).equals (parseDateRange b)

/-! ### _UID values (unique_id_node.go, uuid.go) -/

def isHexByte (c : UInt8) : Bool :=
  (48 ≤ c && c ≤ 57) || (65 ≤ c && c ≤ 70) || (97 ≤ c && c ≤ 102)

def lowerByte (c : UInt8) : UInt8 := if 65 ≤ c && c ≤ 90 then c + 32 else c

/-- `cleanValue`: `{`, `}` and `-` removed -/
def uidClean (s : Str) : Str := s.filter fun c => c != 123 && c != 125 && c != 45

/-- `UniqueIDNode.UUID()`: the first 32 bytes of the cleaned value (all of it when shorter) must be
    32 hexadecimal digits; the UUID is their lower-case form (hyphenation is a bijection, omitted). -/
def uidUUID (s : Str) : Option Str :=
  let c := uidClean s
  let v := if c.length ≥ 32 then c.take 32 else c
  if v.length == 32 && v.all isHexByte then some (v.map lowerByte) else none

/-- `UniqueIDNode.Equals` on the two values (repaired: raw comparison when either is not a UUID) -/
def uidEquals (a b : Str) : Bool :=
  match uidUUID a, uidUUID b with
  | some x, some y => x == y
  | _, _ => a == b

/-! ### children selected by tag (`NodesWithTag`) -/

def tagDATE : Str := lit "DATE"
def tagPLAC : Str := lit "PLAC"

def isDate (n : Node) : Bool := n.tag == tagDATE
def isPlace (n : Node) : Bool := n.tag == tagPLAC

/-- `Dates(node)` -/
def Node.dates (n : Node) : List Node := n.kids.filter isDate

/-- "for left in leftDates, for right in rightDates: if left.Equals(right) return true" -/
def datesMatch (l r : List Node) : Bool :=
  l.any fun a => r.any fun b => dateValueEquals a.value b.value

/-! ### greedy matching -/

/-- remove the first element satisfying `p` (the first unused right node that matches) -/
def removeFirst {α : Type} (p : α → Bool) : List α → Option (List α)
  | [] => none
  | x :: xs => if p x then some xs else (removeFirst p xs).map (x :: ·)

/-! ### Equals / DeepEqual / DeepEqualNodes -/

mutual
/-- `DeepEqual(a, b)`, a and b distinct non-nil nodes -/
def deepEqual : Node → Node → Bool
  | .mk t v p ks, b =>
    (match Node.rule (.mk t v p []) with
      | .simple => t == b.tag && v == b.value && p == b.ptr
      | .vital => Node.kind (.mk t v p []) == b.kind
      | .resi =>
        b.rule == .resi &&
          (datesMatch (ks.filter isDate) b.dates ||
            ((ks.filter isDate).length + b.dates.length == 0 &&
              ((ks.filter isPlace).length == (b.kids.filter isPlace).length &&
                matchKids isPlace ks (b.kids.filter isPlace))))
      | .even =>
        b.rule == .even &&
          (datesMatch (ks.filter isDate) b.dates ||
            ((ks.filter isDate).length == 0 && b.dates.length == 0 && v == b.value &&
              (ks.length == b.kids.length && matchKids (fun _ => true) ks b.kids)))
      | .date => b.rule == .date && dateValueEquals v b.value
      | .uid => b.rule == .uid && uidEquals v b.value)
    && (ks.length == b.kids.length && matchKids (fun _ => true) ks b.kids)
/-- the loop of `DeepEqualNodes` over the left nodes that satisfy `keep` (the others are skipped:
    this is how the same loop serves `NodesWithTag(node, TagPlace)`); `r` = unused right nodes -/
def matchKids (keep : Node → Bool) : List Node → List Node → Bool
  | [], _ => true
  | k :: ks, r =>
    if keep k then
      match removeFirst (deepEqual k) r with
      | none => false
      | some r' => matchKids keep ks r'
    else matchKids keep ks r
end

/-- `a.Equals(b)` -/
def equalsShallow (a b : Node) : Bool :=
  match a.rule with
  | .simple => a.tag == b.tag && a.value == b.value && a.ptr == b.ptr
  | .vital => a.kind == b.kind
  | .resi =>
    b.rule == .resi &&
      (datesMatch a.dates b.dates ||
        (a.dates.length + b.dates.length == 0 &&
          ((a.kids.filter isPlace).length == (b.kids.filter isPlace).length &&
            matchKids isPlace a.kids (b.kids.filter isPlace))))
  | .even =>
    b.rule == .even &&
      (datesMatch a.dates b.dates ||
        (a.dates.length == 0 && b.dates.length == 0 && a.value == b.value &&
          (a.kids.length == b.kids.length && matchKids (fun _ => true) a.kids b.kids)))
  | .date => b.rule == .date && dateValueEquals a.value b.value
  | .uid => b.rule == .uid && uidEquals a.value b.value

/-- `DeepEqualNodes(l, r)` -/
def deepEqualNodes (l r : List Node) : Bool :=
  l.length == r.length && matchKids (fun _ => true) l r

end Gedcom
