/-
  Which equality decisions rest on an *exact tie* of two `Years()` values that float64 cannot be
  trusted to reproduce.  `Date.Equals` cases B and C compare `left.Years() > / < right.Years()`
  (float64: `year + yearDay/(daysInYear+1)` for a day, the mean of two such values for a month,
  `year + 0.5` for a year); the model compares the same quantities as exact fractions.  When the two
  fractions are *equal* but computed along different float paths (16 Dec 1880 against the midpoint
  of "Dec 1880"), the Go result depends on the last bit and the rational model cannot decide it.
  This module finds the requests in which such a comparison can occur, so that the correspondence
  treats exactly those as inconclusive (harness: `float-tie-inconclusive`); nothing else is
  relaxed.  Not part of the proved model: it only qualifies the comparison of model and code.
  Same pattern as Gedcom/Model/WarningsTies.lean (C20) and the C05 tie handling.
-/
import Gedcom.Model.Equal
namespace Gedcom

def PDate.pt (d : PDate) : Nat × Nat × Nat := (d.day, d.month, d.year)

/-- `Years()` of this date is computed exactly in float64: 0 (no year), `year + 0.5` (year
    precision), or day 183 of a 366-slot year (2 Jul of a non-leap year: 183/366 = 1/2) -/
def PDate.yearsExact (d : PDate) : Bool :=
  if d.year = 0 then true
  else if d.month = 0 then true
  else if d.day = 0 then false
  else if d.year > 9999 then false
  else !isLeap d.year && yearDay d.year d.month d.day == 183

/-- does `a.Equals(b)` reach a `Years()` comparison (cases B and C of the table)? -/
def PDate.usesYears (a b : PDate) : Bool :=
  !(a.isZero || b.isZero) && !(a.is b) &&
  (match b.constraint, a.constraint with
    | .exact, .before => true | .exact, .after => true
    | .before, .exact => true | .before, .before => true
    | .after, .exact => true | .after, .after => true
    | _, _ => false)

/-- equal as fractions, compared through `Years()` in one operand order or the other, and neither
    the same date (same float path) nor both exactly computed -/
def PDate.tieUnsafe (a b : PDate) : Bool :=
  (a.usesYears b || b.usesYears a) &&
  (a.yearsFrac.1 * b.yearsFrac.2 == b.yearsFrac.1 * a.yearsFrac.2) &&
  a.pt != b.pt && !(a.yearsExact && b.yearsExact)

/-- `DateRange.Equals` of the two DATE values compares start with start and end with end -/
def dateValuesTie (x y : Str) : Bool :=
  let r := parseDateRange x
  let s := parseDateRange y
  r.start.tieUnsafe s.start || r.end_.tieUnsafe s.end_

mutual
/-- the values of all DATE nodes of a tree -/
def Node.dateVals : Node → List Str
  | .mk t v p ks =>
    (if isDate (.mk t v p []) || Node.rule (.mk t v p []) == .date then [v] else []) ++ dateValsList ks
def dateValsList : List Node → List Str
  | [] => []
  | k :: ks => k.dateVals ++ dateValsList ks
end

/-- some DATE value of `l` and some DATE value of `r` tie unsafely -/
def forestsTie (l r : List Node) : Bool :=
  let dl := dateValsList l
  let dr := dateValsList r
  dl.any fun x => dr.any fun y => dateValuesTie x y

/-- suffix of a response whose decisions may rest on such a tie -/
def tieMark (l r : List Node) : String := if forestsTie l r then " ~tie" else ""

end Gedcom
