/-
  The individual record as `IndividualNode.Similarity` reads it, before any parsing (C12):
  the DATE values of its birth / baptism / death / burial events as byte strings.  The dates
  are parsed by the model of `NewDateRangeWithString` (`Gedcom.parseDateRange`, C04) and the
  estimated birth and death dates are selected as `EstimatedBirthDate` / `EstimatedDeathDate`
  (individual_node.go:384, :419) and `DateNodes.Minimum` (date_nodes.go:16) do.

  Still handed over by the harness: the strings of the NAME nodes (`NameNode.String()`), the
  node identity, and the family views of `SurroundingSimilarity`.
-/
import Gedcom.Model.Similarity
import Gedcom.Model.DateParse
namespace Gedcom.Sim
open Gedcom

structure RawIndi where
  id : Nat
  names : List Str
  /-- `Dates(Births()...)`: the DATE values below all BIRT nodes, in document order -/
  births : List Str
  /-- `Dates(Compound(Baptisms(), LDSBaptisms())...)` -/
  baptisms : List Str
  deaths : List Str
  burials : List Str
deriving Repr, DecidableEq

def ofParsed (r : Gedcom.DateRange) : DateR := ⟨r.start.toDate, r.end_.toDate⟩

/-- `DateNodes.Minimum()`: the first date whose start is strictly earlier (on the `Years()` scale)
    than every date before it -/
def minimumRange : List Gedcom.DateRange → Option Gedcom.DateRange
  | [] => none
  | d :: ds => some (ds.foldl (fun m x => if x.start.yearsLt m.start then x else m) d)

/-- `EstimatedBirthDate` / `EstimatedDeathDate`: the minimum of the primary events' dates if there
    is any, else of the secondary events' dates, else nil -/
def estimatedDate (primary secondary : List Str) : Option DateR :=
  let ds := if primary.isEmpty then secondary else primary
  (minimumRange (ds.map parseDateRange)).map ofParsed

/-- two dates of the list start at exactly the same point of the `Years()` scale (e.g. `Dec 1880`,
    whose value is the midpoint of 1 and 31 December, and `16 Dec 1880`) but are different ranges:
    `Minimum` decides between them with a float64 `<` whose operands are equal here, and the
    last bit of `(start + end) / 2` decides in Go.  Such a selection is a decision on an exact tie:
    the driver flags it and the harness compares the case as inconclusive. -/
def minimumTie (ds : List Gedcom.DateRange) : Bool :=
  ds.any fun a => ds.any fun b =>
    !a.start.yearsLt b.start && !b.start.yearsLt a.start && ofParsed a != ofParsed b

def estimatedDateTie (primary secondary : List Str) : Bool :=
  minimumTie ((if primary.isEmpty then secondary else primary).map parseDateRange)

def RawIndi.dateTie (r : RawIndi) : Bool :=
  estimatedDateTie r.births r.baptisms || estimatedDateTie r.deaths r.burials

def RawIndi.toIndi (r : RawIndi) : Indi :=
  ⟨r.id, r.names, estimatedDate r.births r.baptisms, estimatedDate r.deaths r.burials⟩

/-- `DateNode.Similarity` on two DATE values (`none` = nil node) -/
def dateStringSimilarity (l r : Option Str) (maxYears : Rat) : Rat :=
  dateSimilarity (l.map fun s => ofParsed (parseDateRange s)) (r.map fun s => ofParsed (parseDateRange s)) maxYears

end Gedcom.Sim
