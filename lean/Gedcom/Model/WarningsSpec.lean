/-
  C20 on general dates: the views through which the specification of Props/C20General.lean reads a
  DATE value (validity, parse error, first / last day number, `Years()` of the two ends on one
  integer scale) and the decidable guards of its theorems.  Executable: the driver evaluates them
  on every DATE of every generated document (`warnviews`), against the generator's own reading of
  the value it wrote.  Core Lean only.
-/
import Gedcom.Model.Warnings
namespace Gedcom.C20
open Gedcom Gedcom.Warn

/-- `StartDate().Years()` as an exact fraction -/
def sYears (x : DateV) : Int × Int := startFrac (some x)
/-- `EndDate().Years()` as an exact fraction -/
def eYears (x : DateV) : Int × Int := endFrac (some x)

/-- `a < b` for fractions with positive denominators -/
def FracLt (a b : Int × Int) : Prop := a.1 * b.2 < b.1 * a.2

instance (a b : Int × Int) : Decidable (FracLt a b) := by unfold FracLt; exact inferInstance

/-- an end of the value carries a parse error -/
def _root_.Gedcom.Warn.DateV.parseErr : DateV → Bool
  | .ok _ => false
  | .bad _ => true
  | .gen _ s e => s.parseError || e.parseError

/-- a fraction with a good denominator in units of 1/268644 -/
def keyOf (f : Int × Int) : Int := f.1 * (268644 / f.2)

/-- start / end `Years()` of a DATE value in units of 1/268644 year (0 for an unparsable value) -/
def skey (x : DateV) : Int := keyOf (sYears x)
def ekey (x : DateV) : Int := keyOf (eYears x)

/-- `DateRange.Years()`: the mean of the `Years()` of both ends, as an exact fraction -/
def midYears (x : DateV) : Int × Int := yearsFrac (some x)

/-- guard, per DATE value: it carries a parse error (the code skips it), or both ends are Go's zero
    time (years 0 / above 9999: `Time()` cannot represent them), or both ends are whole days inside
    the window `[lo, hi]` -/
def _root_.Gedcom.Warn.DateV.sibOK (lo hi : Int) (x : DateV) : Bool :=
  x.parseErr ||
  (startI (some x) == zeroTime && endI (some x) == zeroTime) ||
  (startI (some x) == dayS x * nsPerDay && endI (some x) == (dayE x + 1) * nsPerDay - 1 &&
    decide (lo ≤ dayS x) && decide (dayS x ≤ hi) && decide (lo ≤ dayE x) && decide (dayE x ≤ hi))

/-- guard, per document (decidable): every DATE of every individual is `sibOK` -/
def SibDates (lo hi : Int) (d : Doc) : Prop :=
  ((indis d).all fun i => i.events.all fun e => e.dates.all (DateV.sibOK lo hi)) = true

instance (lo hi : Int) (d : Doc) : Decidable (SibDates lo hi d) := by unfold SibDates; exact inferInstance

/-- the value denotes whole days inside the window `[lo, hi]`: its instants are the start of day
    `dayS` and the last nanosecond of day `dayE` (not Go's zero time) -/
def _root_.Gedcom.Warn.DateV.wholeIn (lo hi : Int) (x : DateV) : Bool :=
  startI (some x) == dayS x * nsPerDay && endI (some x) == (dayE x + 1) * nsPerDay - 1 &&
    decide (lo ≤ dayS x) && decide (dayS x ≤ hi) && decide (lo ≤ dayE x) && decide (dayE x ≤ hi)

/-- guard (decidable): every *valid* DATE of the document — of any shape — denotes whole days inside
    the window `[lo, hi]` (years 1..9999, so that `Time()` is not the zero time) -/
def WholeDates (lo hi : Int) (d : Doc) : Prop :=
  d.all (fun
    | .indi i => i.events.all fun e => e.dates.all fun x => !x.valid || x.wholeIn lo hi
    | .fam f => f.events.all fun e => e.dates.all fun x => !x.valid || x.wholeIn lo hi) = true

instance (lo hi : Int) (d : Doc) : Decidable (WholeDates lo hi d) := by
  unfold WholeDates; exact inferInstance

/-- guard, per DATE value: it starts no later than today and ends before today on the `Years()`
    scale (an unparsable value counts as 0) -/
def _root_.Gedcom.Warn.DateV.past (now : Date) (x : DateV) : Bool :=
  decide (skey x ≤ skey (.ok now)) && decide (ekey x < ekey (.ok now))

/-- guard (decidable): every DATE of every individual lies in the past -/
def PastDates (now : Date) (d : Doc) : Prop :=
  ((indis d).all fun i => i.events.all fun e => e.dates.all (DateV.past now)) = true

instance (now : Date) (d : Doc) : Decidable (PastDates now d) := by unfold PastDates; exact inferInstance


/-! ### the selections of the specification -/

/-- the first element with the least key -/
def firstMin (key : DateV → Int) : List DateV → Option DateV
  | [] => none
  | x :: rest =>
    match firstMin key rest with
    | none => some x
    | some m => if key m < key x then some m else some x

/-- the first element with the greatest key -/
def firstMax (key : DateV → Int) : List DateV → Option DateV := firstMin (fun x => - key x)

/-- estimated birth: the first of all BIRT dates with the least start `Years()`; without a BIRT
    date, of all baptism dates (an unparsable value counts as 0 and wins) -/
def estBirthS (i : Indi) : Option DateV :=
  if (datesOf (eventsOf .birt i.events)).isEmpty then firstMin skey (datesOf (eventsOf .bapm i.events ++ eventsOf .bapl i.events)) else firstMin skey (datesOf (eventsOf .birt i.events))

/-- estimated death: likewise over DEAT dates, else BURI dates -/
def estDeathS (i : Indi) : Option DateV :=
  if (datesOf (eventsOf .deat i.events)).isEmpty then firstMin skey (datesOf (eventsOf .buri i.events)) else firstMin skey (datesOf (eventsOf .deat i.events))


end Gedcom.C20
