/-
  Matching the individuals of two lists (C11): individual_nodes.go — createUniqueJobs (:256),
  createPointerJobs (:215), createJobs (:286), processJobs (:352), collectResults (:374),
  calculateWinners (:429), Compare (:525).

  What a schedule can influence is abstracted as follows.  `jobs` is the content of the `jobs`
  channel for the sequential schedule (unique-identifier jobs, pointer jobs, then the remaining
  matrix).  The worker pools and channels may deliver the scored jobs to `calculateWinners` in
  any order: `winners` therefore takes the *arrival order* as an argument and the theorems are
  stated for every permutation of `jobs` — the most adversarial scheduler of the pipeline.

  Modelled, not verified: goroutines, channels, `sync.Map`, the Go memory model (data races are
  outside any executable model; the harness validates the assumption "a job's score is a function
  of the two individuals only" with the race detector), `sort.SliceStable` (stable insertion
  sort), the pointer-keyed `found` map (a list of node ids).  Scores are inputs: the weighted
  surrounding similarity of a pair is C12's subject; here it is a function `Nat → Nat → Rat` of
  the two node ids (`scoreT` = forced full calculation, used by the pointer jobs; `scoreF` = with
  the early exit, used by the matrix), handed over by the harness as the exact value of the
  float64 the implementation computed, so that threshold and order comparisons are exact.

  Nondeterminism that is not scheduling: `ByUniqueIdentifiers` iterates a `sync.Map`, so for an
  individual whose unique identifiers select *different* right individuals the choice `bs[0]` is
  not determined even sequentially; it is a parameter `ch` here (`Admissible`).  History: the
  options value keeps `sentA/sentB` across calls; the initial sent sets are a parameter `s0`.
-/
import Gedcom.Model.Types
namespace Gedcom.Match
open Gedcom

/-- an individual as the matching reads it: node identity (the Go pointer), its GEDCOM pointer,
    its unique identifiers (normalised `_UID`s and FamilySearch ids) -/
structure Person where
  id : Nat
  ptr : Str
  uids : List Str
deriving Repr, DecidableEq

/-- one element of the `jobs` / `results` channels; `l`, `r` are node ids -/
structure Job where
  l : Nat
  r : Nat
  certain : Bool
  score : Rat
deriving Repr, DecidableEq

/-- `right.ByUniqueIdentifiers(a.UniqueIdentifiers())`: for each identifier of `a` the first right
    individual carrying it.  The implementation iterates a `sync.Map`, so the order of this list
    — and with it the element `bs[0]` that is used — is not determined. -/
def uniqueCands (R : List Person) (a : Person) : List Person :=
  a.uids.filterMap fun u => R.find? (fun b => b.uids.contains u)

/-- the choice `bs[0]` when the identifiers are visited in document order -/
def uniqueTarget (R : List Person) (a : Person) : Option Person := (uniqueCands R a).head?

/-- a resolution of every choice `bs[0]`: any candidate may come first, none only if there is no
    candidate.  The theorems quantify over all admissible resolutions. -/
def Admissible (R : List Person) (ch : Person → Option Person) : Prop :=
  ∀ a, match ch a with
    | none => uniqueCands R a = []
    | some b => b ∈ uniqueCands R a

/-- all distinct candidates of `a` — more than one means the implementation's choice is not
    determined (map iteration order) -/
def uniqueCandidates (R : List Person) (a : Person) : List Nat :=
  ((uniqueCands R a).map (·.id)).eraseDups

structure Sent where
  a : List Str
  b : List Str
deriving Repr

/-- createUniqueJobs: a certain job for a left individual that shares an identifier with some
    right individual (`ch a` = the right individual chosen) unless that right individual has
    already been sent; both pointers are then recorded as sent.  The look-ups run in the worker
    pool, but the jobs are emitted afterwards in the order of the left list, so this phase does
    not depend on the schedule (since the fix "a right individual is matched by unique identifier
    only once"; before it every such left individual got the job). -/
def uniqueJobs (ch : Person → Option Person) : List Person → Sent → List Job × Sent
  | [], s => ([], s)
  | a :: as, s =>
    match ch a with
    | none => uniqueJobs ch as s
    | some b =>
      if s.b.contains b.ptr then uniqueJobs ch as s
      else
        let (js, s') := uniqueJobs ch as ⟨a.ptr :: s.a, b.ptr :: s.b⟩
        (⟨a.id, b.id, true, 0⟩ :: js, s')

/-- createPointerJobs: same pointer on both sides, neither side sent yet, forced weighted
    similarity at least `PreferPointerAbove` -/
def pointerJobs (R : List Person) (scoreT : Nat → Nat → Rat) (prefer : Rat) :
    List Person → Sent → List Job × Sent
  | [], s => ([], s)
  | a :: as, s =>
    if s.a.contains a.ptr then pointerJobs R scoreT prefer as s else
    match R.find? (fun b => b.ptr == a.ptr) with
    | none => pointerJobs R scoreT prefer as s
    | some b =>
      if s.b.contains b.ptr then pointerJobs R scoreT prefer as s
      else if prefer ≤ scoreT a.id b.id then
        let (js, s') := pointerJobs R scoreT prefer as ⟨a.ptr :: s.a, b.ptr :: s.b⟩
        (⟨a.id, b.id, true, scoreT a.id b.id⟩ :: js, s')
      else pointerJobs R scoreT prefer as s

/-- the remaining matrix, in left-major order -/
def matrixJobs (L R : List Person) (s : Sent) (scoreF : Nat → Nat → Rat) : List Job :=
  (L.filter fun a => !s.a.contains a.ptr).flatMap fun a =>
    (R.filter fun b => !s.b.contains b.ptr).map fun b => ⟨a.id, b.id, false, scoreF a.id b.id⟩

/-- the `jobs` channel of the sequential schedule, for a resolution `ch` of the unique-identifier
    choices and the sent sets `s0` the options value carries when `Compare` starts (empty for a
    fresh options value; `sentA/sentB` are never reset, so a second `Compare` with the same options
    value starts from the sets the first one left behind).  With an empty right side nothing is
    looked up (and the matrix is empty anyway). -/
def jobsFrom (ch : Person → Option Person) (s0 : Sent) (L R : List Person)
    (scoreT scoreF : Nat → Nat → Rat) (prefer : Rat) : List Job :=
  if R.isEmpty then [] else
  let (u, s1) := uniqueJobs ch L s0
  let (p, s2) := pointerJobs R scoreT prefer L s1
  u ++ p ++ matrixJobs L R s2 scoreF

/-- the sent sets a `Compare` leaves behind in its options value -/
def sentAfter (ch : Person → Option Person) (s0 : Sent) (L R : List Person)
    (scoreT : Nat → Nat → Rat) (prefer : Rat) : Sent :=
  if R.isEmpty then s0 else
  (pointerJobs R scoreT prefer L (uniqueJobs ch L s0).2).2

/-- a fresh options value, identifiers visited in document order -/
def jobs (L R : List Person) (scoreT scoreF : Nat → Nat → Rat) (prefer : Rat) : List Job :=
  jobsFrom (uniqueTarget R) ⟨[], []⟩ L R scoreT scoreF prefer

/-! ## calculateWinners -/

/-- stable sort by descending score (`sort.SliceStable` with `>`) -/
def insertDesc (c : Job) : List Job → List Job
  | [] => [c]
  | d :: ds => if c.score < d.score then d :: insertDesc c ds else c :: d :: ds

def sortDesc : List Job → List Job
  | [] => []
  | c :: cs => insertDesc c (sortDesc cs)

/-- the `found` map after the certain matches passed through -/
def foundOf : List Job → List Nat
  | [] => []
  | j :: js => j.l :: j.r :: foundOf js

/-- the greedy loop over the sorted uncertain results: stop below the threshold, skip when either
    side is taken; returns the accepted jobs -/
def greedy (minW : Rat) : List Job → List Nat → List Job
  | [], _ => []
  | j :: js, found =>
    if j.score < minW then []
    else if found.contains j.l || found.contains j.r then greedy minW js found
    else j :: greedy minW js (j.l :: j.r :: found)

/-- one element of the result: left and right node id, either may be absent -/
abbrev Res := Option Nat × Option Nat

def pairOf (j : Job) : Res := (some j.l, some j.r)

/-- `calculateWinners` on the results in their order of arrival -/
def winners (L R : List Person) (minW : Rat) (arrival : List Job) : List Res :=
  let cs := arrival.filter (·.certain)
  let ws := greedy minW (sortDesc (arrival.filter (!·.certain))) (foundOf cs)
  let found := foundOf (cs ++ ws)
  cs.map pairOf ++ ws.map pairOf ++
    ((L.filter fun p => !found.contains p.id).map fun p => (some p.id, none)) ++
    ((R.filter fun p => !found.contains p.id).map fun p => (none, some p.id))

/-! ## guards (decidable; evaluated by the driver on every generated case) -/

/-- node identities are pairwise distinct within and across the two lists (two different
    documents, or two disjoint lists of one document) -/
def IdsOK (L R : List Person) : Prop := (L.map (·.id) ++ R.map (·.id)).Nodup

/-- every job refers to a left and a right individual, and the certain jobs pair no individual
    twice.  `jobs` satisfies this when pointers are unique per side and no two left individuals
    select the same right individual through their unique identifiers. -/
def JobsOK (L R : List Person) (js : List Job) : Prop :=
  (∀ j ∈ js, j.l ∈ L.map (·.id) ∧ j.r ∈ R.map (·.id)) ∧
  ((js.filter (·.certain)).map (·.l)).Nodup ∧ ((js.filter (·.certain)).map (·.r)).Nodup

instance (L R : List Person) : Decidable (IdsOK L R) := by unfold IdsOK; exact inferInstance
instance (L R : List Person) (js : List Job) : Decidable (JobsOK L R js) := by
  unfold JobsOK; exact inferInstance

/-- the uncertain results that the winner loop can reach: at or above the threshold -/
def eligible (minW : Rat) (j : Job) : Bool := !j.certain && !decide (j.score < minW)

/-- no two candidate pairs (uncertain, at or above the threshold) tie on score; ties among pairs
    below the threshold — e.g. the many pairs scored 0 by the early exit — do not count -/
def NoScoreTies (minW : Rat) (js : List Job) : Prop := ((js.filter (eligible minW)).map (·.score)).Nodup

instance (minW : Rat) (js : List Job) : Decidable (NoScoreTies minW js) := by
  unfold NoScoreTies; exact inferInstance

/-- `Compare` under the sequential schedule -/
def compare (L R : List Person) (scoreT scoreF : Nat → Nat → Rat) (prefer minW : Rat) : List Res :=
  winners L R minW (jobs L R scoreT scoreF prefer)

end Gedcom.Match
