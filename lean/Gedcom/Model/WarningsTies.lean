/-
  Which decisions of the warnings model rest on an *exact tie* that float64 cannot be trusted to
  reproduce.  `Date.Years()` is a float64: `year + yearDay/(daysInYear+1)` for a day, the mean of
  two such values for a month, `year + 0.5` for a year.  The model computes the same quantities as
  exact fractions.  When two operands of a `Years()` comparison are *equal* as fractions but are
  computed along different float paths (e.g. 16 Dec 1880 against the midpoint of "Dec 1880"), the
  Go result depends on the last bit; the rational model cannot decide it.  This module lists those
  decisions so that the correspondence treats exactly them as inconclusive
  (harness/c20.go: `float-tie-inconclusive`); nothing else is relaxed.  Not part of the proved
  model: it only qualifies the comparison of the model with the implementation.

  Comparisons that go through `Years()`: `IsBefore` of the births (ChildBornBeforeParent),
  `Minimum()` / `Maximum()` (estimated birth / death, the range of a MARR node: MarriedOutOfRange,
  IndividualTooOld), `at.IsBefore / IsAfter` and `death.Years() − birth.Years() > 100`
  (IndividualTooOld).  SiblingsBornTooClose, IncorrectEventOrder and the ages at a marriage use
  integer nanoseconds / truncated days and cannot tie this way.
-/
import Gedcom.Model.Warnings
namespace Gedcom.Warn
open Gedcom

/-- day, month, year of the start / end date a comparison looks at (0 0 0 = absent, unparsable) -/
def startPt : Option DateV → Nat × Nat × Nat
  | some (.ok d) => (d.day, d.month, d.year)
  | some (.gen _ s _) => (s.day, s.month, s.year)
  | _ => (0, 0, 0)

def endPt : Option DateV → Nat × Nat × Nat
  | some (.ok d) => (d.day, d.month, d.year)
  | some (.gen _ _ e) => (e.day, e.month, e.year)
  | _ => (0, 0, 0)

/-- `Years()` of this date is computed exactly in float64: 0 (no year), `year + 0.5` (year
    precision), or a day whose fraction is a dyadic number — only day 183 of a 366-slot year
    (2 Jul of a non-leap year: 183/366 = 1/2).  A month midpoint is the mean of two rounded values
    and is never taken as exact. -/
def ptExact (p : Nat × Nat × Nat) : Bool :=
  let (d, m, y) := p
  if y = 0 then true
  else if m = 0 then true
  else if d = 0 then false
  else if y > 9999 then false
  else !isLeap y && yearDay y m d == 183

/-- equal as fractions, but neither the same date (same float path) nor both exact -/
def tieUnsafe (fa fb : Int × Int) (pa pb : Nat × Nat × Nat) : Bool :=
  (fa.1 * fb.2 == fb.1 * fa.2) && pa != pb && !(ptExact pa && ptExact pb)

def startTie (a b : Option DateV) : Bool := tieUnsafe (startFrac a) (startFrac b) (startPt a) (startPt b)
def endTie (a b : Option DateV) : Bool := tieUnsafe (endFrac a) (endFrac b) (endPt a) (endPt b)

def anyPairTie (tie : Option DateV → Option DateV → Bool) (ds : List DateV) : Bool :=
  ds.any fun x => ds.any fun y => tie (some x) (some y)

/-- `Minimum()` of the dates the estimated birth is taken from may fall either way -/
def ebUnsafe (i : Indi) : Bool :=
  let births := datesOf (eventsOf .birt i.events)
  if births.isEmpty then anyPairTie startTie (datesOf (eventsOf .bapm i.events ++ eventsOf .bapl i.events))
  else anyPairTie startTie births

def edUnsafe (i : Indi) : Bool :=
  let deaths := datesOf (eventsOf .deat i.events)
  if deaths.isEmpty then anyPairTie startTie (datesOf (eventsOf .buri i.events)) else anyPairTie startTie deaths

/-- `DateNode.Years()` of the whole value is exact: one date, exactly computed -/
def rangeExact (x : Option DateV) : Bool := startPt x == endPt x && ptExact (startPt x)

/-- IndividualTooOld of `i` rests on a tie -/
def oldTie (i : Indi) (now : Date) : Bool :=
  let eb := estBirth i
  let ed := estDeath i
  let fb := yearsFrac eb
  let fd := yearsFrac ed
  ebUnsafe i || edUnsafe i || startTie (some (.ok now)) eb || endTie ed (some (.ok now)) ||
    ((fd.1 * fb.2 - fb.1 * fd.2 == Generated.maxLivingAge * (fd.2 * fb.2)) && !(rangeExact eb && rangeExact ed))

/-- the flags: `CBBP <parent> <child>`, `OLD <indi>`, `MOOR <fam> <spouse>` -/
def tieFlags (d : Doc) (now : Date) : List String :=
  d.flatMap fun
    | .indi i => if oldTie i now then [s!"OLD {i.ptr}"] else []
    | .fam f =>
      let parents := (match f.husb with | some h => [h] | none => []) ++ (match f.wife with | some w => [w] | none => [])
      (f.chil.flatMap fun c => parents.flatMap fun p =>
        if startTie (birthOf (indiOf d c)) (birthOf (indiOf d p)) then [s!"CBBP {p} {c}"] else []) ++
      (parents.flatMap fun p =>
        match indiOf d p with
        | none => []
        | some sp =>
          let marrTie := f.events.any fun e => e.kind == .marr &&
            (anyPairTie startTie (e.dates.filter DateV.valid) || anyPairTie endTie (e.dates.filter DateV.valid))
          if ebUnsafe sp || marrTie then [s!"MOOR {f.ptr} {p}"] else [])

end Gedcom.Warn
