/-
  GEDCOM node trees.  A node is tag, value, pointer and ordered children; the Go node *kind*
  (BirthNode, DateNode, …) is a function of the tag alone (`newNodeWithChildren` in decoder.go),
  see `Generated.kindOf`.
-/
import Gedcom.Model.Types
namespace Gedcom

inductive Node where
  | mk (tag value ptr : Str) (kids : List Node)
deriving Repr, Inhabited

abbrev Forest := List Node

namespace Node
def tag : Node → Str | mk t _ _ _ => t
def value : Node → Str | mk _ v _ _ => v
def ptr : Node → Str | mk _ _ p _ => p
def kids : Node → List Node | mk _ _ _ k => k
end Node

mutual
def Node.size : Node → Nat
  | .mk _ _ _ ks => 1 + Forest.size ks
def Forest.size : List Node → Nat
  | [] => 0
  | n :: ns => n.size + Forest.size ns
end

mutual
def Node.beq : Node → Node → Bool
  | .mk t v p ks, .mk t' v' p' ks' => t == t' && v == v' && p == p' && Forest.beq ks ks'
def Forest.beq : List Node → List Node → Bool
  | [], [] => true
  | a :: as, b :: bs => Node.beq a b && Forest.beq as bs
  | _, _ => false
end

instance : BEq Node := ⟨Node.beq⟩

end Gedcom
