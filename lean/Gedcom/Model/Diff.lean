/-
  Node diffs as coded in /repo/node_diff.go (C08).

  Identity matters for this property (provenance: "the entry's left node *is* a node of the left
  input"; purity: "the compared trees are not modified"), so the compared trees carry ids:
  `INode` (Model/Ident.lean) is `Node` plus an id per node (`labelNode` numbers a tree in preorder,
  the harness numbers the Go nodes the same way by pointer).  Shallow equality is C07's `equalsShallow` on the erasure.

  * `traverse` / `traverseKids` / `placeWith` — `(*NodeDiff).traverse`: set the own side if it is
    still empty, then route every child to the *first* diff child whose left **or** right node
    `Equals` it (receiver = the node held by the diff child), or append a new diff child.
  * `compareNodes l r`  — `CompareNodes`: the left pass, then the right pass, on one diff.
  * `Diff.isDeepEqual`, `Diff.toStr`, `Diff.tagOf` — `IsDeepEqual`, `String`, `Tag`.
  * `Diff.flatten` — `LeftNode()` / `RightNode()` **after the repair** "flatten onto a kind-preserving
    copy": a new node with the header of the favoured side and the flattened diff children.
  * `Diff.sort` — `Sort`: Go's `sort.SliceStable` is an insertion sort for at most 20 elements
    (`sliceStable`, modelled literally so that a non-transitive `isLessThan` gives the same answer)
    and some stable sort beyond; `Diff.sortExact` says whether the model is exact on a diff;
    the keys are those of `isLessThan`: `sortValue` of the tag (`Generated.Diff.sortKey2`), then
    `Years()` when both flattened nodes are `Yearer`s, then the value.
  * `DiffWorld`, `DiffOp`, `diffStep`, `diffRun` — a diff together with the two compared trees *as they are now*;
    what an operation writes to the compared trees is decided by the regenerated facts
    `Generated.Diff.flattenMutates` and `lessThanFlattens` (`sortWrites`), so the model of the
    unrepaired code does modify them.

  Restrictions: for more than 20 children per entry `sort` is exact when `isLessThan` is a strict
  weak order on them (`Diff.sortExact`; the correspondence sets other cases aside as inconclusive);
  `Years()` is an exact fraction here and a float64 in Go.
-/
import Gedcom.Model.Ident
import Gedcom.Model.Calendar
import Gedcom.Generated.Diff
namespace Gedcom

/-! ### trees with identity: `INode`, `INode.erase`, `labelNode` are the shared ones of Model/Ident.lean -/

/-- `a.Equals(b)` on id-carrying nodes -/
def iequals (a b : INode) : Bool := equalsShallow a.erase b.erase

/-- `x` is a node of `root` at depth `d` -/
inductive INode.At : INode → Nat → INode → Prop
  | root (n : INode) : INode.At n 0 n
  | kid {i : Nat} {t v p : Str} {ks : List INode} {k : INode} {d : Nat} {x : INode} :
      k ∈ ks → INode.At k d x → INode.At (.mk i t v p ks) (d + 1) x

/-! ### the diff -/

inductive Diff where
  | mk (left right : Option INode) (kids : List Diff)
deriving Repr, Inhabited

namespace Diff
def left : Diff → Option INode | mk l _ _ => l
def right : Diff → Option INode | mk _ r _ => r
def kids : Diff → List Diff | mk _ _ k => k
/-- `&NodeDiff{}` -/
def empty : Diff := .mk none none []

/-- `e` is an entry of `root` at depth `d` -/
inductive EntryAt : Diff → Nat → Diff → Prop
  | root (D : Diff) : EntryAt D 0 D
  | kid {L R : Option INode} {cs : List Diff} {c : Diff} {d : Nat} {e : Diff} :
      c ∈ cs → EntryAt c d e → EntryAt (.mk L R cs) (d + 1) e

/-- the test of the inner loop of `traverse`:
    `diffChild.Left != nil && diffChild.Left.Equals(child) || diffChild.Right != nil && diffChild.Right.Equals(child)` -/
def matchesNode (eq : INode → INode → Bool) (k : INode) (c : Diff) : Bool :=
  (match c.left with | some x => eq x k | none => false) ||
  (match c.right with | some y => eq y k | none => false)
end Diff

/-- one iteration of the outer loop of `traverse`: the first diff child satisfying `m` is replaced
    by `f` of it, otherwise `f` of a new empty diff is appended -/
def placeWith (m : Diff → Bool) (f : Diff → Diff) : List Diff → List Diff
  | [] => [f Diff.empty]
  | c :: cs => if m c then f c :: cs else c :: placeWith m f cs

/-- `if isLeft && nd.Left == nil { nd.Left = n }` -/
def fillL (isLeft : Bool) (n : INode) (L : Option INode) : Option INode :=
  if isLeft then (match L with | some x => some x | none => some n) else L
/-- `if !isLeft && nd.Right == nil { nd.Right = n }` -/
def fillR (isLeft : Bool) (n : INode) (R : Option INode) : Option INode :=
  if isLeft then R else (match R with | some y => some y | none => some n)

mutual
/-- `nd.traverse(n, isLeft)` for a non-nil `n` -/
def traverse (eq : INode → INode → Bool) (isLeft : Bool) : INode → Diff → Diff
  | .mk i t v p ks, d =>
    .mk (fillL isLeft (.mk i t v p ks) d.left) (fillR isLeft (.mk i t v p ks) d.right)
      (traverseKids eq isLeft ks d.kids)
/-- the loop over `n.Nodes()` -/
def traverseKids (eq : INode → INode → Bool) (isLeft : Bool) : List INode → List Diff → List Diff
  | [], cs => cs
  | k :: ks, cs =>
    traverseKids eq isLeft ks (placeWith (Diff.matchesNode eq k) (traverse eq isLeft k) cs)
end

/-- `CompareNodes(left, right)` with an arbitrary shallow equality -/
def compareWith (eq : INode → INode → Bool) (l r : INode) : Diff :=
  traverse eq false r (traverse eq true l Diff.empty)

/-- `CompareNodes(left, right)` for two non-nil nodes -/
def compareNodes (l r : INode) : Diff := compareWith iequals l r

/-! ### IsDeepEqual, Tag -/

mutual
/-- `IsDeepEqual`: this entry and every entry below it has both sides -/
def Diff.isDeepEqual : Diff → Bool
  | .mk L R cs => L.isSome && R.isSome && Diff.isDeepEqualL cs
def Diff.isDeepEqualL : List Diff → Bool
  | [] => true
  | c :: cs => c.isDeepEqual && Diff.isDeepEqualL cs
end

/-- the node a diff entry is displayed by when the left side is favoured -/
def Diff.header (favorLeft : Bool) (d : Diff) : Option INode :=
  if favorLeft then (match d.left with | some x => some x | none => d.right)
  else (match d.right with | some y => some y | none => d.left)

/-- `Tag()`: the tag of the left node, else of the right node (`none`: nil dereference) -/
def Diff.tagOf (d : Diff) : Option Str := (d.header true).map INode.tag

/-! ### String -/

/-- `SimpleNode.GEDCOMLine(indent)`, `indent ≥ 0` -/
def diffGedcomLine (indent : Nat) (n : INode) : Str :=
  natToDec indent ++ [32] ++
  (if n.ptr.isEmpty then [] else [64] ++ n.ptr ++ [64, 32]) ++
  n.tag ++
  (if n.value.isEmpty then [] else [32] ++ n.value)

/-- `lrLine` -/
def lrLine (indent : Nat) (d : Diff) : Str :=
  match d.left, d.right with
  | none, some y => lit " R " ++ diffGedcomLine indent y
  | none, none => lit " R "
  | some x, none => lit "L  " ++ diffGedcomLine indent x
  | some x, some y =>
    if diffGedcomLine indent x == diffGedcomLine indent y then lit "LR " ++ diffGedcomLine indent x
    else lit "LR " ++ diffGedcomLine indent x ++ [10] ++ lit "LR " ++ diffGedcomLine indent y

mutual
/-- `nd.string(indent)` -/
def Diff.strAt : Nat → Diff → Str
  | indent, .mk L R cs => lrLine indent (.mk L R []) ++ Diff.strAtL (indent + 1) cs
def Diff.strAtL : Nat → List Diff → Str
  | _, [] => []
  | indent, c :: cs => [10] ++ Diff.strAt indent c ++ Diff.strAtL indent cs
end

/-- `String()`: `strings.TrimRightFunc(line, unicode.IsSpace)` is `trimRight` of the date model -/
def Diff.toStr (d : Diff) : Str := trimRight (d.strAt 0)

/-! ### LeftNode / RightNode (after the repair: flatten onto a copy) -/

mutual
/-- `LeftNode()` (`favorLeft`) / `RightNode()`: a **new** node with the tag, value and pointer of the
    favoured side whose children are the flattened diff children.  The result has no identity in
    the compared trees, hence a plain `Node`.  (`none` header: nil dereference in Go; the value
    here is an empty node, and `compareNodes` never produces such an entry — `C08.provenance`.) -/
def Diff.flatten (favorLeft : Bool) : Diff → Node
  | .mk L R cs =>
    match Diff.header favorLeft (.mk L R []) with
    | some h => .mk h.tag h.value h.ptr (Diff.flattenL favorLeft cs)
    | none => .mk [] [] [] (Diff.flattenL favorLeft cs)
def Diff.flattenL (favorLeft : Bool) : List Diff → List Node
  | [] => []
  | c :: cs => c.flatten favorLeft :: Diff.flattenL favorLeft cs
end

/-! ### Sort keys (`isLessThan`) -/

/-- first level: the `sortValue` field of the tag, on the doubled scale of the generated table -/
def sortKeyOfTag (t : Str) : Nat :=
  match Generated.Diff.sortKey2.find? (·.1 == bytesToString t) with
  | some e => e.2
  | none => Generated.Diff.unknownSortKey2

/-- the flattened node's Go type has a `Years()` method -/
def isYearer (n : Node) : Bool := Generated.Diff.yearerTags.contains (bytesToString n.tag)

/-- a `Years()` value as an exact fraction `num / den`, `den > 0` -/
structure YearsQ where
  num : Int
  den : Int
deriving Repr, DecidableEq

def YearsQ.zero : YearsQ := ⟨0, 1⟩
def YearsQ.lt (a b : YearsQ) : Bool := decide (a.num * b.den < b.num * a.den)

/-- `DateNode.Years()` = `DateRange().Years()`: the mean of the `Years()` of the start and the end
    date (parser and `Date.Years()` are the C04/C05 models) -/
def diffDateYears (v : Str) : YearsQ :=
  let r := parseDateRange v
  let a := r.start.yearsFrac
  let b := r.end_.yearsFrac
  ⟨a.1 * b.2 + b.1 * a.2, 2 * a.2 * b.2⟩

/-- `StartDate().Years()` of a DATE value -/
def diffDateStartYears (v : Str) : YearsQ :=
  let a := (parseDateRange v).start.yearsFrac
  ⟨a.1, a.2⟩

/-- `DateNodes.Minimum()` then `Years(min)`: the first node whose start is strictly smaller than
    the start of the minimum so far wins; 0 without dates -/
def diffMinDateYears (dates : List Node) : YearsQ :=
  match dates with
  | [] => YearsQ.zero
  | d :: ds =>
    diffDateYears (ds.foldl (fun m x =>
      if (diffDateStartYears x.value).lt (diffDateStartYears m.value) then x else m) d).value

/-- `Years()` of a flattened node whose type is a `Yearer`: a DATE by its own value, an EVEN / RESI by
    the minimum of its DATE children -/
def diffNodeYears (n : Node) : YearsQ :=
  if n.tag == tagDATE then diffDateYears n.value else diffMinDateYears n.dates

/-- Go's `<` on strings: bytewise lexicographic -/
def goStrLt : Str → Str → Bool
  | [], [] => false
  | [], _ :: _ => true
  | _ :: _, [] => false
  | a :: as, b :: bs => if a < b then true else if b < a then false else goStrLt as bs

/-- what `isLessThan` reads of a flattened node: the `sortValue` level of its tag, whether its Go
    type is a `Yearer`, its `Years()` and its value -/
structure SortKey where
  level : Nat
  yearer : Bool
  years : YearsQ
  value : Str

def sortKeyOf (n : Node) : SortKey :=
  ⟨sortKeyOfTag n.tag, isYearer n, if isYearer n then diffNodeYears n else YearsQ.zero, n.value⟩

/-- `isLessThan` on the keys of the two flattened nodes -/
def lessKey (a b : SortKey) : Bool :=
  if a.level != b.level then decide (a.level < b.level)
  else if a.yearer && b.yearer then a.years.lt b.years
  else goStrLt a.value b.value

/-- `isLessThan` on the two flattened nodes -/
def lessNode (a b : Node) : Bool := lessKey (sortKeyOf a) (sortKeyOf b)

/-! ### Sort -/

/-- one insertion of Go's `insertionSortLessFunc`; the sorted prefix is kept reversed -/
def sliceStableIns {α : Type} (lt : α → α → Bool) (x : α) : List α → List α
  | [] => [x]
  | e :: es => if lt x e then e :: sliceStableIns lt x es else x :: e :: es

/-- `sort.SliceStable`: insertion sort from the left.  This *is* Go's algorithm for at most 20
    elements (`stable_func`: blocks of 20 are insertion-sorted, then merged with `symMerge`); for
    longer slices it is the same function whenever `lt` is a strict weak order on the elements,
    because then every stable sort returns the one stable sorted permutation
    (`C08.sliceStable_unique`). -/
def sliceStable {α : Type} (lt : α → α → Bool) (l : List α) : List α :=
  (l.foldl (fun acc x => sliceStableIns lt x acc) []).reverse

/-- `lt` is a strict weak order on the elements of `l`: irreflexive, transitive, and incomparability
    is transitive (stated as: `lt a c` implies `lt a b` or `lt b c`) -/
def swoB {α : Type} (lt : α → α → Bool) (l : List α) : Bool :=
  l.all fun a => !lt a a && l.all fun b => l.all fun c =>
    (!(lt a b && lt b c) || lt a c) && (!lt a c || lt a b || lt b c)

mutual
/-- `Sort()`: the children are ordered by `isLessThan` on their flattened nodes as they are before
    the recursive calls, then every child is sorted -/
def Diff.sort : Diff → Diff
  | .mk L R cs => .mk L R ((sliceStable (fun a b => lessKey a.1 b.1) (Diff.sortKeyed cs)).map (·.2))
def Diff.sortKeyed : List Diff → List (SortKey × Diff)
  | [] => []
  | c :: cs => (sortKeyOf (c.flatten true), c.sort) :: Diff.sortKeyed cs
end

mutual
/-- is the model of `Sort()` exact on this diff?  Every list of more than 20 children (where Go
    leaves plain insertion sort) must be compared by a strict weak order. -/
def Diff.sortExact : Diff → Bool
  | .mk _ _ cs =>
    (decide (cs.length ≤ 20) || swoB lessKey (Diff.flatKeys cs)) && Diff.sortExactL cs
def Diff.sortExactL : List Diff → Bool
  | [] => true
  | c :: cs => c.sortExact && Diff.sortExactL cs
def Diff.flatKeys : List Diff → List SortKey
  | [] => []
  | c :: cs => sortKeyOf (c.flatten true) :: Diff.flatKeys cs
end

/-! ### operations on a diff and what they do to the compared trees -/

/-- do the flags regenerated from the code say that `Sort` writes to the compared nodes?
    (`isLessThan` flattens, and flattening adds children to the node it starts from; when the
    go/ast fact is unavailable the call is assumed) -/
def sortMutates : Bool :=
  Generated.Diff.flattenMutates && (Generated.Diff.lessThanFlattens.getD true)

mutual
/-- `AddNode` calls that an in-place `LeftNode()` performs: (id of the receiving input node, child).
    Only used when `sortMutates`; one round of appends, the unrepaired code repeats them. -/
def Diff.flattenWrites : Diff → List (Nat × Node)
  | .mk L R cs =>
    match Diff.header true (.mk L R []) with
    | some h => Diff.flattenWritesL h.id cs
    | none => []
def Diff.flattenWritesL (target : Nat) : List Diff → List (Nat × Node)
  | [] => []
  | c :: cs => (target, c.flatten true) :: (c.flattenWrites ++ Diff.flattenWritesL target cs)
end

mutual
/-- the writes of `Sort()` when flattening is in place: every entry that takes part in a comparison
    (its list has at least two entries) is flattened, and so on below -/
def Diff.sortWrites : Diff → List (Nat × Node)
  | .mk _ _ cs =>
    (if cs.length ≥ 2 then Diff.flattenAllWrites cs else []) ++ Diff.sortWritesL cs
def Diff.sortWritesL : List Diff → List (Nat × Node)
  | [] => []
  | c :: cs => c.sortWrites ++ Diff.sortWritesL cs
def Diff.flattenAllWrites : List Diff → List (Nat × Node)
  | [] => []
  | c :: cs => c.flattenWrites ++ Diff.flattenAllWrites cs
end

mutual
/-- number of nodes -/
def INode.size : INode → Nat
  | .mk _ _ _ _ ks => 1 + INode.sizeL ks
def INode.sizeL : List INode → Nat
  | [] => 0
  | k :: ks => k.size + INode.sizeL ks
end

/-- appended children get the id `freshId` (they are new objects, not nodes of either input) -/
def freshId : Nat := 4000000000

mutual
def freshen : Node → INode
  | .mk t v p ks => .mk freshId t v p (freshenL ks)
def freshenL : List Node → List INode
  | [] => []
  | k :: ks => freshen k :: freshenL ks
end

mutual
/-- `AddNode(child)` on the node with id `target` -/
def INode.addKid (target : Nat) (child : Node) : INode → INode
  | .mk i t v p ks =>
    .mk i t v p (if i == target then INode.addKidL target child ks ++ [freshen child]
                 else INode.addKidL target child ks)
def INode.addKidL (target : Nat) (child : Node) : List INode → List INode
  | [] => []
  | k :: ks => k.addKid target child :: INode.addKidL target child ks
end

def applyWrites (ws : List (Nat × Node)) (n : INode) : INode :=
  ws.foldl (fun n w => n.addKid w.1 w.2) n

/-! ### the guard of "deep-equal inputs give an all-two-sided diff", executable -/

/-- `eq` is reflexive, symmetric and transitive on the list: it is reflexive and related elements
    have the same row of the relation's table (the table is computed once: |S|² evaluations) -/
def equivOnB (eq : INode → INode → Bool) (S : List INode) : Bool :=
  let rows := S.map fun a => (a, S.map (eq a))
  S.all (fun a => eq a a) &&
    rows.all fun ra => rows.all fun rb => !eq ra.1 rb.1 || ra.2 == rb.2

/-- `eq` is an equivalence on `S`, on the children of `S`, on their children, … (`n` = fuel; the
    number of nodes below `S` plus one suffices) -/
def guardB (eq : INode → INode → Bool) : Nat → List INode → Bool
  | 0, S => S.isEmpty
  | n + 1, S => S.isEmpty || (equivOnB eq S && guardB eq n (S.flatMap INode.kids))

/-- `Equals` is an equivalence on every level below the two compared roots -/
def equivLevelsB (l r : INode) : Bool := guardB iequals (l.size + r.size) (l.kids ++ r.kids)

/-- the two compared trees as they are now, and the diff -/
structure DiffWorld where
  left : INode
  right : INode
  diff : Diff

inductive DiffOp | compare | string | isDeepEqual | sort | tag
deriving DecidableEq, Repr

/-- what an operation returns -/
inductive DiffObs
  | unit
  | bool (b : Bool)
  | str (s : Str)
  | tag (t : Option Str)

/-- one diff operation; `mutates` says whether `Sort` flattens in place -/
def diffStepWith (mutates : Bool) (w : DiffWorld) : DiffOp → DiffWorld × DiffObs
  | .compare => ({ w with diff := compareNodes w.left w.right }, .unit)
  | .string => (w, .str w.diff.toStr)
  | .isDeepEqual => (w, .bool w.diff.isDeepEqual)
  | .tag => (w, .tag w.diff.tagOf)
  | .sort =>
    let ws := if mutates then w.diff.sortWrites else []
    ({ left := applyWrites ws w.left, right := applyWrites ws w.right, diff := w.diff.sort }, .unit)

/-- the operation as the current code performs it -/
def diffStep (w : DiffWorld) (op : DiffOp) : DiffWorld × DiffObs := diffStepWith sortMutates w op

def diffRunWith (mutates : Bool) (w : DiffWorld) : List DiffOp → DiffWorld × List DiffObs
  | [] => (w, [])
  | op :: ops =>
    let r := diffStepWith mutates w op
    let rest := diffRunWith mutates r.1 ops
    (rest.1, r.2 :: rest.2)

def diffRun (w : DiffWorld) (ops : List DiffOp) : DiffWorld × List DiffObs := diffRunWith sortMutates w ops

/-- the world right after `CompareNodes(l, r)` -/
def DiffWorld.init (l r : INode) : DiffWorld := ⟨l, r, compareNodes l r⟩

end Gedcom
