/-
  C19 (i) — naming of the published files.

  `sanitize` (= `strings.ToLower` followed by `alnumOrDashRegexp.ReplaceAllString(…, "-")`),
  `uniqueKey` (= `getUniqueKey`), `individualKeys` (= `GetIndividuals`), the place keys, the `Page*`
  functions, the index letters, the surname link and the list of file names
  `Publisher.sendFiles` produces.

  The kept byte class, the ToLower folds onto ASCII, the per-byte encoding of source pointers, the
  fixed page names and two behavioural flags (individuals keyed with the populated places map, the
  surname link uses the index letter) are regenerated from the code (`Generated.Publish`).
  Core Lean only.
-/
import Gedcom.Generated.Publish
namespace Gedcom.Publish
open Gedcom

/-- `bs!"abc"` is the byte list of the literal, written out as numerals (kernel-friendly) -/
macro:max "bs!" s:str : term => do
  let elems := s.getString.toUTF8.toList.map fun b => Lean.Syntax.mkNumLit (toString b.toNat)
  `(([$(elems.toArray),*] : Str))

/-! ## bytes and decimals -/

def isPrefix : Str → Str → Bool
  | [], _ => true
  | _ :: _, [] => false
  | a :: as, b :: bs => a == b && isPrefix as bs

def digitChar (d : Nat) : UInt8 := [48, 49, 50, 51, 52, 53, 54, 55, 56, 57].getD d 48

def natToDecF : Nat → Nat → Str
  | 0, _ => []
  | f+1, n => if n < 10 then [digitChar n] else natToDecF f (n / 10) ++ [digitChar (n % 10)]

/-- decimal digits of `n` (`%d` for naturals) -/
def natToDec (n : Nat) : Str := natToDecF (n + 1) n

def lowerAscii (b : UInt8) : UInt8 := if 65 ≤ b ∧ b ≤ 90 then b + 32 else b

/-! ## keys -/

/-- the byte class `[a-z_0-9-]` as probed from the code -/
def keep (b : UInt8) : Bool := Generated.keyKeep.contains b

/-- a non-ASCII character whose `strings.ToLower` is a kept ASCII byte (K, İ) at the front? -/
def foldAt (s : Str) : Option (UInt8 × Nat) :=
  match Generated.lowerFold.find? (fun e => isPrefix e.1 s) with
  | some e => some (e.2, e.1.length)
  | none => none

/-- `alnumOrDashRegexp.ReplaceAllString(strings.ToLower(s), "-")`: every maximal run of characters
    outside `[a-z_0-9-]` (after lower-casing) becomes one `-`.
    `inRun`: the previous character was replaced; `skip`: bytes of a multi-byte character already
    handled. -/
def sanGo : Bool → Nat → Str → Str
  | _, _, [] => []
  | inRun, k+1, _ :: t => sanGo inRun k t
  | inRun, 0, b :: t =>
    match foldAt (b :: t) with
    | some (c, n) => c :: sanGo false (n - 1) t
    | none =>
      let l := lowerAscii b
      if b < 128 && keep l then l :: sanGo false 0 t
      else if inRun then sanGo true 0 t
      else Generated.keyDash ++ sanGo true 0 t

def sanitize (s : Str) : Str := sanGo false 0 s

/-- the i-th candidate of `getUniqueKey`: `s`, `s-1`, `s-2`, … -/
def candidate (s : Str) (i : Nat) : Str := if i = 0 then s else s ++ [45] ++ natToDec i

/-- `getUniqueKey`: the first candidate that is neither an individual key nor a place key.  The Go
    loop is unbounded; at most `|taken| + |places|` candidates can be occupied, so the search space
    below always contains a free one (`uniqueKey_isSome`). -/
def uniqueKey (taken places : List Str) (s : Str) : Option Str :=
  ((List.range (taken.length + places.length + 1)).map (candidate s)).find?
    (fun c => !taken.contains c && !places.contains c)

/-- `GetIndividuals`: one key per individual, in document order (`acc` = keys so far) -/
def getIndividuals (places : List Str) : List Str → List Str → List Str
  | acc, [] => acc
  | acc, n :: ns =>
    match uniqueKey acc places (sanitize n) with
    | some k => getIndividuals places (acc ++ [k]) ns
    | none => acc        -- unreachable (`uniqueKey_isSome`)

/-- keys of the individuals whose `Name().String()` are `names`, given the place keys passed -/
def individualKeys (names places : List Str) : List Str := getIndividuals places [] names

/-- `Publisher.Places()`: the key of a pretty place name; the first pretty name of a key names the
    page.  Result: (key, pretty name) in first-occurrence order. -/
def placeEntries : List Str → List (Str × Str)
  | [] => []
  | p :: ps => (sanitize p, p) :: (placeEntries ps).filter (fun kv => kv.1 != sanitize p)

def html : Str := Generated.pageKeySuffix

/-! ## page names -/

def pageIndividuals (letter : UInt8) : Str :=
  if letter == Generated.symbolLetter then Generated.pageIndividualsSymbol
  else Generated.pageIndividualsPrefix ++ [letter] ++ Generated.pageIndividualsSuffix

/-- `PageIndividual`: `#` for a hidden living person, else the key found for the individual
    (pointers are unique, so the i-th individual finds the i-th key) -/
def pageIndividual (names places : List Str) (hidden : Bool) (i : Nat) : Str :=
  if hidden then [35] else
  match (individualKeys names places)[i]? with
  | some k => k ++ html
  | none => [35]

/-- `PageIndividual` as the Go code runs it: it ranges over the map `GetIndividuals` returned, in
    whatever order the runtime picks (`order` = the entries (key, individual) in that order), and
    returns the first entry that is the individual -/
def pageIndividualIn (order : List (Str × Nat)) (hidden : Bool) (i : Nat) : Str :=
  if hidden then [35] else
  match order.find? (fun e => e.2 == i) with
  | some e => e.1 ++ html
  | none => [35]

/-- the entries of the map `GetIndividuals` returns, in document order -/
def individualEntries (names places : List Str) : List (Str × Nat) :=
  (individualKeys names places).zipIdx

/-- `PagePlace`: the key whose pretty name is `pretty`, or `#` (`places`: key ↦ pretty name, in any
    order: the Go code ranges over a map) -/
def pagePlace (pretty : Str) (places : List (Str × Str)) : Str :=
  match places.find? (fun kv => kv.2 == pretty) with
  | some kv => kv.1 ++ html
  | none => [35]

/-- the key `PageSource` makes of a pointer: byte by byte as probed from the code -/
def sourceKey (ptr : Str) : Str := ptr.flatMap (fun b => Generated.sourceKeyByte.getD b.toNat [b])

def pageSource (ptr : Str) : Str := sourceKey ptr ++ Generated.pageSourceSuffix

/-! ## index letters and surname links -/

/-- first byte of `strings.ToLower(s)` as far as it matters for index letters -/
def lowerFirst (s : Str) : Option UInt8 :=
  match s with
  | [] => none
  | b :: _ =>
    match foldAt s with
    | some (c, _) => some c
    | none => some (lowerAscii b)

/-- `getIndexLetter` -/
def indexLetter (surname : Str) : UInt8 :=
  match lowerFirst surname with
  | none => Generated.symbolLetter
  | some b => if b < 97 || b > 122 then Generated.symbolLetter else b

/-- `GetIndexLetters`: `#` first, then a..z, each if some listed individual has it -/
def indexLetters (surnames : List Str) : List UInt8 :=
  let ls := surnames.map indexLetter
  (if ls.contains Generated.symbolLetter then [Generated.symbolLetter] else [])
  ++ ((List.range 26).map (fun i => UInt8.ofNat (97 + i))).filter ls.contains

/-- the page a `SurnameLink` points to (without the `#surname` fragment).  With the regenerated
    flag off this is the old code: `unicode.ToLower(rune(surname[0]))` printed with `%c`
    (first *byte* read as a code point: Latin-1, written as UTF-8). -/
def surnameLinkPage (surname : Str) : Str :=
  if Generated.surnameLinkUsesIndexLetter then pageIndividuals (indexLetter surname) else
  match surname with
  | [] => []   -- the Go code panics here; surnames are never empty where the link is used
  | b :: _ =>
    let l := if (65 ≤ b ∧ b ≤ 90) ∨ (192 ≤ b ∧ b ≤ 222 ∧ b ≠ 215) then b + 32 else b
    if l == Generated.symbolLetter then Generated.pageIndividualsSymbol
    else if l < 128 then Generated.pageIndividualsPrefix ++ [l] ++ Generated.pageIndividualsSuffix
    else Generated.pageIndividualsPrefix ++ [192 + l / 64, 128 + l % 64] ++ Generated.pageIndividualsSuffix

/-! ## the site -/

structure Site where
  names : List Str                 -- Name().String() of every individual, document order
  hidden : List Bool               -- living and visibility ≠ show
  letters : List UInt8             -- Publisher.indexLetters
  places : List Str                -- pretty names of the published places, document order
  sourcePtrs : List Str            -- pointers of the SOUR records, document order
  showIndividuals : Bool
  showPlaces : Bool
  showFamilies : Bool
  showSurnames : Bool
  showSources : Bool
  showStatistics : Bool

/-- the keys of `Publisher.Places()` -/
def Site.placeKeys (s : Site) : List Str := (placeEntries s.places).map (·.1)

/-- the place keys `NewPublisher` hands to `GetIndividuals` when it names the individual files:
    the keys of `Places()` when places are published, as the regenerated flag says (the old code
    passed nil) -/
def Site.keyPlaces (s : Site) : List Str :=
  if Generated.individualsKeyedWithPlaces && s.showPlaces then s.placeKeys else []

/-- the place keys held by the pages of a group when they compute links to individuals:
    `publisher.placesMap` at the time the page is constructed.  `late` = constructed after
    `sendPlaceFiles` called `Places()` (family, surname, source, statistics and place pages). -/
def Site.linkPlaces (s : Site) (late : Bool) : List Str :=
  if s.showPlaces && (Generated.individualsKeyedWithPlaces || late) then s.placeKeys else []

def zipFilter : List Str → List Bool → List Str
  | k :: ks, h :: hs => if h then zipFilter ks hs else k :: zipFilter ks hs
  | ks, [] => ks
  | [], _ => []

def Site.individualFiles (s : Site) : List Str :=
  (zipFilter (individualKeys s.names s.keyPlaces) s.hidden).map (· ++ html)

def Site.placeFiles (s : Site) : List Str := s.placeKeys.map (· ++ html)

def Site.sourceFiles (s : Site) : List Str := s.sourcePtrs.map pageSource

/-- the names `sendFiles` hands to the writer (individual pages in document order; the Go code
    ranges over a map there, so the order of that part is not specified) -/
def Site.fileNames (s : Site) : List Str :=
  (if s.showIndividuals then s.letters.map pageIndividuals ++ s.individualFiles else [])
  ++ (if s.showPlaces then Generated.pagePlacesName :: s.placeFiles else [])
  ++ (if s.showFamilies then [Generated.pageFamiliesName] else [])
  ++ (if s.showSurnames then [Generated.pageSurnamesName] else [])
  ++ (if s.showSources then Generated.pageSourcesName :: s.sourceFiles else [])
  ++ (if s.showStatistics then [Generated.pageStatisticsName] else [])

/-- bytes allowed in a page name before the `.html` suffix -/
def safeByte (b : UInt8) : Bool :=
  (97 ≤ b && b ≤ 122) || (65 ≤ b && b ≤ 90) || (48 ≤ b && b ≤ 57) || b == 45 || b == 95

/-- a plain file name: `[A-Za-z0-9_-]*.html` (no separator, no dot but the one of the suffix) -/
def plain (n : Str) : Bool :=
  let k := n.length - html.length
  n.drop k == html && (n.take k).all safeByte

end Gedcom.Publish
