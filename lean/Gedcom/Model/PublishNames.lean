/-
  C19 (i) — naming of the published files.

  `sanitize` (= `strings.ToLower` followed by `alnumOrDashRegexp.ReplaceAllString(…, "-")`),
  `uniqueKey` (= `getUniqueKey`), `individualKeys` (= `GetIndividuals`), the place keys, the `Page*`
  functions, the index letters, the surname link and the list of file names
  `Publisher.sendFiles` produces.

  The kept byte class, the ToLower folds onto ASCII, the per-byte encoding of source pointers, the
  fixed page names and two behavioural flags (individuals keyed with the populated places map, the
  surname link uses the index letter) are regenerated from the code (`Generated.Publish`).
  Core Lean only.
-/
import Gedcom.Generated.Publish
namespace Gedcom.Publish
open Gedcom

/-- `bs!"abc"` is the byte list of the literal, written out as numerals (kernel-friendly) -/
macro:max "bs!" s:str : term => do
  let elems := s.getString.toUTF8.toList.map fun b => Lean.Syntax.mkNumLit (toString b.toNat)
  `(([$(elems.toArray),*] : Str))

/-! ## bytes and decimals -/

def isPrefix : Str → Str → Bool
  | [], _ => true
  | _ :: _, [] => false
  | a :: as, b :: bs => a == b && isPrefix as bs

def digitChar (d : Nat) : UInt8 := [48, 49, 50, 51, 52, 53, 54, 55, 56, 57].getD d 48

def natToDecF : Nat → Nat → Str
  | 0, _ => []
  | f+1, n => if n < 10 then [digitChar n] else natToDecF f (n / 10) ++ [digitChar (n % 10)]

/-- decimal digits of `n` (`%d` for naturals) -/
def natToDec (n : Nat) : Str := natToDecF (n + 1) n

def lowerAscii (b : UInt8) : UInt8 := if 65 ≤ b ∧ b ≤ 90 then b + 32 else b

/-! ## `prettyPlaceName` -/

/-- Go's `strings.Replace(s, old, new, -1)` for non-empty `old`: leftmost, non-overlapping.
    `skip` counts the bytes of a match still to be dropped (structural recursion on `s`). -/
def replaceGo (old new : Str) : Nat → Str → Str
  | _, [] => []
  | k+1, _ :: t => replaceGo old new k t
  | 0, b :: t =>
    if isPrefix old (b :: t) then new ++ replaceGo old new (old.length - 1) t
    else b :: replaceGo old new 0 t

def replaceAll (old new s : Str) : Str := if old.isEmpty then s else replaceGo old new 0 s

def isAsciiSpace (b : UInt8) : Bool :=
  b == 9 || b == 10 || b == 11 || b == 12 || b == 13 || b == 32

/-- U+0085, U+00A0 -/
def isSpace2 (a b : UInt8) : Bool := a == 0xC2 && (b == 0x85 || b == 0xA0)

/-- U+1680, U+2000..U+200A, U+2028, U+2029, U+202F, U+205F, U+3000 -/
def isSpace3 (a b c : UInt8) : Bool :=
  (a == 0xE1 && b == 0x9A && c == 0x80) ||
  (a == 0xE2 && b == 0x80 && ((0x80 ≤ c.toNat && c.toNat ≤ 0x8A) || c == 0xA8 || c == 0xA9 || c == 0xAF)) ||
  (a == 0xE2 && b == 0x81 && c == 0x9F) ||
  (a == 0xE3 && b == 0x80 && c == 0x80)

/-- the rest after one leading white-space rune (`unicode.IsSpace`, UTF-8), if there is one -/
def dropSpaceRune : Str → Option Str
  | [] => none
  | a :: r =>
    if isAsciiSpace a then some r else
    match r with
    | [] => none
    | b :: r' =>
      if isSpace2 a b then some r' else
      match r' with
      | [] => none
      | c :: r'' => if isSpace3 a b c then some r'' else none

/-- the same on the reversed string (trailing white-space rune) -/
def dropSpaceRuneRev : Str → Option Str
  | [] => none
  | c :: r =>
    if isAsciiSpace c then some r else
    match r with
    | [] => none
    | b :: r' =>
      if isSpace2 b c then some r' else
      match r' with
      | [] => none
      | a :: r'' => if isSpace3 a b c then some r'' else none

def trimFuel (f : Str → Option Str) : Nat → Str → Str
  | 0, s => s
  | n + 1, s => match f s with | some r => trimFuel f n r | none => s

/-- `strings.TrimSpace` -/
def trimSpace (s : Str) : Str :=
  let l := trimFuel dropSpaceRune s.length s
  (trimFuel dropSpaceRuneRev l.length l.reverse).reverse

/-- `strings.Trim(s, cutset)` for an ASCII cutset -/
def trimCutset (cut : UInt8 → Bool) (s : Str) : Str :=
  ((s.dropWhile cut).reverse.dropWhile cut).reverse

/-- `prettyPlaceName` (html/places.go): `,,` → `,` twice, `,` → `, `, trim commas and spaces,
    trim white space -/
def prettyPlaceName (s : Str) : Str :=
  let s := replaceAll [44, 44] [44] s
  let s := replaceAll [44, 44] [44] s
  let s := replaceAll [44] [44, 32] s
  let s := trimCutset (fun b => b == 44 || b == 32) s
  trimSpace s

/-- the name `Publisher.Places()` lists a PLAC value under: its pretty name, `(none)` if empty -/
def prettyOf (v : Str) : Str :=
  let p := prettyPlaceName v
  if p.isEmpty then bs!"(none)" else p

/-! ## keys -/

/-- the byte class `[a-z_0-9-]` as probed from the code -/
def keep (b : UInt8) : Bool := Generated.keyKeep.contains b

/-- a non-ASCII character whose `strings.ToLower` is a kept ASCII byte (K, İ) at the front? -/
def foldAt (s : Str) : Option (UInt8 × Nat) :=
  match Generated.lowerFold.find? (fun e => isPrefix e.1 s) with
  | some e => some (e.2, e.1.length)
  | none => none

/-- `alnumOrDashRegexp.ReplaceAllString(strings.ToLower(s), "-")`: every maximal run of characters
    outside `[a-z_0-9-]` (after lower-casing) becomes one `-`.
    `inRun`: the previous character was replaced; `skip`: bytes of a multi-byte character already
    handled. -/
def sanGo : Bool → Nat → Str → Str
  | _, _, [] => []
  | inRun, k+1, _ :: t => sanGo inRun k t
  | inRun, 0, b :: t =>
    match foldAt (b :: t) with
    | some (c, n) => c :: sanGo false (n - 1) t
    | none =>
      let l := lowerAscii b
      if b < 128 && keep l then l :: sanGo false 0 t
      else if inRun then sanGo true 0 t
      else Generated.keyDash ++ sanGo true 0 t

def sanitize (s : Str) : Str := sanGo false 0 s

/-- the i-th candidate of `getUniqueKey`: `s`, `s-1`, `s-2`, … -/
def candidate (s : Str) (i : Nat) : Str := if i = 0 then s else s ++ [45] ++ natToDec i

/-- `getUniqueKey`: the first candidate that is neither an individual key nor a place key.  The Go
    loop is unbounded; at most `|taken| + |places|` candidates can be occupied, so the search space
    below always contains a free one (`uniqueKey_isSome`). -/
def uniqueKey (taken places : List Str) (s : Str) : Option Str :=
  ((List.range (taken.length + places.length + 1)).map (candidate s)).find?
    (fun c => !taken.contains c && !places.contains c)

/-- `GetIndividuals`: one key per individual, in document order (`acc` = keys so far) -/
def getIndividuals (places : List Str) : List Str → List Str → List Str
  | acc, [] => acc
  | acc, n :: ns =>
    match uniqueKey acc places (sanitize n) with
    | some k => getIndividuals places (acc ++ [k]) ns
    | none => acc        -- unreachable (`uniqueKey_isSome`)

/-- keys of the individuals whose `Name().String()` are `names`, given the place keys passed -/
def individualKeys (names places : List Str) : List Str := getIndividuals places [] names

/-- drops the entries whose flag is set (`hs` shorter than `ks`: the rest is kept) -/
def zipFilter : List Str → List Bool → List Str
  | k :: ks, h :: hs => if h then zipFilter ks hs else k :: zipFilter ks hs
  | ks, [] => ks
  | [], _ => []

/-- the names `getIndividuals(document, placesMap, visibility)` hands a key to: only the people
    that get a page (regenerated flag; the older code keyed everybody).  `hidden` = living and
    visibility ≠ show, one flag per individual. -/
def keyedNames (names : List Str) (hidden : List Bool) : List Str :=
  if Generated.keysSkipHidden then zipFilter names hidden else names

/-- the position of individual `i` among the people that are given a key -/
def keyRank (hidden : List Bool) (i : Nat) : Nat :=
  if Generated.keysSkipHidden then ((hidden.take i).filter (fun h => !h)).length else i

/-- the keys of all individuals in document order, `none` for the hidden ones: one definition for
    every model that needs page names (C17's page model included) -/
def assignKeys : List Str → List Bool → List (Option Str)
  | ks, true :: hs => none :: assignKeys (if Generated.keysSkipHidden then ks else ks.drop 1) hs
  | k :: ks, false :: hs => some k :: assignKeys ks hs
  | [], false :: hs => none :: assignKeys [] hs
  | _, [] => []

/-- `getIndividuals` per individual: the key of each person who gets a page -/
def individualKeysV (names : List Str) (hidden : List Bool) (places : List Str) : List (Option Str) :=
  assignKeys (individualKeys (keyedNames names hidden) places) hidden

/-- the key `Publisher.Places()` gives a pretty place name: its sanitized form, followed by the
    first number that keeps it off the reserved keys (fixed pages, source pages) -/
def placeKey (reserved : List Str) (p : Str) : Str :=
  (uniqueKey [] reserved (sanitize p)).getD (sanitize p)

/-- `Publisher.Places()`: the first pretty name of a key names the page.
    Result: (key, pretty name) in first-occurrence order. -/
def placeEntriesR (reserved : List Str) : List Str → List (Str × Str)
  | [] => []
  | p :: ps => (placeKey reserved p, p) :: (placeEntriesR reserved ps).filter (fun kv => kv.1 != placeKey reserved p)

/-- … without reserved keys (the code before the reserved-page-names repair) -/
def placeEntries (ps : List Str) : List (Str × Str) := placeEntriesR [] ps

def html : Str := Generated.pageKeySuffix

/-! ## page names -/

def pageIndividuals (letter : UInt8) : Str :=
  if letter == Generated.symbolLetter then Generated.pageIndividualsSymbol
  else Generated.pageIndividualsPrefix ++ [letter] ++ Generated.pageIndividualsSuffix

/-- `PageIndividual`: `#` for a hidden living person, else the key found for the individual
    (the record itself is looked up, so the i-th individual finds the i-th key — also when
    several records share a pointer; regenerated fact `pageIndividualByIdentity`) -/
def pageIndividual (names places : List Str) (hidden : Bool) (i : Nat) : Str :=
  if hidden then [35] else
  match (individualKeys names places)[i]? with
  | some k => k ++ html
  | none => [35]

/-- `PageIndividual(document, individual, visibility, placesMap)` for the i-th individual of a
    document whose hidden flags are `hidden`: `#` for a hidden person, else the key
    `getIndividuals(document, placesMap, visibility)` gave it -/
def pageIndividualV (names : List Str) (hidden : List Bool) (places : List Str) (i : Nat) : Str :=
  pageIndividual (keyedNames names hidden) places (hidden.getD i false) (keyRank hidden i)

/-- `PageIndividual` as the Go code runs it: it ranges over the map `GetIndividuals` returned, in
    whatever order the runtime picks (`order` = the entries (key, individual) in that order), and
    returns the first entry that is the individual -/
def pageIndividualIn (order : List (Str × Nat)) (hidden : Bool) (i : Nat) : Str :=
  if hidden then [35] else
  match order.find? (fun e => e.2 == i) with
  | some e => e.1 ++ html
  | none => [35]

/-- the entries of the map `GetIndividuals` returns, in document order -/
def individualEntries (names places : List Str) : List (Str × Nat) :=
  (individualKeys names places).zipIdx

/-- `PagePlace`: the key whose pretty name is `pretty`, or `#` (`places`: key ↦ pretty name, in any
    order: the Go code ranges over a map) -/
def pagePlace (pretty : Str) (places : List (Str × Str)) : Str :=
  match places.find? (fun kv => kv.2 == pretty) with
  | some kv => kv.1 ++ html
  | none => [35]

/-- the pages that always have the same name (`isFixedPageKey` compares with these) -/
def fixedNames : List Str :=
  [Generated.pagePlacesName, Generated.pageFamiliesName, Generated.pageSurnamesName,
   Generated.pageSourcesName, Generated.pageStatisticsName, Generated.pageIndividualsSymbol]
  ++ (List.range 26).map (fun i => pageIndividuals (UInt8.ofNat (97 + i)))

/-- … without the `.html` suffix -/
def fixedKeys : List Str := fixedNames.map (fun n => n.take (n.length - html.length))

/-- `isFixedPageKey` -/
def isFixedKey (k : Str) : Bool := fixedNames.contains (k ++ html)

def hexDigit (d : Nat) : UInt8 := if d < 10 then UInt8.ofNat (48 + d) else UInt8.ofNat (87 + d)

/-- `fmt.Sprintf("_%02x%s", key[0], key[1:])` -/
def escapeFirst : Str → Str
  | [] => []
  | b :: t => 95 :: hexDigit (b.toNat / 16) :: hexDigit (b.toNat % 16) :: t

/-- the pointer byte by byte as probed from the code -/
def sourceKeyRaw (ptr : Str) : Str := ptr.flatMap (fun b => Generated.sourceKeyByte.getD b.toNat [b])

/-- the key `PageSource` makes of a pointer; a key that would name a fixed page gets its first
    letter escaped (regenerated flag) -/
def sourceKey (ptr : Str) : Str :=
  let raw := sourceKeyRaw ptr
  if Generated.sourceKeyEscapesFixed && isFixedKey raw then escapeFirst raw else raw

def pageSource (ptr : Str) : Str := sourceKey ptr ++ Generated.pageSourceSuffix

/-- the keys `getUniqueKey` keeps individuals and places off (regenerated flag): the fixed page
    names and the keys of the source pages of the document (`ptrs` = pointers of its sources) -/
def reservedKeys (ptrs : List Str) : List Str :=
  if Generated.keysAvoidReserved then fixedKeys ++ ptrs.map sourceKey else []

/-! ## index letters and surname links -/

/-- first byte of `strings.ToLower(s)` as far as it matters for index letters -/
def lowerFirst (s : Str) : Option UInt8 :=
  match s with
  | [] => none
  | b :: _ =>
    match foldAt s with
    | some (c, _) => some c
    | none => some (lowerAscii b)

/-- `getIndexLetter` -/
def indexLetter (surname : Str) : UInt8 :=
  match lowerFirst surname with
  | none => Generated.symbolLetter
  | some b => if b < 97 || b > 122 then Generated.symbolLetter else b

/-- `GetIndexLetters`: `#` first, then a..z, each if some listed individual has it -/
def indexLetters (surnames : List Str) : List UInt8 :=
  let ls := surnames.map indexLetter
  (if ls.contains Generated.symbolLetter then [Generated.symbolLetter] else [])
  ++ ((List.range 26).map (fun i => UInt8.ofNat (97 + i))).filter ls.contains

/-- the page a `SurnameLink` points to (without the `#surname` fragment).  With the regenerated
    flag off this is the old code: `unicode.ToLower(rune(surname[0]))` printed with `%c`
    (first *byte* read as a code point: Latin-1, written as UTF-8). -/
def surnameLinkPage (surname : Str) : Str :=
  if Generated.surnameLinkUsesIndexLetter then pageIndividuals (indexLetter surname) else
  match surname with
  | [] => []   -- the Go code panics here; surnames are never empty where the link is used
  | b :: _ =>
    let l := if (65 ≤ b ∧ b ≤ 90) ∨ (192 ≤ b ∧ b ≤ 222 ∧ b ≠ 215) then b + 32 else b
    if l == Generated.symbolLetter then Generated.pageIndividualsSymbol
    else if l < 128 then Generated.pageIndividualsPrefix ++ [l] ++ Generated.pageIndividualsSuffix
    else Generated.pageIndividualsPrefix ++ [192 + l / 64, 128 + l % 64] ++ Generated.pageIndividualsSuffix

/-! ## the site -/

structure Site where
  names : List Str                 -- Name().String() of every individual, document order
  hidden : List Bool               -- living and visibility ≠ show
  letters : List UInt8             -- Publisher.indexLetters
  places : List Str                -- PLAC values of the published places, document order
  sourcePtrs : List Str            -- pointers of the SOUR records, document order
  showIndividuals : Bool
  showPlaces : Bool
  showFamilies : Bool
  showSurnames : Bool
  showSources : Bool
  showStatistics : Bool

/-- the keys individuals and places keep off (regenerated flag): the fixed page names and the keys
    of the source pages -/
def Site.reserved (s : Site) : List Str := reservedKeys s.sourcePtrs

/-- `Publisher.Places()`: key ↦ pretty name -/
def Site.placeEntries (s : Site) : List (Str × Str) := placeEntriesR s.reserved (s.places.map prettyOf)

/-- the keys of `Publisher.Places()` -/
def Site.placeKeys (s : Site) : List Str := s.placeEntries.map (·.1)

/-- the keys `NewPublisher` hands to `GetIndividuals` when it names the individual files: the keys
    of `Places()` when places are published, as the regenerated flag says (the old code passed
    nil), and the reserved keys -/
def Site.keyPlaces (s : Site) : List Str :=
  (if Generated.individualsKeyedWithPlaces && s.showPlaces then s.placeKeys else []) ++ s.reserved

/-- the place keys held by the pages of a group when they compute links to individuals:
    `publisher.placesMap` at the time the page is constructed.  `late` = constructed after
    `sendPlaceFiles` called `Places()` (family, surname, source, statistics and place pages). -/
def Site.linkPlaces (s : Site) (late : Bool) : List Str :=
  (if s.showPlaces && (Generated.individualsKeyedWithPlaces || late) then s.placeKeys else []) ++ s.reserved

/-- the keys of the individual pages that are written: the keyed people who are not hidden -/
def Site.individualPageKeys (s : Site) : List Str :=
  if Generated.keysSkipHidden then individualKeys (keyedNames s.names s.hidden) s.keyPlaces
  else zipFilter (individualKeys s.names s.keyPlaces) s.hidden

def Site.individualFiles (s : Site) : List Str := s.individualPageKeys.map (· ++ html)

def Site.placeFiles (s : Site) : List Str := s.placeKeys.map (· ++ html)

def Site.sourceFiles (s : Site) : List Str := s.sourcePtrs.map pageSource

/-- the names `sendFiles` hands to the writer (individual pages in document order; the Go code
    ranges over a map there, so the order of that part is not specified) -/
def Site.fileNames (s : Site) : List Str :=
  (if s.showIndividuals then s.letters.map pageIndividuals ++ s.individualFiles else [])
  ++ (if s.showPlaces then Generated.pagePlacesName :: s.placeFiles else [])
  ++ (if s.showFamilies then [Generated.pageFamiliesName] else [])
  ++ (if s.showSurnames then [Generated.pageSurnamesName] else [])
  ++ (if s.showSources then Generated.pageSourcesName :: s.sourceFiles else [])
  ++ (if s.showStatistics then [Generated.pageStatisticsName] else [])

/-- bytes allowed in a page name before the `.html` suffix -/
def safeByte (b : UInt8) : Bool :=
  (97 ≤ b && b ≤ 122) || (65 ≤ b && b ≤ 90) || (48 ≤ b && b ≤ 57) || b == 45 || b == 95

/-- a plain file name: `[A-Za-z0-9_-]*.html` (no separator, no dot but the one of the suffix) -/
def plain (n : Str) : Bool :=
  let k := n.length - html.length
  n.drop k == html && (n.take k).all safeByte

end Gedcom.Publish
