/-
  Target language of the go/ast translator harness/extract_mergesrc.go (C10):
  * the ordered cases of the `switch` in `IndividualNodes.Merge` (individual_nodes.go) — conditions
    over `left != nil` / `right != nil`, and what the case does with the comparison;
  * the statements of `MergeDocumentsAndIndividuals` (merge.go) — which part of which document
    feeds which call, and in which order the results are appended to the output document.
  Anything the translator does not recognise becomes `.bad` / `false` and is rejected by an
  obligation (Props/C10Src.lean), where the interpretation is proved equal to
  Gedcom/Model/MergeDocs.lean.
-/
namespace Gedcom.MergeSrc

inductive BExp
  /-- `left != nil`, `right != nil` -/
  | leftPresent | rightPresent
  | not (a : BExp)
  | and (a b : BExp)
  | or (a b : BExp)
  | bad
deriving DecidableEq, Repr

inductive Action
  /-- `node, err := MergeNodes(left, right, document); if err != nil { return nil, err };
      merged = append(merged, node.(*IndividualNode))` -/
  | mergeNodes
  /-- `merged = append(merged, left)` / `… right)` -/
  | keepLeft | keepRight
  | bad
deriving DecidableEq, Repr

structure Case where
  cond : BExp
  act : Action
deriving DecidableEq, Repr

def BExp.ok : BExp → Bool
  | .leftPresent | .rightPresent => true
  | .not a => a.ok
  | .and a b => a.ok && b.ok
  | .or a b => a.ok && b.ok
  | .bad => false

def BExp.eval (l r : Bool) : BExp → Bool
  | .leftPresent => l
  | .rightPresent => r
  | .not a => !a.eval l r
  | .and a b => a.eval l r && b.eval l r
  | .or a b => a.eval l r || b.eval l r
  | .bad => false

/-- a Go expression switch without tag: the first case whose condition holds; none = no case runs -/
def choose (cases : List Case) (l r : Bool) : Option Action :=
  (cases.find? fun c => c.cond.eval l r).map (·.act)

inductive Sel | individuals | nonIndividuals | bad
deriving DecidableEq, Repr
inductive Side | left | right | bad
deriving DecidableEq, Repr

/-- `individuals(left)`, `nonIndividuals(right)`, … -/
structure Part where
  sel : Sel
  side : Side
deriving DecidableEq, Repr

def Part.ok (p : Part) : Bool := p.sel != .bad && p.side != .bad

inductive OutPart | mergedIndividuals | mergedOther | bad
deriving DecidableEq, Repr

/-- `MergeDocumentsAndIndividuals` as the translator reads it -/
structure Prog where
  /-- `mergedIndividuals, err := <recv>.Merge(<arg>, document, options)` -/
  mergeRecv : Part
  mergeArg : Part
  /-- `mergedOther := MergeNodeSlices(<left>, <right>, document, mergeFn)` -/
  sliceLeft : Part
  sliceRight : Part
  /-- `allNodes := append(<first>.Nodes(), <second>...)`, returned as `NewDocumentWithNodes(allNodes)` -/
  output : List OutPart
  /-- every statement was recognised: the bindings above, `document := NewDocument()`, the
      `if err != nil { return nil, err }` right after the Merge call, the final return, nothing else -/
  shape : Bool
deriving DecidableEq, Repr

end Gedcom.MergeSrc
