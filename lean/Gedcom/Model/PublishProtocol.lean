/-
  C19 (ii) — the publish protocol.

  `Publisher.Files` (a producer goroutine sends every file into a channel of capacity `jobs`, then
  closes it), `Publisher.Publish` (each of the `jobs` workers of `util.WorkerPool` receives files
  and hands them to the writer; a failing `WriteFile` is stored in `err` and the worker leaves its
  loop) and `util.WorkerPool` (returns when every worker has returned) as a nondeterministic
  transition system: one transition = one atomic step of one goroutine, any interleaving.
  The four facts of the error path are regenerated from the code (go/ast, `Generated.Publish`).
  Core Lean only.
-/
import Gedcom.Generated.Publish
namespace Gedcom.Publish
open Gedcom

inductive Worker
  | idle                -- at the top of `for file := range files`
  | holding (f : Nat)   -- received file `f`, `WriteFile` not yet returned
  | done                -- left the loop because the channel was closed and empty
  | failed              -- left the loop because `WriteFile` failed (`break`)
deriving DecidableEq, Repr

structure St where
  todo : List Nat               -- files the producer still has to send (`sendFiles`)
  chan : List Nat               -- buffered channel, oldest first; capacity = jobs
  closed : Bool                 -- `close(files)` executed
  workers : List Worker
  log : List (Nat × Bool)       -- WriteFile calls so far: (file, succeeded)
  err : Option Nat              -- `err` of Publish: the file whose error was recorded last
deriving Repr

/-- the writer: does the `n`-th call (0-based) of WriteFile fail? -/
abbrev Writer := Nat → Bool

def St.init (files : List Nat) (jobs : Nat) : St :=
  ⟨files, [], false, List.replicate jobs .idle, [], none⟩

def setW (ws : List Worker) (i : Nat) (w : Worker) : List Worker := ws.set i w

/-- what a worker does after a failed `WriteFile` -/
def afterFailure : Worker := if Generated.publishBreaksOnError then .failed else .idle

/-- one atomic step of some goroutine -/
inductive Step (cap : Nat) (fails : Writer) : St → St → Prop
  | produce (s : St) (f : Nat) (rest : List Nat) :
      s.todo = f :: rest → s.chan.length < cap →
      Step cap fails s { s with todo := rest, chan := s.chan ++ [f] }
  | close (s : St) : s.todo = [] → s.closed = false → Step cap fails s { s with closed := true }
  | take (s : St) (i f : Nat) (rest : List Nat) :
      s.workers[i]? = some .idle → s.chan = f :: rest →
      Step cap fails s { s with chan := rest, workers := setW s.workers i (.holding f) }
  | finish (s : St) (i : Nat) :
      s.workers[i]? = some .idle → s.chan = [] → s.closed = true →
      Step cap fails s { s with workers := setW s.workers i .done }
  | writeOk (s : St) (i f : Nat) :
      s.workers[i]? = some (.holding f) → fails s.log.length = false →
      Step cap fails s { s with workers := setW s.workers i .idle, log := s.log ++ [(f, true)] }
  | writeFail (s : St) (i f : Nat) :
      s.workers[i]? = some (.holding f) → fails s.log.length = true →
      Step cap fails s { s with
        workers := setW s.workers i afterFailure,
        log := s.log ++ [(f, false)],
        err := if Generated.publishRecordsError then some f else s.err }

/-- `Publish` returns when `WorkerPool` returns: every worker has left its loop -/
def St.returned (s : St) : Prop := ∀ w ∈ s.workers, w = .done ∨ w = .failed

def workerRank : Worker → Nat
  | .idle => 1
  | .holding _ => 2
  | .done => 0
  | .failed => 0

/-- ranking function: strictly decreases on every step of every goroutine -/
def St.rank (s : St) : Nat :=
  3 * s.todo.length + 2 * s.chan.length + (if s.closed then 0 else 1) + (s.workers.map workerRank).sum

inductive Steps (cap : Nat) (fails : Writer) : St → St → Prop
  | refl (s : St) : Steps cap fails s s
  | tail (a b c : St) : Steps cap fails a b → Step cap fails b c → Steps cap fails a c

/-- the files held by workers inside `WriteFile` -/
def held : List Worker → List Nat
  | [] => []
  | .holding f :: ws => f :: held ws
  | _ :: ws => held ws

/-! ### an executable scheduler (what the driver runs for the correspondence) -/

/-- the steps enabled in `s`, in a fixed order -/
def enabled (cap : Nat) (fails : Writer) (s : St) : List St :=
  (match s.todo with
   | f :: rest => if s.chan.length < cap then [{ s with todo := rest, chan := s.chan ++ [f] }] else []
   | [] => if s.closed then [] else [{ s with closed := true }])
  ++ (List.range s.workers.length).flatMap fun i =>
    match (s.workers[i]? : Option Worker) with
    | some Worker.idle =>
      (match s.chan with
       | f :: rest => [{ s with chan := rest, workers := setW s.workers i (.holding f) }]
       | [] => if s.closed then [{ s with workers := setW s.workers i .done }] else [])
    | some (Worker.holding f) =>
      if fails s.log.length then
        [{ s with workers := setW s.workers i afterFailure,
                  log := s.log ++ [(f, false)],
                  err := if Generated.publishRecordsError then some f else s.err }]
      else [{ s with workers := setW s.workers i .idle, log := s.log ++ [(f, true)] }]
    | _ => []

/-- run under the schedule `sched` (each entry picks among the enabled steps) until Publish
    returns or nothing is enabled -/
def runSched (cap : Nat) (fails : Writer) : Nat → List Nat → St → St
  | 0, _, s => s
  | fuel+1, sched, s =>
    if s.workers.all (fun w => w == .done || w == .failed) then s else
    match enabled cap fails s with
    | [] => s
    | e :: es =>
      let (pick, sched') := match sched with
        | [] => (0, [])
        | p :: ps => (p % (es.length + 1), ps)
      runSched cap fails fuel sched' ((e :: es).getD pick e)

end Gedcom.Publish
