/-
  Similarity scores (C12): jaro.go (jaro, JaroWinkler, StringSimilarity), util.go (CleanSpace),
  date_range.go / date_node.go (Similarity), individual_node.go (Similarity,
  SurroundingSimilarity), individual_nodes.go (Similarity), family_node.go / husband_node.go /
  wife_node.go (Similarity), surrounding_similarity.go (WeightedSimilarity),
  similarity_options.go (defaults, canSkipExtraProcessing).

  Scores are exact rationals (core `Rat`: a normalised numerator/denominator pair; no Mathlib).
  Modelled, not verified: float64 rounding (the correspondence compares within 1e-9; the exact
  inequalities are checked on the Go float64 values by the harness), `sort.SliceStable` (a stable
  insertion sort here), Go maps keyed by node pointer (a list of ids here), `strings.ToLower` +
  `regexp.ReplaceAllString` (a byte scanner driven by the probed tables in
  `Generated.Similarity`), `NameNode.String`, `EstimatedBirthDate/DeathDate` and the family views
  (the harness hands their results to the model).

  Outside the model's domain (and outside the property's configurations): `MaxYears = 0`
  (Go: NaN / +Inf; the driver answers `nan`), dates that are not calendar-valid, `nil` entries
  inside lists of individuals.
-/
import Gedcom.Model.Calendar
import Gedcom.Model.DateParse
import Gedcom.Generated.Similarity
namespace Gedcom.Sim
open Gedcom

/-! ## Jaro (jaro.go:72) -/

/-- inner loop `for j := start; j <= end; j++`: first `j` in `[j, j+n)` that is not yet flagged
    and carries the byte `c` -/
def jaroFind (c : UInt8) (b : Str) (used : List Bool) : Nat → Nat → Option Nat
  | _, 0 => none
  | j, n+1 =>
    if used[j]? = some false ∧ b[j]? = some c then some j else jaroFind c b used (j+1) n

/-- loop state: the `transposed` flags over `b`, `matches`, `halfs` -/
structure JSt where
  used : List Bool
  nMatch : Nat
  nHalf : Nat
deriving Repr, DecidableEq

/-- one iteration of the outer loop, for byte `c` at index `i` of `a`; `r` is `matchRange` -/
def jaroStep (b : Str) (r : Nat) (st : JSt) (i : Nat) (c : UInt8) : JSt :=
  let start := i - r
  let stop := min b.length (i + r + 1)
  match jaroFind c b st.used start (stop - start) with
  | none => st
  | some j => ⟨st.used.set j true, st.nMatch + 1, if i = j then st.nHalf else st.nHalf + 1⟩

def jaroLoop (b : Str) (r : Nat) : Str → Nat → JSt → JSt
  | [], _, st => st
  | c :: cs, i, st => jaroLoop b r cs (i+1) (jaroStep b r st i c)

/-- `max(0, floor(max(la, lb) / 2) - 2)` -/
def matchRange (la lb : Nat) : Nat := (max la lb) / 2 - 2

def jaroInit (b : Str) : JSt := ⟨List.replicate b.length false, 0, 0⟩

def jaroFinal (a b : Str) : JSt := jaroLoop b (matchRange a.length b.length) a 0 (jaroInit b)

/-- the value computed from `matches`, `halfs` and the two lengths -/
def jaroValue (m h la lb : Nat) : Rat :=
  if m = 0 then 0 else
  ((m : Rat) / (la : Rat) + (m : Rat) / (lb : Rat) + ((m : Rat) - ((h / 2 : Nat) : Rat)) / (m : Rat)) / 3

def jaro (a b : Str) : Rat :=
  let st := jaroFinal a b
  jaroValue st.nMatch st.nHalf a.length b.length

/-! ## Jaro-Winkler (jaro.go:44) -/

/-- number of positions `i < n` (inside both strings) with `a[i] = b[i]` — the loop does not stop
    at the first mismatch -/
def prefixMatches : Nat → Str → Str → Nat
  | n+1, x :: xs, y :: ys => (if x = y then 1 else 0) + prefixMatches n xs ys
  | _, _, _ => 0

def jaroWinkler (a b : Str) (boost : Rat) (prefixSize : Nat) : Rat :=
  let j := jaro a b
  if j ≤ boost then j
  else j + (1 / 10 : Rat) * (prefixMatches prefixSize a b : Rat) * (1 - j)

/-! ## StringSimilarity (jaro.go:138) -/

def stripPrefix? : Str → Str → Option Str
  | [], s => some s
  | _ :: _, [] => none
  | p :: ps, c :: cs => if p = c then stripPrefix? ps cs else none

/-- the generated table of non-ASCII sequences as bytes -/
def unicodeNorm : List (Str × UInt8) :=
  Generated.unicodeNorm.map fun (bs, o) => (bs.map UInt8.ofNat, UInt8.ofNat o)

/-- lower-casing followed by removal of everything outside `[a-z0-9 ]`.  ASCII bytes go through
    the probed table; a non-ASCII byte starts one of the probed surviving sequences (U+0130 → `i`,
    U+212A → `k` today) or is dropped.  Dropping byte by byte is exact: lead bytes (≥ 0xC0) never
    occur inside a rune, so the two sequences are recognised wherever Go's decoder recognises them,
    and every other rune — valid or not — is removed by the regular expression. -/
def normalise : Str → Nat → Str
  | [], _ => []
  | _ :: cs, skip+1 => normalise cs skip
  | c :: cs, 0 =>
    if c.toNat < 128 then
      match Generated.asciiNorm c.toNat with
      | some o => UInt8.ofNat o :: normalise cs 0
      | none => normalise cs 0
    else
      match unicodeNorm.find? (fun e => (stripPrefix? e.1 (c :: cs)).isSome) with
      | some e => e.2 :: normalise cs (e.1.length - 1)
      | none => normalise cs 0

/-- `for strings.Contains(s, "  ") { s = strings.Replace(s, "  ", " ", -1) }`: every pass halves
    the runs of spaces, the loop ends when every run is a single space -/
def collapseGo : Bool → Str → Str
  | _, [] => []
  | afterSpace, c :: rest =>
    if c = 32 then (if afterSpace then collapseGo true rest else 32 :: collapseGo true rest)
    else c :: collapseGo false rest

def collapseRuns (s : Str) : Str := collapseGo false s

def trimSpaces (s : Str) : Str :=
  ((s.dropWhile (· == 32)).reverse.dropWhile (· == 32)).reverse

/-- `CleanSpace` (util.go, after the fix "CleanSpace collapses every run of spaces") on a string
    that contains no white space other than U+0020 (which is what the normalisation leaves) -/
def cleanSpace (s : Str) : Str := trimSpaces (collapseRuns s)

def cleanName (s : Str) : Str := cleanSpace (normalise s 0)

/-- the two strings `StringSimilarity` hands to `JaroWinkler`: the normalised names, or — when
    nothing is left of either (names written entirely outside a-z0-9: another script, punctuation
    only) — the names as written, after `CleanSpace` (the Unicode-aware one of util.go, modelled
    in DateParse.lean).  Since the fix "a name written outside a-z and 0-9 is similar to itself". -/
def comparedNames (a b : Str) : Str × Str :=
  if cleanName a = [] ∧ cleanName b = [] then (Gedcom.cleanSpace a, Gedcom.cleanSpace b)
  else (cleanName a, cleanName b)

def stringSimilarity (a b : Str) (boost : Rat) (prefixSize : Nat) : Rat :=
  jaroWinkler (comparedNames a b).1 (comparedNames a b).2 boost prefixSize

/-! ## Dates (date_range.go:213, date_node.go:73) -/

/-- `Date.Years()` as an exact rational; a date without a year counts as 0.  Years above 9999
    (which the parser can produce but `Date.Time()` cannot represent): `year + 0.5` without a
    month, the `Years()` of the zero time (`1 + 1/366`) with one — as `PDate.yearsFrac`. -/
def dateYears (d : Date) : Rat :=
  if d.year = 0 then 0
  else if d.year ≤ 9999 then (d.year : Rat) + (d.yearsNum : Rat) / (d.yearsDen : Rat)
  else if d.month = 0 then (d.year : Rat) + 1 / 2
  else 367 / 366

/-- a parsed `DateRange`: its start and end dates -/
structure DateR where
  start : Date
  stop : Date
deriving Repr, DecidableEq

def DateR.years (r : DateR) : Rat := (dateYears r.start + dateYears r.stop) / 2

/-- the parabola on the distance in years: `1 - (Δ/max)²`, cut off at 0 -/
def yearsSimilarity (l r maxYears : Rat) : Rat :=
  let x := (l - r) / maxYears
  if x * x > 1 then 0 else 1 - x * x

def rangeSimilarity (l r : DateR) (maxYears : Rat) : Rat :=
  yearsSimilarity l.years r.years maxYears

/-- `DateNode.Similarity`: a missing date on either side scores the neutral one half -/
def dateSimilarity (l r : Option DateR) (maxYears : Rat) : Rat :=
  match l, r with
  | some l, some r => rangeSimilarity l r maxYears
  | _, _ => 1 / 2

/-! ## Options (similarity_options.go) -/

structure SimOpts where
  maxYears : Rat
  minimumSimilarity : Rat
  minimumWeightedSimilarity : Rat
  individualWeight : Rat
  parentsWeight : Rat
  spousesWeight : Rat
  childrenWeight : Rat
  nameToDateRatio : Rat
  jaroBoostThreshold : Rat
  jaroPrefixSize : Nat
  preferPointerAbove : Rat
deriving Repr, DecidableEq

def frac (p : Int × Nat) : Rat := (p.1 : Rat) / (p.2 : Rat)

/-- `NewSimilarityOptions()`, from the probed defaults -/
def defaultOpts : SimOpts where
  maxYears := frac Generated.defaultMaxYears
  minimumSimilarity := frac Generated.defaultMinimumSimilarity
  minimumWeightedSimilarity := frac Generated.defaultMinimumWeightedSimilarity
  individualWeight := frac Generated.defaultIndividualWeight
  parentsWeight := frac Generated.defaultParentsWeight
  spousesWeight := frac Generated.defaultSpousesWeight
  childrenWeight := frac Generated.defaultChildrenWeight
  nameToDateRatio := frac Generated.defaultNameToDateRatio
  jaroBoostThreshold := frac Generated.defaultJaroBoostThreshold
  jaroPrefixSize := Generated.defaultJaroPrefixSize
  preferPointerAbove := frac Generated.defaultPreferPointerAbove

/-- the configurations the property quantifies over: `MaxYears > 0`, the name/date ratio inside
    `[0,1]`, Jaro prefix size at most 10, non-negative weights that sum to 1 -/
structure SimOpts.Valid (o : SimOpts) : Prop where
  maxYears_pos : 0 < o.maxYears
  ratio_nonneg : 0 ≤ o.nameToDateRatio
  ratio_le_one : o.nameToDateRatio ≤ 1
  prefix_le : o.jaroPrefixSize ≤ 10
  iw_nonneg : 0 ≤ o.individualWeight
  pw_nonneg : 0 ≤ o.parentsWeight
  sw_nonneg : 0 ≤ o.spousesWeight
  cw_nonneg : 0 ≤ o.childrenWeight
  weights_sum : o.individualWeight + o.parentsWeight + o.spousesWeight + o.childrenWeight = 1

/-! ## Individuals (individual_node.go:472) -/

/-- what `IndividualNode.Similarity` reads of an individual: its identity (the Go pointer), the
    strings of its NAME nodes, the estimated birth and death dates (`none` = nil `*DateNode`) -/
structure Indi where
  id : Nat
  names : List Str
  birth : Option DateR
  death : Option DateR
deriving Repr, DecidableEq

/-- the running maximum over the matrix of names, starting from 0 -/
def nameSimilarity (ns ms : List Str) (o : SimOpts) : Rat :=
  ns.foldl (fun acc n =>
    ms.foldl (fun acc m =>
      let s := stringSimilarity n m o.jaroBoostThreshold o.jaroPrefixSize
      if s > acc then s else acc) acc) 0

def indiSimilarity (x y : Indi) (o : SimOpts) : Rat :=
  let name := nameSimilarity x.names y.names o
  let birth := dateSimilarity x.birth y.birth o.maxYears
  let death := dateSimilarity x.death y.death o.maxYears
  name * o.nameToDateRatio + (birth + death) / 2 * (1 - o.nameToDateRatio)

/-- `(*IndividualNode).Similarity` including the nil receiver / argument -/
def individualSimilarity (x y : Option Indi) (o : SimOpts) : Rat :=
  match x, y with
  | some x, some y => indiSimilarity x y o
  | _, _ => 1 / 2

/-! ## Lists of individuals (individual_nodes.go:146) -/

structure Cell where
  a : Indi
  b : Indi
  sim : Rat
deriving Repr, DecidableEq

def matrix (xs ys : List Indi) (o : SimOpts) : List Cell :=
  xs.flatMap fun a => ys.map fun b => ⟨a, b, indiSimilarity a b o⟩

/-- insert in front of the first element with a score not above the new one: with `sortDesc`
    below (which inserts earlier elements later) this is a stable sort by descending score
    (`sort.SliceStable` with `>`) -/
def insertDesc (c : Cell) : List Cell → List Cell
  | [] => [c]
  | d :: ds => if c.sim < d.sim then d :: insertDesc c ds else c :: d :: ds

def sortDesc : List Cell → List Cell
  | [] => []
  | c :: cs => insertDesc c (sortDesc cs)

/-- the winner loop: stop at the first score below the minimum, skip a pair when its left
    individual is already taken on the left or its right individual on the right (`foundA`,
    `foundB`: the Go maps keyed by node pointer, one per side since the fix "list similarity
    tracks matched individuals per side") -/
def winners (minimum : Rat) : List Cell → List Nat → List Nat → List Cell
  | [], _, _ => []
  | c :: cs, fa, fb =>
    if c.sim < minimum then []
    else if fa.contains c.a.id || fb.contains c.b.id then winners minimum cs fa fb
    else c :: winners minimum cs (c.a.id :: fa) (c.b.id :: fb)

def sumSims : List Cell → Rat
  | [] => 0
  | c :: cs => c.sim + sumSims cs

def listSimilarity (xs ys : List Indi) (o : SimOpts) : Rat :=
  if xs.length = 0 ∧ ys.length = 0 then 1
  else if xs.length = 0 ∨ ys.length = 0 then 1 / 2
  else
    let w := winners o.minimumSimilarity (sortDesc (matrix xs ys o)) [] []
    let n := max xs.length ys.length
    (sumSims w + (1 / 2 : Rat) * ((n : Rat) - (w.length : Rat))) / (n : Rat)

/-! ## Families (family_node.go:113) -/

/-- a family as `FamilyNode.Similarity` reads it: husband and wife (`none` = no HUSB/WIFE node, or
    one that resolves to no individual) -/
structure Fam where
  husband : Option Indi
  wife : Option Indi
deriving Repr, DecidableEq

def familySimilarity (f g : Fam) (o : SimOpts) : Rat :=
  (individualSimilarity f.husband g.husband o + individualSimilarity f.wife g.wife o) / 2

/-! ## Surrounding similarity (individual_node.go:551, surrounding_similarity.go:62) -/

/-- an individual with the views `SurroundingSimilarity` reads -/
structure Surround where
  self : Indi
  spouses : List Indi
  children : List Indi
  parents : List Fam
deriving Repr, DecidableEq

structure SurrSim where
  parents : Rat
  individual : Rat
  spouses : Rat
  children : Rat
  opts : SimOpts
deriving Repr, DecidableEq

def canSkip (o : SimOpts) (individual : Rat) : Bool :=
  individual * o.individualWeight ≤
    o.minimumWeightedSimilarity - o.parentsWeight - o.spousesWeight - o.childrenWeight

/-- best score over the matrix of parent families, starting from 0; one half when either side has
    no parents -/
def parentsSimilarity (ps qs : List Fam) (o : SimOpts) : Rat :=
  if ps.isEmpty || qs.isEmpty then 1 / 2
  else ps.foldl (fun acc p =>
    qs.foldl (fun acc q =>
      let s := familySimilarity p q o
      if s > acc then s else acc) acc) 0

def surroundingSimilarity (x y : Surround) (o : SimOpts) (force : Bool) : SurrSim :=
  let ind := indiSimilarity x.self y.self o
  if !force && canSkip o ind then ⟨0, 0, 0, 0, defaultOpts⟩
  else
    ⟨parentsSimilarity x.parents y.parents o, ind,
     listSimilarity x.spouses y.spouses o, listSimilarity x.children y.children o, o⟩

def weightedSimilarity (s : SurrSim) : Rat :=
  s.individual * s.opts.individualWeight + s.parents * s.opts.parentsWeight +
  s.spouses * s.opts.spousesWeight + s.children * s.opts.childrenWeight

/-- `SurroundingSimilarity.WeightedSimilarity` as the source writes it since the repair "a weighted
    similarity is never more than 1.0": the sum, cut at one.  With weights that sum to one and
    components in [0,1] the cut never applies in exact arithmetic (`weightedC_eq`, Props/C12Src.lean);
    it is there for the float64 sum of the products, which rounding can take to 1.0000000000000002. -/
def weightedSimilarityC (s : SurrSim) : Rat :=
  if weightedSimilarity s > 1 then 1 else weightedSimilarity s

end Gedcom.Sim
