/-
  DeepCopy and the documents involved (C07, round 2).  Additive to Gedcom/Model/Ident.lean.

  * `deepCopyIn ctx` — DeepCopy after the repair "the copy may start below the family": a HUSB /
    WIFE / CHIL node met before any FAM node uses the family it belongs to (`node.Family()`), which
    lies outside the copied tree; `ctx` is that family (object id, pointer).  Role nodes cannot be
    constructed without a family, so `ctx = none` is only correct for trees in which every role
    node is preceded by a FAM node; the `panic` outcome of `famWalk` is then unreachable
    (`famWalk_isSome`).
  * `famsUsed` / `firstNew` — specification of the family bookkeeping: the sequence of source
    families the role nodes of the walk belong to, and its first occurrences.
  * `Doc`, `copyIntoDoc` — the destination document as its list of root records: the walk calls
    `document.AddFamily(pointer)` once per new source family and nothing else on any document.
    `Doc.lookup` is `NodeByPointer` (pointer cache: the record stored last under a pointer wins).
  * `deepEqualOpt`, `deepEqualNodesOpt`, `copyNilDocPanics` — nil nodes and the nil document.
-/
import Gedcom.Model.Ident
namespace Gedcom

/-- `DeepCopy(node, document)` (repaired), `ctx` = family of the first role node not below a FAM -/
def deepCopyIn (ctx : Option (Nat × Str)) (next : Nat) (n : INode) : CopyOutcome :=
  match famWalk ctx [] n with
  | none => .panic
  | some (_, _, adds) => let r := copyTree next n; .ok r.1 r.2.1 r.2.2 adds

mutual
/-- the source family each role node of the walk belongs to, in walk order (with repeats), and the
    closure variable `family` after the walk -/
def famsUsed (fam : Option (Nat × Str)) : INode → Option (Nat × Str) × List (Nat × Str)
  | .mk i t _ p ks =>
    if t == tagFAM then famsUsedList (some (i, p)) ks
    else if needsFamily t then
      match fam with
      | none => famsUsedList fam ks
      | some f => let r := famsUsedList fam ks; (r.1, f :: r.2)
    else famsUsedList fam ks
def famsUsedList (fam : Option (Nat × Str)) :
    List INode → Option (Nat × Str) × List (Nat × Str)
  | [] => (fam, [])
  | k :: ks =>
    let a := famsUsed fam k
    let b := famsUsedList a.1 ks
    (b.1, a.2 ++ b.2)
end

/-- first occurrences of the families not seen before: (`seen` afterwards, pointers in order) -/
def firstNew (seen : List Nat) : List (Nat × Str) → List Nat × List Str
  | [] => (seen, [])
  | (f, p) :: rest =>
    if seen.contains f then firstNew seen rest
    else let r := firstNew (f :: seen) rest; (r.1, p :: r.2)

/-! ### documents -/

/-- a document: its root records in order -/
abbrev Doc := List INode

/-- `NodeByPointer(p)` for a non-empty pointer: the record stored last under `p` -/
def Doc.lookup (d : Doc) (p : Str) : Option Nat := (d.reverse.find? fun r => r.ptr == p).map (·.id)

/-- the records `document.AddFamily(p)` creates for a list of pointers -/
def newFams (next : Nat) : List Str → List INode × Nat
  | [] => ([], next)
  | p :: ps => let r := newFams (next + 1) ps; (.mk next tagFAM [] p [] :: r.1, r.2)

structure CopyDocResult where
  copy : INode
  doc : Doc
  next : Nat
  writes : List Nat
  famAdds : List Str
deriving Repr

/-- `DeepCopy(n, dst)`: the copy and the destination document afterwards -/
def copyIntoDoc (ctx : Option (Nat × Str)) (dst : Doc) (next : Nat) (n : INode) :
    Option CopyDocResult :=
  match deepCopyIn ctx next n with
  | .panic => none
  | .ok c nx w adds =>
    let f := newFams nx adds
    some ⟨c, dst ++ f.1, f.2, w, adds⟩

/-! ### documents as state, sequences of copies (round 4)

  `DocSt` is the part of a `*Document` that `DeepCopy` / `Filter` can touch: the record list
  (`doc.nodes`), the pointer index (`pointerCache`, a map: modelled by the log of `Store` calls,
  newest first) and the families cache (`doc.families`; `nil` = `none`).  `AddFamily` appends a new
  empty FAM record (`AddNode`: append, `Store` under a non-empty pointer, families cache cleared for
  a FAM) and then calls `doc.Families()`, which refills the cache.  A `World` is a list of documents
  and the allocation counter; `World.step` is one `DeepCopy(node, dst)` for an object of one of the
  documents; `World.run` a sequence of them. -/

structure DocSt where
  nodes : List INode
  index : List (Str × Nat)
  famCache : Option (List Nat)
deriving Repr

/-- what `Families()` computes when the cache is empty: the FAM records, in order -/
def famIds (recs : List INode) : List Nat := (recs.filter fun r => r.tag == tagFAM).map (·.id)

/-- a decoded document: `buildPointerCache` stores every record with a non-empty pointer -/
def DocSt.ofRecords (recs : List INode) : DocSt :=
  ⟨recs, ((recs.filter fun r => !r.ptr.isEmpty).map fun r => (r.ptr, r.id)).reverse, none⟩

/-- `NodeByPointer(p)` -/
def DocSt.nodeByPointer (d : DocSt) (p : Str) : Option Nat :=
  (d.index.find? fun e => e.1 == p).map (·.2)

/-- `Families()` (its result; the cache is filled as a side effect, see `addFamily`) -/
def DocSt.families (d : DocSt) : List Nat :=
  match d.famCache with
  | some l => l
  | none => famIds d.nodes

/-- `doc.AddNode(n)` -/
def DocSt.addNode (d : DocSt) (n : INode) : DocSt :=
  ⟨d.nodes ++ [n], if n.ptr.isEmpty then d.index else (n.ptr, n.id) :: d.index,
    if n.tag == tagFAM then none else d.famCache⟩

/-- `doc.AddFamily(p)`, the new record being object `id` -/
def DocSt.addFamily (d : DocSt) (id : Nat) (p : Str) : DocSt :=
  let d' := d.addNode (.mk id tagFAM [] p [])
  { d' with famCache := some d'.families }

/-- the `AddFamily` calls of one walk -/
def DocSt.addFamilies (d : DocSt) (next : Nat) : List Str → DocSt × Nat
  | [] => (d, next)
  | p :: ps => (d.addFamily next p).addFamilies (next + 1) ps

/-- cache coherence of a document state -/
def DocSt.coherent (d : DocSt) : Prop :=
  (∀ p : Str, p ≠ [] → d.nodeByPointer p = Doc.lookup d.nodes p) ∧
  (∀ l, d.famCache = some l → l = famIds d.nodes)

mutual
/-- the subtree whose root is object `k` -/
def INode.find (k : Nat) : INode → Option INode
  | .mk i t v p ks => if i == k then some (.mk i t v p ks) else findList k ks
def findList (k : Nat) : List INode → Option INode
  | [] => none
  | n :: ns => match n.find k with | some x => some x | none => findList k ns
end

/-- the record that contains object `k`, and the subtree at `k` -/
def findRec (k : Nat) : List INode → Option (INode × INode)
  | [] => none
  | r :: rs => match r.find k with | some x => some (r, x) | none => findRec k rs

/-! ### `Filter` with a tag filter into another document (round 4)

  `Filter(root, dst, fn)` for `fn = WhitelistTagFilter(tags…)` / `BlacklistTagFilter(tags…)`
  (filter.go): `fn` returns the node itself and `true` when its tag is kept, `nil` otherwise — a
  node that is not kept disappears with its whole subtree, a kept node is re-created by
  `shallowCopyNode` against the destination document.  A kept role node asks the destination for
  the counterpart of `node.Family()` — the FAM record it lives in, `ctx` — once per walk. -/

mutual
def filterTree (keep : Str → Bool) (next : Nat) : INode → Option (INode × Nat × List Nat)
  | .mk _ t v p ks =>
    if keep t then
      let r := filterKids keep (next + 1) next ks
      some (.mk next t v p r.1, r.2.1, r.2.2)
    else none
def filterKids (keep : Str → Bool) (next parent : Nat) : List INode → List INode × Nat × List Nat
  | [] => ([], next, [])
  | k :: ks =>
    match filterTree keep next k with
    | none => filterKids keep next parent ks
    | some a =>
      let b := filterKids keep a.2.1 parent ks
      (a.1 :: b.1, b.2.1, a.2.2 ++ parent :: b.2.2)
end

mutual
/-- the value of the filtered tree -/
def pruneNode (keep : Str → Bool) : Node → Option Node
  | .mk t v p ks => if keep t then some (.mk t v p (pruneList keep ks)) else none
def pruneList (keep : Str → Bool) : List Node → List Node
  | [] => []
  | k :: ks =>
    match pruneNode keep k with
    | none => pruneList keep ks
    | some x => x :: pruneList keep ks
end

mutual
/-- the ids of the role nodes (HUSB / WIFE / CHIL) of a tree, preorder -/
def roleIds : INode → List Nat
  | .mk i t _ _ ks => (if needsFamily t then [i] else []) ++ roleIdsList ks
def roleIdsList : List INode → List Nat
  | [] => []
  | k :: ks => roleIds k ++ roleIdsList ks
end

/-- `WhitelistTagFilter(tags)` (`white = true`) / `BlacklistTagFilter(tags)` as a predicate on tags -/
def tagFilter (white : Bool) (tags : List Str) (t : Str) : Bool :=
  if white then tags.contains t else !tags.contains t

inductive FilterOutcome
  /-- `fn(root)` is nil: `Filter` returns nil and nothing happens -/
  | nil
  /-- a kept role node whose `Family()` is nil -/
  | panic
  | ok (r : CopyDocResult)
deriving Repr

/-- `Filter(t, dst, fn)`; `ctx` = the FAM record `t` lives in (or is) -/
def filterIntoDoc (ctx : Option (Nat × Str)) (dst : DocSt) (next : Nat) (keep : Str → Bool)
    (t : INode) : FilterOutcome × DocSt :=
  match filterTree keep next t with
  | none => (.nil, dst)
  | some (c, nx, wr) =>
    if (roleIds c).isEmpty then (.ok ⟨c, dst.nodes, nx, wr, []⟩, dst)
    else
      match ctx with
      | none => (.panic, dst)
      | some (_, p) =>
        let d' := dst.addFamilies nx [p]
        (.ok ⟨c, d'.1.nodes, d'.2, wr, [p]⟩, d'.1)

structure World where
  docs : List DocSt
  next : Nat
deriving Repr

/-- `DeepCopy(object node of document src, document dst)` -/
structure CopyOp where
  src : Nat
  node : Nat
  dst : Nat
  /-- `none`: `DeepCopy(node, dst)`; `some (white, tags)`: `Filter(node, dst,
      WhitelistTagFilter(tags…))` (`white`) / `BlacklistTagFilter(tags…)` -/
  filter : Option (Bool × List Str) := none
deriving Repr

/-- the tags an operation keeps -/
def CopyOp.keep (op : CopyOp) : Str → Bool :=
  match op.filter with
  | none => fun _ => true
  | some (white, tags) => tagFilter white tags

/-- the family a role node that is not below a FAM node of the copied tree belongs to: the FAM
    record it lives in (the decoder builds role nodes only inside FAM records) -/
def ctxOf (r : INode) : Option (Nat × Str) := if r.tag == tagFAM then some (r.id, r.ptr) else none

/-- the object each role node of the copy belongs to (`Family()`), in walk order: the counterpart
    in the destination of its source family — the new FAM records are numbered `nx, nx+1, …` in
    the order in which their source families are first met -/
def roleFamilies (ctx : Option (Nat × Str)) (nx : Nat) (t : INode) : List Nat :=
  let used := (famsUsed ctx t).2
  let firsts := (firstNew [] used).1.reverse
  used.map fun f => nx + firsts.idxOf f.1

mutual
/-- the nodes of a copy that carry a document (`Document()`): INDI and FAM nodes -/
def docBearing : INode → List Nat
  | .mk i t _ _ ks => (if t == tagFAM || t == lit "INDI" then [i] else []) ++ docBearingList ks
def docBearingList : List INode → List Nat
  | [] => []
  | k :: ks => docBearing k ++ docBearingList ks
end

structure CopyEvent where
  op : CopyOp
  source : INode
  ctx : Option (Nat × Str)
  start : Nat
  result : CopyDocResult
deriving Repr

/-- one copy.  `none`: the operation is not one (no such document / object), the walk panics
    (unreachable for objects of documents: `copy_total`) or `Filter` returns nil (the root's tag
    is rejected); the world is then unchanged. -/
def World.step (w : World) (op : CopyOp) : World × Option CopyEvent :=
  match w.docs[op.src]?, w.docs[op.dst]? with
  | some s, some d =>
    match findRec op.node s.nodes with
    | none => (w, none)
    | some (r, t) =>
      match op.filter with
      | none =>
        match deepCopyIn (ctxOf r) w.next t with
        | .panic => (w, none)
        | .ok c nx wr adds =>
          let d' := d.addFamilies nx adds
          (⟨w.docs.set op.dst d'.1, d'.2⟩, some ⟨op, t, ctxOf r, w.next, ⟨c, d'.1.nodes, d'.2, wr, adds⟩⟩)
      | some (white, tags) =>
        match filterIntoDoc (ctxOf r) d w.next (tagFilter white tags) t with
        | (.ok res, d') => (⟨w.docs.set op.dst d', res.next⟩, some ⟨op, t, ctxOf r, w.next, res⟩)
        | _ => (w, none)
  | _, _ => (w, none)

/-- a sequence of copies: the final world and what each operation returned -/
def World.run (w : World) : List CopyOp → World × List (Option CopyEvent)
  | [] => (w, [])
  | op :: ops =>
    let a := w.step op
    let b := a.1.run ops
    (b.1, a.2 :: b.2)

/-! ### nil -/

/-- `DeepEqual(a, b)` where either may be nil (untyped or typed nil): false unless both are nodes -/
def deepEqualOpt : Option Node → Option Node → Bool
  | some a, some b => deepEqual a b
  | _, _ => false

/-- `DeepEqualNodes(l, r)` on slices that may contain nil elements (a nil slice is the empty list) -/
def deepEqualNodesOpt (l r : List (Option Node)) : Bool :=
  l.length == r.length &&
    (let rec go : List (Option Node) → List (Option Node) → Bool
      | [], _ => true
      | a :: as, r =>
        match removeFirst (deepEqualOpt a) r with
        | none => false
        | some r' => go as r'
    go l r)

/-- `DeepCopy(nil, doc)` is nil -/
def deepCopyOpt (ctx : Option (Nat × Str)) (next : Nat) : Option INode → Option CopyOutcome
  | none => none
  | some n => some (deepCopyIn ctx next n)

mutual
/-- `DeepCopy(n, nil)`: panics as soon as the walk meets a node that needs the document — INDI and
    FAM ("cannot create … without a document") or a role node (`document.AddFamily` on nil) -/
def copyNilDocPanics : INode → Bool
  | .mk _ t _ _ ks =>
    t == tagFAM || t == lit "INDI" || needsFamily t || copyNilDocPanicsList ks
def copyNilDocPanicsList : List INode → Bool
  | [] => false
  | k :: ks => copyNilDocPanics k || copyNilDocPanicsList ks
end

end Gedcom
