/-
  DeepCopy and the documents involved (C07, round 2).  Additive to Gedcom/Model/Ident.lean.

  * `deepCopyIn ctx` — DeepCopy after the repair "the copy may start below the family": a HUSB /
    WIFE / CHIL node met before any FAM node uses the family it belongs to (`node.Family()`), which
    lies outside the copied tree; `ctx` is that family (object id, pointer).  Role nodes cannot be
    constructed without a family, so `ctx = none` is only correct for trees in which every role
    node is preceded by a FAM node; the `panic` outcome of `famWalk` is then unreachable
    (`famWalk_isSome`).
  * `famsUsed` / `firstNew` — specification of the family bookkeeping: the sequence of source
    families the role nodes of the walk belong to, and its first occurrences.
  * `Doc`, `copyIntoDoc` — the destination document as its list of root records: the walk calls
    `document.AddFamily(pointer)` once per new source family and nothing else on any document.
    `Doc.lookup` is `NodeByPointer` (pointer cache: the record stored last under a pointer wins).
  * `deepEqualOpt`, `deepEqualNodesOpt`, `copyNilDocPanics` — nil nodes and the nil document.
-/
import Gedcom.Model.Ident
namespace Gedcom

/-- `DeepCopy(node, document)` (repaired), `ctx` = family of the first role node not below a FAM -/
def deepCopyIn (ctx : Option (Nat × Str)) (next : Nat) (n : INode) : CopyOutcome :=
  match famWalk ctx [] n with
  | none => .panic
  | some (_, _, adds) => let r := copyTree next n; .ok r.1 r.2.1 r.2.2 adds

mutual
/-- the source family each role node of the walk belongs to, in walk order (with repeats), and the
    closure variable `family` after the walk -/
def famsUsed (fam : Option (Nat × Str)) : INode → Option (Nat × Str) × List (Nat × Str)
  | .mk i t _ p ks =>
    if t == tagFAM then famsUsedList (some (i, p)) ks
    else if needsFamily t then
      match fam with
      | none => famsUsedList fam ks
      | some f => let r := famsUsedList fam ks; (r.1, f :: r.2)
    else famsUsedList fam ks
def famsUsedList (fam : Option (Nat × Str)) :
    List INode → Option (Nat × Str) × List (Nat × Str)
  | [] => (fam, [])
  | k :: ks =>
    let a := famsUsed fam k
    let b := famsUsedList a.1 ks
    (b.1, a.2 ++ b.2)
end

/-- first occurrences of the families not seen before: (`seen` afterwards, pointers in order) -/
def firstNew (seen : List Nat) : List (Nat × Str) → List Nat × List Str
  | [] => (seen, [])
  | (f, p) :: rest =>
    if seen.contains f then firstNew seen rest
    else let r := firstNew (f :: seen) rest; (r.1, p :: r.2)

/-! ### documents -/

/-- a document: its root records in order -/
abbrev Doc := List INode

/-- `NodeByPointer(p)` for a non-empty pointer: the record stored last under `p` -/
def Doc.lookup (d : Doc) (p : Str) : Option Nat := (d.reverse.find? fun r => r.ptr == p).map (·.id)

/-- the records `document.AddFamily(p)` creates for a list of pointers -/
def newFams (next : Nat) : List Str → List INode × Nat
  | [] => ([], next)
  | p :: ps => let r := newFams (next + 1) ps; (.mk next tagFAM [] p [] :: r.1, r.2)

structure CopyDocResult where
  copy : INode
  doc : Doc
  next : Nat
  writes : List Nat
  famAdds : List Str
deriving Repr

/-- `DeepCopy(n, dst)`: the copy and the destination document afterwards -/
def copyIntoDoc (ctx : Option (Nat × Str)) (dst : Doc) (next : Nat) (n : INode) :
    Option CopyDocResult :=
  match deepCopyIn ctx next n with
  | .panic => none
  | .ok c nx w adds =>
    let f := newFams nx adds
    some ⟨c, dst ++ f.1, f.2, w, adds⟩

/-! ### nil -/

/-- `DeepEqual(a, b)` where either may be nil (untyped or typed nil): false unless both are nodes -/
def deepEqualOpt : Option Node → Option Node → Bool
  | some a, some b => deepEqual a b
  | _, _ => false

/-- `DeepEqualNodes(l, r)` on slices that may contain nil elements (a nil slice is the empty list) -/
def deepEqualNodesOpt (l r : List (Option Node)) : Bool :=
  l.length == r.length &&
    (let rec go : List (Option Node) → List (Option Node) → Bool
      | [], _ => true
      | a :: as, r =>
        match removeFirst (deepEqualOpt a) r with
        | none => false
        | some r' => go as r'
    go l r)

/-- `DeepCopy(nil, doc)` is nil -/
def deepCopyOpt (ctx : Option (Nat × Str)) (next : Nat) : Option INode → Option CopyOutcome
  | none => none
  | some n => some (deepCopyIn ctx next n)

mutual
/-- `DeepCopy(n, nil)`: panics as soon as the walk meets a node that needs the document — INDI and
    FAM ("cannot create … without a document") or a role node (`document.AddFamily` on nil) -/
def copyNilDocPanics : INode → Bool
  | .mk _ t _ _ ks =>
    t == tagFAM || t == lit "INDI" || needsFamily t || copyNilDocPanicsList ks
def copyNilDocPanicsList : List INode → Bool
  | [] => false
  | k :: ks => copyNilDocPanics k || copyNilDocPanicsList ks
end

end Gedcom
