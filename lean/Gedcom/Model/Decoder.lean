/-
  Encoder (encoder.go, SimpleNode.GEDCOMLine) and decoder (decoder.go) over byte strings.

  Modelled, not verified: Go's `regexp` (the line pattern `^(\d+) +(@[^@]+@ )?(\w+) ?(.*)?$`
  is replaced by the deterministic parser `parseLine` — every choice of the pattern is forced,
  see the comments), `bufio`, `fmt.Sprintf("%d")`, `strings.TrimSpace` (byte-level equivalent
  `trimSpace`, UTF-8 aware exactly as Go's: an invalid byte is never white space).
  The model follows the code *after* the three repairs recorded in known_findings.json
  (multi-digit levels; HUSB/WIFE/CHIL outside a family is a parse error; an over-deep first
  line with AllowInvalidIndents is an error).
-/
import Gedcom.Model.Node
namespace Gedcom.Dec
open Gedcom

/-! ## bytes -/

def SP : UInt8 := 32
def AT : UInt8 := 64
def LF : UInt8 := 10
def CR : UInt8 := 13

def isDigit (b : UInt8) : Bool := 48 ≤ b && b ≤ 57
/-- `\w` of Go's regexp: ASCII only -/
def isWord (b : UInt8) : Bool :=
  (48 ≤ b && b ≤ 57) || (65 ≤ b && b ≤ 90) || (97 ≤ b && b ≤ 122) || b == 95

/-- decimal digits of a natural number, most significant first (`%d`) -/
def natToDec (n : Nat) : Str :=
  if h : n < 10 then [UInt8.ofNat (48 + n)] else natToDec (n / 10) ++ [UInt8.ofNat (48 + n % 10)]
decreasing_by omega

def decToNat (ds : Str) : Nat := ds.foldl (fun acc c => acc * 10 + (c.toNat - 48)) 0

/-- the UTF-8 encodings of the code points for which `unicode.IsSpace` holds -/
def spaceSeqs : List Str :=
  [[9], [10], [11], [12], [13], [32], [0xC2, 0x85], [0xC2, 0xA0], [0xE1, 0x9A, 0x80],
   [0xE2, 0x80, 0x80], [0xE2, 0x80, 0x81], [0xE2, 0x80, 0x82], [0xE2, 0x80, 0x83],
   [0xE2, 0x80, 0x84], [0xE2, 0x80, 0x85], [0xE2, 0x80, 0x86], [0xE2, 0x80, 0x87],
   [0xE2, 0x80, 0x88], [0xE2, 0x80, 0x89], [0xE2, 0x80, 0x8A], [0xE2, 0x80, 0xA8],
   [0xE2, 0x80, 0xA9], [0xE2, 0x80, 0xAF], [0xE2, 0x81, 0x9F], [0xE3, 0x80, 0x80]]

/-- length of the entry of `tbl` at the front of `s` (0 = none) -/
def prefLen (tbl : List Str) (s : Str) : Nat :=
  match tbl.find? (fun q => q.isPrefixOf s) with
  | some q => q.length
  | none => 0

/-- strip entries of `tbl` from the front of `s` for as long as there is one -/
def trimL (tbl : List Str) : Str → Str
  | [] => []
  | s@(_ :: rest) =>
    match prefLen tbl s with
    | 0 => s
    | k+1 => trimL tbl (rest.drop k)
termination_by s => s.length
decreasing_by simp [List.length_drop]; omega

/-- the reversed encodings, for trimming from the right on the reversed string -/
def spaceSeqsRev : List Str := spaceSeqs.map List.reverse

/-- `strings.TrimLeftFunc(s, unicode.IsSpace)` -/
def trimLeft (s : Str) : Str := trimL spaceSeqs s
/-- the same from the right, on the *reversed* string -/
def trimLeftRev (s : Str) : Str := trimL spaceSeqsRev s

/-- `strings.TrimSpace` -/
def trimSpace (s : Str) : Str := (trimLeftRev (trimLeft s).reverse).reverse

/-! ## lines -/

structure Line where
  level : Nat
  ptr : Str
  tag : Str
  value : Str
deriving Repr, DecidableEq, Inhabited

/-- `SimpleNode.GEDCOMLine(indent)` for `indent ≥ 0` -/
def renderLine (l : Line) : Str :=
  natToDec l.level ++ [SP] ++
  (if l.ptr = [] then [] else [AT] ++ l.ptr ++ [AT, SP]) ++
  l.tag ++
  (if l.value = [] then [] else SP :: l.value)

/-- the optional `(@[^@]+@ )?` group: returns the pointer and the rest of the line -/
def parsePtr (r2 : Str) : Option (Str × Str) :=
  match r2 with
  | c :: r3 =>
    if c == AT then
      let p := r3.takeWhile (· != AT)
      match r3.dropWhile (· != AT) with
      | a :: b :: r5 => if a == AT && b == SP && p ≠ [] then some (p, r5) else none
      | _ => none
    else some ([], r2)
  | [] => some ([], r2)

/-- ` ?(.*)?$`: one optional space, then the value -/
def afterTag (r6 : Str) : Str :=
  match r6 with
  | c :: r7 => if c == SP then r7 else r6
  | [] => []

/-- Deterministic equivalent of `lineRegexp.FindStringSubmatch` + the field extraction in
    `parseLine` (decoder.go).  Forced choices: `\d+` and ` +` are maximal because the next
    pattern element cannot start with a digit / space; the optional pointer group must match
    when the next byte is `@` because `\w+` cannot; `[^@]+` runs to the next `@`; `\w+` is
    maximal because ` ?(.*)?$` accepts any rest; ` ?` takes one space when there is one. -/
def parseLine (s : Str) : Option Line :=
  let ds := s.takeWhile isDigit
  let r1 := s.dropWhile isDigit
  if ds = [] then none else
  let sps := r1.takeWhile (· == SP)
  let r2 := r1.dropWhile (· == SP)
  if sps = [] then none else
  match parsePtr r2 with
  | none => none
  | some (ptr, r) =>
    let tg := r.takeWhile isWord
    if tg = [] then none else
    some ⟨decToNat ds, ptr, tg, afterTag (r.dropWhile isWord)⟩

/-- `readLine` until EOF: every CR and every LF ends a line; the text after the last one
    (possibly empty) is the final line. -/
def splitLines (s : Str) : List Str :=
  let rec go : Str → Str → List Str
    | [], cur => [cur.reverse]
    | b :: rest, cur => if b == LF || b == CR then cur.reverse :: go rest [] else go rest (b :: cur)
  go s []

/-! ## encoder -/

def tINDI : Str := [73, 78, 68, 73]
def tFAM : Str := [70, 65, 77]
def tHUSB : Str := [72, 85, 83, 66]
def tWIFE : Str := [87, 73, 70, 69]
def tCHIL : Str := [67, 72, 73, 76]
def BOM : Str := [0xEF, 0xBB, 0xBF]

def isRoleTag (t : Str) : Bool := t == tHUSB || t == tWIFE || t == tCHIL
def isRecordTag (t : Str) : Bool := t == tINDI || t == tFAM

mutual
/-- `Encoder.renderNode` -/
def encNode (lvl : Nat) : Node → Str
  | .mk t v p ks => renderLine ⟨lvl, p, t, v⟩ ++ [LF] ++ encForest (lvl + 1) ks
def encForest (lvl : Nat) : List Node → Str
  | [] => []
  | n :: ns => encNode lvl n ++ encForest lvl ns
end

structure Doc where
  hasBOM : Bool
  nodes : Forest
deriving Repr, Inhabited

/-- `Document.String()` -/
def encode (d : Doc) : Str := (if d.hasBOM then BOM else []) ++ encForest 0 d.nodes

/-! ## decoder -/

structure Opts where
  allowMultiLine : Bool
  allowInvalidIndents : Bool
deriving Repr, DecidableEq, Inhabited

structure Hdr where
  tag : Str
  value : Str
  ptr : Str
deriving Repr, Inhabited

/-- an open node: its header and the children completed so far -/
structure Frame where
  hdr : Hdr
  kids : List Node
deriving Repr, Inhabited

structure St where
  roots : List Node
  stack : List Frame   -- head = deepest open node = the node created last (`previousNode`)
  seenFam : Bool       -- `family != nil`
deriving Repr, Inhabited

def Frame.close (f : Frame) : Node := .mk f.hdr.tag f.hdr.value f.hdr.ptr f.kids

/-- pop the deepest frame into its parent (or into the roots) -/
def closeOne : St → St
  | ⟨r, [], sf⟩ => ⟨r, [], sf⟩
  | ⟨r, [f], sf⟩ => ⟨r ++ [f.close], [], sf⟩
  | ⟨r, f :: g :: fs, sf⟩ => ⟨r, { g with kids := g.kids ++ [f.close] } :: fs, sf⟩

def closeN : Nat → St → St
  | 0, s => s
  | k+1, s => closeN k (closeOne s)

/-- close open nodes until `n` remain -/
def closeTo (n : Nat) (s : St) : St := closeN (s.stack.length - n) s

/-- `trimNodeValue(previousNode)` -/
def trimTop : St → St
  | ⟨r, f :: fs, sf⟩ => ⟨r, { f with hdr := { f.hdr with value := trimSpace f.hdr.value } } :: fs, sf⟩
  | s => s

/-- continuation: `previousNode.value += extra` -/
def appendTop (extra : Str) : St → St
  | ⟨r, f :: fs, sf⟩ => ⟨r, { f with hdr := { f.hdr with value := f.hdr.value ++ extra } } :: fs, sf⟩
  | s => s

inductive PanicClass | indentTooLarge
deriving Repr, DecidableEq

inductive StepResult
  | next (s : St)
  | error
  | panic (c : PanicClass)
deriving Repr

/-- the header a parsed line gives its node: INDI and FAM drop the value -/
def hdrOf (l : Line) : Hdr := ⟨l.tag, if isRecordTag l.tag then [] else l.value, l.ptr⟩

def push (s : St) (h : Hdr) : St := ⟨s.roots, ⟨h, []⟩ :: s.stack, s.seenFam⟩

/-- what happens to a line that does not become a node: with `AllowMultiLine` and a previous
    node it continues that node's value, otherwise it is the error -/
def unparsable (o : Opts) (s : St) (line : Str) : StepResult :=
  if o.allowMultiLine && !s.stack.isEmpty then .next (appendTop (LF :: line) s) else .error

/-- where a node line goes: a root record, an over-deep line (clamped or the documented panic),
    or a line at or above the deepest open level -/
def place (o : Opts) (s : St) (l : Line) : StepResult :=
  if l.level = 0 then
    .next (push (closeTo 0 (trimTop s)) (hdrOf l))
  else if l.level - 1 ≥ s.stack.length then
    if o.allowInvalidIndents then
      if s.stack.isEmpty then .error
      else .next (push (trimTop s) (hdrOf l))        -- hangs one below the deepest open node
    else .panic .indentTooLarge
  else
    .next (push (closeTo l.level (trimTop s)) (hdrOf l))

/-- one iteration of the `Decode` loop -/
def step (o : Opts) (s : St) (line : Str) : StepResult :=
  if line = [] then
    .next (if o.allowMultiLine && !s.stack.isEmpty then appendTop [LF] s else s)
  else
    match parseLine line with
    | none => unparsable o s line
    | some l =>
      if isRoleTag l.tag && !s.seenFam then unparsable o s line else
      place o { s with seenFam := s.seenFam || l.tag == tFAM } l

inductive Outcome
  | ok (d : Doc)
  | error (line : Nat)
  | panic (c : PanicClass)
deriving Repr

/-- the loop over the lines; `n` is the 1-based number of the current line -/
def run (o : Opts) : St → Nat → List Str → Outcome ⊕ St
  | s, _, [] => .inr s
  | s, n, l :: ls =>
    match step o s l with
    | .next s' => run o s' (n + 1) ls
    | .error => .inl (.error n)
    | .panic c => .inl (.panic c)

def stripBOM (s : Str) : Bool × Str :=
  if BOM.isPrefixOf s then (true, s.drop 3) else (false, s)

/-- `NewDecoder(r).Decode()` with the two options -/
def decode (o : Opts) (s : Str) : Outcome :=
  let (bom, body) := stripBOM s
  match run o ⟨[], [], false⟩ 1 (splitLines body) with
  | .inl out => out
  | .inr st => .ok ⟨bom, (closeTo 0 (trimTop st)).roots⟩

/-! ## stack-free reference (C02)

  What the line grammar dictates, written without any stack: one pass over the lines yields the
  preorder listing `(level, header)` of the document — each node line contributes one entry at
  its level (with `AllowInvalidIndents`, at most one below the previous entry), unparsable or
  blank lines extend the previous entry's value (with `AllowMultiLine`), values are trimmed when
  the entry is complete.  A forest is determined by its preorder listing (`listing_injective`),
  and in a preorder listing the parent of an entry at level n is the nearest preceding entry at
  level n-1, which is the property's wording. -/

structure Entry where
  level : Nat
  hdr : Hdr
deriving Repr, Inhabited

mutual
/-- preorder listing of a tree / forest with depths -/
def listingT (lvl : Nat) : Node → List Entry
  | .mk t v p ks => ⟨lvl, ⟨t, v, p⟩⟩ :: listingF (lvl + 1) ks
def listingF (lvl : Nat) : List Node → List Entry
  | [] => []
  | n :: ns => listingT lvl n ++ listingF lvl ns
end

structure ScanSt where
  done : List Entry          -- completed entries, in file order
  last : Option Entry        -- the entry of the previous node line, still open for continuation
  seenFam : Bool
deriving Repr, Inhabited

inductive ScanResult
  | next (s : ScanSt)
  | error
  | panic (c : PanicClass)
deriving Repr

def Entry.trim (e : Entry) : Entry := ⟨e.level, ⟨e.hdr.tag, trimSpace e.hdr.value, e.hdr.ptr⟩⟩
def Entry.extend (e : Entry) (extra : Str) : Entry := ⟨e.level, ⟨e.hdr.tag, e.hdr.value ++ extra, e.hdr.ptr⟩⟩

def ScanSt.emit (s : ScanSt) (e : Entry) : ScanSt :=
  match s.last with
  | none => ⟨s.done, some e, s.seenFam⟩
  | some l => ⟨s.done ++ [l.trim], some e, s.seenFam⟩

def scanUnparsable (o : Opts) (s : ScanSt) (line : Str) : ScanResult :=
  match s.last with
  | some l => if o.allowMultiLine then .next { s with last := some (l.extend (LF :: line)) } else .error
  | none => .error

def scanPlace (o : Opts) (s : ScanSt) (l : Line) : ScanResult :=
  if l.level = 0 then .next (s.emit ⟨0, hdrOf l⟩)
  else match s.last with
    | none => if o.allowInvalidIndents then .error else .panic .indentTooLarge
    | some prev =>
      if l.level > prev.level + 1 then
        if o.allowInvalidIndents then .next (s.emit ⟨prev.level + 1, hdrOf l⟩)
        else .panic .indentTooLarge
      else .next (s.emit ⟨l.level, hdrOf l⟩)

def scanStep (o : Opts) (s : ScanSt) (line : Str) : ScanResult :=
  if line = [] then
    match s.last with
    | some l => .next (if o.allowMultiLine then { s with last := some (l.extend [LF]) } else s)
    | none => .next s
  else
    match parseLine line with
    | none => scanUnparsable o s line
    | some l =>
      if isRoleTag l.tag && !s.seenFam then scanUnparsable o s line else
      scanPlace o { s with seenFam := s.seenFam || l.tag == tFAM } l

inductive ScanOutcome
  | ok (bom : Bool) (listing : List Entry)
  | error (line : Nat)
  | panic (c : PanicClass)
deriving Repr

def scanRun (o : Opts) : ScanSt → Nat → List Str → ScanOutcome ⊕ ScanSt
  | s, _, [] => .inr s
  | s, n, l :: ls =>
    match scanStep o s l with
    | .next s' => scanRun o s' (n + 1) ls
    | .error => .inl (.error n)
    | .panic c => .inl (.panic c)

def ScanSt.finish (s : ScanSt) : List Entry :=
  match s.last with
  | none => s.done
  | some l => s.done ++ [l.trim]

/-- the reference: BOM, lines, one pass -/
def scan (o : Opts) (s : Str) : ScanOutcome :=
  let (bom, body) := stripBOM s
  match scanRun o ⟨[], none, false⟩ 1 (splitLines body) with
  | .inl out => out
  | .inr st => .ok bom st.finish

/-- the decoder's outcome seen through the preorder listing -/
def Outcome.listing : Outcome → ScanOutcome
  | .ok d => .ok d.hasBOM (listingF 0 d.nodes)
  | .error n => .error n
  | .panic c => .panic c

/-! ## legality (C01's hypothesis), executable so that the harness can ask the model whether a
   generated forest lies in the theorem's domain -/

def legalHdrB (t v p : Str) : Bool :=
  decide (t ≠ []) && t.all isWord && p.all (fun x => x != AT && x != LF && x != CR) &&
  v.all (fun x => x != LF && x != CR) && trimSpace v == v && (!isRecordTag t || v == [])

mutual
def legalTB : Node → Bool
  | .mk t v p ks => legalHdrB t v p && legalFB ks
def legalFB : List Node → Bool
  | [] => true
  | n :: ns => legalTB n && legalFB ns
end

mutual
/-- every HUSB/WIFE/CHIL node is preceded, in document order, by some FAM node -/
def rolesOKT (seen : Bool) : Node → Bool
  | .mk t _ _ ks => (!isRoleTag t || seen) && rolesOKF (seen || t == tFAM) ks
def rolesOKF (seen : Bool) : List Node → Bool
  | [] => true
  | n :: ns => rolesOKT seen n && rolesOKF (famAfterT seen n) ns
def famAfterT (seen : Bool) : Node → Bool
  | .mk t _ _ ks => famAfterF (seen || t == tFAM) ks
def famAfterF (seen : Bool) : List Node → Bool
  | [] => seen
  | n :: ns => famAfterF (famAfterT seen n) ns
end

/-- the executable form of `C01.Legal` -/
def legalDocB (d : Doc) : Bool := legalFB d.nodes && rolesOKF false d.nodes

end Gedcom.Dec
