/-
  The date pairs on which `Date.Equals` is not symmetric, and a syntactic class of DATE values on
  which `DateRange.Equals` is an equivalence (C07, round 4; theorems in Lemmas/DateGuard.lean,
  executed by the driver for `dsym`).
-/
import Gedcom.Model.Equal
namespace Gedcom

def Constraint.oneSided (c : Constraint) : Bool := c == .before || c == .after

/-- the pairs on which `Date.Equals` is not symmetric -/
def PDate.asymPair (a b : PDate) : Bool :=
  !a.isZero && !b.isZero && a.constraint == b.constraint && a.constraint.oneSided &&
    (a.yearsLt b || b.yearsLt a)

def plainPDate (d : PDate) : Bool := !d.constraint.oneSided

/-- the DATE value does not parse to a valid range (phrase, unparsable: compared by the original
    string), or neither end carries a before / after constraint -/
def plainDateValue (s : Str) : Bool :=
  let r := parseDateRange s
  !r.isValid || (plainPDate r.start && plainPDate r.end_)

end Gedcom
