/-
  Evaluator of the query language (package q): `Engine.Evaluate`, `Statement.Evaluate` and the
  `Evaluate` method of every expression type, over a typed value universe that keeps exactly what
  Go reflection distinguishes (slice element types, typed nil pointers, nil vs empty slices).
  Core Lean only.

  Outcomes are explicit: `ok`, `error` (Go returns an error), `panic` (Go panics: the sites are
  the reflection calls listed at `PanicSite`), `diverged` (unbounded variable recursion: stack
  overflow) and `unsupported` (the query leaves the modelled accessor menu — the model says so
  instead of guessing).

  Recursion: expressions are evaluated by structural recursion on the syntax tree
  (`evalExpr`/`evalPipe`/…); the only non-structural step of the Go code — a variable evaluates
  the statement it names — goes through the parameter `lk`, which `evalVar` instantiates with
  itself at one unit of fuel less.  Mapping a `BinaryExpr`/`ObjectExpr` over the elements of
  (nested) slices is structural recursion on the value (`mapDeep`).
-/
import Gedcom.Model.Node
import Gedcom.Model.QuerySyntax
import Gedcom.Model.DateParse
import Gedcom.Model.Resolve
import Gedcom.Generated.Tags
namespace Gedcom.Q

/-! ### Outcomes -/

/-- where the Go code panics (all are calls into package reflect or a type assertion) -/
inductive PanicSite where
  | nilType          -- reflect.SliceOf / Zero / MakeSlice / Type.Kind on a nil reflect.Type
  | noResult         -- Type.Out(0) of a method without results
  | appendMismatch   -- reflect.Append: value not assignable to the element type
  | appendNil        -- reflect.Append of the zero Value (an untyped nil result)
  | sliceBounds      -- Value.Slice with a negative bound or start > end
  | makeSlice        -- reflect.MakeSlice of a non-slice type
  | appendSlice      -- reflect.AppendSlice: not a slice / element types differ
  | isNil            -- Value.IsNil on a string, number, bool or struct
  | notANode         -- interface conversion: element is not a gedcom.Node
  | noDocuments      -- documents[0] with no documents
deriving DecidableEq, Repr, Inhabited

inductive ErrKind where
  | noSuchAccessor | methodPanicked | noSuchVariable | argCount | atoi | notDocument
  | cycle            -- variable re-entered while being evaluated (only with the cycle guard)
  | recovered (p : PanicSite)   -- Engine.Evaluate turned a panic into an error
deriving DecidableEq, Repr, Inhabited

inductive Outcome (α : Type) where
  | ok (a : α)
  | error (k : ErrKind)
  | panic (p : PanicSite)
  | diverged
  | unsupported (why : String)
deriving Repr, Inhabited

namespace Outcome
def bind : Outcome α → (α → Outcome β) → Outcome β
  | .ok a, f => f a
  | .error k, _ => .error k
  | .panic p, _ => .panic p
  | .diverged, _ => .diverged
  | .unsupported w, _ => .unsupported w
instance : Monad Outcome where
  pure := .ok
  bind := Outcome.bind
def cls : Outcome α → String
  | .ok _ => "value" | .error _ => "error" | .panic _ => "panic" | .diverged => "fatal"
  | .unsupported _ => "unsupported"
end Outcome

/-- apply `f` to every element, in order; the first failure is the result -/
def mapO {α β : Type} (f : α → Outcome β) : List α → Outcome (List β)
  | [] => .ok []
  | a :: as => do
    let b ← f a
    let bs ← mapO f as
    pure (b :: bs)

/-- keep the elements on which `f` is true, in order; the first failure is the result -/
def filterO {α : Type} (f : α → Outcome Bool) : List α → Outcome (List α)
  | [] => .ok []
  | a :: as => do
    let b ← f a
    let rest ← filterO f as
    pure (if b then a :: rest else rest)

/-! ### Values -/

inductive Val where
  | nil                                         -- the nil interface
  | str (s : Str) | int (i : Int) | bool (b : Bool)
  | float (num : Int) (den : Nat)               -- a float64, as the exact fraction num/den the Go code rounds
  | someBool                                    -- a bool the model does not determine (see `applyOp`)
  | doc (i : Nat)                               -- *gedcom.Document, index into the documents
  | node (d : Nat) (n : Node)                   -- non-nil pointer to a node of document d
  | nilNode (kind : String)                     -- (*gedcom.<kind>)(nil)
  | tag (t : Str)                               -- gedcom.Tag
  | raw (d : Nat) (n : Node)                    -- the *gedcom.SimpleNode embedded in node n (RawSimpleNode, field SimpleNode)
  | date (p : PDate) (isEnd : Bool)             -- gedcom.Date, a struct value (DateNode.StartDate / EndDate)
  | named (goType : String) (i : Int)           -- a value of a named integer type (time.Month, gedcom.DateConstraint)
  | slice (name : String) (elem : Ty) (isNil : Bool) (vs : List Val)
  | map (fs : List (Str × Val))                 -- map[string]interface{}, sorted by key
deriving Repr, Inhabited

def kindOfTag (t : Str) : String :=
  match Generated.kindTable.find? (fun e => ascii e.1 == t) with
  | some e => e.2
  | none => Generated.unknownKind

def Node.kind (n : Node) : String := kindOfTag n.tag

/-- dynamic Go type (`none` for the nil interface) -/
def Val.ty : Val → Option Ty
  | .nil => none
  | .str _ => some .str | .int _ => some .int | .bool _ => some .bool | .someBool => some .bool
  | .float _ _ => some .float
  | .doc _ => some .doc
  | .node _ n => some (.ptr (Node.kind n))
  | .nilNode k => some (.ptr k)
  | .tag _ => some .tag
  | .raw _ _ => some (.ptr "SimpleNode")
  | .date _ _ => some .date
  | .named g _ => some (.opaque g)
  | .slice nm e _ _ => some (.slice nm e)
  | .map _ => some .map

def nodesTy : Ty := .slice "Nodes" .nodeI
def mkNodes (d : Nat) (ns : List Node) : Val := .slice "Nodes" .nodeI ns.isEmpty (ns.map (.node d))

/-! ### Small string functions of Go that the accessors use -/

/- `strings.TrimSpace` and `CleanSpace` are the shared models of DateParse.lean
   (`Gedcom.trimSpace`, Unicode-aware; `Gedcom.cleanSpace`, every run of spaces collapsed). -/

def lowerB (c : UInt8) : UInt8 := if 65 ≤ c && c ≤ 90 then c + 32 else c
def toLowerAscii (s : Str) : Str := s.map lowerB

/-- `nameRegexp = ([^/]*)(/[^/]*/)?(.*)` on the NAME value: text before the first slash, the
    slash-delimited part if a second slash exists, the rest. -/
def nameParts (v : Str) : Str × Str × Str :=
  let p1 := v.takeWhile (· != 47)
  let rest := v.dropWhile (· != 47)
  match rest with
  | 47 :: more =>
    let inner := more.takeWhile (· != 47)
    match more.dropWhile (· != 47) with
    | 47 :: after => (p1, 47 :: inner ++ [47], after)
    | _ => (p1, [], rest)
  | _ => (p1, [], rest)

def childrenWithTag (n : Node) (tag : String) : List Node := n.kids.filter (fun k => k.tag == ascii tag)

def nameGiven (n : Node) : Str :=
  match childrenWithTag n "GIVN" with
  | g :: _ => cleanSpace g.value
  | [] => cleanSpace (nameParts n.value).1

def nameSurname (n : Node) : Str :=
  match childrenWithTag n "SURN" with
  | g :: _ => cleanSpace g.value
  | [] =>
    let l := cleanSpace (nameParts n.value).2.1
    if l.isEmpty then [] else (l.drop 1).dropLast

def firstChildValue (n : Node) (tag : String) : Str :=
  match childrenWithTag n tag with
  | g :: _ => cleanSpace g.value
  | [] => []

def nameSuffix (n : Node) : Str :=
  match childrenWithTag n "NSFX" with
  | g :: _ => cleanSpace g.value
  | [] => cleanSpace (nameParts n.value).2.2

/-- NameNode.String = Format("%t %p %f %m %l %s") -/
def nameString (n : Node) : Str :=
  cleanSpace (firstChildValue n "TITL" ++ [32] ++ firstChildValue n "NPFX" ++ [32] ++ nameGiven n ++ [32]
    ++ firstChildValue n "SPFX" ++ [32] ++ nameSurname n ++ [32] ++ nameSuffix n)

/-! ### events, dates, places, relations (shared models: DateParse.lean, Resolve.lean) -/

def kidsWithTag (n : Node) (tag : String) : List Node := n.kids.filter (fun k => k.tag == ascii tag)

/-- `Dates(nodes...)`: the DATE children of the given nodes, in order -/
def shallowDates (ns : List Node) : List Node := ns.flatMap (fun n => kidsWithTag n "DATE")
def shallowPlaces (ns : List Node) : List Node := ns.flatMap (fun n => kidsWithTag n "PLAC")

/-- `DateNodes.Minimum()`: the first date whose start has the least `Years()` -/
def minimumDate : List Node → Option Node
  | [] => none
  | d :: ds => some (ds.foldl (fun m x =>
      if (parseDateRange x.value).start.yearsLt (parseDateRange m.value).start then x else m) d)

/-- `DateRange.Years()` = (start.Years() + end.Years()) / 2, as an exact fraction -/
def rangeYears (r : DateRange) : Int × Nat :=
  let a := r.start.yearsFrac
  let b := r.end_.yearsFrac
  (a.1 * b.2 + b.1 * a.2, (2 * a.2 * b.2).toNat)

def dateNodeYears (d : Node) : Int × Nat := rangeYears (parseDateRange d.value)

/-- `IndividualNode.EstimatedBirthDate`: the minimum birth date, else the minimum (LDS) baptism date -/
def estimatedBirthDate (n : Node) : Option Node :=
  match minimumDate (shallowDates (kidsWithTag n "BIRT")) with
  | some d => some d
  | none => minimumDate (shallowDates (kidsWithTag n "BAPM" ++ kidsWithTag n "BAPL"))

/-- `birthYear == 0 || now - birthYear <= maxAge` with the birth year as the fraction num/den -/
def livingTest (now maxAge : Nat) (by_ : Int × Nat) : Bool :=
  by_.1 == 0 || decide ((now : Int) * by_.2 - by_.1 ≤ (maxAge : Int) * by_.2)

/-- the birth year `IsLiving` uses: `Years(EstimatedBirthDate())`, 0 without a date -/
def birthYears (n : Node) : Int × Nat :=
  match estimatedBirthDate n with
  | some d => dateNodeYears d
  | none => (0, 1)

/-- `IndividualNode.IsLiving` with the current year as input: no death event, and — unless
    MaxLivingAge is 0 or no birth year is known — `now - birthYear ≤ MaxLivingAge` -/
def individualIsLiving (now : Nat) (n : Node) : Bool :=
  if !(kidsWithTag n "DEAT").isEmpty then false
  else if Generated.Query.maxLivingAge == 0 then true
  else livingTest now Generated.Query.maxLivingAge (birthYears n)

/-- `DateAndPlace(events...)`: the first DATE below the events -/
def firstEventDate (n : Node) (tag : String) : Option Node := (shallowDates (kidsWithTag n tag)).head?

def validDateText (d : Option Node) : Option Str :=
  match d with
  | some x => let r := parseDateRange x.value
              if r.isValid then some (dateNodeToString r) else none
  | none => none

/-- `IndividualNode.String`: "Name (b. …, d. …)" with baptism / burial as fall-backs -/
def individualString (n : Node) : Str :=
  let nm := match kidsWithTag n "NAME" with | k :: _ => nameString k | [] => []
  let nm := if nm.isEmpty then ascii "(no name)" else nm
  let b : List Str := match validDateText (firstEventDate n "BIRT") with
    | some t => [ascii "b. " ++ t]
    | none => match validDateText (firstEventDate n "BAPM") with
      | some t => [ascii "bap. " ++ t]
      | none => []
  let d : List Str := match validDateText (firstEventDate n "DEAT") with
    | some t => [ascii "d. " ++ t]
    | none => match validDateText (firstEventDate n "BURI") with
      | some t => [ascii "bur. " ++ t]
      | none => []
  match b ++ d with
  | [] => nm
  | parts => nm ++ ascii " (" ++ (ascii ", ").intercalate parts ++ ascii ")"

def splitOn (sep : UInt8) (s : Str) : List Str :=
  s.foldr (fun c acc => if c == sep then [] :: acc else match acc with | h :: t => (c :: h) :: t | [] => [[c]]) [[]]

/-- `PlaceNode.JurisdictionalName`: the FORM child's value if not empty, else the value -/
def placeJurName (n : Node) : Str :=
  match kidsWithTag n "FORM" with
  | f :: _ => if f.value.isEmpty then n.value else f.value
  | [] => n.value

/-- `PlaceNode.JurisdictionalEntities`: exactly four comma-separated parts, else the whole name -/
def placeParts (n : Node) : Str × Str × Str × Str :=
  let j := placeJurName n
  match splitOn 44 j with
  | [a, b, c, d] => (trimSpace a, trimSpace b, trimSpace c, trimSpace d)
  | _ => (trimSpace j, [], [], [])

def isSuffixB (suf s : Str) : Bool := suf.length ≤ s.length && s.drop (s.length - suf.length) == suf

/-- `PlaceNode.Country`: the fourth part, else the first known country the name ends with -/
def placeCountry (n : Node) : Str :=
  let c := (placeParts n).2.2.2
  if !c.isEmpty then c else
  let cut (b : UInt8) : Bool := b == 44 || b == 46 || b == 32          -- strings.Trim(name, ",. ")
  let t := ((placeJurName n).dropWhile cut).reverse.dropWhile cut |>.reverse
  let lower := toLowerAscii t
  match Generated.Query.countries.find? (fun e => isSuffixB (ascii e.2) lower) with
  | some e => ascii e.1
  | none => []

def resFlags : Resolve.Flags := Resolve.generatedFlags

def entVal (d : Nat) (kind : String) : Option Resolve.Ent → Val
  | some e => .node d e.node
  | none => .nilNode kind

/-- `HusbandNode/WifeNode.String`: the individual's String, "(unknown)" without one;
    `ChildNode.String`: the individual's String ("(no name)" for a nil individual) -/
def roleString (unknown : String) (r : Resolve.Res (Option Resolve.Ent)) : Resolve.Res Str :=
  match r with
  | .ok (some e) => .ok (individualString e.node)
  | .ok none => .ok (ascii unknown)
  | .panic s => .panic s

def utf8 (s : String) : Str := s.toUTF8.toList

/-- `FamilyNode.String`: "<husband> <symbol> <wife>" -/
def familyString (doc : Forest) (n : Node) : Resolve.Res Str := do
  let symbol := if !(kidsWithTag n "DIV").isEmpty then utf8 "⚮" else if !(kidsWithTag n "MARR").isEmpty then utf8 "⚭" else utf8 "—"
  let h ← match kidsWithTag n "HUSB" with
    | k :: _ => roleString "(unknown)" (Resolve.roleIndividual resFlags .husband resFlags.husband doc k)
    | [] => .ok (ascii "(unknown)")
  let w ← match kidsWithTag n "WIFE" with
    | k :: _ => roleString "(unknown)" (Resolve.roleIndividual resFlags .wife resFlags.wife doc k)
    | [] => .ok (ascii "(unknown)")
  pure (h ++ [32] ++ symbol ++ [32] ++ w)

mutual
/-- `Encoder.renderNode`: "<level> [@ptr@ ]TAG[ value]\n", then the children one level deeper -/
def renderNode (lvl : Nat) : Node → Str
  | .mk t v p ks =>
    natToDec lvl ++ [32] ++ (if p.isEmpty then [] else [64] ++ p ++ [64, 32]) ++ t ++ (if v.isEmpty then [] else 32 :: v) ++ [10]
      ++ renderNodes (lvl + 1) ks
def renderNodes (lvl : Nat) : List Node → Str
  | [] => []
  | n :: ns => renderNode lvl n ++ renderNodes lvl ns
end

def eventKinds : List String := ["BirthNode", "DeathNode", "BaptismNode", "BurialNode", "EventNode", "ResidenceNode"]

/-! ### Reflection tables -/

def methodInfo (recv : String) (m : Str) : Option (Nat × Nat × Ty) :=
  match Generated.Query.methods.find? (·.1 == recv) with
  | some (_, ms) => (ms.find? (fun e => ascii e.1 == m)).map (·.2)
  | none => none

def hasField (recv : String) (m : Str) : Bool :=
  match Generated.Query.fields.find? (·.1 == recv) with
  | some (_, fs) => fs.any (fun f => ascii f == m)
  | none => false

/-- (FieldByName succeeds on the zero struct, type of the field) -/
def fieldInfo (recv : String) (m : Str) : Option (Bool × Ty) :=
  match Generated.Query.fieldInfo.find? (·.1 == recv) with
  | some (_, fs) => (fs.find? (fun f => ascii f.1 == m)).map (·.2)
  | none => none

/-- exported: the first byte is an upper-case ASCII letter (the generated names are Go identifiers) -/
def isExportedName (m : Str) : Bool :=
  match m with
  | c :: _ => 65 ≤ c && c ≤ 90
  | [] => false

def knownRecv (recv : String) : Bool := Generated.Query.methods.any (·.1 == recv)

def sliceHasMethod (name : String) (m : Str) : Bool :=
  match Generated.Query.sliceMethods.find? (·.1 == name) with
  | some (_, ms) => ms.any (fun f => ascii f == m)
  | none => false

/-- key of the receiver type in the reflection tables; `none`: a type without methods or fields
    (string, int, bool, map) -/
def recvOfTy : Ty → Option String
  | .doc => some "Document"
  | .ptr k => some k
  | .tag => some "Tag"
  | .date => some "Date"
  | _ => none

/-! ### The accessor menu: methods the model evaluates -/

def rootsOfKind (f : Forest) (kind : String) : List Node := f.filter (fun n => Node.kind n == kind)

def isNodeKind (recv : String) : Bool := recv != "Document" && recv != "Tag"

/-- what calling a niladic method through reflection gives: its first result, or a panic inside
    the method (nil receiver) that `evaluateAccessor` recovers into an error -/
inductive MenuResult where
  | val (v : Val)
  | recovered

def MenuResult.toOutcome : MenuResult → Outcome Val
  | .val v => .ok v
  | .recovered => .error .methodPanicked

/-- a call into the reference-resolution layer: a panic there is recovered by evaluateAccessor -/
def ofRes {α} (r : Resolve.Res α) (f : α → Val) : MenuResult :=
  match r with
  | .ok a => .val (f a)
  | .panic _ => .recovered

/-! tag metadata (Generated/Tags.lean: gedcom.Tags(); an unregistered tag is `TagFromString`'s
    `Tag{tag: t, name: t}`) -/
def tagInfoOf (t : Str) : Option (Bool × Bool × Nat) :=
  (Generated.tagInfo.find? (fun e => ascii e.1 == t)).map (·.2)
def tagIsEvent (t : Str) : Bool := match tagInfoOf t with | some (e, _, _) => e | none => false
def tagIsKnown (t : Str) : Bool := (tagInfoOf t).isSome
/-- `Tag.IsOfficial`: not empty and not starting with an underscore -/
def tagIsOfficial (t : Str) : Bool := match t with | c :: _ => c != 95 | [] => false
def tagSortValue (t : Str) : Nat :=
  match tagInfoOf t with | some (_, _, v) => v | none => Generated.Query.unknownTagSortValue
/-- `Tag.String`: the registered name, the tag itself for an unregistered one -/
def tagName (t : Str) : Str :=
  match Generated.Query.tagNames.find? (fun e => ascii e.1 == t) with
  | some e => utf8 e.2
  | none => t

/-- the `*SimpleNode` embedded in a node: for a node that *is* a `*SimpleNode` it is the node -/
def mkRaw (d : Nat) (n : Node) : Val := if Node.kind n == "SimpleNode" then .node d n else .raw d n

/-- `SimpleNode.ShallowCopy` = `NewNode(tag, value, pointer)`: a new node of the tag's type without
    children, outside every document (modelled as document index `nDocs`); NewNode panics for the
    types that need a family or a document.  (`IndividualNode`/`FamilyNode` have their own
    ShallowCopy, which adds the copy to the document: outside the menu.) -/
def shallowCopy (nDocs : Nat) (n : Node) : MenuResult :=
  let k := Node.kind n
  if k == "HusbandNode" || k == "WifeNode" || k == "ChildNode" || k == "IndividualNode" || k == "FamilyNode" then .recovered
  else .val (.node nDocs (.mk n.tag n.value n.ptr []))

/-- `SimpleNode.ObjectMap` -/
def objectMapOf (d : Nat) (n : Node) : Val :=
  .map ((if n.kids.isEmpty then [] else [(ascii "Nodes", mkNodes d n.kids)])
    ++ (if n.ptr.isEmpty then [] else [(ascii "Pointer", .str n.ptr)])
    ++ [(ascii "Tag", .str n.tag)]
    ++ (if n.value.isEmpty then [] else [(ascii "Value", .str n.value)]))

/-- the methods every node type gets from the embedded `*SimpleNode` and that need the node only -/
def simpleMenu (nDocs : Nat) (m : String) (d : Nat) (n : Node) : Option MenuResult :=
  match m with
  | "RawSimpleNode" => some (.val (mkRaw d n))
  | "ShallowCopy" => some (shallowCopy nDocs n)
  | "Identifier" => some (.val (.str ([64] ++ n.ptr ++ [64])))
  | "ObjectMap" => some (.val (objectMapOf d n))
  | _ => none

def firstKidOr (d : Nat) (n : Node) (tag kind : String) : Val :=
  match kidsWithTag n tag with | k :: _ => .node d k | [] => .nilNode kind

/-- `IndividualNode.EstimatedDeathDate`: the minimum death date, else the minimum burial date -/
def estimatedDeathDate (n : Node) : Option Node :=
  match minimumDate (shallowDates (kidsWithTag n "DEAT")) with
  | some d => some d
  | none => minimumDate (shallowDates (kidsWithTag n "BURI"))

def optDate (d : Nat) : Option Node → Val
  | some x => .node d x
  | none => .nilNode "DateNode"

def zeroDate : PDate := ⟨0, 0, 0, .exact, false⟩

/-- `Date.IsExact` -/
def dateIsExact (p : PDate) : Bool := p.day != 0 && p.constraint == .exact

/-- A modelled niladic method on a receiver; `none`: not in the menu. -/
def callMenu (now : Nat) (docs : List Forest) (recv : String) (m : String) (v : Val) : Option MenuResult :=
  match v with
  | .doc i =>
    let f := docs.getD i []
    match m with
    | "Individuals" => some (.val (.slice "IndividualNodes" (.ptr "IndividualNode") false ((rootsOfKind f "IndividualNode").map (.node i))))
    | "Families" => some (.val (.slice "FamilyNodes" (.ptr "FamilyNode") false ((rootsOfKind f "FamilyNode").map (.node i))))
    | "Nodes" => some (.val (mkNodes i f))
    | "String" => some (.val (.str (renderNodes 0 f)))          -- Document.String = GEDCOMString(0), no BOM
    | "Sources" => some (.val (.slice "" (.ptr "SourceNode") false ((rootsOfKind f "SourceNode").map (.node i))))   -- `sources := []*SourceNode{}`
    | _ => none
  | .tag t =>
    match m with
    | "Tag" => some (.val (.str t))
    | "String" => some (.val (.str (tagName t)))
    | "IsEvent" => some (.val (.bool (tagIsEvent t)))
    | "IsKnown" => some (.val (.bool (tagIsKnown t)))
    | "IsOfficial" => some (.val (.bool (tagIsOfficial t)))
    | "SortValue" => some (.val (.int (tagSortValue t)))
    | _ => none
  | .raw d n =>
    match m with
    | "Tag" => some (.val (.tag n.tag))
    | "Value" => some (.val (.str n.value))
    | "Pointer" => some (.val (.str n.ptr))
    | "Nodes" => some (.val (mkNodes d n.kids))
    | "String" => if Generated.Query.stringIsValue.contains "SimpleNode" then some (.val (.str n.value)) else none
    | _ => simpleMenu docs.length m d n
  | .date p isEnd =>
    match m with
    | "Years" => let y := p.yearsFrac; some (.val (.float y.1 y.2.toNat))
    | "String" => some (.val (.str p.toString))
    | "IsZero" => some (.val (.bool p.isZero))
    | "IsExact" => some (.val (.bool (dateIsExact p)))
    | _ => let _ := isEnd; none
  | .node d n =>
    match m with
    | "Tag" => some (.val (.tag n.tag))
    | "Value" => some (.val (.str n.value))
    | "Pointer" => some (.val (.str n.ptr))
    | "Nodes" => some (.val (mkNodes d n.kids))
    | _ =>
      match recv, m with
      | "IndividualNode", "Name" =>
        some (.val (match childrenWithTag n "NAME" with | k :: _ => .node d k | [] => .nilNode "NameNode"))
      | "IndividualNode", "Names" => some (.val (.slice "" (.ptr "NameNode") false ((childrenWithTag n "NAME").map (.node d))))
      | "IndividualNode", "Sex" =>
        some (.val (match childrenWithTag n "SEX" with | k :: _ => .node d k | [] => .nilNode "SexNode"))
      | "NameNode", "GivenName" => some (.val (.str (nameGiven n)))
      | "NameNode", "Surname" => some (.val (.str (nameSurname n)))
      | "NameNode", "String" => some (.val (.str (nameString n)))
      | "SexNode", "String" =>
        some (.val (.str (if n.value == ascii "M" then ascii "Male" else if n.value == ascii "F" then ascii "Female" else ascii "Unknown")))
      | "IndividualNode", "Births" =>
        let es := kidsWithTag n "BIRT"
        some (.val (.slice "" (.ptr "BirthNode") es.isEmpty (es.map (.node d))))    -- `var nodes []*BirthNode`
      | "IndividualNode", "Deaths" => some (.val (.slice "" (.ptr "DeathNode") false ((kidsWithTag n "DEAT").map (.node d))))
      | "IndividualNode", "Baptisms" => some (.val (.slice "" (.ptr "BaptismNode") false ((kidsWithTag n "BAPM").map (.node d))))
      | "IndividualNode", "Burials" => some (.val (.slice "" (.ptr "BurialNode") false ((kidsWithTag n "BURI").map (.node d))))
      | "IndividualNode", "Birth" => some (.val (match firstEventDate n "BIRT" with | some x => .node d x | none => .nilNode "DateNode"))
      | "IndividualNode", "Death" => some (.val (match firstEventDate n "DEAT" with | some x => .node d x | none => .nilNode "DateNode"))
      | "IndividualNode", "Baptism" => some (.val (match firstEventDate n "BAPM" with | some x => .node d x | none => .nilNode "DateNode"))
      | "IndividualNode", "Burial" => some (.val (match firstEventDate n "BURI" with | some x => .node d x | none => .nilNode "DateNode"))
      | "IndividualNode", "Spouses" =>
        some (ofRes (Resolve.spouses resFlags (docs.getD d []) ⟨0, n⟩)
          (fun l => .slice "IndividualNodes" (.ptr "IndividualNode") false (l.map (entVal d "IndividualNode"))))
      | "IndividualNode", "Families" =>
        some (ofRes (Resolve.familiesOf resFlags (docs.getD d []) ⟨0, n⟩)
          (fun l => .slice "FamilyNodes" (.ptr "FamilyNode") false (l.map (fun e => .node d e.node))))
      | "IndividualNode", "Parents" =>
        some (ofRes (Resolve.parents resFlags (docs.getD d []) ⟨0, n⟩)
          (fun l => .slice "FamilyNodes" (.ptr "FamilyNode") false (l.map (fun e => .node d e.node))))
      | "IndividualNode", "IsLiving" => some (.val (.bool (individualIsLiving now n)))
      | "IndividualNode", "String" => some (.val (.str (individualString n)))
      | "FamilyNode", "Husband" => some (.val (match kidsWithTag n "HUSB" with | k :: _ => .node d k | [] => .nilNode "HusbandNode"))
      | "FamilyNode", "Wife" => some (.val (match kidsWithTag n "WIFE" with | k :: _ => .node d k | [] => .nilNode "WifeNode"))
      | "FamilyNode", "Children" => some (.val (.slice "ChildNodes" (.ptr "ChildNode") false ((kidsWithTag n "CHIL").map (.node d))))
      | "HusbandNode", "Individual" =>
        some (ofRes (Resolve.roleIndividual resFlags .husband resFlags.husband (docs.getD d []) n) (entVal d "IndividualNode"))
      | "WifeNode", "Individual" =>
        some (ofRes (Resolve.roleIndividual resFlags .wife resFlags.wife (docs.getD d []) n) (entVal d "IndividualNode"))
      | "ChildNode", "Individual" =>
        some (ofRes (Resolve.roleIndividual resFlags .child resFlags.child (docs.getD d []) n) (entVal d "IndividualNode"))
      | "HusbandNode", "String" =>
        some (ofRes (roleString "(unknown)" (Resolve.roleIndividual resFlags .husband resFlags.husband (docs.getD d []) n)) .str)
      | "WifeNode", "String" =>
        some (ofRes (roleString "(unknown)" (Resolve.roleIndividual resFlags .wife resFlags.wife (docs.getD d []) n)) .str)
      | "ChildNode", "String" =>
        some (ofRes (roleString "(no name)" (Resolve.roleIndividual resFlags .child resFlags.child (docs.getD d []) n)) .str)
      | "FamilyNode", "String" => some (ofRes (familyString (docs.getD d []) n) .str)
      | "DateNode", "Years" => let y := dateNodeYears n; some (.val (.float y.1 y.2))
      | "DateNode", "String" => some (.val (.str (dateNodeToString (parseDateRange n.value))))
      | "DateNode", "IsValid" => some (.val (.bool (parseDateRange n.value).isValid))
      | "PlaceNode", "JurisdictionalName" => some (.val (.str (placeJurName n)))
      | "PlaceNode", "Name" => some (.val (.str (placeParts n).1))
      | "PlaceNode", "County" => some (.val (.str (placeParts n).2.1))
      | "PlaceNode", "State" => some (.val (.str (placeParts n).2.2.1))
      | "PlaceNode", "Country" => some (.val (.str (placeCountry n)))
      | "IndividualNode", "EstimatedBirthDate" => some (.val (optDate d (estimatedBirthDate n)))
      | "IndividualNode", "EstimatedDeathDate" => some (.val (optDate d (estimatedDeathDate n)))
      | "IndividualNode", "LDSBaptisms" => some (.val (.slice "Nodes" .nodeI false ((kidsWithTag n "BAPL").map (.node d))))
      | "IndividualNode", "UniqueIDs" =>
        let us := kidsWithTag n "_UID"
        some (.val (.slice "" (.ptr "UniqueIDNode") us.isEmpty (us.map (.node d))))      -- `nodes` stays nil until appended
      | "IndividualNode", "AllEvents" =>
        let es := n.kids.filter (fun k => tagIsEvent k.tag)
        some (.val (.slice "Nodes" .nodeI es.isEmpty (es.map (.node d))))
      | "IndividualNode", "ShallowCopy" | "FamilyNode", "ShallowCopy" => none      -- adds the copy to the document
      | "IndividualNode", "Document" | "FamilyNode", "Document" => some (.val (.doc d))
      | "SexNode", "IsMale" => some (.val (.bool (n.value == ascii "M")))
      | "SexNode", "IsFemale" => some (.val (.bool (n.value == ascii "F")))
      | "SexNode", "IsUnknown" => some (.val (.bool (n.value != ascii "M" && n.value != ascii "F")))
      | "SexNode", "OwnershipWord" =>
        some (.val (.str (if n.value == ascii "M" then ascii "his" else if n.value == ascii "F" then ascii "her" else ascii "their")))
      | "PlaceNode", "JurisdictionalEntities" => some (.val (.str (placeParts n).1))      -- result[0] of four
      | "DateNode", "StartAndEndDates" => some (.val (.date (parseDateRange n.value).start false))   -- result[0] of two
      | "NameNode", "Prefix" => some (.val (.str (firstChildValue n "NPFX")))
      | "NameNode", "Suffix" => some (.val (.str (nameSuffix n)))
      | "NameNode", "SurnamePrefix" => some (.val (.str (firstChildValue n "SPFX")))
      | "NameNode", "Title" => some (.val (.str (firstChildValue n "TITL")))
      | "SourceNode", "Title" => some (.val (.str (match kidsWithTag n "TITL" with | k :: _ => k.value | [] => [])))
      | "PlaceNode", "Format" => some (.val (firstKidOr d n "FORM" "FormatNode"))
      | "PlaceNode", "Map" => some (.val (firstKidOr d n "MAP" "MapNode"))
      | "PlaceNode", "Notes" => some (.val (.slice "" (.ptr "NoteNode") false ((kidsWithTag n "NOTE").map (.node d))))
      | "PlaceNode", "PhoneticVariations" => some (.val (.slice "" (.ptr "PhoneticVariationNode") false ((kidsWithTag n "FONE").map (.node d))))
      | "PlaceNode", "RomanizedVariations" => some (.val (.slice "" (.ptr "RomanizedVariationNode") false ((kidsWithTag n "ROMN").map (.node d))))
      | "MapNode", "Latitude" => some (.val (firstKidOr d n "LATI" "LatitudeNode"))
      | "MapNode", "Longitude" => some (.val (firstKidOr d n "LONG" "LongitudeNode"))
      | "EventNode", "Years" | "ResidenceNode", "Years" =>
        some (.val (match minimumDate (kidsWithTag n "DATE") with
          | some x => let y := dateNodeYears x; .float y.1 y.2
          | none => .float 0 1))
      | "DateNode", "StartDate" => some (.val (.date (parseDateRange n.value).start false))
      | "DateNode", "EndDate" => some (.val (.date (parseDateRange n.value).end_ true))
      | "DateNode", "IsExact" =>
        let r := parseDateRange n.value
        some (.val (.bool (dateIsExact r.start && dateIsExact r.end_)))
      | "DateNode", "IsPhrase" => some (.val (.bool (parseDateRange n.value).isPhrase))
      | k, "Dates" =>
        if eventKinds.contains k then
          let ds := kidsWithTag n "DATE"
          some (.val (.slice "DateNodes" (.ptr "DateNode") ds.isEmpty (ds.map (.node d))))    -- `Dates(node)`: nil until appended
        else none
      | k, "String" => if Generated.Query.stringIsValue.contains k then some (.val (.str n.value)) else none
      | _, m => simpleMenu docs.length m d n
  | .nilNode k =>
    -- a typed nil pointer: the method is found and called; it returns a zero value or
    -- dereferences nil (which evaluateAccessor recovers into an error)
    match m with
    | "Tag" | "Value" | "Pointer" | "Nodes" | "RawSimpleNode" | "ShallowCopy" | "Identifier" | "ObjectMap" =>
      if k == "SimpleNode" then none else some .recovered   -- promoted through the nil embedded pointer
    | _ =>
      match k, m with
      | "IndividualNode", "Name" => some (.val (.nilNode "NameNode"))
      | "IndividualNode", "Names" => some (.val (.slice "" (.ptr "NameNode") true []))
      | "IndividualNode", "Sex" => some (.val (.nilNode "SexNode"))
      | "NameNode", "GivenName" => some (.val (.str []))
      | "NameNode", "Surname" => some (.val (.str []))
      | "NameNode", "String" => some (.val (.str []))
      | "SexNode", "String" => some (.val (.str (ascii "Unknown")))
      | "IndividualNode", "Births" => some (.val (.slice "" (.ptr "BirthNode") true []))
      | "IndividualNode", "Deaths" => some (.val (.slice "" (.ptr "DeathNode") false []))       -- CastTo of no nodes: empty, not nil
      | "IndividualNode", "Baptisms" => some (.val (.slice "" (.ptr "BaptismNode") false []))
      | "IndividualNode", "Burials" => some (.val (.slice "" (.ptr "BurialNode") false []))
      | "IndividualNode", "Birth" | "IndividualNode", "Death" | "IndividualNode", "Baptism" | "IndividualNode", "Burial" =>
        some (.val (.nilNode "DateNode"))
      | "IndividualNode", "Spouses" => some (.val (.slice "IndividualNodes" (.ptr "IndividualNode") true []))
      | "IndividualNode", "Families" | "IndividualNode", "Parents" => some (.val (.slice "FamilyNodes" (.ptr "FamilyNode") true []))
      | "IndividualNode", "IsLiving" => some (.val (.bool false))
      | "IndividualNode", "String" => some (.val (.str (ascii "(no name)")))
      | "FamilyNode", "Husband" => some (.val (.nilNode "HusbandNode"))
      | "FamilyNode", "Wife" => some (.val (.nilNode "WifeNode"))
      | "FamilyNode", "Children" => some (.val (.slice "ChildNodes" (.ptr "ChildNode") true []))
      | "HusbandNode", "Individual" | "WifeNode", "Individual" | "ChildNode", "Individual" => some (.val (.nilNode "IndividualNode"))
      | "HusbandNode", "String" | "WifeNode", "String" => some (.val (.str (ascii "(unknown)")))
      | "ChildNode", "String" => some (.val (.str (ascii "(no name)")))
      | "FamilyNode", "String" => some (.val (.str (ascii "(unknown) " ++ utf8 "—" ++ ascii " (unknown)")))
      | "DateNode", "Years" => some (.val (.float 0 1))
      | "DateNode", "String" => some (.val (.str []))
      | "DateNode", "IsValid" => some (.val (.bool false))
      | "IndividualNode", "EstimatedBirthDate" | "IndividualNode", "EstimatedDeathDate" => some (.val (.nilNode "DateNode"))
      | "IndividualNode", "LDSBaptisms" => some (.val (.slice "Nodes" .nodeI true []))
      | "IndividualNode", "UniqueIDs" => some (.val (.slice "" (.ptr "UniqueIDNode") true []))
      | "IndividualNode", "AllEvents" => some .recovered
      | "IndividualNode", "Document" | "FamilyNode", "Document" => some .recovered      -- promoted through the nil embedded pointer
      | "SexNode", "IsMale" | "SexNode", "IsFemale" => some (.val (.bool false))
      | "SexNode", "IsUnknown" => some (.val (.bool true))
      | "SexNode", "OwnershipWord" => some (.val (.str (ascii "their")))
      | "DateNode", "StartAndEndDates" => some (.val (.date zeroDate false))
      | "NameNode", "Prefix" | "NameNode", "Suffix" | "NameNode", "SurnamePrefix" | "NameNode", "Title" => some (.val (.str []))
      | "MapNode", "Latitude" => some (.val (.nilNode "LatitudeNode"))
      | "MapNode", "Longitude" => some (.val (.nilNode "LongitudeNode"))
      | "DateNode", "StartDate" | "DateNode", "EndDate" => some (.val (.date zeroDate false))
      | "DateNode", "IsExact" | "DateNode", "IsPhrase" => some (.val (.bool false))
      | k', "Dates" => if eventKinds.contains k' then some (.val (.slice "DateNodes" (.ptr "DateNode") true [])) else none
      | _, _ => none
  | _ => none

def strOfAscii? (s : Str) : String := String.ofList (s.map (fun b => Char.ofNat b.toNat))

/-- An exported struct field the model reads (`getField` + `field.Interface()`); `none`: outside
    the menu.  `SimpleNode` is the embedded pointer of every node type; the fields of a
    `gedcom.Date`; a nil `ParseError` is the nil interface. -/
def fieldMenu (f : String) (v : Val) : Option Val :=
  match v with
  | .node d n => if f == "SimpleNode" then some (mkRaw d n) else none
  | .date p isEnd =>
    match f with
    | "Day" => some (.int p.day)
    | "Month" => some (.named "time.Month" p.month)
    | "Year" => some (.int p.year)
    | "IsEndOfRange" => some (.bool isEnd)
    | "Constraint" => some (.named "gedcom.DateConstraint" p.constraint.toNat)
    | "ParseError" => if p.parseError then none else some .nil
    | _ => none
  | _ => none

/-- is the value a nil pointer (reflect: `in.Elem()` is the zero Value, `FieldByName` panics,
    `getField` recovers and reports no field) -/
def Val.isNilPtr : Val → Bool
  | .nilNode _ => true
  | _ => false

/-- `evaluateAccessor` on a non-nil, non-slice input: look the name up as method, then as field;
    a panic of the call is recovered into an error. -/
def accessSingle (now : Nat) (docs : List Forest) (acc : Str) (v : Val) : Outcome Val :=
  match v.ty with
  | none => .ok .nil
  | some t =>
    match recvOfTy t with
    | none =>
      match t with
      | .opaque _ => .unsupported "accessor on a value of an unmodelled type"
      | _ => .error .noSuchAccessor          -- string, int, bool, map: no methods, FieldByName panics (recovered)
    | some recv =>
      if !knownRecv recv then .unsupported "receiver type missing from the reflection tables" else
      match methodInfo recv acc with
      | some (nin, nout, _) =>
        if nin > 0 then .error .methodPanicked        -- reflect: Call with too few input arguments
        else if nout == 0 then .error .methodPanicked -- result[0]: index out of range
        else
          match callMenu now docs recv (strOfAscii? acc) v with
          | some r => r.toOutcome
          | none => .unsupported "method outside the modelled menu"
      | none =>
        match fieldInfo recv acc with
        | none => .error .noSuchAccessor
        | some _ =>
          if v.isNilPtr then .error .noSuchAccessor             -- FieldByName on the zero Value panics inside getField
          else if !isExportedName acc then .error .methodPanicked   -- field.Interface() of an unexported field panics (recovered)
          else match fieldMenu (strOfAscii? acc) v with
            | some r => .ok r
            | none => .unsupported "struct field outside the modelled menu"

/-- `getReturnType(accessor, reflect.New(t).Interface())` for the element type of a slice. -/
def returnType (elem : Ty) (acc : Str) : Outcome Ty :=
  match elem with
  | .opaque n => if n == "interface {}" then .panic .nilType else .unsupported "slice of an unmodelled element type"
  | .slice nm _ => if nm != "" && sliceHasMethod nm acc then .unsupported "method of a named slice type" else .panic .nilType
  | .str | .int | .bool | .map | .nodeI => .panic .nilType
  | t =>
    match recvOfTy t with
    | none => .panic .nilType
    | some recv =>
      if !knownRecv recv then .unsupported "receiver type missing from the reflection tables" else
      match methodInfo recv acc with
      | some (_, nout, out) => if nout == 0 then .panic .noResult else .ok out
      | none =>
        -- `getField` on `reflect.New(t)`: a field promoted through an embedded pointer is not
        -- reachable on the zero struct (the panic is recovered): no return type
        match fieldInfo recv acc with
        | some (true, fty) => .ok fty
        | _ => .panic .nilType

/-- one element of a list under an accessor: the result is `reflect.Append`ed, which panics
    for an untyped nil -/
def accessElem (now : Nat) (docs : List Forest) (acc : Str) (x : Val) : Outcome Val := do
  let r ← accessSingle now docs acc x
  match r with
  | .nil => Outcome.panic .appendNil
  | r => pure r

/-- AccessorExpr.Evaluate -/
def evalAccessor (now : Nat) (docs : List Forest) (q : Str) (v : Val) : Outcome Val :=
  let acc := q.drop 1
  match v with
  | .nil => .ok .nil
  | .slice _ elem _ vs => do
    let rt ← returnType elem acc
    let rs ← mapO (accessElem now docs acc) vs
    pure (.slice "" rt false rs)
  | v => accessSingle now docs acc v

/-! ### `%v`, Atoi, ParseFloat -/

def intToDec (i : Int) : Str := if i < 0 then 45 :: natToDec i.natAbs else natToDec i.natAbs

mutual
/-- fmt.Sprintf("%v", v) for the values whose rendering the model determines: scalars, and
    slices / maps of them (`[a b]`, `map[k:v …]` with sorted keys); not pointers, structs, named
    integer types with a String method, or floats other than integers and halves -/
def fmtV : Val → Option Str
  | .str s => some s
  | .int i => some (intToDec i)
  | .bool b => some (ascii (if b then "true" else "false"))
  | .nil => some (ascii "<nil>")
  | .float n d =>
    -- %v of a float64 is its shortest decimal: determined here for integers and halves only
    if d == 0 then none
    else if n % (d : Int) == 0 then (if (n / (d : Int)).natAbs < 1000000 then some (intToDec (n / (d : Int))) else none)
    else if (2 * n) % (d : Int) == 0 then
      let h := (2 * n) / (d : Int)                      -- odd
      if h.natAbs < 2000000 then some ((if h < 0 then [45] else []) ++ natToDec (h.natAbs / 2) ++ ascii ".5") else none
    else none
  | .slice _ _ _ vs => (fmtVs vs).map (fun parts => [91] ++ (ascii " ").intercalate parts ++ [93])
  | .map fs => (fmtVfs fs).map (fun parts => ascii "map[" ++ (ascii " ").intercalate parts ++ [93])
  | _ => none
def fmtVs : List Val → Option (List Str)
  | [] => some []
  | v :: vs => do
    let a ← fmtV v
    let as ← fmtVs vs
    pure (a :: as)
def fmtVfs : List (Str × Val) → Option (List Str)
  | [] => some []
  | (k, v) :: vs => do
    let a ← fmtV v
    let as ← fmtVfs vs
    pure ((k ++ [58] ++ a) :: as)
end

def digitsVal (ds : Str) : Nat := ds.foldl (fun a d => a * 10 + (d.toNat - 48)) 0

/-- strconv.Atoi: optional sign, decimal digits, value within int64 -/
def atoi (s : Str) : Option Int :=
  let (neg, ds) := match s with
    | 45 :: r => (true, r)
    | 43 :: r => (false, r)
    | r => (false, r)
  if ds.isEmpty || !ds.all isDigitB then none else
  let n := digitsVal ds
  if neg then (if n ≤ 9223372036854775808 then some (-(n : Int)) else none)
  else (if n ≤ 9223372036854775807 then some (n : Int) else none)

/-- what strconv.ParseFloat makes of a string, as far as comparisons need it -/
inductive Num where
  | fin (neg : Bool) (mant : Nat) (exp10 : Int)   -- ± mant · 10^exp10
  | inf (neg : Bool)
  | nan
  | inexact                                        -- accepted, but float64 rounding is not modelled
deriving Repr, DecidableEq, Inhabited

def isHexB (c : UInt8) : Bool := isDigitB c || (97 ≤ c && c ≤ 102)      -- on lower-cased input

/-- `underscoreOK` (strconv) after the optional sign: every underscore follows a digit (or the
    base prefix, which counts as one) and is followed by a digit; `hex`: a–f are digits -/
def underscoreOKFrom (hex : Bool) : UInt8 → Str → Bool     -- saw: 48 digit, 95 underscore, 33 other/start
  | saw, [] => saw != 95
  | saw, c :: r =>
    if isDigitB c || (hex && isHexB c) then underscoreOKFrom hex 48 r
    else if c == 95 then (if saw != 48 then false else underscoreOKFrom hex 95 r)
    else if saw == 95 then false else underscoreOKFrom hex 33 r

def underscoreOK (body : Str) : Bool :=
  match body with
  | 48 :: 120 :: r => underscoreOKFrom true 48 r                        -- "0x": the prefix counts as a digit
  | 48 :: 98 :: r | 48 :: 111 :: r => underscoreOKFrom false 48 r       -- "0b", "0o"
  | _ => underscoreOKFrom false 33 body

def stripUnderscore (s : Str) : Str := s.filter (· != 95)

def hexDigitsVal (ds : Str) : Nat :=
  ds.foldl (fun a d => a * 16 + (if isDigitB d then d.toNat - 48 else d.toNat - 87)) 0

/-- `[+-]?digits+` with underscores, as an exponent: its value -/
def expDigits (r : Str) : Option Int :=
  let (eneg, ed) := match r with | 45 :: x => (true, x) | 43 :: x => (false, x) | x => (false, x)
  let edd := stripUnderscore ed
  if edd.isEmpty || !ed.all (fun c => isDigitB c || c == 95) then none
  else some (if eneg then -(digitsVal edd : Int) else (digitsVal edd : Int))

/-- the grammar of `strconv.ParseFloat` (`readFloat` / `special`), on the lower-cased string:
    * `[+-]?(inf|infinity)`, `nan` (no sign);
    * decimal: sign? digits? ('.' digits?)? (e sign? digits+)?, at least one mantissa digit;
    * hexadecimal: sign? 0x hexdigits? ('.' hexdigits?)? p sign? digits+ — the `p` exponent is
      mandatory (so `0x10` is not a number), value = mantissa · 2^exponent, kept exactly as
      m · 10^e (2^-k = 5^k · 10^-k);
    * underscores only as digit separators (`underscoreOK`); everything must be consumed
      (`0b11`, `0o17`, `1,5`, ` 5` are not numbers).
    Outside 15 significant digits / moderate exponents float64 rounding, overflow to a range
    error and underflow decide: the model answers `inexact` there. -/
def parseNum (s : Str) : Option Num :=
  let lower := toLowerAscii s
  let (neg, body) := match lower with
    | 45 :: r => (true, r)
    | 43 :: r => (false, r)
    | r => (false, r)
  if body == ascii "inf" || body == ascii "infinity" then some (.inf neg)
  else if lower == ascii "nan" then some .nan
  else if body.take 2 == ascii "0x" then
    let m := body.drop 2
    let isHexMant (c : UInt8) := isHexB c || c == 95
    let ip := m.takeWhile isHexMant
    let r1 := m.dropWhile isHexMant
    let (fp, r2) := match r1 with
      | 46 :: r => (r.takeWhile isHexMant, r.dropWhile isHexMant)
      | r => ([], r)
    let mantDigits := stripUnderscore (ip ++ fp)
    if mantDigits.isEmpty then none else
    match r2 with
    | 112 :: r =>
      match expDigits r with
      | none => none
      | some e =>
        if !underscoreOK body then none else
        let e2 : Int := e - 4 * ((stripUnderscore fp).length : Int)
        if e2 > 60 || e2 < -60 then some .inexact else
        let mant := hexDigitsVal mantDigits
        let m10 : Nat := if e2 ≥ 0 then mant * 2 ^ e2.toNat else mant * 5 ^ (-e2).toNat
        if (Nat.toDigits 10 m10).length > 15 then some .inexact
        else some (.fin neg m10 (if e2 ≥ 0 then 0 else e2))
    | _ => none
  else
    let isMant (c : UInt8) := isDigitB c || c == 95
    let ip := body.takeWhile isMant
    let r1 := body.dropWhile isMant
    let (fp, r2) := match r1 with
      | 46 :: r => (r.takeWhile isMant, r.dropWhile isMant)
      | r => ([], r)
    let mantDigits := stripUnderscore (ip ++ fp)
    if mantDigits.isEmpty then none else
    let expPart : Option Int := match r2 with
      | [] => some 0
      | 101 :: r => expDigits r
      | _ => none
    match expPart with
    | none => none
    | some e =>
      if !underscoreOK body then none else
      let sig := mantDigits.dropWhile (· == 48)
      if sig.length > 15 || e > 25 || e < -25 then some .inexact
      else some (.fin neg (digitsVal mantDigits) (e - (stripUnderscore fp).length))

inductive Ord3 | lt | eq | gt
deriving DecidableEq, Repr

def cmpNat (a b : Nat) : Ord3 := if a < b then .lt else if a = b then .eq else .gt
def cmpInt (a b : Int) : Ord3 := if a < b then .lt else if a = b then .eq else .gt

/-- exact comparison of ± m₁·10^e₁ with ± m₂·10^e₂ (−0 = +0) -/
def cmpFin (n1 : Bool) (m1 : Nat) (e1 : Int) (n2 : Bool) (m2 : Nat) (e2 : Int) : Ord3 :=
  let e := min e1 e2
  let a : Int := (m1 * 10 ^ (e1 - e).toNat : Nat)
  let b : Int := (m2 * 10 ^ (e2 - e).toNat : Nat)
  cmpInt (if n1 then -a else a) (if n2 then -b else b)

/-- bytewise order of Go strings -/
def cmpStr : Str → Str → Ord3
  | [], [] => .eq
  | [], _ :: _ => .lt
  | _ :: _, [] => .gt
  | a :: as, b :: bs => if a < b then .lt else if a > b then .gt else cmpStr as bs

def opTruth (table : List (String × Bool × Bool × Bool)) (op : String) (o : Ord3) : Option Bool :=
  match table.find? (·.1 == op) with
  | some (_, l, e, g) => some (match o with | .lt => l | .eq => e | .gt => g)
  | none => none

/-- how two rendered operands are compared: numerically (`some ord` or NaN = `none`) or as text -/
inductive Cmp where
  | numeric (o : Ord3)
  | unordered            -- a NaN is involved and NaN counts as numeric: every comparison is false except !=
  | text (o : Ord3)
  | undetermined
deriving DecidableEq, Repr

def isNumericNum (nanNumeric : Bool) : Option Num → Bool
  | some .nan => nanNumeric
  | some _ => true
  | none => false

def isAsciiStr (s : Str) : Bool := s.all (· < 128)

def compareOperands (nanNumeric : Bool) (l r : Str) : Cmp :=
  let nl := parseNum l
  let nr := parseNum r
  if isNumericNum nanNumeric nl && isNumericNum nanNumeric nr then
    match nl, nr with
    | some .nan, _ => .unordered
    | _, some .nan => .unordered
    | some .inexact, _ => .undetermined
    | _, some .inexact => .undetermined
    | some (.inf a), some (.inf b) => .numeric (if a == b then .eq else if a then .lt else .gt)
    | some (.inf a), _ => .numeric (if a then .lt else .gt)
    | _, some (.inf b) => .numeric (if b then .gt else .lt)
    | some (.fin n1 m1 e1), some (.fin n2 m2 e2) => .numeric (cmpFin n1 m1 e1 n2 m2 e2)
    | _, _ => .undetermined
  else if !(isAsciiStr l && isAsciiStr r) then
    .undetermined          -- strings.ToLower beyond ASCII (special casing, folding) is not modelled
  else
    .text (cmpStr (trimSpace (toLowerAscii l)) (trimSpace (toLowerAscii r)))

/-- The operator functions of binary_expr.go on rendered operands. With NaN every ordered
    comparison and `=` is false, `!=` is the negation of `=`. -/
def applyOpStr (nanNumeric : Bool) (op : String) (l r : Str) : Option Bool :=
  match compareOperands nanNumeric l r with
  | .numeric o => opTruth Generated.Query.opTruthNumeric op o
  | .text o => opTruth Generated.Query.opTruthText op o
  | .unordered => some (op == "!=")
  | .undetermined => none

def Ord3.flip : Ord3 → Ord3
  | .lt => .gt | .eq => .eq | .gt => .lt

/-- order of two fractions A/D and B/D (D > 0) given as cross-multiplied integers, when they are
    further apart than 1e-9 relative to the larger of |A|, |B|, D: the float64 the Go code holds is
    within rounding error (≈1e-13) of the exact fraction, so beyond that margin the float64
    comparison and the exact one agree; inside it the model does not decide -/
def cmpApart (a b : Int) (dd : Nat) : Option Ord3 :=
  let gap := (a - b).natAbs
  let scale := max (max a.natAbs b.natAbs) dd
  if gap * 1000000000 > scale then some (if a < b then .lt else .gt) else none

/-- the float64 n/d against ± m·10^e -/
def cmpFracFin (n : Int) (d : Nat) (neg : Bool) (m : Nat) (e : Int) : Option Ord3 :=
  let sgn (x : Nat) : Int := if neg then -(x : Int) else (x : Int)
  if e ≥ 0 then cmpApart n (sgn (m * 10 ^ e.toNat) * (d : Int)) d
  else cmpApart (n * ((10 ^ (-e).toNat : Nat) : Int)) (sgn m * (d : Int)) (d * 10 ^ (-e).toNat)

/-- A float64 operand (`DateNode.Years`, `Date.Years`: `%v` gives its shortest decimal, which
    `ParseFloat` reads back as the same float64) against a rendered operand: numeric iff the other
    side is numeric; `flip`: the float is the right operand. -/
def applyOpFloat (op : String) (flip : Bool) (n : Int) (d : Nat) (other : Str) : Val :=
  if d == 0 then .someBool else
  let decide (o : Option Ord3) : Val :=
    match o with
    | some o =>
      match opTruth Generated.Query.opTruthNumeric op (if flip then o.flip else o) with
      | some x => .bool x
      | none => .someBool
    | none => .someBool
  match parseNum other with
  | some (.fin neg m e) => decide (cmpFracFin n d neg m e)
  | some (.inf neg) => decide (some (if neg then .gt else .lt))
  | _ => .someBool          -- NaN, beyond the exact number model, or text (compared with the float's decimal text)

def applyOp (op : String) (l r : Val) : Val :=
  match fmtV l, fmtV r with
  | some a, some b =>
    match applyOpStr Generated.Query.nanIsNumeric op a b with
    | some x => .bool x
    | none => .someBool
  | fl, fr =>
    match l, r, fl, fr with
    | .float n d, _, none, some b => applyOpFloat op false n d b
    | _, .float n d, some a, none => applyOpFloat op true n d a
    | .float n d, .float n' d', none, none =>
      if d == 0 || d' == 0 then .someBool else
      match cmpApart (n * (d' : Int)) (n' * (d : Int)) (d * d') with
      | some o => (match opTruth Generated.Query.opTruthNumeric op o with | some x => .bool x | none => .someBool)
      | none => .someBool
    | _, _, _, _ => .someBool     -- operands rendered through fmt's %v of pointers, structs: always a bool, value not modelled

/-! ### Mapping over (nested) slices -/

def Val.isSlice : Val → Bool
  | .slice .. => true
  | _ => false

mutual
/-- `BinaryExpr`/`ObjectExpr` on a slice evaluate every element with the same expression and
    `reflect.Append` the result to a `[]rt`: a nested slice yields a slice, which is not
    assignable to `rt`. -/
def mapDeep (rt : Ty) (f : Val → Outcome Val) : Val → Outcome Val
  | .slice _ _ _ vs => do
    let rs ← mapDeepList rt f vs
    pure (.slice "" rt false rs)
  | v => f v
def mapDeepList (rt : Ty) (f : Val → Outcome Val) : List Val → Outcome (List Val)
  | [] => pure []
  | v :: vs => do
    let r ← mapDeep rt f v
    if r.isSlice then Outcome.panic .appendMismatch else
    let rs ← mapDeepList rt f vs
    pure (r :: rs)
end

/-! ### Functions -/

def funType (name : Str) : String :=
  match Generated.Query.functions.find? (fun f => ascii f.1 == name) with
  | some f => f.2
  | none => ""

/-- "Convert into a slice if needed": `reflect.MakeSlice(reflect.SliceOf(in.Type()), 1, 1)` -/
def wrapSlice (v : Val) : Option (String × Ty × Bool × List Val) :=
  match v with
  | .slice nm e isNil vs => some (nm, e, isNil, vs)
  | v => match v.ty with
    | some t => some ("", t, false, [v])
    | none => none

/-- First: `max >= len → max = len`, then `Slice(0, max)` -/
def firstN (vs : List Val) (max : Int) : Outcome (List Val) :=
  let max := if max ≥ (vs.length : Int) then (vs.length : Int) else max
  if max < 0 then .panic .sliceBounds else .ok (vs.take max.toNat)

/-- Last: `x == 0 → Slice(0,0)`; `start = len - x`, clamped at 0; `Slice(start, len)` -/
def lastN (vs : List Val) (x : Int) : Outcome (List Val) :=
  if x == 0 then .ok [] else
  let l : Int := vs.length
  let start := if l - x < 0 then 0 else l - x
  if start > l then .panic .sliceBounds else .ok (vs.drop start.toNat)

/-- gedcom.NodesWithTagPath below one node -/
def tagPath : List Str → Node → List Node
  | [], n => [n]
  | t :: ts, n => (n.kids.filter (fun k => k.tag == t)).flatMap (tagPath ts)

/-- the `%s` rendering NodesWithTagPath applies to a non-string argument -/
def fmtS : Val → Option Str
  | .str s => some s
  | .int i => some (ascii "%!s(int=" ++ intToDec i ++ ascii ")")
  | .bool b => some (ascii "%!s(bool=" ++ ascii (if b then "true" else "false") ++ ascii ")")
  | .nil => some (ascii "%!s(<nil>)")
  | _ => none

def sortStrs (xs : List Str) : List Str :=
  xs.mergeSort (fun a b => cmpStr a b != .gt)

/-- `?` on a non-slice type: accessors of the pointer type, functions, variables; sorted -/
def questionList (recv : Option String) (vars : List Str) : Outcome Val :=
  let ms : Option (List Str) := match recv with
    | none => some []
    | some r => (Generated.Query.methods.find? (·.1 == r)).map (fun e => e.2.map (fun m => ascii ("." ++ m.1)))
  match ms with
  | none => .unsupported "? on an unmodelled type"
  | some ms =>
    let all := ms ++ Generated.Query.functions.map (fun f => ascii f.1) ++ vars
    .ok (.slice "" .str false ((sortStrs all).map .str))

/-- QuestionMarkExpr.Evaluate on the *type* of the input -/
def questionTy (vars : List Str) : Ty → Outcome Val
  | .slice _ e =>
    -- reflect.Zero(TypeOfSliceElement(input)).Interface(): nil for interface element types
    match e with
    | .nodeI => .panic .nilType
    | .opaque n => if n == "interface {}" then .panic .nilType else .unsupported "? on an unmodelled type"
    | e => questionTy vars e
  | .opaque _ => .unsupported "? on an unmodelled type"
  | .nodeI => .panic .nilType
  | t => questionList (recvOfTy t) vars

/-! ### The evaluator -/

structure Env where
  /-- the current year: `time.Now().Year()` in IndividualNode.IsLiving -/
  now : Nat
  docs : List Forest
  eng : Engine
  /-- names listed by `?`: DocumentN … Document1, then the named statements -/
  varNames : List Str

abbrev Lookup := Str → Val → Outcome Val

/-- the built-in functions, by the Go type that implements them -/
inductive Fn where
  | length | question | first | last | only | combine | tagPath | merge | unknown
deriving DecidableEq, Repr, Inhabited

def fnOfType (t : String) : Fn :=
  if t == "LengthExpr" then .length
  else if t == "QuestionMarkExpr" then .question
  else if t == "FirstExpr" then .first
  else if t == "LastExpr" then .last
  else if t == "OnlyExpr" then .only
  else if t == "CombineExpr" then .combine
  else if t == "NodesWithTagPathExpr" then .tagPath
  else if t == "MergeDocumentsAndIndividualsExpr" then .merge
  else .unknown

/-- `Functions[name]`, through the regenerated table -/
def fnOf (name : Str) : Fn := fnOfType (funType name)

/-- LengthExpr.Evaluate -/
def lengthOf : Val → Val
  | .slice _ _ _ vs => .int vs.length
  | _ => .int 1

/-- QuestionMarkExpr.Evaluate -/
def questionOf (varNames : List Str) (v : Val) : Outcome Val :=
  match v.ty with
  | none => .panic .nilType
  | some t => questionTy varNames t

/-- FirstExpr / LastExpr .Evaluate with exactly one argument; `arg` evaluates it on the input
    (only when the input is neither nil nor a nil slice) -/
def firstLast (isFirst : Bool) (v : Val) (arg : Unit → Outcome Val) : Outcome Val :=
  match wrapSlice v with
  | none => .ok .nil                                   -- input == nil
  | some (nm, e, isNil, vs) =>
    if isNil then .ok .nil else do
    let r ← arg ()
    match fmtV r with
    | none => .unsupported "First/Last argument rendered through %v of a pointer, slice or map"
    | some s =>
      match atoi s with
      | none => .error .atoi
      | some n => do
        let out ← if isFirst then firstN vs n else lastN vs n
        pure (.slice nm e false out)

/-- what OnlyExpr makes of the result of the condition: `result.(bool)` and true -/
def keepIf : Val → Outcome Bool
  | .bool b => .ok b
  | .someBool => .unsupported "Only on a comparison the model does not determine"
  | _ => .ok false

/-- OnlyExpr.Evaluate with exactly one argument; `cond` evaluates it on an element -/
def onlyWith (v : Val) (cond : Val → Outcome Val) : Outcome Val :=
  match v with
  | .slice _ e _ vs =>
    match e with
    | .opaque "interface {}" => .panic .nilType
    | e => do
      let keep ← filterO (fun x => do
        let r ← cond x
        keepIf r) vs
      pure (.slice "" e false keep)
  | _ => .ok .nil

/-- NodesWithTagPathExpr.Evaluate; `args` evaluates the arguments (on a nil input) -/
def tagPathWith (v : Val) (args : Unit → Outcome (List Val)) : Outcome Val :=
  -- `input == nil || in.IsNil()`
  let nillable : Option Bool := match v with
    | .nil => some true
    | .slice _ _ isNil _ => some isNil
    | .nilNode _ => some true
    | .doc _ | .node .. | .raw .. | .map _ => some false
    | _ => none
  match nillable with
  | none => .panic .isNil
  | some true => .ok (.slice "Nodes" .nodeI true [])
  | some false => do
    let argVals ← args ()
    match argVals.mapM fmtS with
    | none => .unsupported "NodesWithTagPath argument rendered through %s of a pointer, slice or map"
    | some tags =>
      let elems := match v with | .slice _ _ _ vs => vs | v => [v]
      let found ← mapO (fun x =>
        match x with
        | .node _ n => pure (if tags.isEmpty then [] else tagPath tags n)
        | .raw _ n => pure (if tags.isEmpty then [] else tagPath tags n)
        | .nilNode _ => pure []                -- gedcom.NodesWithTagPath: IsNil(node) → nil
        | _ => Outcome.panic .notANode) elems
      let ns := found.flatten
      -- `var results gedcom.Nodes` stays nil until something is appended
      let d := match elems with | .node d _ :: _ => d | .raw d _ :: _ => d | _ => 0
      pure (.slice "Nodes" .nodeI ns.isEmpty (ns.map (.node d)))

/-- MergeDocumentsAndIndividualsExpr.Evaluate with two arguments (evaluated on a nil input) -/
def mergeWith (a b : Unit → Outcome Val) : Outcome Val := do
  let x ← a ()
  match x with
  | .doc _ => do
    let y ← b ()
    match y with
    | .doc _ => .unsupported "MergeDocumentsAndIndividuals of two documents"
    | _ => .error .notDocument
  | _ => .error .notDocument

/-- the operands of a BinaryExpr on one (non-slice) input -/
def binaryOn (op : String) (l r : Val → Outcome Val) (x : Val) : Outcome Val := do
  let a ← l x
  let b ← r x
  pure (applyOp op a b)

mutual
/-- Expression.Evaluate -/
def evalExpr (env : Env) (lk : Lookup) : Expr → Val → Outcome Val
  | .const s, _ => .ok (.str s)
  | .acc q, v => evalAccessor env.now env.docs q v
  | .var n, v => lk n v
  | .question, v => questionOf env.varNames v
  | .obj fs, v =>
    mapDeep .map (fun x => do
      let kvs ← evalFields env lk fs x      -- keys are distinct and sorted (normFields)
      pure (.map kvs)) v
  | .bin l op r, v => mapDeep .bool (binaryOn op (evalExpr env lk l) (evalExpr env lk r)) v
  | .call f args, v =>
    match fnOf f with
    | .length => .ok (lengthOf v)
    | .question => questionOf env.varNames v
    | .first =>
      match args with
      | [a] => firstLast true v (fun _ => evalStmt env lk a v)
      | _ => .error .argCount
    | .last =>
      match args with
      | [a] => firstLast false v (fun _ => evalStmt env lk a v)
      | _ => .error .argCount
    | .only =>
      match args with
      | [c] => onlyWith v (fun x => evalStmt env lk c x)
      | _ => .error .argCount
    | .combine =>
      match args with
      | [] => .ok .nil
      | a :: rest => do
        -- args[0] is evaluated, its type makes the result slice, then every argument
        -- (the first one again, with the same result) is appended
        let first ← evalStmt env lk a v
        match first with
        | .slice nm e _ firstVals => do
          let all ← evalCombine env lk e rest v firstVals
          pure (.slice nm e false all)
        | .nil => .panic .nilType
        | _ => .panic .makeSlice
    | .tagPath => tagPathWith v (fun _ => evalArgs env lk args .nil)
    | .merge =>
      match args with
      | [a, b] => mergeWith (fun _ => evalStmt env lk a .nil) (fun _ => evalStmt env lk b .nil)
      | _ => .error .argCount
    | .unknown => .unsupported "function missing from the model"

/-- Statement.Evaluate: the pipe — each expression receives the result of the previous one -/
def evalPipe (env : Env) (lk : Lookup) : List Expr → Val → Outcome Val
  | [], v => .ok v
  | e :: es, v => do
    let r ← evalExpr env lk e v
    evalPipe env lk es r

def evalStmt (env : Env) (lk : Lookup) : Stmt → Val → Outcome Val
  | .mk _ es, v => evalPipe env lk es v

def evalArgs (env : Env) (lk : Lookup) : List Stmt → Val → Outcome (List Val)
  | [], _ => .ok []
  | s :: ss, v => do
    let r ← evalStmt env lk s v
    let rs ← evalArgs env lk ss v
    pure (r :: rs)

/-- the loop of CombineExpr: evaluate the next argument, `reflect.AppendSlice` it -/
def evalCombine (env : Env) (lk : Lookup) (e : Ty) : List Stmt → Val → List Val → Outcome (List Val)
  | [], _, acc => .ok acc
  | s :: ss, v, acc => do
    let r ← evalStmt env lk s v
    match r with
    | .slice _ e' _ vs => if e' == e then evalCombine env lk e ss v (acc ++ vs) else Outcome.panic .appendSlice
    | _ => Outcome.panic .appendSlice

def evalFields (env : Env) (lk : Lookup) : List (Str × Stmt) → Val → Outcome (List (Str × Val))
  | [], _ => .ok []
  | (k, s) :: ss, v => do
    let r ← evalStmt env lk s v
    let rs ← evalFields env lk ss v
    pure ((k, r) :: rs)
end

/-! ### Variables and `Engine.Evaluate` -/

def docVarName (i : Nat) : Str := ascii "Document" ++ natToDec (i + 1)

/-- `StatementByVariableName` on the statement list after `Evaluate` has prepended
    `DocumentN … Document1`: the document variables shadow user definitions of the same name,
    among user statements the first one wins. -/
inductive Binding where
  | document (i : Nat)
  | stmt (s : Stmt)

def lookupVar (nDocs : Nat) (eng : Engine) (x : Str) : Option Binding :=
  match (List.range nDocs).find? (fun i => docVarName i == x) with
  | some i => some (.document i)
  | none => (eng.find? (fun s => s.name == x)).map .stmt

/-- VariableExpr.Evaluate.  `fuel` bounds the depth of nested variable evaluations (Go has no
    bound: unbounded depth is a stack overflow); with the cycle guard a variable that is already
    being evaluated is an error. -/
def evalVar (env : Env) (guard : Bool) : Nat → List Str → Lookup
  | 0, _, _, _ => .diverged
  | fuel + 1, active, x, v =>
    match lookupVar env.docs.length env.eng x with
    | none => .error .noSuchVariable
    | some (.document i) => .ok (.doc i)
    | some (.stmt s) =>
      if guard && active.contains x then .error .cycle
      else evalStmt env (evalVar env guard fuel (x :: active)) s v

def mkEnv (now : Nat) (docs : List Forest) (eng : Engine) : Env :=
  { now := now, docs := docs, eng := eng,
    varNames := ((List.range docs.length).reverse.map docVarName) ++ (eng.map Stmt.name).filter (!·.isEmpty) }

/-- The loop of `Engine.Evaluate`: every statement is evaluated on the first document, in order;
    the first failure ends the evaluation; the value is that of the last statement. -/
def evalAll (env : Env) (lk : Lookup) : List Stmt → Val → Outcome Val
  | [], last => .ok last
  | s :: ss, _ => do
    let r ← evalStmt env lk s (.doc 0)
    evalAll env lk ss r

/-- `Engine.Evaluate` without the recover.  The document statements are prepended for this
    evaluation only: Evaluate puts `Engine.Statements` back when it returns (also on an error), so
    the result is a function of the parsed program and the documents — evaluating a compiled
    query again gives what a freshly compiled one gives (tied by the engine-state stream of C16). -/
def evalRaw (now : Nat) (guard : Bool) (fuel : Nat) (docs : List Forest) (eng : Engine) : Outcome Val :=
  if docs.isEmpty then .panic .noDocuments else
  let env := mkEnv now docs eng
  evalAll env (evalVar env guard fuel []) eng (.doc 0)

/-- the deferred recover of `Engine.Evaluate`, present iff `recovers` -/
def recoverOutcome (recovers : Bool) : Outcome Val → Outcome Val
  | .panic p => if recovers then .error (.recovered p) else .panic p
  | o => o

def evalTopWith (now : Nat) (recovers guard : Bool) (fuel : Nat) (docs : List Forest) (eng : Engine) : Outcome Val :=
  recoverOutcome recovers (evalRaw now guard fuel docs eng)

/-- where the deferred recover sits relative to `documents[0]`: the index panic of an empty
    document list is an error only if the recover is already installed when the first document is
    taken (`coversNoDocs`, regenerated by a probe with a nil and an empty list) -/
def recoverNoDocs (coversNoDocs : Bool) : Outcome Val → Outcome Val
  | .error (.recovered .noDocuments) => if coversNoDocs then .error (.recovered .noDocuments) else .panic .noDocuments
  | o => o

/-- what `Engine.Evaluate` returns for the raw outcome of its body (both recover flags regenerated) -/
def topOf (raw : Outcome Val) : Outcome Val :=
  recoverNoDocs Generated.Query.evaluateRecoversNoDocuments (recoverOutcome Generated.Query.evaluateRecovers raw)

/-- `Engine.Evaluate` of the current tree: the flags are regenerated from the code. -/
def evalTop (now : Nat) (fuel : Nat) (docs : List Forest) (eng : Engine) : Outcome Val :=
  recoverNoDocs Generated.Query.evaluateRecoversNoDocuments
    (evalTopWith now Generated.Query.evaluateRecovers Generated.Query.cycleGuard fuel docs eng)

/-- enough fuel for every program whose variable definitions are acyclic (and, with the cycle
    guard, for every program): one level per statement plus the document variables -/
def defaultFuel (docs : List Forest) (eng : Engine) : Nat := eng.length + docs.length + 2

/-! ### the menu against the reflected method tables

  `Generated.Query.methods` lists every method reflection finds on every receiver type (regenerated
  on each run).  `menuHas` asks `callMenu` itself (on a probe receiver of the type) whether it
  evaluates the method; `outsideMenu` is the explicit list of niladic methods with a result that the
  model leaves to the direct oracle, with the reason.  `C15.menu_classifies_reflected_methods`:
  every reflected niladic method is in one of the two — a new exported method of a node type
  fails that obligation until it is modelled or declared — and no declaration is stale. -/

def tagOfKind (recv : String) : Str :=
  match Generated.kindTable.find? (fun e => e.2 == recv) with
  | some e => ascii e.1
  | none => ascii "ZZ"

def probeVal (recv : String) : Val :=
  if recv == "Document" then .doc 0
  else if recv == "Tag" then .tag []
  else if recv == "Date" then .date zeroDate false
  else .node 0 (.mk (tagOfKind recv) [] [] [])

def menuHas (recv m : String) : Bool := (callMenu 0 [] recv m (probeVal recv)).isSome

def outsideMenu : List (String × String) := [
  ("Places", "map keyed by node pointers"),
  ("Warnings", "gedcom.Warning values"),
  ("Time", "time.Time"),
  ("MarshalJSON", "[]byte of the JSON text"),
  ("Family", "the family a HUSB/WIFE/CHIL node belongs to (parent link)"),
  ("Father", "parent link"),
  ("Mother", "parent link"),
  ("DateRange", "gedcom.DateRange struct (unexported fields)"),
  ("ShallowCopy", "IndividualNode / FamilyNode: adds the copy to the document"),
  ("Age", "gedcom.Age struct"),
  ("Children", "IndividualNode: children over all families"),
  ("FamilySearchIDs", "tags from FamilySearchIDNodeTags"),
  ("FamilyWithUnknownSpouse", "family lookup"),
  ("SpouseChildren", "map"),
  ("UniqueIdentifiers", "*StringSet"),
  ("GedcomName", "NameNode.Format"),
  ("Type", "NameType, a named string type"),
  ("Checksum", "UUID arithmetic"),
  ("UUID", "gedcom.UUID")]

/-- niladic (callable from a query) with at least one result -/
def callable (m : String × Nat × Nat × Ty) : Bool := m.2.1 == 0 && m.2.2.1 != 0

def menuClassified : Bool :=
  Generated.Query.methods.all (fun e => e.2.all (fun m =>
    !callable m || menuHas e.1 m.1 || outsideMenu.any (·.1 == m.1)))

def outsideMenuExact : Bool :=
  outsideMenu.all (fun o => Generated.Query.methods.any (fun e => e.2.any (fun m =>
    m.1 == o.1 && callable m && !menuHas e.1 m.1)))

/-- how many callable methods the tables list, and how many of them the menu evaluates -/
def menuCounts : Nat × Nat :=
  let all := Generated.Query.methods.flatMap (fun e => (e.2.filter callable).map (fun m => (e.1, m.1)))
  (all.length, (all.filter (fun p => menuHas p.1 p.2)).length)

/-! ### JSON and the formatters -/

inductive J where
  | null | bool (b : Bool) | num (i : Int) | frac (num : Int) (den : Nat) | str (s : Str)
  | arr (xs : List J) | obj (fs : List (Str × J))
deriving Repr, Inhabited

mutual
/-- SimpleNode.ObjectMap / MarshalJSON -/
def nodeJ : Node → J
  | .mk t v p ks =>
    .obj ((if ks.isEmpty then [] else [(ascii "Nodes", J.arr (nodesJ ks))])
      ++ (if p.isEmpty then [] else [(ascii "Pointer", J.str p)])
      ++ [(ascii "Tag", J.str t)]
      ++ (if v.isEmpty then [] else [(ascii "Value", J.str v)]))
def nodesJ : List Node → List J
  | [] => []
  | n :: ns => nodeJ n :: nodesJ ns
end

mutual
/-- encoding/json of a result; `none`: the model does not determine the content -/
def toJ : Val → Option J
  | .nil => some .null
  | .str s => some (.str s)
  | .int i => some (.num i)
  | .bool b => some (.bool b)
  | .float n d => some (.frac n d)
  | .someBool => none
  | .doc _ => none
  | .node _ n => some (nodeJ n)
  | .nilNode _ => some .null
  | .tag _ => some (.obj [])          -- a struct without exported fields
  | .raw _ n => some (nodeJ n)
  | .named _ i => some (.num i)
  | .date p isEnd =>
    -- ParseError is an `error`: nil → null; a *time.ParseError has exported fields (not modelled)
    if p.parseError then none
    else some (.obj [(ascii "Constraint", .num p.constraint.toNat), (ascii "Day", .num p.day), (ascii "IsEndOfRange", .bool isEnd),
      (ascii "Month", .num p.month), (ascii "ParseError", .null), (ascii "Year", .num p.year)])
  | .slice _ _ isNil vs => if isNil then some .null else (toJs vs).map .arr
  | .map fs => (toJfs fs).map .obj
def toJs : List Val → Option (List J)
  | [] => some []
  | v :: vs => do
    let j ← toJ v
    let js ← toJs vs
    pure (j :: js)
def toJfs : List (Str × Val) → Option (List (Str × J))
  | [] => some []
  | (k, v) :: vs => do
    let j ← toJ v
    let js ← toJfs vs
    pure ((k, j) :: js)
end

inductive FmtOutcome | written | error | panic
deriving DecidableEq, Repr, Inhabited

def FmtOutcome.cls : FmtOutcome → String
  | .written => "written" | .error => "error" | .panic => "panic"

/-- code facts of the formatters: do GEDCOMFormatter/HTMLFormatter call `IsNil` on values of
    every kind, and does CSVFormatter call ObjectMap on a nil pointer -/
structure FmtFlags where
  isNilPanics : Bool      -- gedcom.IsNil(result) with a string, number, bool or struct
  csvNilPanics : Bool     -- prepareLine calls ObjectMap() on a typed nil pointer

def Val.nonNillable : Val → Bool
  | .str _ | .int _ | .bool _ | .float _ _ | .someBool | .tag _ | .date _ _ | .named _ _ => true
  | _ => false

def Val.isNilLike : Val → Bool
  | .nil | .nilNode _ => true
  | .slice _ _ isNil _ => isNil
  | _ => false

mutual
/-- GEDCOMFormatter.Write -/
def fmtGedcom (fl : FmtFlags) : Val → FmtOutcome
  | .slice _ _ isNil vs => if isNil then .written else fmtGedcomList fl vs
  | v =>
    if v.nonNillable then (if fl.isNilPanics then .panic else .error)
    else if v.isNilLike then .written
    else match v with
      | .node .. | .raw .. | .doc _ => .written          -- GEDCOMStringer
      | _ => .error
def fmtGedcomList (fl : FmtFlags) : List Val → FmtOutcome
  | [] => .written
  | v :: vs =>
    match fmtGedcom fl v with
    | .written => fmtGedcomList fl vs
    | o => o
end

mutual
/-- HTMLFormatter.Write (no modelled value is a core.Component; the fallback is pretty JSON) -/
def fmtHtml (fl : FmtFlags) : Val → FmtOutcome
  | .slice _ _ isNil vs => if isNil then .written else fmtHtmlList fl vs
  | v => if v.nonNillable && fl.isNilPanics then .panic else .written
def fmtHtmlList (fl : FmtFlags) : List Val → FmtOutcome
  | [] => .written
  | v :: vs =>
    match fmtHtml fl v with
    | .written => fmtHtmlList fl vs
    | o => o
end

/-- CSVFormatter.Write: a header from the first element, one line per element -/
def fmtCsv (fl : FmtFlags) : Val → FmtOutcome
  | .slice _ _ _ vs =>
    if fl.csvNilPanics && vs.any (fun v => match v with | .nilNode k => k != "SimpleNode" | _ => false) then .panic
    else .written
  | _ => .error

def formatOutcome (fl : FmtFlags) (format : String) (v : Val) : FmtOutcome :=
  match format with
  | "json" | "pretty-json" => .written
  | "csv" => fmtCsv fl v
  | "gedcom" => fmtGedcom fl v
  | "html" => fmtHtml fl v
  | _ => .error

end Gedcom.Q
