/-
  C05, the float64 clause: "the fractional-year value … is strictly increasing from each day to
  the next" — proved here about the binary64 values themselves (Model/Float64.lean: round to
  nearest, ties to even, executed by the driver and compared bit for bit with Go's float64 on
  every date), not about exact fractions.  The argument: every rounding moves a value below 2^14
  by at most 2^-40, `Years()` of a full date takes two roundings, and two consecutive days are
  at least 1/367 apart.

  Proof module: Mathlib tactics over ℚ (linarith, field_simp, positivity, norm_num); the model
  and the lemmas it rests on are core Lean.
-/
import Mathlib.Tactic.Linarith
import Mathlib.Tactic.FieldSimp
import Mathlib.Tactic.Positivity
import Mathlib.Tactic.NormNum
import Mathlib.Tactic.Ring
import Mathlib.Tactic.GCongr
import Mathlib.Algebra.Order.Field.Basic
import Mathlib.Algebra.Order.Ring.Abs
import Mathlib.Data.Rat.Cast.Order
import Gedcom.Lemmas.Float64
import Gedcom.Props.C05
namespace Gedcom.C05
open Gedcom Gedcom.F64

/-- the exact value of a binary64 of the model -/
def toQ (x : Dbl) : ℚ := (x.mant : ℚ) / 2 ^ x.frac

theorem lt_iff_toQ (a b : Dbl) : F64.lt a b ↔ toQ a < toQ b := by
  unfold F64.lt toQ
  rw [div_lt_div_iff₀ (by positivity) (by positivity)]
  exact_mod_cast Iff.rfl

/-- one rounding: a value below `2^e` moves by at most `2^e / 2^54` (half a unit in the last of
    its 53 significant bits) -/
theorem rnd_err (n d e : Nat) (hn : 0 < n) (hd : 0 < d) (hd' : d ≤ 2 ^ 1000)
    (h : (n : ℚ) / d < 2 ^ e) :
    |toQ (rnd n d) - (n : ℚ) / d| * 2 ^ 54 ≤ 2 ^ e := by
  have hdq : (0 : ℚ) < d := by exact_mod_cast hd
  have hN : n < 2 ^ e * d := by
    have := (div_lt_iff₀ hdq).mp h
    exact_mod_cast this
  have hk := fracBits_ok n d hn hd'
  have hlow := scale_lower n d _ e hd hN hk
  obtain ⟨h1, h2⟩ := roundDiv_err n d (fracBits n d) hd
  unfold rnd toQ
  rw [if_neg (by omega)]
  simp only
  generalize fracBits n d = k at *
  generalize roundDiv n d k = q at *
  have h1' : (2 : ℚ) * (n * 2 ^ k) ≤ 2 * (q * d) + d := by exact_mod_cast h1
  have h2' : (2 : ℚ) * (q * d) ≤ 2 * (n * 2 ^ k) + d := by exact_mod_cast h2
  have hpk : (0 : ℚ) < 2 ^ k := by positivity
  have key : |(q : ℚ) / 2 ^ k - n / d| ≤ 1 / (2 * 2 ^ k) := by
    have e1 : (q : ℚ) / 2 ^ k - n / d = (q * d - n * 2 ^ k) / (2 ^ k * d) := by
      field_simp
    rw [e1, abs_div, abs_of_pos (by positivity : (0 : ℚ) < 2 ^ k * d),
      div_le_div_iff₀ (by positivity) (by positivity)]
    have hab : |(q : ℚ) * d - n * 2 ^ k| ≤ d / 2 := by
      rw [abs_le]; constructor <;> linarith
    calc |(q : ℚ) * d - n * 2 ^ k| * (2 * 2 ^ k) ≤ (d / 2) * (2 * 2 ^ k) :=
          mul_le_mul_of_nonneg_right hab (by positivity)
      _ = 1 * (2 ^ k * d) := by ring
  calc |(q : ℚ) / 2 ^ k - n / d| * 2 ^ 54 ≤ 1 / (2 * 2 ^ k) * 2 ^ 54 :=
        mul_le_mul_of_nonneg_right key (by positivity)
    _ = 2 ^ 54 / 2 ^ (k + 1) := by rw [pow_succ]; ring
    _ ≤ 2 ^ e := by
        rw [div_le_iff₀ (by positivity), ← pow_add]
        exact pow_le_pow_right₀ (by norm_num) (by omega)

/-- `Years()` of a full date (two roundings) is within `(2^14 + 1) / 2^54` of the exact
    fraction `y + yd / diy` -/
theorem yearsOf_err (y yd diy : Nat) (hy : 1 ≤ y) (hy' : y ≤ 9999) (h1 : 1 ≤ yd) (h2 : yd < diy)
    (h3 : diy ≤ 367) :
    |toQ (yearsOf y yd diy) - ((y : ℚ) + (yd : ℚ) / diy)| * 2 ^ 54 ≤ 2 ^ 14 + 1 := by
  have hdiy : (0 : ℚ) < diy := by exact_mod_cast (by omega : 0 < diy)
  -- first rounding: the quotient, a value below one
  have hlt1 : (yd : ℚ) / diy < 2 ^ 0 := by
    rw [pow_zero, div_lt_one hdiy]; exact_mod_cast h2
  have e1 := rnd_err yd diy 0 (by omega) (by omega)
    (le_trans h3 (le_trans (by norm_num : (367 : ℕ) ≤ 2 ^ 9) (Nat.pow_le_pow_right (by omega) (by omega)))) hlt1
  -- its scale is at most 61 bits
  have hk1 : fracBits yd diy ≤ 61 := by
    apply fracBits_le
    calc 2 ^ 52 * diy ≤ 2 ^ 52 * 2 ^ 9 := Nat.mul_le_mul_left _ (by omega)
      _ = 1 * 2 ^ 61 := by norm_num
      _ ≤ yd * 2 ^ 61 := Nat.mul_le_mul_right _ h1
  have hdiv : div (ofNat yd) (ofNat diy) = rnd yd diy := by
    simp [div, ofNat]
  unfold yearsOf
  rw [hdiv]
  have hfrac : (rnd yd diy).frac = fracBits yd diy := by
    unfold rnd; rw [if_neg (by omega)]
  generalize hf : rnd yd diy = f at *
  have hadd : add (ofNat y) f = rnd (y * 2 ^ f.frac + f.mant) (2 ^ f.frac) := by
    simp [add, ofNat]
  rw [hadd]
  have hpk : (0 : ℚ) < 2 ^ f.frac := by positivity
  have hsum : ((y * 2 ^ f.frac + f.mant : ℕ) : ℚ) / ((2 ^ f.frac : ℕ) : ℚ) = (y : ℚ) + toQ f := by
    unfold toQ; push_cast; field_simp
  have hf1 : |toQ f - (yd : ℚ) / diy| ≤ 1 / 2 ^ 54 := by
    rw [le_div_iff₀ (by positivity)]; simpa using e1
  have hq1 : (yd : ℚ) / diy < 1 := by simpa using hlt1
  have hq0 : (0 : ℚ) ≤ (yd : ℚ) / diy := by positivity
  have hfub : toQ f < 2 := by
    have := (abs_le.mp hf1).2
    have : (1 : ℚ) / 2 ^ 54 < 1 := by norm_num
    linarith
  have hyq : (y : ℚ) ≤ 9999 := by exact_mod_cast hy'
  have hlt2 : ((y * 2 ^ f.frac + f.mant : ℕ) : ℚ) / ((2 ^ f.frac : ℕ) : ℚ) < 2 ^ 14 := by
    rw [hsum]; norm_num; linarith
  have hpos : 0 < y * 2 ^ f.frac + f.mant :=
    Nat.add_pos_left (Nat.mul_pos (by omega) (Nat.two_pow_pos _)) _
  have hden : 2 ^ f.frac ≤ 2 ^ 1000 := Nat.pow_le_pow_right (by omega) (by omega)
  have e2 := rnd_err (y * 2 ^ f.frac + f.mant) (2 ^ f.frac) 14 hpos (Nat.two_pow_pos _) hden hlt2
  rw [hsum] at e2
  have hf2 : |toQ (rnd (y * 2 ^ f.frac + f.mant) (2 ^ f.frac)) - ((y : ℚ) + toQ f)| ≤
      2 ^ 14 / 2 ^ 54 := by
    rw [le_div_iff₀ (by positivity)]; exact e2
  generalize toQ (rnd (y * 2 ^ f.frac + f.mant) (2 ^ f.frac)) = g at *
  have habs : |g - ((y : ℚ) + (yd : ℚ) / diy)| ≤ (2 ^ 14 + 1) / 2 ^ 54 := by
    have a1 := abs_le.mp hf1
    have a2 := abs_le.mp hf2
    rw [abs_le]; constructor <;> [skip; skip] <;> (rw [add_div]; linarith [a1.1, a1.2, a2.1, a2.2])
  rw [le_div_iff₀ (by positivity)] at habs
  exact habs

/-- two values that are each within `(2^14+1)/2^54` of exact values at least `1/367` apart are
    strictly ordered -/
theorem lt_of_gap (fa fb xa xb : ℚ) (ea : |fa - xa| * 2 ^ 54 ≤ 2 ^ 14 + 1)
    (eb : |fb - xb| * 2 ^ 54 ≤ 2 ^ 14 + 1) (g : xa + 1 / 367 ≤ xb) : fa < fb := by
  have ea' : |fa - xa| ≤ (2 ^ 14 + 1) / 2 ^ 54 := by rw [le_div_iff₀ (by positivity)]; exact ea
  have eb' : |fb - xb| ≤ (2 ^ 14 + 1) / 2 ^ 54 := by rw [le_div_iff₀ (by positivity)]; exact eb
  have a1 := abs_le.mp ea'
  have b1 := abs_le.mp eb'
  have : (2 : ℚ) * ((2 ^ 14 + 1) / 2 ^ 54) < 1 / 367 := by norm_num
  linarith [a1.2, b1.1]

/-- calendar order of two full dates in terms of year and day of the year -/
theorem full_order_cases (a b : Date) (ha : Full a) (hb : Full b) (h : a.firstDay < b.firstDay) :
    a.year < b.year ∨
    (a.year = b.year ∧ yearDay a.year a.month a.day < yearDay b.year b.month b.day) := by
  rw [full_firstDay a ha, full_firstDay b hb] at h
  obtain ⟨a1, a2, a3, a4⟩ := ha
  obtain ⟨b1, b2, b3, b4⟩ := hb
  have hya := yearDay_bounds a.year a.month a.day a1 a2 (by omega) a4
  have hyb := yearDay_bounds b.year b.month b.day b1 b2 (by omega) b4
  unfold dayNumber at h
  unfold yearDay at hya hyb ⊢
  by_cases hlt : a.year < b.year
  · left; exact hlt
  · by_cases heq : a.year = b.year
    · right; refine ⟨heq, ?_⟩; rw [heq] at h ⊢; omega
    · exfalso
      have hm := daysBeforeYear_mono (y1 := (b.year : Int) + 1) (y2 := a.year) (by omega)
      have hs := daysBeforeYear_succ b.year
      omega

/-- what the model computes for a full date, with day of the year and year length as naturals -/
theorem years_full (a : Date) (ha : Full a) (hy : 1 ≤ a.year) :
    ∃ yd diy : Nat, F64.years a = yearsOf a.year yd diy ∧
      (yd : Int) = yearDay a.year a.month a.day ∧ (diy : Int) = daysInYear a.year + 1 ∧
      1 ≤ yd ∧ yd < diy ∧ diy ≤ 367 := by
  obtain ⟨a1, a2, a3, a4⟩ := ha
  have hyd := yearDay_bounds a.year a.month a.day a1 a2 (by omega) a4
  refine ⟨(yearDay a.year a.month a.day).toNat, (daysInYear a.year).toNat + 1, ?_, ?_, ?_, ?_, ?_, ?_⟩
  · unfold F64.years yearsFull
    rw [if_neg (by omega), if_neg (by omega), if_neg (by omega)]
  · omega
  · rcases daysInYear_cases (a.year : Int) with e | e <;> rw [e] <;> rfl
  · omega
  · rcases daysInYear_cases (a.year : Int) with e | e <;> rw [e] at hyd ⊢ <;> omega
  · rcases daysInYear_cases (a.year : Int) with e | e <;> rw [e] <;> decide

/-- **The binary64 value of `Years()` is strictly increasing in calendar order**, for every pair
    of full dates of the years 1..9999 (in particular from each day to the next): the statement
    is about the rounded values the implementation compares, not about exact fractions. -/
theorem years_float64_strict_mono (a b : Date) (ha : Full a) (hb : Full b)
    (hya : 1 ≤ a.year) (hyb : b.year ≤ 9999) (h : a.firstDay < b.firstDay) :
    F64.lt (F64.years a) (F64.years b) := by
  have hord := full_order_cases a b ha hb h
  have hya' : a.year ≤ 9999 := by omega
  have hyb' : 1 ≤ b.year := by omega
  obtain ⟨yda, Da, ea, hyda, hDa, a1, a2, a3⟩ := years_full a ha hya
  obtain ⟨ydb, Db, eb, hydb, hDb, b1, b2, b3⟩ := years_full b hb hyb'
  rw [ea, eb, lt_iff_toQ]
  have erra := yearsOf_err a.year yda Da hya hya' a1 a2 a3
  have errb := yearsOf_err b.year ydb Db hyb' hyb b1 b2 b3
  refine lt_of_gap _ _ _ _ erra errb ?_
  have hDa0 : (0 : ℚ) < Da := by exact_mod_cast (by omega : 0 < Da)
  have hDb0 : (0 : ℚ) < Db := by exact_mod_cast (by omega : 0 < Db)
  have hDa367 : (Da : ℚ) ≤ 367 := by exact_mod_cast a3
  have hDb367 : (Db : ℚ) ≤ 367 := by exact_mod_cast b3
  have hb1q : (1 : ℚ) ≤ ydb := by exact_mod_cast b1
  rcases hord with hlt | ⟨heq, hyd⟩
  · -- a later year: the last day of a year is below year + 1 - 1/Da, the first above year + 1/Db
    have hyq : (a.year : ℚ) + 1 ≤ b.year := by exact_mod_cast hlt
    have h1 : (yda : ℚ) / Da ≤ 1 - 1 / Da := by
      rw [div_le_iff₀ hDa0]; field_simp
      have : (yda : ℚ) + 1 ≤ Da := by exact_mod_cast a2
      linarith
    have h2 : (1 : ℚ) / 367 ≤ 1 / Da := one_div_le_one_div_of_le hDa0 hDa367
    have h3 : (0 : ℚ) ≤ (ydb : ℚ) / Db := by positivity
    linarith
  · -- the same year: the days of the year differ by at least one, the year length is the same
    have hD : Da = Db := by
      have : (Da : Int) = Db := by rw [hDa, hDb, heq]
      exact_mod_cast this
    have hlt : yda + 1 ≤ ydb := by
      have : (yda : Int) < ydb := by rw [hyda, hydb]; rw [heq] at hyd ⊢; exact hyd
      omega
    subst hD
    have hq : (yda : ℚ) + 1 ≤ ydb := by exact_mod_cast hlt
    have hyq : (a.year : ℚ) = b.year := by exact_mod_cast heq
    have h2 : (1 : ℚ) / 367 ≤ 1 / Da := one_div_le_one_div_of_le hDa0 hDa367
    have h4 : (yda : ℚ) / Da + 1 / Da ≤ (ydb : ℚ) / Da := by
      rw [← add_div]; exact div_le_div_of_nonneg_right hq hDa0.le
    linarith

/-- non-vacuity: 28 Feb 1900 and 1 Mar 1900 (1900 is not a leap year) meet the hypotheses -/
example : Full ⟨28, 2, 1900⟩ ∧ Full ⟨1, 3, 1900⟩ ∧
    (⟨28, 2, 1900⟩ : Date).firstDay < (⟨1, 3, 1900⟩ : Date).firstDay := by
  unfold Full; decide

end Gedcom.C05
