/-
  C05, the float64 clause: "the fractional-year value … is strictly increasing from each day to
  the next" — proved here about the binary64 values themselves (Model/Float64.lean: round to
  nearest, ties to even, executed by the driver and compared bit for bit with Go's float64 on
  every date), not about exact fractions.  The argument: every rounding moves a value below 2^14
  by at most 2^-40, `Years()` of a full date takes two roundings, and two consecutive days are
  at least 1/367 apart.

  Proof module: Mathlib tactics over ℚ (linarith, field_simp, positivity, norm_num); the model
  and the lemmas it rests on are core Lean.
-/
import Mathlib.Tactic.Linarith
import Mathlib.Tactic.FieldSimp
import Mathlib.Tactic.Positivity
import Mathlib.Tactic.NormNum
import Mathlib.Tactic.Ring
import Mathlib.Tactic.GCongr
import Mathlib.Algebra.Order.Field.Basic
import Mathlib.Algebra.Order.Ring.Abs
import Mathlib.Data.Rat.Cast.Order
import Gedcom.Lemmas.Float64
import Gedcom.Props.C05
namespace Gedcom.C05
open Gedcom Gedcom.F64

/-- the exact value of a binary64 of the model -/
def toQ (x : Dbl) : ℚ := (x.mant : ℚ) / 2 ^ x.frac

theorem lt_iff_toQ (a b : Dbl) : F64.lt a b ↔ toQ a < toQ b := by
  unfold F64.lt toQ
  rw [div_lt_div_iff₀ (by positivity) (by positivity)]
  exact_mod_cast Iff.rfl

/-- one rounding: a value below `2^e` moves by at most `2^e / 2^54` (half a unit in the last of
    its 53 significant bits) -/
theorem rnd_err (n d e : Nat) (hn : 0 < n) (hd : 0 < d) (hd' : d ≤ 2 ^ 1000)
    (h : (n : ℚ) / d < 2 ^ e) :
    |toQ (rnd n d) - (n : ℚ) / d| * 2 ^ 54 ≤ 2 ^ e := by
  have hdq : (0 : ℚ) < d := by exact_mod_cast hd
  have hN : n < 2 ^ e * d := by
    have := (div_lt_iff₀ hdq).mp h
    exact_mod_cast this
  have hk := fracBits_ok n d hn hd'
  have hlow := scale_lower n d _ e hd hN hk
  obtain ⟨h1, h2⟩ := roundDiv_err n d (fracBits n d) hd
  unfold rnd toQ
  rw [if_neg (by omega)]
  simp only
  generalize fracBits n d = k at *
  generalize roundDiv n d k = q at *
  have h1' : (2 : ℚ) * (n * 2 ^ k) ≤ 2 * (q * d) + d := by exact_mod_cast h1
  have h2' : (2 : ℚ) * (q * d) ≤ 2 * (n * 2 ^ k) + d := by exact_mod_cast h2
  have hpk : (0 : ℚ) < 2 ^ k := by positivity
  have key : |(q : ℚ) / 2 ^ k - n / d| ≤ 1 / (2 * 2 ^ k) := by
    have e1 : (q : ℚ) / 2 ^ k - n / d = (q * d - n * 2 ^ k) / (2 ^ k * d) := by
      field_simp
    rw [e1, abs_div, abs_of_pos (by positivity : (0 : ℚ) < 2 ^ k * d),
      div_le_div_iff₀ (by positivity) (by positivity)]
    have hab : |(q : ℚ) * d - n * 2 ^ k| ≤ d / 2 := by
      rw [abs_le]; constructor <;> linarith
    calc |(q : ℚ) * d - n * 2 ^ k| * (2 * 2 ^ k) ≤ (d / 2) * (2 * 2 ^ k) :=
          mul_le_mul_of_nonneg_right hab (by positivity)
      _ = 1 * (2 ^ k * d) := by ring
  calc |(q : ℚ) / 2 ^ k - n / d| * 2 ^ 54 ≤ 1 / (2 * 2 ^ k) * 2 ^ 54 :=
        mul_le_mul_of_nonneg_right key (by positivity)
    _ = 2 ^ 54 / 2 ^ (k + 1) := by rw [pow_succ]; ring
    _ ≤ 2 ^ e := by
        rw [div_le_iff₀ (by positivity), ← pow_add]
        exact pow_le_pow_right₀ (by norm_num) (by omega)

/-- `Years()` of a full date (two roundings) is within `(2^14 + 1) / 2^54` of the exact
    fraction `y + yd / diy` -/
theorem yearsOf_err (y yd diy : Nat) (hy : 1 ≤ y) (hy' : y ≤ 9999) (h1 : 1 ≤ yd) (h2 : yd < diy)
    (h3 : diy ≤ 367) :
    |toQ (yearsOf y yd diy) - ((y : ℚ) + (yd : ℚ) / diy)| * 2 ^ 54 ≤ 2 ^ 14 + 1 := by
  have hdiy : (0 : ℚ) < diy := by exact_mod_cast (by omega : 0 < diy)
  -- first rounding: the quotient, a value below one
  have hlt1 : (yd : ℚ) / diy < 2 ^ 0 := by
    rw [pow_zero, div_lt_one hdiy]; exact_mod_cast h2
  have e1 := rnd_err yd diy 0 (by omega) (by omega)
    (le_trans h3 (le_trans (by norm_num : (367 : ℕ) ≤ 2 ^ 9) (Nat.pow_le_pow_right (by omega) (by omega)))) hlt1
  -- its scale is at most 61 bits
  have hk1 : fracBits yd diy ≤ 61 := by
    apply fracBits_le
    calc 2 ^ 52 * diy ≤ 2 ^ 52 * 2 ^ 9 := Nat.mul_le_mul_left _ (by omega)
      _ = 1 * 2 ^ 61 := by norm_num
      _ ≤ yd * 2 ^ 61 := Nat.mul_le_mul_right _ h1
  have hdiv : div (ofNat yd) (ofNat diy) = rnd yd diy := by
    simp [div, ofNat]
  unfold yearsOf
  rw [hdiv]
  have hfrac : (rnd yd diy).frac = fracBits yd diy := by
    unfold rnd; rw [if_neg (by omega)]
  generalize hf : rnd yd diy = f at *
  have hadd : add (ofNat y) f = rnd (y * 2 ^ f.frac + f.mant) (2 ^ f.frac) := by
    simp [add, ofNat]
  rw [hadd]
  have hpk : (0 : ℚ) < 2 ^ f.frac := by positivity
  have hsum : ((y * 2 ^ f.frac + f.mant : ℕ) : ℚ) / ((2 ^ f.frac : ℕ) : ℚ) = (y : ℚ) + toQ f := by
    unfold toQ; push_cast; field_simp
  have hf1 : |toQ f - (yd : ℚ) / diy| ≤ 1 / 2 ^ 54 := by
    rw [le_div_iff₀ (by positivity)]; simpa using e1
  have hq1 : (yd : ℚ) / diy < 1 := by simpa using hlt1
  have hq0 : (0 : ℚ) ≤ (yd : ℚ) / diy := by positivity
  have hfub : toQ f < 2 := by
    have := (abs_le.mp hf1).2
    have : (1 : ℚ) / 2 ^ 54 < 1 := by norm_num
    linarith
  have hyq : (y : ℚ) ≤ 9999 := by exact_mod_cast hy'
  have hlt2 : ((y * 2 ^ f.frac + f.mant : ℕ) : ℚ) / ((2 ^ f.frac : ℕ) : ℚ) < 2 ^ 14 := by
    rw [hsum]; norm_num; linarith
  have hpos : 0 < y * 2 ^ f.frac + f.mant :=
    Nat.add_pos_left (Nat.mul_pos (by omega) (Nat.two_pow_pos _)) _
  have hden : 2 ^ f.frac ≤ 2 ^ 1000 := Nat.pow_le_pow_right (by omega) (by omega)
  have e2 := rnd_err (y * 2 ^ f.frac + f.mant) (2 ^ f.frac) 14 hpos (Nat.two_pow_pos _) hden hlt2
  rw [hsum] at e2
  have hf2 : |toQ (rnd (y * 2 ^ f.frac + f.mant) (2 ^ f.frac)) - ((y : ℚ) + toQ f)| ≤
      2 ^ 14 / 2 ^ 54 := by
    rw [le_div_iff₀ (by positivity)]; exact e2
  generalize toQ (rnd (y * 2 ^ f.frac + f.mant) (2 ^ f.frac)) = g at *
  have habs : |g - ((y : ℚ) + (yd : ℚ) / diy)| ≤ (2 ^ 14 + 1) / 2 ^ 54 := by
    have a1 := abs_le.mp hf1
    have a2 := abs_le.mp hf2
    rw [abs_le]; constructor <;> [skip; skip] <;> (rw [add_div]; linarith [a1.1, a1.2, a2.1, a2.2])
  rw [le_div_iff₀ (by positivity)] at habs
  exact habs

/-- two values that are each within `(2^14+1)/2^54` of exact values at least `1/367` apart are
    strictly ordered -/
theorem lt_of_gap (fa fb xa xb : ℚ) (ea : |fa - xa| * 2 ^ 54 ≤ 2 ^ 14 + 1)
    (eb : |fb - xb| * 2 ^ 54 ≤ 2 ^ 14 + 1) (g : xa + 1 / 367 ≤ xb) : fa < fb := by
  have ea' : |fa - xa| ≤ (2 ^ 14 + 1) / 2 ^ 54 := by rw [le_div_iff₀ (by positivity)]; exact ea
  have eb' : |fb - xb| ≤ (2 ^ 14 + 1) / 2 ^ 54 := by rw [le_div_iff₀ (by positivity)]; exact eb
  have a1 := abs_le.mp ea'
  have b1 := abs_le.mp eb'
  have : (2 : ℚ) * ((2 ^ 14 + 1) / 2 ^ 54) < 1 / 367 := by norm_num
  linarith [a1.2, b1.1]

/-- calendar order of two full dates in terms of year and day of the year -/
theorem full_order_cases (a b : Date) (ha : Full a) (hb : Full b) (h : a.firstDay < b.firstDay) :
    a.year < b.year ∨
    (a.year = b.year ∧ yearDay a.year a.month a.day < yearDay b.year b.month b.day) := by
  rw [full_firstDay a ha, full_firstDay b hb] at h
  obtain ⟨a1, a2, a3, a4⟩ := ha
  obtain ⟨b1, b2, b3, b4⟩ := hb
  have hya := yearDay_bounds a.year a.month a.day a1 a2 (by omega) a4
  have hyb := yearDay_bounds b.year b.month b.day b1 b2 (by omega) b4
  unfold dayNumber at h
  unfold yearDay at hya hyb ⊢
  by_cases hlt : a.year < b.year
  · left; exact hlt
  · by_cases heq : a.year = b.year
    · right; refine ⟨heq, ?_⟩; rw [heq] at h ⊢; omega
    · exfalso
      have hm := daysBeforeYear_mono (y1 := (b.year : Int) + 1) (y2 := a.year) (by omega)
      have hs := daysBeforeYear_succ b.year
      omega

/-- what the model computes for a full date, with day of the year and year length as naturals -/
theorem years_full (a : Date) (ha : Full a) (hy : 1 ≤ a.year) :
    ∃ yd diy : Nat, F64.years a = yearsOf a.year yd diy ∧
      (yd : Int) = yearDay a.year a.month a.day ∧ (diy : Int) = daysInYear a.year + 1 ∧
      1 ≤ yd ∧ yd < diy ∧ diy ≤ 367 := by
  obtain ⟨a1, a2, a3, a4⟩ := ha
  have hyd := yearDay_bounds a.year a.month a.day a1 a2 (by omega) a4
  refine ⟨(yearDay a.year a.month a.day).toNat, (daysInYear a.year).toNat + 1, ?_, ?_, ?_, ?_, ?_, ?_⟩
  · unfold F64.years yearsFull
    rw [if_neg (by omega), if_neg (by omega), if_neg (by omega)]
  · omega
  · rcases daysInYear_cases (a.year : Int) with e | e <;> rw [e] <;> rfl
  · omega
  · rcases daysInYear_cases (a.year : Int) with e | e <;> rw [e] at hyd ⊢ <;> omega
  · rcases daysInYear_cases (a.year : Int) with e | e <;> rw [e] <;> decide

/-- **The binary64 value of `Years()` is strictly increasing in calendar order**, for every pair
    of full dates of the years 1..9999 (in particular from each day to the next): the statement
    is about the rounded values the implementation compares, not about exact fractions. -/
theorem years_float64_strict_mono (a b : Date) (ha : Full a) (hb : Full b)
    (hya : 1 ≤ a.year) (hyb : b.year ≤ 9999) (h : a.firstDay < b.firstDay) :
    F64.lt (F64.years a) (F64.years b) := by
  have hord := full_order_cases a b ha hb h
  have hya' : a.year ≤ 9999 := by omega
  have hyb' : 1 ≤ b.year := by omega
  obtain ⟨yda, Da, ea, hyda, hDa, a1, a2, a3⟩ := years_full a ha hya
  obtain ⟨ydb, Db, eb, hydb, hDb, b1, b2, b3⟩ := years_full b hb hyb'
  rw [ea, eb, lt_iff_toQ]
  have erra := yearsOf_err a.year yda Da hya hya' a1 a2 a3
  have errb := yearsOf_err b.year ydb Db hyb' hyb b1 b2 b3
  refine lt_of_gap _ _ _ _ erra errb ?_
  have hDa0 : (0 : ℚ) < Da := by exact_mod_cast (by omega : 0 < Da)
  have hDb0 : (0 : ℚ) < Db := by exact_mod_cast (by omega : 0 < Db)
  have hDa367 : (Da : ℚ) ≤ 367 := by exact_mod_cast a3
  have hDb367 : (Db : ℚ) ≤ 367 := by exact_mod_cast b3
  have hb1q : (1 : ℚ) ≤ ydb := by exact_mod_cast b1
  rcases hord with hlt | ⟨heq, hyd⟩
  · -- a later year: the last day of a year is below year + 1 - 1/Da, the first above year + 1/Db
    have hyq : (a.year : ℚ) + 1 ≤ b.year := by exact_mod_cast hlt
    have h1 : (yda : ℚ) / Da ≤ 1 - 1 / Da := by
      rw [div_le_iff₀ hDa0]; field_simp
      have : (yda : ℚ) + 1 ≤ Da := by exact_mod_cast a2
      linarith
    have h2 : (1 : ℚ) / 367 ≤ 1 / Da := one_div_le_one_div_of_le hDa0 hDa367
    have h3 : (0 : ℚ) ≤ (ydb : ℚ) / Db := by positivity
    linarith
  · -- the same year: the days of the year differ by at least one, the year length is the same
    have hD : Da = Db := by
      have : (Da : Int) = Db := by rw [hDa, hDb, heq]
      exact_mod_cast this
    have hlt : yda + 1 ≤ ydb := by
      have : (yda : Int) < ydb := by rw [hyda, hydb]; rw [heq] at hyd ⊢; exact hyd
      omega
    subst hD
    have hq : (yda : ℚ) + 1 ≤ ydb := by exact_mod_cast hlt
    have hyq : (a.year : ℚ) = b.year := by exact_mod_cast heq
    have h2 : (1 : ℚ) / 367 ≤ 1 / Da := one_div_le_one_div_of_le hDa0 hDa367
    have h4 : (yda : ℚ) / Da + 1 / Da ≤ (ydb : ℚ) / Da := by
      rw [← add_div]; exact div_le_div_of_nonneg_right hq hDa0.le
    linarith

/-- full dates with the same day number have the same year and day of the year -/
theorem full_eq_cases (a b : Date) (ha : Full a) (hb : Full b) (h : a.firstDay = b.firstDay) :
    a.year = b.year ∧ yearDay a.year a.month a.day = yearDay b.year b.month b.day := by
  rw [full_firstDay a ha, full_firstDay b hb] at h
  obtain ⟨a1, a2, a3, a4⟩ := ha
  obtain ⟨b1, b2, b3, b4⟩ := hb
  have hya := yearDay_bounds a.year a.month a.day a1 a2 (by omega) a4
  have hyb := yearDay_bounds b.year b.month b.day b1 b2 (by omega) b4
  unfold dayNumber at h
  unfold yearDay at hya hyb ⊢
  by_cases heq : a.year = b.year
  · refine ⟨heq, ?_⟩; rw [heq] at h ⊢; omega
  · exfalso
    by_cases hlt : a.year < b.year
    · have hm := daysBeforeYear_mono (y1 := (a.year : Int) + 1) (y2 := b.year) (by omega)
      have hs := daysBeforeYear_succ a.year
      omega
    · have hm := daysBeforeYear_mono (y1 := (b.year : Int) + 1) (y2 := a.year) (by omega)
      have hs := daysBeforeYear_succ b.year
      omega

/-- **`IsBefore` decided on the binary64 values agrees with calendar order** for full dates of the
    years 1..9999: `a.Years() < b.Years()` in float64 exactly when `a` is an earlier day. -/
theorem isBefore_float64_iff (a b : Date) (ha : Full a) (hb : Full b)
    (hya : 1 ≤ a.year) (hya' : a.year ≤ 9999) (hyb : 1 ≤ b.year) (hyb' : b.year ≤ 9999) :
    F64.lt (F64.years a) (F64.years b) ↔ a.firstDay < b.firstDay := by
  constructor
  · intro hlt
    by_cases hc : a.firstDay < b.firstDay
    · exact hc
    · exfalso
      by_cases he : a.firstDay = b.firstDay
      · obtain ⟨hy, hd⟩ := full_eq_cases a b ha hb he
        obtain ⟨yda, Da, ea, hyda, hDa, -⟩ := years_full a ha hya
        obtain ⟨ydb, Db, eb, hydb, hDb, -⟩ := years_full b hb hyb
        have h1 : yda = ydb := by
          have : (yda : Int) = ydb := by rw [hyda, hydb, hd]
          exact_mod_cast this
        have h2 : Da = Db := by
          have : (Da : Int) = Db := by rw [hDa, hDb, hy]
          exact_mod_cast this
        rw [ea, eb, h1, h2, hy] at hlt
        exact absurd hlt (by unfold F64.lt; omega)
      · have hgt : b.firstDay < a.firstDay := by omega
        have h2 := years_float64_strict_mono b a hb ha hyb hya' hgt
        rw [lt_iff_toQ] at hlt h2
        exact absurd hlt (not_lt.mpr h2.le)
  · exact years_float64_strict_mono a b ha hb hya hyb'

/-! ### Containment of the partial dates, on the binary64 values -/

theorem le_iff_toQ (a b : Dbl) : F64.le a b ↔ toQ a ≤ toQ b := by
  unfold F64.le toQ
  rw [div_le_div_iff₀ (by positivity) (by positivity)]
  exact_mod_cast Iff.rfl

/-- one float64 addition of two positive values with a sum below `2^e` -/
theorem add_err (a b : Dbl) (e : Nat) (ha : 0 < a.mant) (hf : a.frac + b.frac ≤ 1000)
    (h : toQ a + toQ b < 2 ^ e) :
    |toQ (add a b) - (toQ a + toQ b)| * 2 ^ 54 ≤ 2 ^ e := by
  have hsum : ((a.mant * 2 ^ b.frac + b.mant * 2 ^ a.frac : ℕ) : ℚ) /
      ((2 ^ (a.frac + b.frac) : ℕ) : ℚ) = toQ a + toQ b := by
    unfold toQ; push_cast; rw [pow_add]; field_simp
  have hpos : 0 < a.mant * 2 ^ b.frac + b.mant * 2 ^ a.frac :=
    Nat.add_pos_left (Nat.mul_pos ha (Nat.two_pow_pos _)) _
  have hden : 2 ^ (a.frac + b.frac) ≤ 2 ^ 1000 := Nat.pow_le_pow_right (by omega) hf
  have := rnd_err _ _ e hpos (Nat.two_pow_pos _) hden (by rw [hsum]; exact h)
  rw [hsum] at this
  exact this

/-- one float64 division by two of a positive value below `2^(e+1)` -/
theorem half_err (a : Dbl) (e : Nat) (ha : 0 < a.mant) (hf : a.frac ≤ 900)
    (h : toQ a / 2 < 2 ^ e) :
    |toQ (div a (ofNat 2)) - toQ a / 2| * 2 ^ 54 ≤ 2 ^ e := by
  have hdiv : div a (ofNat 2) = rnd a.mant (2 * 2 ^ a.frac) := by simp [div, ofNat]
  have hq : ((a.mant : ℕ) : ℚ) / ((2 * 2 ^ a.frac : ℕ) : ℚ) = toQ a / 2 := by
    unfold toQ; push_cast; field_simp
  have hden : 2 * 2 ^ a.frac ≤ 2 ^ 1000 := by
    calc 2 * 2 ^ a.frac = 2 ^ (a.frac + 1) := by rw [Nat.pow_succ]; omega
      _ ≤ 2 ^ 1000 := Nat.pow_le_pow_right (by omega) (by omega)
  have := rnd_err a.mant (2 * 2 ^ a.frac) e ha (by positivity) hden (by rw [hq]; exact h)
  rw [hq] at this
  rw [hdiv]; exact this

/-- a quotient that is at least one needs at most 52 fractional bits -/
theorem fracBits_le_52 (n d : Nat) (h : d ≤ n) : fracBits n d ≤ 52 := by
  apply fracBits_le
  rw [Nat.mul_comm]; exact Nat.mul_le_mul_right _ h

theorem rnd_frac (n d : Nat) (hn : 0 < n) : (rnd n d).frac = fracBits n d := by
  unfold rnd; rw [if_neg (by omega)]

theorem rnd_mant_pos (n d : Nat) (hn : 0 < n) (hd : 0 < d) (hd' : d ≤ 2 ^ 1000) :
    0 < (rnd n d).mant := by
  unfold rnd; rw [if_neg (by omega)]; simp only
  have hk := fracBits_ok n d hn hd'
  obtain ⟨h1, _⟩ := roundDiv_err n d (fracBits n d) hd
  have : 0 < 2 ^ 52 * d := Nat.mul_pos (Nat.two_pow_pos _) hd
  by_contra hc
  have hz : roundDiv n d (fracBits n d) = 0 := by omega
  rw [hz] at h1
  have : (2:ℕ) ^ 52 * d ≥ 2 * d := Nat.mul_le_mul_right _ (by norm_num)
  omega

/-- shape facts about `Years()` of a full date: positive, at most 52 fractional bits -/
theorem yearsOf_shape (y yd diy : Nat) (hy : 1 ≤ y) :
    0 < (yearsOf y yd diy).mant ∧ (yearsOf y yd diy).frac ≤ 52 := by
  unfold yearsOf
  have hdiv : div (ofNat yd) (ofNat diy) = rnd yd diy := by simp [div, ofNat]
  rw [hdiv]
  generalize rnd yd diy = f
  have hadd : add (ofNat y) f = rnd (y * 2 ^ f.frac + f.mant) (2 ^ f.frac) := by simp [add, ofNat]
  rw [hadd]
  have hge : 2 ^ f.frac ≤ y * 2 ^ f.frac + f.mant :=
    le_trans (Nat.le_mul_of_pos_left _ hy) (Nat.le_add_right _ _)
  have hpos : 0 < y * 2 ^ f.frac + f.mant := lt_of_lt_of_le (Nat.two_pow_pos _) hge
  have hfr := rnd_frac (y * 2 ^ f.frac + f.mant) (2 ^ f.frac) hpos
  have h52 := fracBits_le_52 _ _ hge
  refine ⟨?_, by omega⟩
  -- the scale found is at most 52, so the denominator 2^f.frac is irrelevant for positivity
  unfold rnd; rw [if_neg (by omega)]; simp only
  obtain ⟨h1, _⟩ := roundDiv_err (y * 2 ^ f.frac + f.mant) (2 ^ f.frac)
    (fracBits (y * 2 ^ f.frac + f.mant) (2 ^ f.frac)) (Nat.two_pow_pos _)
  by_contra hc
  have hz : roundDiv (y * 2 ^ f.frac + f.mant) (2 ^ f.frac)
      (fracBits (y * 2 ^ f.frac + f.mant) (2 ^ f.frac)) = 0 := by omega
  rw [hz] at h1
  have hk : 2 ^ f.frac ≤ (y * 2 ^ f.frac + f.mant) *
      2 ^ fracBits (y * 2 ^ f.frac + f.mant) (2 ^ f.frac) :=
    le_trans hge (Nat.le_mul_of_pos_right _ (Nat.two_pow_pos _))
  have : 0 < 2 ^ f.frac := Nat.two_pow_pos _
  omega

/-- the float64 mean `(s + e) / 2` of two values at least 1/20 apart lies strictly between them
    (values between 1 and 10001 with at most 52 fractional bits) -/
theorem mid_between (s e : Dbl) (hs : 0 < s.mant) (hsf : s.frac ≤ 52) (hef : e.frac ≤ 52)
    (h1 : 1 ≤ toQ s) (hgap : toQ s + 1 / 20 ≤ toQ e) (hub : toQ e < 10001) :
    F64.lt s (div (add s e) (ofNat 2)) ∧ F64.lt (div (add s e) (ofNat 2)) e := by
  have e1 := add_err s e 15 hs (by omega) (by norm_num; linarith)
  -- shape of the sum
  have hadd : add s e = rnd (s.mant * 2 ^ e.frac + e.mant * 2 ^ s.frac) (2 ^ (s.frac + e.frac)) := rfl
  have hsm : 2 ^ s.frac ≤ s.mant := by
    have : (1 : ℚ) ≤ (s.mant : ℚ) / 2 ^ s.frac := h1
    rw [le_div_iff₀ (by positivity)] at this
    have h' : ((2 ^ s.frac : ℕ) : ℚ) ≤ (s.mant : ℚ) := by push_cast; linarith
    exact_mod_cast h'
  have hge : 2 ^ (s.frac + e.frac) ≤ s.mant * 2 ^ e.frac + e.mant * 2 ^ s.frac := by
    rw [Nat.pow_add]
    exact le_trans (Nat.mul_le_mul_right _ hsm) (Nat.le_add_right _ _)
  have hpos : 0 < s.mant * 2 ^ e.frac + e.mant * 2 ^ s.frac :=
    lt_of_lt_of_le (Nat.two_pow_pos _) hge
  have hden : 2 ^ (s.frac + e.frac) ≤ 2 ^ 1000 := Nat.pow_le_pow_right (by omega) (by omega)
  have htm : 0 < (add s e).mant := by
    rw [hadd]; exact rnd_mant_pos _ _ hpos (Nat.two_pow_pos _) hden
  have htf : (add s e).frac ≤ 52 := by
    rw [hadd, rnd_frac _ _ hpos]; exact fracBits_le_52 _ _ hge
  have e1' : |toQ (add s e) - (toQ s + toQ e)| ≤ 2 ^ 15 / 2 ^ 54 := by
    rw [le_div_iff₀ (by positivity)]; exact e1
  have b1 := abs_le.mp e1'
  have hthalf : toQ (add s e) / 2 < 2 ^ 14 := by
    have : (2 : ℚ) ^ 15 / 2 ^ 54 < 1 := by norm_num
    norm_num; linarith [b1.2]
  have e2 := half_err (add s e) 14 htm (by omega) hthalf
  have e2' : |toQ (div (add s e) (ofNat 2)) - toQ (add s e) / 2| ≤ 2 ^ 14 / 2 ^ 54 := by
    rw [le_div_iff₀ (by positivity)]; exact e2
  have b2 := abs_le.mp e2'
  have hnum : (2 : ℚ) ^ 15 / 2 ^ 54 / 2 + 2 ^ 14 / 2 ^ 54 < 1 / 40 := by norm_num
  rw [lt_iff_toQ, lt_iff_toQ]
  constructor <;> linarith [b1.1, b1.2, b2.1, b2.2]

/-- **A month-year date lies strictly inside its month on the float64 Years scale**: the rounded
    value of `(start + end) / 2` is above `Years()` of the first day and below `Years()` of the
    last day of the month, for every month of the years 1..9999. -/
theorem years_float64_inside_month (y m : Nat) (h1 : 1 ≤ m) (h2 : m ≤ 12) (hy : 1 ≤ y)
    (hy' : y ≤ 9999) :
    F64.lt (F64.years ⟨1, m, y⟩) (F64.years ⟨0, m, y⟩) ∧
    F64.lt (F64.years ⟨0, m, y⟩) (F64.years ⟨(dim (isLeap y) m).toNat, m, y⟩) := by
  have hdim := dim_pos (isLeap (y : Int)) h1 h2
  have hF1 : Full ⟨1, m, y⟩ := ⟨h1, h2, by simp, by simp; omega⟩
  have hF2 : Full ⟨(dim (isLeap y) m).toNat, m, y⟩ := ⟨h1, h2, by simp; omega, by simp; omega⟩
  obtain ⟨yds, D, es, hyds, hD, s1, s2, s3⟩ := years_full ⟨1, m, y⟩ hF1 hy
  obtain ⟨yde, D', ee, hyde, hD', t1, t2, t3⟩ := years_full ⟨(dim (isLeap y) m).toNat, m, y⟩ hF2 hy
  simp only at hyds hD hyde hD' es ee
  have hDD : D' = D := by
    have : (D' : Int) = D := by rw [hD, hD']
    exact_mod_cast this
  subst hDD
  have hmid : F64.years ⟨0, m, y⟩ =
      div (add (F64.years ⟨1, m, y⟩) (F64.years ⟨(dim (isLeap y) m).toNat, m, y⟩)) (ofNat 2) := by
    have hm0 : ¬ m = 0 := by omega
    have hy0 : ¬ y = 0 := by omega
    have hd0 : ¬ (dim (isLeap (y : Int)) m).toNat = 0 := by omega
    simp [F64.years, hm0, hy0, hd0]
  rw [hmid, es, ee]
  have hgapN : yds + 27 ≤ yde := by
    have : (yds : Int) + 27 ≤ yde := by
      rw [hyds, hyde]; unfold yearDay
      have : ((dim (isLeap (y : Int)) m).toNat : Int) = dim (isLeap (y : Int)) m :=
        Int.toNat_of_nonneg (by omega)
      omega
    exact_mod_cast this
  obtain ⟨sm, sf⟩ := yearsOf_shape y yds D' hy
  obtain ⟨_, ef⟩ := yearsOf_shape y yde D' hy
  have errs := yearsOf_err y yds D' hy hy' s1 s2 s3
  have erre := yearsOf_err y yde D' hy hy' t1 t2 t3
  have es' : |toQ (yearsOf y yds D') - ((y : ℚ) + (yds : ℚ) / D')| ≤ (2 ^ 14 + 1) / 2 ^ 54 := by
    rw [le_div_iff₀ (by positivity)]; exact errs
  have ee' : |toQ (yearsOf y yde D') - ((y : ℚ) + (yde : ℚ) / D')| ≤ (2 ^ 14 + 1) / 2 ^ 54 := by
    rw [le_div_iff₀ (by positivity)]; exact erre
  have bs := abs_le.mp es'
  have be := abs_le.mp ee'
  have hD0 : (0 : ℚ) < D' := by exact_mod_cast (by omega : 0 < D')
  have hD367 : (D' : ℚ) ≤ 367 := by exact_mod_cast s3
  have hyq : (1 : ℚ) ≤ y := by exact_mod_cast hy
  have hyq' : (y : ℚ) ≤ 9999 := by exact_mod_cast hy'
  have hs0 : (0 : ℚ) ≤ (yds : ℚ) / D' := by positivity
  have he1 : (yde : ℚ) / D' < 1 := by rw [div_lt_one hD0]; exact_mod_cast t2
  have hgq : (yds : ℚ) + 27 ≤ yde := by exact_mod_cast hgapN
  have hg : (yds : ℚ) / D' + 27 / 367 ≤ (yde : ℚ) / D' := by
    have h27 : (27 : ℚ) / 367 ≤ 27 / D' := by
      apply div_le_div_of_nonneg_left (by norm_num) hD0 hD367
    have : (yds : ℚ) / D' + 27 / D' ≤ (yde : ℚ) / D' := by
      rw [← add_div]; exact div_le_div_of_nonneg_right hgq hD0.le
    linarith
  have hnum : (2 : ℚ) * ((2 ^ 14 + 1) / 2 ^ 54) < 27 / 367 - 1 / 20 := by norm_num
  have hnum2 : ((2 : ℚ) ^ 14 + 1) / 2 ^ 54 < 1 / 367 := by norm_num
  have hs1 : (1 : ℚ) / 367 ≤ (yds : ℚ) / D' := by
    have a : (1 : ℚ) / 367 ≤ 1 / D' := one_div_le_one_div_of_le hD0 hD367
    have b : (1 : ℚ) / D' ≤ (yds : ℚ) / D' :=
      div_le_div_of_nonneg_right (by exact_mod_cast s1) hD0.le
    linarith
  exact mid_between _ _ sm sf ef (by linarith [bs.1]) (by linarith [bs.2, be.1]) (by linarith [be.2])

/-- **A year-only date lies strictly inside its year on the float64 Years scale**: `year + 0.5`
    is above `Years()` of 1 January and below `Years()` of 31 December, years 1..9999. -/
theorem years_float64_inside_year (y : Nat) (hy : 1 ≤ y) (hy' : y ≤ 9999) :
    F64.lt (F64.years ⟨1, 1, y⟩) (F64.years ⟨0, 0, y⟩) ∧
    F64.lt (F64.years ⟨0, 0, y⟩) (F64.years ⟨31, 12, y⟩) := by
  have hF1 : Full ⟨1, 1, y⟩ := ⟨by simp, by simp, by simp, by simp [dim]⟩
  have hF2 : Full ⟨31, 12, y⟩ := ⟨by simp, by simp, by simp, by simp [dim]⟩
  obtain ⟨yds, D, es, hyds, hD, s1, s2, s3⟩ := years_full ⟨1, 1, y⟩ hF1 hy
  obtain ⟨yde, D', ee, hyde, hD', t1, t2, t3⟩ := years_full ⟨31, 12, y⟩ hF2 hy
  simp only at hyds hD hyde hD' es ee
  have hDD : D' = D := by
    have : (D' : Int) = D := by rw [hD, hD']
    exact_mod_cast this
  subst hDD
  have hs1 : yds = 1 := by
    have : (yds : Int) = 1 := by rw [hyds]; simp [yearDay, cum]
    exact_mod_cast this
  have he1 : yde + 1 = D' := by
    have : (yde : Int) + 1 = D' := by
      have hl := year_last (y : Int)
      push_cast at hyde
      rw [hyde, hD', hl]
    exact_mod_cast this
  have hD366 : 366 ≤ D' := by
    have : (366 : Int) ≤ D' := by
      rw [hD']; rcases daysInYear_cases (y : Int) with e | e <;> rw [e] <;> omega
    exact_mod_cast this
  have hmid : F64.years ⟨0, 0, y⟩ = add (ofNat y) ⟨1, 1⟩ := by
    have hy0 : ¬ y = 0 := by omega
    simp [F64.years, hy0]
  rw [hmid, es, ee]
  have hhalf : toQ (ofNat y) + toQ ⟨1, 1⟩ = (y : ℚ) + 1 / 2 := by simp [toQ, ofNat]
  have hyq : (1 : ℚ) ≤ y := by exact_mod_cast hy
  have hyq' : (y : ℚ) ≤ 9999 := by exact_mod_cast hy'
  have em := add_err (ofNat y) ⟨1, 1⟩ 14 (by simp [ofNat]; omega) (by simp [ofNat])
    (by rw [hhalf]; norm_num; linarith)
  rw [hhalf] at em
  have em' : |toQ (add (ofNat y) ⟨1, 1⟩) - ((y : ℚ) + 1 / 2)| ≤ 2 ^ 14 / 2 ^ 54 := by
    rw [le_div_iff₀ (by positivity)]; exact em
  have errs := yearsOf_err y yds D' hy hy' s1 s2 s3
  have erre := yearsOf_err y yde D' hy hy' t1 t2 t3
  have es' : |toQ (yearsOf y yds D') - ((y : ℚ) + (yds : ℚ) / D')| ≤ (2 ^ 14 + 1) / 2 ^ 54 := by
    rw [le_div_iff₀ (by positivity)]; exact errs
  have ee' : |toQ (yearsOf y yde D') - ((y : ℚ) + (yde : ℚ) / D')| ≤ (2 ^ 14 + 1) / 2 ^ 54 := by
    rw [le_div_iff₀ (by positivity)]; exact erre
  have bs := abs_le.mp es'
  have be := abs_le.mp ee'
  have bm := abs_le.mp em'
  have hD0 : (0 : ℚ) < D' := by exact_mod_cast (by omega : 0 < D')
  have hDq : (366 : ℚ) ≤ D' := by exact_mod_cast hD366
  have hfirst : (yds : ℚ) / D' ≤ 1 / 366 := by
    rw [hs1]; push_cast
    exact one_div_le_one_div_of_le (by norm_num) hDq
  have hlast : (365 : ℚ) / 366 ≤ (yde : ℚ) / D' := by
    have : (yde : ℚ) = D' - 1 := by
      have : ((yde + 1 : ℕ) : ℚ) = D' := by exact_mod_cast he1
      push_cast at this; linarith
    rw [this, le_div_iff₀ hD0]; linarith
  have hnum : ((2 : ℚ) ^ 14 + 1) / 2 ^ 54 + 2 ^ 14 / 2 ^ 54 < 1 / 4 := by norm_num
  rw [lt_iff_toQ, lt_iff_toQ]
  constructor <;> linarith [bs.1, bs.2, be.1, be.2, bm.1, bm.2]

/-- non-vacuity: 28 Feb 1900 and 1 Mar 1900 (1900 is not a leap year) meet the hypotheses -/
example : Full ⟨28, 2, 1900⟩ ∧ Full ⟨1, 3, 1900⟩ ∧
    (⟨28, 2, 1900⟩ : Date).firstDay < (⟨1, 3, 1900⟩ : Date).firstDay := by
  unfold Full; decide

end Gedcom.C05
