/-
  C20 — Warnings are reported exactly when the recorded facts warrant them.
  Property theorems only, about `Gedcom.Warn.warnings` (the function the driver runs).
-/
import Gedcom.Lemmas.Warnings
import Gedcom.Lemmas.WarningsOrder
namespace Gedcom.C20
open Gedcom Gedcom.Warn

/-- UnparsableDate: reported for exactly the DATE values that are not valid (either end is the
    zero date: unparsable text, date phrases, half-parsed ranges), in the context of the record
    that holds them; `l` is the position of the DATE node.  No guard: holds for every document. -/
theorem unparsable_sound_complete (d : Doc) (now : Date) (inFam : Bool) (p l : Nat) :
    Warning.unparsableDate inFam p l ∈ warnings d now ↔
      (inFam = false ∧ ∃ i, Rec.indi i ∈ d ∧ i.ptr = p ∧
        ∃ e ∈ i.events, ∃ x ∈ e.dates, x.valid = false ∧ x.label = l) ∨
      (inFam = true ∧ ∃ f, Rec.fam f ∈ d ∧ f.ptr = p ∧
        ∃ e ∈ f.events, ∃ x ∈ e.dates, x.valid = false ∧ x.label = l) := by
  rw [warnings, mem_oncePerPair_other (by simp [Warning.kind]) (by simp [Warning.kind]), mem_warnings_cases]
  constructor
  · rintro (⟨i, hi, h | h | h | h⟩ | ⟨f, hf, h | h | h | h | h⟩)
    all_goals try wrong_kind h
    · obtain ⟨rfl, rfl, he⟩ := mem_unparsable.mp h
      exact Or.inl ⟨rfl, i, hi, rfl, he⟩
    · obtain ⟨rfl, rfl, he⟩ := mem_unparsable.mp h
      exact Or.inr ⟨rfl, f, hf, rfl, he⟩
  · rintro (⟨rfl, i, hi, rfl, he⟩ | ⟨rfl, f, hf, rfl, he⟩)
    · exact Or.inl ⟨i, hi, Or.inr (Or.inr (Or.inr (mem_unparsable.mpr ⟨rfl, rfl, he⟩)))⟩
    · exact Or.inr ⟨f, hf, Or.inr (Or.inr (Or.inr (Or.inr (mem_unparsable.mpr ⟨rfl, rfl, he⟩))))⟩

/-- MultipleSexes: reported for exactly the individuals with more than one SEX line. -/
theorem multiple_sexes_sound_complete (d : Doc) (now : Date) (p n : Nat) :
    Warning.multipleSexes p n ∈ warnings d now ↔
      ∃ i, Rec.indi i ∈ d ∧ i.ptr = p ∧ i.sexes.length = n ∧ 1 < n := by
  rw [warnings, mem_oncePerPair_other (by simp [Warning.kind]) (by simp [Warning.kind]), mem_warnings_cases]
  constructor
  · rintro (⟨i, hi, h | h | h | h⟩ | ⟨f, hf, h | h | h | h | h⟩)
    all_goals try wrong_kind h
    unfold multipleSexes at h
    split at h <;> simp at h
    obtain ⟨rfl, rfl⟩ := h
    exact ⟨i, hi, rfl, rfl, by omega⟩
  · rintro ⟨i, hi, rfl, rfl, hn⟩
    refine Or.inl ⟨i, hi, Or.inr (Or.inr (Or.inl ?_))⟩
    simp [multipleSexes, hn]

/-- InverseSpouses: reported for exactly the families whose husband's first SEX is F and whose
    wife's first SEX is M. -/
theorem inverse_spouses_sound_complete (d : Doc) (now : Date) (fp hp wp : Nat) :
    Warning.inverseSpouses fp hp wp ∈ warnings d now ↔
      ∃ f, Rec.fam f ∈ d ∧ f.ptr = fp ∧ f.husb = some hp ∧ f.wife = some wp ∧
        firstSex (indiOf d hp) = some .f ∧ firstSex (indiOf d wp) = some .m := by
  rw [warnings, mem_oncePerPair_other (by simp [Warning.kind]) (by simp [Warning.kind]), mem_warnings_cases]
  constructor
  · rintro (⟨i, hi, h | h | h | h⟩ | ⟨f, hf, h | h | h | h | h⟩)
    all_goals try wrong_kind h
    simp only [inverseSpouses] at h
    split at h
    · rename_i hc
      simp at h
      obtain ⟨rfl, rfl, rfl⟩ := h
      cases hh : f.husb with
      | none => simp [hh, firstSex] at hc
      | some hp =>
        cases hw : f.wife with
        | none => simp [hw, firstSex] at hc
        | some wp =>
          simp [hh, hw] at hc
          exact ⟨f, hf, rfl, by simp [hh], by simp [hw], by simpa [hh] using hc.1, by simpa [hw] using hc.2⟩
    · simp at h
  · rintro ⟨f, hf, rfl, hh, hw, h1, h2⟩
    refine Or.inr ⟨f, hf, Or.inr (Or.inr (Or.inr (Or.inl ?_)))⟩
    simp [inverseSpouses, hh, hw, h1, h2]

/-- `B(x)`: civil day of the first DATE of the first dated BIRT node of `x`, when it parses -/
def birthDay (d : Doc) (p : Nat) : Option Int :=
  match birthOf (indiOf d p) with
  | some (.ok t) => some (dayOf t)
  | _ => none

theorem birthDay_eq_some {d : Doc} {p : Nat} {b : Int} :
    birthDay d p = some b ↔ ∃ t, birthOf (indiOf d p) = some (.ok t) ∧ dayOf t = b := by
  unfold birthDay
  split <;> simp_all

theorem birthOf_bind_noGen {d : Doc} (hx : ExactDates d) (o : Option Nat) :
    NoGenO (birthOf (o.bind (indiOf d))) := by
  cases o with
  | none => intro v h; simp [birthOf] at h
  | some p => exact birthOf_noGen hx

/-- ChildBornBeforeParent(parent, child) is reported in the context of family `fp` exactly when
    `child` is a CHIL of that family, `parent` its HUSB or WIFE, both have a valid birth date and
    the child's birth day is strictly before the parent's. -/
theorem raw_cbbp_fam {d : Doc} {f : Fam} {fp p c : Nat}
    (h : Warning.childBornBeforeParent fp p c ∈ childrenBornBeforeParentsRaw d f) : fp = f.ptr := by
  simp only [childrenBornBeforeParentsRaw, List.mem_flatMap] at h
  obtain ⟨c', _, h⟩ := h
  split at h
  · simp at h
  · simp only [List.mem_append] at h
    rcases h with h | h <;> split at h <;> simp at h <;> exact h.1

/-- inside one family the pair set only removes repetitions -/
theorem mem_cbbp_fam {d : Doc} {f : Fam} {fp p c : Nat} :
    Warning.childBornBeforeParent fp p c ∈ childrenBornBeforeParents d f ↔
      Warning.childBornBeforeParent fp p c ∈ childrenBornBeforeParentsRaw d f := by
  constructor
  · exact fun h => (oncePerPair_sublist _).subset h
  · intro h
    obtain ⟨f', hf'⟩ := opp_cbbp_kept _ [] [] (by simp) ⟨fp, h⟩
    have e1 := raw_cbbp_fam ((oncePerPair_sublist _).subset hf')
    have e2 := raw_cbbp_fam h
    rw [e2, ← e1]; exact hf'

/-- what the walk collects before the document-level pair set: the condition, family by family -/
theorem raw_child_born_before_parent (d : Doc) (now : Date) (hx : ExactDates d)
    (fp p c : Nat) :
    Warning.childBornBeforeParent fp p c ∈ rawWarnings d now ↔
      ∃ f, Rec.fam f ∈ d ∧ f.ptr = fp ∧ c ∈ f.chil ∧ (f.husb = some p ∨ f.wife = some p) ∧
        ∃ bc bp, birthDay d c = some bc ∧ birthDay d p = some bp ∧ bc < bp := by
  rw [mem_warnings_cases]
  constructor
  · rintro (⟨i, hi, h | h | h | h⟩ | ⟨f, hf, h | h | h | h | h⟩)
    all_goals try wrong_kind h
    rw [mem_cbbp_fam] at h
    simp only [childrenBornBeforeParentsRaw, List.mem_flatMap] at h
    obtain ⟨c', hc', h⟩ := h
    split at h
    · simp at h
    · rename_i hcv
      simp only [Bool.not_eq_true] at hcv
      obtain ⟨tc, htc⟩ := (validO_iff (birthOf_noGen hx)).mp (by simpa using hcv)
      have hfc := (birthOf_full hx htc).1
      simp only [List.mem_append] at h
      rcases h with h | h
      · split at h
        · rename_i hc
          simp at h
          obtain ⟨rfl, rfl, rfl⟩ := h
          simp only [Bool.and_eq_true] at hc
          obtain ⟨tp, htp⟩ := (validO_iff (birthOf_bind_noGen hx _)).mp hc.1
          cases hh : f.husb with
          | none => simp [hh, birthOf] at htp
          | some hp =>
            simp only [hh, Option.bind_some] at htp hc
            have hfp := (birthOf_full hx htp).1
            rw [htc, htp, yearsLtV_ok hfc hfp] at hc
            exact ⟨f, hf, rfl, hc', Or.inl (by simp [hh]), dayOf tc, dayOf tp,
              birthDay_eq_some.mpr ⟨tc, htc, rfl⟩, birthDay_eq_some.mpr ⟨tp, by simpa using htp, rfl⟩, hc.2⟩
        · simp at h
      · split at h
        · rename_i hc
          simp at h
          obtain ⟨rfl, rfl, rfl⟩ := h
          simp only [Bool.and_eq_true] at hc
          obtain ⟨tp, htp⟩ := (validO_iff (birthOf_bind_noGen hx _)).mp hc.1
          cases hh : f.wife with
          | none => simp [hh, birthOf] at htp
          | some wp =>
            simp only [hh, Option.bind_some] at htp hc
            have hfp := (birthOf_full hx htp).1
            rw [htc, htp, yearsLtV_ok hfc hfp] at hc
            exact ⟨f, hf, rfl, hc', Or.inr (by simp [hh]), dayOf tc, dayOf tp,
              birthDay_eq_some.mpr ⟨tc, htc, rfl⟩, birthDay_eq_some.mpr ⟨tp, by simpa using htp, rfl⟩, hc.2⟩
        · simp at h
  · rintro ⟨f, hf, rfl, hc, hpar, bc, bp, hbc, hbp, hlt⟩
    refine Or.inr ⟨f, hf, Or.inl ?_⟩
    obtain ⟨tc, htc, rfl⟩ := birthDay_eq_some.mp hbc
    obtain ⟨tp, htp, rfl⟩ := birthDay_eq_some.mp hbp
    have hfc := (birthOf_full hx htc).1
    have hfp := (birthOf_full hx htp).1
    rw [mem_cbbp_fam]
    simp only [childrenBornBeforeParentsRaw, List.mem_flatMap]
    refine ⟨c, hc, ?_⟩
    have hv : validO (birthOf (indiOf d c)) = true := (validO_iff (birthOf_noGen hx)).mpr ⟨tc, htc⟩
    simp only [hv, Bool.not_true, Bool.false_eq_true, if_false, List.mem_append]
    rcases hpar with hh | hh
    · left
      have : validO (birthOf (f.husb.bind (indiOf d))) = true := by
        rw [hh]; exact (validO_iff (birthOf_bind_noGen hx _)).mpr ⟨tp, by simpa using htp⟩
      have h2 : yearsLtV (birthOf (indiOf d c)) (birthOf (f.husb.bind (indiOf d))) = true := by
        rw [hh, Option.bind_some, htc, htp]; exact (yearsLtV_ok hfc hfp).mpr hlt
      rw [hh, Option.bind_some] at this h2
      simp [this, h2, hh]
    · right
      have : validO (birthOf (f.wife.bind (indiOf d))) = true := by
        rw [hh]; exact (validO_iff (birthOf_bind_noGen hx _)).mpr ⟨tp, by simpa using htp⟩
      have h2 : yearsLtV (birthOf (indiOf d c)) (birthOf (f.wife.bind (indiOf d))) = true := by
        rw [hh, Option.bind_some, htc, htp]; exact (yearsLtV_ok hfc hfp).mpr hlt
      rw [hh, Option.bind_some] at this h2
      simp [this, h2, hh]

/-- ChildBornBeforeParent(parent, child) is reported — once, in the context of the first family
    in file order that warrants it — exactly when `child` is a CHIL of some family, `parent` its
    HUSB or WIFE, both have a valid birth date and the child's birth day is strictly before the
    parent's. -/
theorem child_born_before_parent_sound_complete (d : Doc) (now : Date) (hx : ExactDates d)
    (p c : Nat) :
    (∃ fp, Warning.childBornBeforeParent fp p c ∈ warnings d now) ↔
      ∃ f, Rec.fam f ∈ d ∧ c ∈ f.chil ∧ (f.husb = some p ∨ f.wife = some p) ∧
        ∃ bc bp, birthDay d c = some bc ∧ birthDay d p = some bp ∧ bc < bp := by
  constructor
  · rintro ⟨fp, h⟩
    obtain ⟨f, hf, _, rest⟩ := (raw_child_born_before_parent d now hx fp p c).mp
      ((oncePerPair_sublist _).subset h)
    exact ⟨f, hf, rest⟩
  · rintro ⟨f, hf, rest⟩
    exact opp_cbbp_kept _ [] [] (by simp)
      ⟨f.ptr, (raw_child_born_before_parent d now hx f.ptr p c).mpr ⟨f, hf, rfl, rest⟩⟩

/-- … and the family named in the warning is one that warrants it -/
theorem child_born_before_parent_names_family (d : Doc) (now : Date) (hx : ExactDates d)
    (fp p c : Nat) (h : Warning.childBornBeforeParent fp p c ∈ warnings d now) :
    ∃ f, Rec.fam f ∈ d ∧ f.ptr = fp ∧ c ∈ f.chil ∧ (f.husb = some p ∨ f.wife = some p) ∧
      ∃ bc bp, birthDay d c = some bc ∧ birthDay d p = some bp ∧ bc < bp :=
  (raw_child_born_before_parent d now hx fp p c).mp ((oncePerPair_sublist _).subset h)

/-- membership of a sibling warning in what the walk collects is membership in its family's loop -/
theorem mem_siblings (d : Doc) (now : Date) (fp a b : Nat) :
    Warning.siblingsBornTooClose fp a b ∈ rawWarnings d now ↔
      ∃ f, Rec.fam f ∈ d ∧ f.ptr = fp ∧ (a, b) ∈ (siblingsLoop d f).1 := by
  rw [mem_warnings_cases]
  constructor
  · rintro (⟨i, hi, h | h | h | h⟩ | ⟨f, hf, h | h | h | h | h⟩)
    all_goals try wrong_kind h
    unfold siblingsBornTooClose at h
    rw [(sibInv d f).map, List.mem_map] at h
    obtain ⟨q, hq, he⟩ := h
    simp only [Warning.siblingsBornTooClose.injEq] at he
    obtain ⟨rfl, rfl, rfl⟩ := he
    exact ⟨f, hf, rfl, hq⟩
  · rintro ⟨f, hf, rfl, h⟩
    refine Or.inr ⟨f, hf, Or.inr (Or.inl ?_)⟩
    unfold siblingsBornTooClose
    rw [(sibInv d f).map, List.mem_map]
    exact ⟨(a, b), h, rfl⟩

/-- SiblingsBornTooClose{a, b} is reported (in one order or the other) in the context of family
    `fp` exactly when `a ≠ b` are both CHIL of that family, both have a valid birth date, and the
    birth days are at least 2 and fewer than 274 days apart. -/
theorem raw_siblings (d : Doc) (now : Date) (hx : ExactDates d) (fp a b : Nat) :
    (Warning.siblingsBornTooClose fp a b ∈ rawWarnings d now ∨
     Warning.siblingsBornTooClose fp b a ∈ rawWarnings d now) ↔
      ∃ f, Rec.fam f ∈ d ∧ f.ptr = fp ∧ a ∈ f.chil ∧ b ∈ f.chil ∧ SibSpec d a b := by
  rw [mem_siblings, mem_siblings]
  constructor
  · rintro (⟨f, hf, rfl, h⟩ | ⟨f, hf, rfl, h⟩)
    · obtain ⟨hm, hh⟩ := (sibInv d f).sound _ h
      obtain ⟨ha, hb⟩ := mem_chilPairs.mp hm
      exact ⟨f, hf, rfl, ha, hb, (siblingHit_iff hx a b).mp hh⟩
    · obtain ⟨hm, hh⟩ := (sibInv d f).sound _ h
      obtain ⟨hb, ha⟩ := mem_chilPairs.mp hm
      exact ⟨f, hf, rfl, ha, hb, ((siblingHit_iff hx b a).mp hh).symm⟩
  · rintro ⟨f, hf, rfl, ha, hb, hs⟩
    have hh := (siblingHit_iff hx a b).mpr hs
    obtain ⟨q, hq, hsym⟩ := pairsHas_iff.mp
      ((sibInv d f).complete (a, b) (mem_chilPairs.mpr ⟨ha, hb⟩) hh)
    obtain ⟨q1, q2⟩ := q
    rcases hsym with ⟨e1, e2⟩ | ⟨e1, e2⟩ <;> simp only at e1 e2 <;> subst e1 <;> subst e2
    · exact Or.inl ⟨f, hf, rfl, hq⟩
    · exact Or.inr ⟨f, hf, rfl, hq⟩

/-- SiblingsBornTooClose{a, b} is reported — once, in one order or the other, in the context of
    the first family in file order that warrants it — exactly when `a ≠ b` are both CHIL of some
    family, both have a valid birth date, and the birth days are at least 2 and fewer than 274
    days apart. -/
theorem siblings_sound_complete (d : Doc) (now : Date) (hx : ExactDates d) (a b : Nat) :
    (∃ fp, Warning.siblingsBornTooClose fp a b ∈ warnings d now ∨
           Warning.siblingsBornTooClose fp b a ∈ warnings d now) ↔
      ∃ f, Rec.fam f ∈ d ∧ a ∈ f.chil ∧ b ∈ f.chil ∧ SibSpec d a b := by
  constructor
  · rintro ⟨fp, h⟩
    have h' : Warning.siblingsBornTooClose fp a b ∈ rawWarnings d now ∨
        Warning.siblingsBornTooClose fp b a ∈ rawWarnings d now :=
      h.imp (fun h => (oncePerPair_sublist _).subset h) (fun h => (oncePerPair_sublist _).subset h)
    obtain ⟨f, hf, _, rest⟩ := (raw_siblings d now hx fp a b).mp h'
    exact ⟨f, hf, rest⟩
  · rintro ⟨f, hf, rest⟩
    rcases (raw_siblings d now hx f.ptr a b).mpr ⟨f, hf, rfl, rest⟩ with h | h
    · exact opp_sib_kept _ [] [] (by simp [pairsHas]) ⟨f.ptr, h⟩
    · obtain ⟨f', hf'⟩ := opp_sib_kept _ [] [] (by simp [pairsHas]) ⟨f.ptr, h⟩
      exact ⟨f', hf'.symm⟩

/-- **once_per_pair** (full): in the report of any document no (parent, child) pair and no
    unordered pair of siblings is reported twice — whatever the families, duplicate family records
    or repeated CHIL lines (the pair sets of `Warnings.oncePerPair`). -/
theorem once_per_pair (d : Doc) (now : Date) :
    (warnings d now).Pairwise fun w w' => ¬ samePair w w' :=
  (opp_once (rawWarnings d now) [] []).1

/-- once per pair, siblings: within a family no unordered pair of siblings is reported twice,
    whatever the CHIL lines are (the pair set of the loop). -/
theorem siblings_once_per_pair (d : Doc) (f : Fam) :
    (siblingsBornTooClose d f).Pairwise fun w w' => ¬ samePair w w' := by
  unfold siblingsBornTooClose
  rw [(sibInv d f).map, List.pairwise_map]
  exact (sibInv d f).nodup.imp fun {p q} h => by simpa [samePair, symPair] using h

/-- IncorrectEventOrder: "the `k2` (`d2`) was before the `k1` (`d1`)" is reported for individual
    `p` exactly when `p` has an event of kind `k1` dated `d1` and an event of kind `k2` dated `d2`,
    `k2` belongs to a later group than `k1` (birth < baptism < death < burial) and day `d2` is
    strictly before day `d1`. -/
theorem event_order_sound_complete (d : Doc) (now : Date) (hx : ExactDates d)
    (p : Nat) (k2 : EvKind) (d2 : Date) (k1 : EvKind) (d1 : Date) :
    Warning.incorrectEventOrder p k2 (.ok d2) k1 (.ok d1) ∈ warnings d now ↔
      ∃ i, Rec.indi i ∈ d ∧ i.ptr = p ∧ ∃ g1 g2, groupOf k1 = some g1 ∧ groupOf k2 = some g2 ∧
        g1 < g2 ∧ Dated i k1 (.ok d1) ∧ Dated i k2 (.ok d2) ∧ dayOf d2 < dayOf d1 := by
  rw [warnings, mem_oncePerPair_other (by simp [Warning.kind]) (by simp [Warning.kind]), mem_warnings_cases]
  constructor
  · rintro (⟨i, hi, h | h | h | h⟩ | ⟨f, hf, h | h | h | h | h⟩)
    all_goals try wrong_kind h
    unfold incorrectEventOrder at h
    obtain ⟨n, m, g, fg, hnm, hn, hm, ev, hev, fut, hfut, hw⟩ := (mem_orderFrom _).mp h
    obtain ⟨rfl, rfl, rfl, hc⟩ := mem_orderPair.mp hw
    obtain ⟨hg1, hd1⟩ := (group_idx hn).mp hev
    obtain ⟨hg2, hd2⟩ := (group_idx hm).mp hfut
    obtain ⟨e1, he1, _, ht1⟩ := hd1
    obtain ⟨e2, he2, _, ht2⟩ := hd2
    have hf1 := (hx.indi hi he1 ht1).1
    have hf2 := (hx.indi hi he2 ht2).1
    exact ⟨i, hi, rfl, n, m, hg1, hg2, hnm, ⟨e1, he1, ‹_›, ht1⟩, ⟨e2, he2, ‹_›, ht2⟩,
      (compare_exact hf2 hf1).mp hc⟩
  · rintro ⟨i, hi, rfl, g1, g2, hg1, hg2, hlt, hd1, hd2, hday⟩
    refine Or.inl ⟨i, hi, Or.inl ?_⟩
    unfold incorrectEventOrder
    rw [mem_orderFrom]
    have hg2lt : g2 < 4 := by cases k2 <;> simp [groupOf] at hg2 <;> omega
    obtain ⟨G1, hG1⟩ := group_idx_exists (i := i) (n := g1) (by omega)
    obtain ⟨G2, hG2⟩ := group_idx_exists (i := i) (n := g2) hg2lt
    obtain ⟨e1, he1, hk1, ht1⟩ := hd1
    obtain ⟨e2, he2, hk2, ht2⟩ := hd2
    have hf1 := (hx.indi hi he1 ht1).1
    have hf2 := (hx.indi hi he2 ht2).1
    exact ⟨g1, g2, G1, G2, hlt, hG1, hG2, (k1, .ok d1), (group_idx hG1).mpr ⟨hg1, e1, he1, hk1, ht1⟩,
      (k2, .ok d2), (group_idx hG2).mpr ⟨hg2, e2, he2, hk2, ht2⟩,
      mem_orderPair.mpr ⟨rfl, rfl, rfl, (compare_exact hf2 hf1).mpr hday⟩⟩

/-- MarriedOutOfRange(family `fp`, spouse `sp`, young | old) for the MARR node at position `k`
    among the family's events: reported exactly when `sp` is the HUSB or WIFE, has an estimated
    birth day `b` (earliest BIRT date, else earliest baptism date, all of them parsable), the MARR
    node has a valid date, and
    * young: every valid date of the node is fewer than 16 × 365.25 days from `b`,
    * old: some valid date of the node is more than 100 × 365.25 days from `b`
    (distance, so a marriage recorded *before* the birth counts as well — as coded).
    Guard: all exact dates of the document lie within a window of 106751 days (≈ 292 years, the
    range of Go's `time.Duration`). -/
theorem married_sound_complete (d : Doc) (now : Date) (hx : ExactDates d) (lo hi : Int)
    (hw : DatesWithin lo hi d) (hspan : hi - lo ≤ 106751) (fp sp : Nat) (old : Bool) (k : Nat) :
    Warning.marriedOutOfRange fp sp old k ∈ warnings d now ↔
      ∃ f, Rec.fam f ∈ d ∧ f.ptr = fp ∧ (f.husb = some sp ∨ f.wife = some sp) ∧
        ∃ e, f.events[k]? = some e ∧ e.kind = .marr ∧
          ∃ i b, indiOf d sp = some i ∧ EstBirthDay i b ∧
            ((old = false ∧ (∃ t, DateV.ok t ∈ e.dates) ∧
                ∀ t, DateV.ok t ∈ e.dates → absd (dayOf t) b * 4 < 16 * 1461) ∨
             (old = true ∧ ∃ t, DateV.ok t ∈ e.dates ∧ absd (dayOf t) b * 4 > 100 * 1461)) := by
  have spec : ∀ f, Rec.fam f ∈ d → ∀ e, e ∈ f.events → ∀ i, indiOf d sp = some i → _ :=
    fun f hf e he i hi => ageAtEvent_spec (i := i) (e := e) (hx.fullEvs (indiOf_some hi).1)
      (fun x hx' => hx.fine_fam hf he hx')
      (by
        intro b hb t ht
        obtain ⟨e', he', t', ht', hd'⟩ := hb.mem
        have h1 := hw.indi (indiOf_some hi).1 he' ht'
        have h2 := hw.fam hf he ht
        unfold absd; split <;> omega)
  rw [warnings, mem_oncePerPair_other (by simp [Warning.kind]) (by simp [Warning.kind]), mem_warnings_cases]
  constructor
  · rintro (⟨i, hi, h | h | h | h⟩ | ⟨f, hf, h | h | h | h | h⟩)
    all_goals try wrong_kind h
    unfold marriedOutOfRange at h
    obtain ⟨j, e, hj, hm⟩ := (mem_marriedFrom f.events 0).mp h
    obtain ⟨hk, rfl, rfl, i, hi, hsp, hc⟩ := mem_marriedAt.mp hm
    have he := List.mem_of_getElem? hj
    have sp' := spec f hf e he i hi
    refine ⟨f, hf, rfl, hsp, e, by simpa using hj, hk, i, ?_⟩
    rcases hc with ⟨rfl, h1, h2⟩ | ⟨rfl, h1⟩
    · obtain ⟨b, hb, hex, hall⟩ := sp'.1.mp ⟨h1, h2⟩
      exact ⟨b, hi, hb, Or.inl ⟨rfl, hex, hall⟩⟩
    · obtain ⟨b, hb, hex⟩ := sp'.2.mp h1
      exact ⟨b, hi, hb, Or.inr ⟨rfl, hex⟩⟩
  · rintro ⟨f, hf, rfl, hsp, e, hj, hk, i, b, hi, hb, hc⟩
    refine Or.inr ⟨f, hf, Or.inr (Or.inr (Or.inl ?_))⟩
    unfold marriedOutOfRange
    rw [mem_marriedFrom]
    refine ⟨k, e, hj, ?_⟩
    rw [Nat.zero_add, mem_marriedAt]
    have he := List.mem_of_getElem? hj
    have sp' := spec f hf e he i hi
    refine ⟨hk, rfl, rfl, i, hi, hsp, ?_⟩
    rcases hc with ⟨rfl, hex, hall⟩ | ⟨rfl, hex⟩
    · have := sp'.1.mpr ⟨b, hb, hex, hall⟩
      exact Or.inl ⟨rfl, this.1, this.2⟩
    · exact Or.inr ⟨rfl, sp'.2.mpr ⟨b, hb, hex⟩⟩

/-- IndividualTooOld(`p`): reported exactly when `p` has an estimated death date `td` (earliest
    DEAT date, else earliest BURI date, all of them parsable) and an estimated birth date `tb`,
    and `Years(td) − Years(tb) > 100` on the fractional-year scale of `Date.Years()` (which C05
    proves strictly monotone in the calendar).  `tb`/`td` fall on the specified days
    (`EstBirthDay`, `EstDeathDay`).  Guards: today is a calendar date and every exact date of the
    document lies before today. -/
theorem too_old_sound_complete (d : Doc) (now : Date) (hx : ExactDates d) (hnow : C05.Full now)
    (lo : Int) (hpast : DatesWithin lo (dayOf now - 1) d) (p : Nat) :
    Warning.individualTooOld p ∈ warnings d now ↔
      ∃ i, Rec.indi i ∈ d ∧ i.ptr = p ∧ ∃ tb td, estBirth i = some (.ok tb) ∧
        estDeath i = some (.ok td) ∧ EstBirthDay i (dayOf tb) ∧ EstDeathDay i (dayOf td) ∧
        YearsApartGt tb td 100 := by
  have key : ∀ i, Rec.indi i ∈ d → _ := fun i hi =>
    tooOld_iff (i := i) (now := now) (hx.fullEvs hi) hnow
      (fun e he t ht => by have := (hpast.indi hi he ht).2; omega)
  rw [warnings, mem_oncePerPair_other (by simp [Warning.kind]) (by simp [Warning.kind]), mem_warnings_cases]
  constructor
  · rintro (⟨i, hi, h | h | h | h⟩ | ⟨f, hf, h | h | h | h | h⟩)
    all_goals try wrong_kind h
    obtain ⟨rfl, h1, h2⟩ := mem_tooOld.mp h
    obtain ⟨tb, td, hb, hd, hy⟩ := (key i hi).mp ⟨h1, h2⟩
    exact ⟨i, hi, rfl, tb, td, hb, hd, estBirth_to_spec (hx.fullEvs hi) hb,
      estDeath_to_spec (hx.fullEvs hi) hd, hy⟩
  · rintro ⟨i, hi, rfl, tb, td, hb, hd, _, _, hy⟩
    refine Or.inl ⟨i, hi, Or.inr (Or.inl ?_)⟩
    have := (key i hi).mpr ⟨tb, td, hb, hd, hy⟩
    exact mem_tooOld.mpr ⟨rfl, this.1, this.2⟩

/-! ### once per pair: regression about the rule before the repair

  Before fixes/C20-once-per-pair.patch the family check reported a (parent, child) pair once per
  CHIL line and per family that lists it (DESIGN defect 24).  The walk still *collects* the pair
  once per family (`rawWarnings`) and the family loop once per CHIL line
  (`childrenBornBeforeParentsRaw`); the two `oncePerPair` passes are what makes `once_per_pair`
  true.  The old witnesses are kept as a regression example. -/

/-- the (parent, child) of a child-born-before-parent warning -/
def cbbpPair : Warning → Option (Nat × Nat)
  | .childBornBeforeParent _ p c => some (p, c)
  | _ => none

/-- the two-family witness: `@I1@` born 1 Jan 1900 is HUSB, `@I2@` born 1 Jan 1890 is CHIL, in
    both `@F1@` and `@F2@` -/
def witness24 : Doc :=
  [.indi ⟨1, [], [⟨.birt, [.ok ⟨1, 1, 1900⟩]⟩]⟩, .indi ⟨2, [], [⟨.birt, [.ok ⟨1, 1, 1890⟩]⟩]⟩,
   .fam ⟨1, some 1, none, [2], []⟩, .fam ⟨2, some 1, none, [2], []⟩]

/-- the same CHIL line twice in one family -/
def witness24' : Doc :=
  [.indi ⟨1, [], [⟨.birt, [.ok ⟨1, 1, 1900⟩]⟩]⟩, .indi ⟨2, [], [⟨.birt, [.ok ⟨1, 1, 1890⟩]⟩]⟩,
   .fam ⟨1, some 1, none, [2, 2], []⟩]

/-- regression (defect 24): without the pair sets the pair (I1, I2) would be reported twice on
    both witnesses; with them it is reported once -/
theorem once_per_pair_regression :
    (rawWarnings witness24 ⟨26, 9, 2026⟩).filterMap cbbpPair = [(1, 2), (1, 2)] ∧
    (warnings witness24 ⟨26, 9, 2026⟩).filterMap cbbpPair = [(1, 2)] ∧
    (childrenBornBeforeParentsRaw witness24' ⟨1, some 1, none, [2, 2], []⟩).filterMap cbbpPair =
      [(1, 2), (1, 2)] ∧
    (warnings witness24' ⟨26, 9, 2026⟩).filterMap cbbpPair = [(1, 2)] := by
  refine ⟨by decide, by decide, by decide, by decide⟩

/-- Order independence: if `d'` is `d` with its records in another order and the CHIL lines of
    each family in another order (`Reordered`), and the individuals' pointers are distinct, the
    two reports are permutations of each other once each sibling pair is written smaller pointer
    first and pair warnings are read without their family context (`norm`: which of several
    families reports a pair depends on the file order) — the same multiset of warnings. -/
theorem order_independent (d d' : Doc) (now : Date) (hn : PtrsNodup d) (h : Reordered d d') :
    ((warnings d now).map norm).Perm ((warnings d' now).map norm) := by
  have hi := indiOf_reordered hn h
  obtain ⟨d1, hp, he⟩ := h
  have hcongr : recWarnings d' now = recWarnings d now := by
    funext r; exact recWarnings_congr hi now r
  unfold warnings
  apply opp_perm
  unfold rawWarnings
  rw [hcongr]
  exact ((hp.flatMap_right _).map norm).trans (recsEquiv_perm d now he)

/-! ### the 365.25-day year against the calendar -/

theorem cum_leap (l : Bool) {m : Nat} (h1 : 1 ≤ m) (h2 : m ≤ 12) :
    cum l m = cum false m + (if l = true ∧ 3 ≤ m then 1 else 0) := by
  rcases month_cases h1 h2 with h|h|h|h|h|h|h|h|h|h|h|h <;> subst h <;> cases l <;> simp [cum]

theorem isLeap_false_iff (y : Int) :
    isLeap y = false ↔ ¬ (y % 4 = 0 ∧ (y % 100 ≠ 0 ∨ y % 400 = 0)) := by
  rw [← isLeap_iff]; cases isLeap y <;> simp

/-- **year_approximation**: the same calendar day `n ≤ 150` years later is fewer than 3 days away
    from `n × 365.25` days — in quarter days `|4·Δdays − 1461·n| < 12`, over the closed-form day
    numbers of Model/Calendar.lean, for every year, month and day.  (−11 quarter days is reached,
    e.g. 1 Mar 0056 → 1 Mar 0203, across two non-leap century years.)  This is the margin the
    married-young/old oracle relies on: a marriage 3 or more days away from the 16th / 100th
    birthday is on the same side of `16 × 365.25` / `100 × 365.25` days as of the birthday. -/
theorem year_approximation (y n : Int) (m : Nat) (d : Int) (hn0 : 0 ≤ n) (hn : n ≤ 150)
    (hm1 : 1 ≤ m) (hm2 : m ≤ 12) :
    -12 < 4 * (dayNumber (y + n) m d - dayNumber y m d) - 1461 * n ∧
    4 * (dayNumber (y + n) m d - dayNumber y m d) - 1461 * n < 12 := by
  unfold dayNumber daysBeforeYear
  rw [cum_leap (isLeap (y + n)) hm1 hm2, cum_leap (isLeap y) hm1 hm2]
  generalize cum false m = c0
  by_cases hm3 : 3 ≤ m
  · cases ha : isLeap y <;> cases hb : isLeap (y + n) <;>
      simp only [hm3, and_true, if_true, Bool.false_eq_true, if_false] <;>
      first
        | (have a := (isLeap_iff y).mp ha; have b := (isLeap_iff (y + n)).mp hb; omega)
        | (have a := (isLeap_iff y).mp ha; have b := (isLeap_false_iff (y + n)).mp hb; omega)
        | (have a := (isLeap_false_iff y).mp ha; have b := (isLeap_iff (y + n)).mp hb; omega)
        | (have a := (isLeap_false_iff y).mp ha; have b := (isLeap_false_iff (y + n)).mp hb; omega)
  · simp only [hm3, and_false, if_false]
    omega

/-- a marriage at least 3 days after (before) the `n`-th birthday is more (fewer) than
    `n × 365.25` days after the birth: the civil reading and the code's constant agree outside a
    3-day margin -/
theorem anniversary_margin (y n : Int) (m : Nat) (d x : Int) (hn0 : 0 ≤ n) (hn : n ≤ 150)
    (hm1 : 1 ≤ m) (hm2 : m ≤ 12) :
    (dayNumber (y + n) m d + 3 ≤ x → 4 * (x - dayNumber y m d) > 1461 * n) ∧
    (x + 3 ≤ dayNumber (y + n) m d → 4 * (x - dayNumber y m d) < 1461 * n) := by
  have := year_approximation y n m d hn0 hn hm1 hm2
  constructor <;> intro h <;> omega

/-! ### exact days inside the general date model

  The driver sorts every parsed DATE value into `ok` / `bad` / `gen` (`classifyDate`).  The
  theorems above are about `ok` and `bad`; this shows that treating an exact day as `ok` is the
  same as running the general (`gen`) reading of its two ends. -/

/-- the parsed ends of an exact day -/
def exactP (t : Date) : PDate := ⟨t.day, t.month, t.year, .exact, false⟩

theorem exact_is_general (l : Nat) (t : Date) (hd : t.day ≠ 0) (hy1 : 1 ≤ t.year) (hy2 : t.year ≤ 9999) :
    let g := DateV.gen l (exactP t) (exactP t)
    g.valid = (DateV.ok t).valid ∧ startFrac (some g) = startFrac (some (.ok t)) ∧
    endFrac (some g) = endFrac (some (.ok t)) ∧ startI (some g) = startI (some (.ok t)) ∧
    endI (some g) = endI (some (.ok t)) ∧
    -- the mean of two equal ends: the same fraction `N/D`, written `(N·D + N·D) / (2·D·D)`
    yearsFrac (some g) = (
      (yearsFrac (some (.ok t))).1 * (yearsFrac (some (.ok t))).2 +
        (yearsFrac (some (.ok t))).1 * (yearsFrac (some (.ok t))).2,
      2 * ((yearsFrac (some (.ok t))).2 * (yearsFrac (some (.ok t))).2)) ∧
    subErr (some g) none = subErr (some (.ok t)) none := by
  have hy0 : ¬ t.year = 0 := by omega
  have e : (exactP t).toDate = t := rfl
  have hf : (exactP t).yearsFrac = ((t.year : Int) * t.yearsDen + t.yearsNum, t.yearsDen) := by
    simp [PDate.yearsFrac, exactP, hy0, hy2, PDate.toDate]
  refine ⟨?_, ?_, ?_, ?_, ?_, ?_, ?_⟩
  · simp [DateV.valid, PDate.isZero, exactP, hd]
  · simp [startFrac, hf]
  · simp [endFrac, hf]
  · simp [startI, timeOK, exactP, hy1, hy2, PDate.toDate]
  · simp [endI, timeOK, exactP, hy1, hy2, PDate.toDate]
  · simp only [yearsFrac, hf]
  · simp [subErr, exactP]

/-! ### the general-date branch: unparsable dates and event order on parsed values -/

/-- the classification of a parsed value keeps `DateRange.IsValid` -/
theorem classify_valid (r : DateRange) : (classifyDate r).valid = r.isValid := by
  unfold classifyDate
  simp only
  split
  · rename_i h
    simp only [Bool.and_eq_true, beq_iff_eq, bne_iff_ne, ne_eq, Bool.not_eq_true', decide_eq_true_eq] at h
    obtain ⟨⟨⟨⟨⟨⟨he, _⟩, _⟩, hd⟩, _⟩, _⟩, _⟩ := h
    simp [DateV.valid, DateRange.isValid, PDate.isZero, ← he, hd]
  · split
    · rename_i h
      simp only [Bool.and_eq_true] at h
      simp [DateV.valid, DateRange.isValid, h.1.2, h.2]
    · rfl

theorem dateOf_valid (l : Nat) (v : Str) :
    (dateOf l v).valid = (parseDateRange v).isValid ∧
    ((dateOf l v).valid = false → (dateOf l v).label = l) := by
  unfold dateOf
  rw [← classify_valid]
  cases classifyDate (parseDateRange v) <;> simp [relabelDate, DateV.valid, DateV.label]

/-- **unparsable_iff_invalid_parse** (per DATE node): the DATE node at position `l` with value `v`
    yields an UnparsableDate warning if and only if `NewDateRangeWithString(v)` is not valid
    (`DateNode.Warnings`; the parser is C04's model). -/
theorem unparsable_iff_invalid_parse (inFam : Bool) (p l : Nat) (k : EvKind) (v : Str) :
    unparsable inFam p [⟨k, [dateOf l v]⟩] =
      if (parseDateRange v).isValid then [] else [Warning.unparsableDate inFam p l] := by
  obtain ⟨h1, h2⟩ := dateOf_valid l v
  simp only [unparsable, datesOf, List.flatMap_cons, List.flatMap_nil, List.append_nil, h1]
  cases hv : (parseDateRange v).isValid with
  | true => simp
  | false => rw [hv] at h1; simp [h2 h1]

/-- … and in a whole document: an invalid value in an individual's event is reported -/
theorem unparsable_of_invalid_parse (d : Doc) (now : Date) (i : Indi) (hi : Rec.indi i ∈ d) (e : Ev)
    (he : e ∈ i.events) (l : Nat) (v : Str) (hm : dateOf l v ∈ e.dates)
    (hv : (parseDateRange v).isValid = false) :
    Warning.unparsableDate false i.ptr l ∈ warnings d now := by
  obtain ⟨h1, h2⟩ := dateOf_valid l v
  rw [hv] at h1
  exact (unparsable_sound_complete d now false i.ptr l).mpr
    (Or.inl ⟨rfl, i, hi, rfl, e, he, _, hm, h1, h2 h1⟩)

theorem dayS_ok (t : Date) : dayS (.ok t) = t.firstDay := by
  simp only [dayS, startI, Date.startInstant, nsPerDay]
  omega

theorem dayE_ok (t : Date) : dayE (.ok t) = t.lastDay := by
  simp only [dayE, endI, Date.endInstant, nsPerDay]
  omega

/-- the truncated ends of a general date whose years are 1..9999 are the first day of its start
    and the last day of its end (C05's calendar) -/
theorem dayS_gen (l : Nat) (s e : PDate) (h : timeOK s = true) : dayS (.gen l s e) = s.toDate.firstDay := by
  simp only [dayS, startI, h, if_true, Date.startInstant, nsPerDay]
  omega

theorem dayE_gen (l : Nat) (s e : PDate) (h : timeOK e = true) : dayE (.gen l s e) = e.toDate.lastDay := by
  simp only [dayE, endI, h, if_true, Date.endInstant, nsPerDay]
  omega

/-- one comparison of the event-order check, for dates of every shape -/
theorem orderPair_eq (p : Nat) (ev fut : EvKind × DateV) :
    orderPair p ev fut =
      if ev.2.valid && fut.2.valid &&
          decide (compare (dayS fut.2) (dayE fut.2) (dayS ev.2) (dayE ev.2) = .entirelyBefore) then
        [Warning.incorrectEventOrder p fut.1 fut.2 ev.1 ev.2]
      else [] := by
  obtain ⟨ek, ed⟩ := ev
  obtain ⟨fk, fd⟩ := fut
  unfold orderPair
  cases ed <;> cases fd <;> simp only []
  case ok.ok a b =>
    simp only [compareDates, dayS_ok, dayE_ok, DateV.valid, Bool.true_and]
    by_cases h : compare b.firstDay b.lastDay a.firstDay a.lastDay = .entirelyBefore <;> simp [h]

/-- **event_order_general**: for dates of any parsed shape whose ranges run forwards, "the `k2`
    (`x2`) was before the `k1` (`x1`)" is reported exactly when the individual has those two dated
    events, `k2` belongs to a later group than `k1`, both dates are valid, and `x2` *ends* (last
    day of its end date) before `x1` *starts* (first day of its start date) — C06 `event_order`
    on `dayS` / `dayE`, which `dayS_gen` / `dayE_gen` identify with C05's `firstDay` / `lastDay`. -/
theorem event_order_general (d : Doc) (now : Date) (p : Nat) (k2 : EvKind) (x2 : DateV)
    (k1 : EvKind) (x1 : DateV) (hf1 : dayS x1 ≤ dayE x1) (hf2 : dayS x2 ≤ dayE x2) :
    Warning.incorrectEventOrder p k2 x2 k1 x1 ∈ warnings d now ↔
      ∃ i, Rec.indi i ∈ d ∧ i.ptr = p ∧ ∃ g1 g2, groupOf k1 = some g1 ∧ groupOf k2 = some g2 ∧
        g1 < g2 ∧ Dated i k1 x1 ∧ Dated i k2 x2 ∧ x1.valid = true ∧ x2.valid = true ∧
        dayE x2 < dayS x1 := by
  have hpair : ∀ (q : Nat) (ev fut : EvKind × DateV),
      Warning.incorrectEventOrder p k2 x2 k1 x1 ∈ orderPair q ev fut ↔
        p = q ∧ ev = (k1, x1) ∧ fut = (k2, x2) ∧ x1.valid = true ∧ x2.valid = true ∧
          dayE x2 < dayS x1 := by
    intro q ev fut
    rw [orderPair_eq]
    obtain ⟨ek, ed⟩ := ev
    obtain ⟨fk, fd⟩ := fut
    constructor
    · intro h
      split at h
      · rename_i hc
        simp only [List.mem_singleton, Warning.incorrectEventOrder.injEq] at h
        obtain ⟨rfl, rfl, rfl, rfl, rfl⟩ := h
        simp only [Bool.and_eq_true, decide_eq_true_eq] at hc
        exact ⟨rfl, rfl, rfl, hc.1.1, hc.1.2, (C06.event_order _ _ _ _ hf2 hf1).mp hc.2⟩
      · simp at h
    · rintro ⟨rfl, he, hf, hv1, hv2, hlt⟩
      simp only [Prod.mk.injEq] at he hf
      obtain ⟨rfl, rfl⟩ := he
      obtain ⟨rfl, rfl⟩ := hf
      have := (C06.event_order _ _ _ _ hf2 hf1).mpr hlt
      simp [hv1, hv2, this]
  rw [warnings, mem_oncePerPair_other (by simp [Warning.kind]) (by simp [Warning.kind]), mem_warnings_cases]
  constructor
  · rintro (⟨i, hi, h | h | h | h⟩ | ⟨f, hf, h | h | h | h | h⟩)
    all_goals try wrong_kind h
    unfold incorrectEventOrder at h
    obtain ⟨n, m, g, fg, hnm, hn, hm, ev, hev, fut, hfut, hw⟩ := (mem_orderFrom _).mp h
    obtain ⟨rfl, rfl, rfl, hv1, hv2, hlt⟩ := (hpair _ _ _).mp hw
    obtain ⟨hg1, hd1⟩ := (group_idx hn).mp hev
    obtain ⟨hg2, hd2⟩ := (group_idx hm).mp hfut
    exact ⟨i, hi, rfl, n, m, hg1, hg2, hnm, hd1, hd2, hv1, hv2, hlt⟩
  · rintro ⟨i, hi, rfl, g1, g2, hg1, hg2, hlt, hd1, hd2, hv1, hv2, hday⟩
    refine Or.inl ⟨i, hi, Or.inl ?_⟩
    unfold incorrectEventOrder
    rw [mem_orderFrom]
    have hg2lt : g2 < 4 := by cases k2 <;> simp [groupOf] at hg2 <;> omega
    obtain ⟨G1, hG1⟩ := group_idx_exists (i := i) (n := g1) (by omega)
    obtain ⟨G2, hG2⟩ := group_idx_exists (i := i) (n := g2) hg2lt
    exact ⟨g1, g2, G1, G2, hlt, hG1, hG2, (k1, x1), (group_idx hG1).mpr ⟨hg1, hd1⟩,
      (k2, x2), (group_idx hG2).mpr ⟨hg2, hd2⟩, (hpair _ _ _).mpr ⟨rfl, rfl, rfl, hv1, hv2, hday⟩⟩

/-! Non-vacuity: concrete documents that meet the guards and exercise each side (tests, not the
    property). -/

/-- parents born 1 Jan 1800 (F, listed as HUSB) and 1 Jan 1801 (M, listed as WIFE), married at 15;
    children born 2 Mar 1830, 4 Mar 1830 (2 days later), 5 Mar 1830, 3 Dec 1830 (274 days after
    the first) and 1 Jan 1799; the first child has two SEX lines, dies aged 101 and is buried
    before the death; one unparsable date -/
def sample : Doc :=
  [.indi ⟨1, [.f], [⟨.birt, [.ok ⟨1, 1, 1800⟩]⟩]⟩,
   .indi ⟨2, [.m], [⟨.birt, [.ok ⟨1, 1, 1801⟩]⟩]⟩,
   .indi ⟨3, [.m, .f], [⟨.birt, [.ok ⟨2, 3, 1830⟩]⟩, ⟨.deat, [.ok ⟨2, 3, 1931⟩]⟩,
      ⟨.buri, [.ok ⟨1, 3, 1931⟩]⟩, ⟨.other, [.bad 7]⟩]⟩,
   .indi ⟨4, [], [⟨.birt, [.ok ⟨4, 3, 1830⟩]⟩]⟩,
   .indi ⟨5, [], [⟨.birt, [.ok ⟨5, 3, 1830⟩]⟩]⟩,
   .indi ⟨6, [], [⟨.birt, [.ok ⟨1, 12, 1830⟩]⟩]⟩,
   .indi ⟨7, [], [⟨.birt, [.ok ⟨1, 1, 1799⟩]⟩]⟩,
   .fam ⟨1, some 1, some 2, [3, 4, 5, 6, 7], [⟨.marr, [.ok ⟨1, 6, 1815⟩]⟩]⟩]

def today : Date := ⟨26, 9, 2026⟩

example : ExactDates sample ∧ ExactDates witness24 := by decide
example : DatesWithin (dayOf ⟨1, 1, 1799⟩) (dayOf today - 1) sample ∧
    dayOf today - 1 - dayOf ⟨1, 1, 1799⟩ ≤ 106751 ∧ C05.Full today := by decide
example : warnings sample today =
    [.incorrectEventOrder 3 .buri (.ok ⟨1, 3, 1931⟩) .deat (.ok ⟨2, 3, 1931⟩), .individualTooOld 3,
     .multipleSexes 3 2, .unparsableDate false 3 7,
     .childBornBeforeParent 1 1 7, .childBornBeforeParent 1 2 7,
     .siblingsBornTooClose 1 3 4, .siblingsBornTooClose 1 3 5, .siblingsBornTooClose 1 4 6,
     .siblingsBornTooClose 1 5 6,
     .marriedOutOfRange 1 1 false 0, .marriedOutOfRange 1 2 false 0,
     .inverseSpouses 1 1 2] := by decide
/-- `sample` with the family first and its children reversed -/
def sample' : Doc :=
  (.fam ⟨1, some 1, some 2, [7, 6, 5, 4, 3], [⟨.marr, [.ok ⟨1, 6, 1815⟩]⟩]⟩) :: sample.dropLast

example : PtrsNodup sample := by decide
example : Reordered sample sample' :=
  ⟨.fam ⟨1, some 1, some 2, [3, 4, 5, 6, 7], [⟨.marr, [.ok ⟨1, 6, 1815⟩]⟩]⟩ :: sample.dropLast,
   by decide,
   .cons (.fam ⟨rfl, rfl, rfl, rfl, by decide⟩)
     (.cons (.indi _) (.cons (.indi _) (.cons (.indi _) (.cons (.indi _) (.cons (.indi _)
       (.cons (.indi _) (.cons (.indi _) .nil)))))))⟩
/-- the reordered document reports the sibling pairs the other way round -/
example : Warning.siblingsBornTooClose 1 4 3 ∈ warnings sample' today ∧
    Warning.siblingsBornTooClose 1 3 4 ∉ warnings sample' today := by decide
/-- children 3 and 6 are 274 days apart, 4 and 5 one day apart: not reported -/
example : Warning.siblingsBornTooClose 1 3 6 ∉ warnings sample today ∧
    Warning.siblingsBornTooClose 1 4 5 ∉ warnings sample today := by decide
/-- exactly 100 years on the Years scale (2 Jul of two non-leap years) is not too old; a day more is -/
example : warnings [.indi ⟨1, [], [⟨.birt, [.ok ⟨2, 7, 1801⟩]⟩, ⟨.deat, [.ok ⟨2, 7, 1901⟩]⟩]⟩] today = [] ∧
    warnings [.indi ⟨1, [], [⟨.birt, [.ok ⟨2, 7, 1801⟩]⟩, ⟨.deat, [.ok ⟨3, 7, 1901⟩]⟩]⟩] today =
      [.individualTooOld 1] := by decide

end Gedcom.C20
