/-
  C12 — Similarity scores are bounded, symmetric and maximal on identity.
  Property theorems only; they are about the functions of `Gedcom.Model.Similarity` that the
  driver executes.  Scores are exact rationals (core `Rat`); float64 rounding is outside the
  model: the harness compares every float64 score with the model's fraction within 1e-9 and
  checks the inequalities below exactly on the float64 values.

  Configurations: `SimOpts.Valid` (MaxYears > 0, name/date ratio in [0,1], Jaro prefix size ≤ 10,
  non-negative weights summing to 1) — the property's quantifier.  No bound on string length,
  number of names, list length or number of families anywhere.
-/
import Gedcom.Lemmas.ListTies
import Gedcom.Model.SimilarityRaw
namespace Gedcom.C12
open Gedcom Gedcom.Sim

/-! ## Strings -/

/-- Jaro lies in [0,1] for all byte strings: every match flags a fresh position of `b` (so
    matches ≤ |b|), at most one match per position of `a` (matches ≤ |a|), halfs ≤ matches. -/
theorem jaro_bounds (a b : Str) : 0 ≤ jaro a b ∧ jaro a b ≤ 1 := jaro_bounds' a b

/-- a non-empty string compared with itself: every position matches itself, no transposition -/
theorem jaro_self (a : Str) (h : a ≠ []) : jaro a a = 1 := jaro_self' a h

/-- Jaro-Winkler stays in [0,1] as long as the prefix size is at most 10 (any boost threshold).
    For larger prefix sizes the statement is false of the code (1.0278 at 20) — outside the
    property's configurations. -/
theorem jaroWinkler_bounds (a b : Str) (boost : Rat) (p : Nat) (hp : p ≤ 10) :
    0 ≤ jaroWinkler a b boost p ∧ jaroWinkler a b boost p ≤ 1 := jaroWinkler_bounds' a b boost p hp

theorem jaroWinkler_self (a : Str) (boost : Rat) (p : Nat) (h : a ≠ []) :
    jaroWinkler a a boost p = 1 := jaroWinkler_self' a boost p h

/-- the prefix boost is symmetric: Jaro-Winkler is symmetric wherever Jaro is -/
theorem jw_symm_prefix (a b : Str) (boost : Rat) (p : Nat) (h : jaro a b = jaro b a) :
    jaroWinkler a b boost p = jaroWinkler b a boost p := jaroWinkler_comm_of_jaro a b boost p h

/-- Jaro does not depend on the operand order, for all byte strings: the greedy window matching
    is the unique matching that is stable for "smaller index first" on both sides, a condition
    that is symmetric in the two strings, so starting from either side pairs the same positions
    (same `matches`, same `halfs`) -/
theorem jaro_symm (a b : Str) : jaro a b = jaro b a := jaro_symm' a b

theorem jaroWinkler_symm (a b : Str) (boost : Rat) (p : Nat) :
    jaroWinkler a b boost p = jaroWinkler b a boost p :=
  jaroWinkler_comm_of_jaro a b boost p (jaro_symm' a b)

theorem stringSimilarity_symm (a b : Str) (boost : Rat) (p : Nat) :
    stringSimilarity a b boost p = stringSimilarity b a boost p := stringSimilarity_comm a b boost p

theorem stringSimilarity_bounds (a b : Str) (boost : Rat) (p : Nat) (hp : p ≤ 10) :
    0 ≤ stringSimilarity a b boost p ∧ stringSimilarity a b boost p ≤ 1 :=
  stringSimilarity_bounds' a b boost p hp

/-- identical names score 1 — every name of which something is left after trimming white space
    (`CleanSpace`), in any script.  Since the fix "a name written outside a-z and 0-9 is similar
    to itself"; before it a name that normalises to nothing (王小明, "...") scored 0 against
    itself (defect 23).  Blank names (white space only) are empty after trimming and score 0:
    they are not names. -/
theorem identity_is_one (a : Str) (boost : Rat) (p : Nat) (h : Gedcom.cleanSpace a ≠ []) :
    stringSimilarity a a boost p = 1 := stringSimilarity_self' a boost p h

/-- in particular every non-empty name that neither starts nor ends with white space and has no
    double space — e.g. every NAME value a decoded file can contain after `CleanSpace` -/
theorem identity_is_one_clean (a : Str) (boost : Rat) (p : Nat) (h : a ≠ []) (hc : Gedcom.cleanSpace a = a) :
    stringSimilarity a a boost p = 1 := identity_is_one a boost p (by rw [hc]; exact h)

-- regression witnesses of the old rule: "王小明" (UTF-8) and "..." now score 1 against themselves,
-- a blank name and a non-Latin name against a Latin one still score 0
example : stringSimilarity [0xe7, 0x8e, 0x8b, 0xe5, 0xb0, 0x8f, 0xe6, 0x98, 0x8e]
    [0xe7, 0x8e, 0x8b, 0xe5, 0xb0, 0x8f, 0xe6, 0x98, 0x8e] 0 8 = 1 := by decide +kernel
example : stringSimilarity [46, 46, 46] [46, 46, 46] 0 8 = 1 ∧ stringSimilarity [32, 32] [32, 32] 0 8 = 0 ∧
    stringSimilarity [0xe7, 0x8e, 0x8b] [119, 97, 110, 103] 0 8 = 0 := by decide +kernel
-- two different names of that kind are graded, not 0 or 1: 王小明 / 王小名
example : stringSimilarity [0xe7, 0x8e, 0x8b, 0xe5, 0xb0, 0x8f, 0xe6, 0x98, 0x8e]
    [0xe7, 0x8e, 0x8b, 0xe5, 0xb0, 0x8f, 0xe5, 0x90, 0x8d] 0 8 = 41 / 45 := by decide +kernel

/-! ## Dates -/

/-- in [0,1] for every pair of year values and every MaxYears -/
theorem date_bounds (l r maxYears : Rat) :
    0 ≤ yearsSimilarity l r maxYears ∧ yearsSimilarity l r maxYears ≤ 1 :=
  yearsSimilarity_bounds' l r maxYears

theorem date_symm (l r maxYears : Rat) : yearsSimilarity l r maxYears = yearsSimilarity r l maxYears :=
  yearsSimilarity_comm' l r maxYears

/-- the score depends only on the distance in years … -/
theorem date_distance_only (l r l' r' maxYears : Rat) (h : (l - r).abs = (l' - r').abs) :
    yearsSimilarity l r maxYears = yearsSimilarity l' r' maxYears :=
  yearsSimilarity_distance' l r l' r' maxYears h

/-- … never increases as the distance grows … -/
theorem date_antitone (l r l' r' maxYears : Rat) (h : (l - r).abs ≤ (l' - r').abs) :
    yearsSimilarity l' r' maxYears ≤ yearsSimilarity l r maxYears :=
  yearsSimilarity_antitone' l r l' r' maxYears h

/-- … and is 0 beyond the configured maximum. -/
theorem date_zero_beyond (l r maxYears : Rat) (hm : 0 < maxYears) (h : maxYears < (l - r).abs) :
    yearsSimilarity l r maxYears = 0 := yearsSimilarity_beyond' l r maxYears hm h

theorem date_self (l maxYears : Rat) : yearsSimilarity l l maxYears = 1 := yearsSimilarity_self' l maxYears

/-- `DateNode.Similarity` on parsed ranges (what the driver runs): bounded, symmetric, 1 on
    identical ranges, exactly one half when a date is missing -/
theorem dateNode_bounds (l r : Option DateR) (maxYears : Rat) :
    0 ≤ dateSimilarity l r maxYears ∧ dateSimilarity l r maxYears ≤ 1 := dateSimilarity_bounds' l r maxYears

theorem dateNode_symm (l r : Option DateR) (maxYears : Rat) :
    dateSimilarity l r maxYears = dateSimilarity r l maxYears := dateSimilarity_comm' l r maxYears

theorem dateNode_identical (r : DateR) (maxYears : Rat) :
    dateSimilarity (some r) (some r) maxYears = 1 := dateSimilarity_same r maxYears

theorem date_missing_is_half (r : Option DateR) (maxYears : Rat) :
    dateSimilarity none r maxYears = 1 / 2 ∧ dateSimilarity r none maxYears = 1 / 2 := by
  cases r <;> simp [dateSimilarity]

/-- `rangeSimilarity` is `yearsSimilarity` of the two `Years()` values: the laws above apply to it -/
theorem range_is_years (l r : DateR) (maxYears : Rat) :
    dateSimilarity (some l) (some r) maxYears = yearsSimilarity l.years r.years maxYears := rfl

/-! ## Individuals -/

theorem individual_bounds (x y : Option Indi) (o : SimOpts) (ho : o.Valid) :
    0 ≤ individualSimilarity x y o ∧ individualSimilarity x y o ≤ 1 :=
  individualSimilarity_bounds' x y o ho

/-- operand order does not matter for two individuals (any number of names on either side) -/
theorem individual_symm (x y : Option Indi) (o : SimOpts) :
    individualSimilarity x y o = individualSimilarity y x o := by
  cases x <;> cases y <;> simp only [individualSimilarity]
  rename_i a b
  exact indiSimilarity_comm a b o (fun n _ m _ => stringSimilarity_symm n m _ _)

theorem individual_missing_is_half (x : Option Indi) (o : SimOpts) :
    individualSimilarity none x o = 1 / 2 ∧ individualSimilarity x none o = 1 / 2 := by
  cases x <;> simp [individualSimilarity]

/-- an individual with a non-blank name and with both estimated dates scores 1
    against itself (identical names and identical dates) -/
theorem individual_self (x : Indi) (o : SimOpts) (hp : o.jaroPrefixSize ≤ 10)
    (n : Str) (hn : n ∈ x.names) (hne : Gedcom.cleanSpace n ≠ [])
    (b d : DateR) (hb : x.birth = some b) (hd : x.death = some d) :
    individualSimilarity (some x) (some x) o = 1 := indiSimilarity_self x o hp n hn hne b d hb hd

/-! ## From the raw record: DATE strings parsed by the model of `NewDateRangeWithString`, estimated
      dates selected as `EstimatedBirthDate/DeathDate` do (what the driver runs on the wire) -/

/-- for every pair of DATE values whatsoever — valid, approximate, ranges, phrases, rubbish -/
theorem date_string_laws (l r : Option Str) (s : Str) (maxYears : Rat) :
    (0 ≤ dateStringSimilarity l r maxYears ∧ dateStringSimilarity l r maxYears ≤ 1) ∧
    dateStringSimilarity l r maxYears = dateStringSimilarity r l maxYears ∧
    dateStringSimilarity (some s) (some s) maxYears = 1 ∧
    dateStringSimilarity none r maxYears = 1 / 2 := by
  refine ⟨dateSimilarity_bounds' _ _ _, dateSimilarity_comm' _ _ _, dateSimilarity_same _ _, ?_⟩
  cases r <;> simp [dateStringSimilarity, dateSimilarity]

/-- bounds and operand-order independence for individuals given as raw records -/
theorem raw_individual_laws (x y : Option RawIndi) (o : SimOpts) (ho : o.Valid) :
    (0 ≤ individualSimilarity (x.map RawIndi.toIndi) (y.map RawIndi.toIndi) o ∧
      individualSimilarity (x.map RawIndi.toIndi) (y.map RawIndi.toIndi) o ≤ 1) ∧
    individualSimilarity (x.map RawIndi.toIndi) (y.map RawIndi.toIndi) o =
      individualSimilarity (y.map RawIndi.toIndi) (x.map RawIndi.toIndi) o :=
  ⟨individual_bounds _ _ o ho, individual_symm _ _ o⟩

/-! ## Lists, families, surrounding similarity -/

/-- for lists of any length, with duplicates and with people shared between the two sides: the
    winner loop takes each left individual at most once, so the 0.5-padding count is never
    negative -/
theorem list_bounds (xs ys : List Indi) (o : SimOpts) (ho : o.Valid) :
    0 ≤ listSimilarity xs ys o ∧ listSimilarity xs ys o ≤ 1 := listSimilarity_bounds' xs ys o ho

/-- two empty lists are identical (1); one empty list is missing information (one half) -/
theorem list_missing_is_half (xs : List Indi) (o : SimOpts) (h : xs ≠ []) :
    listSimilarity [] [] o = 1 ∧ listSimilarity [] xs o = 1 / 2 ∧ listSimilarity xs [] o = 1 / 2 := by
  have : xs.length ≠ 0 := fun e => h (List.length_eq_zero_iff.mp e)
  simp [listSimilarity, this]

/-- no individual (node) occurs twice inside the list -/
def NoRepeats (xs : List Indi) : Prop := (xs.map (·.id)).Nodup

instance (xs : List Indi) : Decidable (NoRepeats xs) := by unfold NoRepeats; exact inferInstance

/-
  Full statement: `list_symm` without `NoRepeats`.  Not proved and not refuted: with an
  individual repeated inside one list the rows of the score matrix repeat; no asymmetry exists
  among all lists of length ≤ 3 over 5 individuals on the implementation (73 008 cases, 3
  thresholds) nor in 400 000 random abstract instances, but the argument below needs "same left
  individual ⇔ same row".

  Before the fix "list similarity tracks matched individuals per side" the statement was false
  even under `NoRepeats` as soon as the two lists shared an individual (one `found` map for both
  sides): {P0,P1} vs {P3,P1,P0} scored 2/3 one way and 5/6 the other (see fixes/C12-list-found-
  per-side.msg; the harness replays it on every run).
-/

/-- list similarity does not depend on the operand order — score ties included, lists of any
    length, the two lists may share individuals.  The winner loop over the stably sorted matrix
    is the greedy selection for "higher score, then row, then column"; the swapped call is the
    one for "higher score, then column, then row"; cells that can block each other are ordered
    alike by both, and the accepted set is determined by that (unique fixed point). -/
theorem list_symm (xs ys : List Indi) (o : SimOpts) (hx : NoRepeats xs) (hy : NoRepeats ys) :
    listSimilarity xs ys o = listSimilarity ys xs o := listSimilarity_symm_ties xs ys o hx hy

theorem family_bounds (f g : Fam) (o : SimOpts) (ho : o.Valid) :
    0 ≤ familySimilarity f g o ∧ familySimilarity f g o ≤ 1 := familySimilarity_bounds' f g o ho

theorem family_symm (f g : Fam) (o : SimOpts) : familySimilarity f g o = familySimilarity g f o := by
  unfold familySimilarity
  rw [individual_symm f.husband g.husband, individual_symm f.wife g.wife]

/-- the best score over the matrix of parent families does not depend on the operand order -/
theorem parents_symm (ps qs : List Fam) (o : SimOpts) :
    parentsSimilarity ps qs o = parentsSimilarity qs ps o := by
  rw [parentsSimilarity_eq, parentsSimilarity_eq, Bool.or_comm]
  split
  · rfl
  · exact foldMax2_comm _ _ 0 ps qs (fun p _ q _ => family_symm p q o)

theorem family_missing_is_half (g : Fam) (o : SimOpts) :
    familySimilarity ⟨none, none⟩ g o = 1 / 2 := by
  simp only [familySimilarity, individualSimilarity]
  decide +kernel

/-- all four components returned by `SurroundingSimilarity` lie in [0,1] and carry valid weights
    (the early-exit branch returns zeros with the default options, which are valid: a proof
    obligation on the regenerated defaults) -/
theorem surrounding_bounds (x y : Surround) (o : SimOpts) (force : Bool) (ho : o.Valid) :
    (surroundingSimilarity x y o force).WF := surroundingSimilarity_wf x y o force ho

/-- all four components (hence the weighted score) do not depend on the operand order when no
    spouse and no child is listed twice -/
theorem surrounding_symm (x y : Surround) (o : SimOpts) (force : Bool)
    (h1 : NoRepeats x.spouses) (h2 : NoRepeats y.spouses)
    (h3 : NoRepeats x.children) (h4 : NoRepeats y.children) :
    surroundingSimilarity x y o force = surroundingSimilarity y x o force := by
  unfold surroundingSimilarity
  simp only
  rw [indiSimilarity_symm x.self y.self o, parents_symm x.parents y.parents o,
    listSimilarity_symm_ties x.spouses y.spouses o h1 h2,
    listSimilarity_symm_ties x.children y.children o h3 h4]

theorem default_options_valid : defaultOpts.Valid := defaultOpts_valid

/-- non-negative weights that sum to 1 keep the weighted score in [0,1] -/
theorem weighted_bounds (x y : Surround) (o : SimOpts) (force : Bool) (ho : o.Valid) :
    0 ≤ weightedSimilarity (surroundingSimilarity x y o force) ∧
    weightedSimilarity (surroundingSimilarity x y o force) ≤ 1 :=
  weightedSimilarity_bounds' _ (surroundingSimilarity_wf x y o force ho)

/-- missing parents on either side score the neutral one half -/
theorem parents_missing_is_half (qs : List Fam) (o : SimOpts) :
    parentsSimilarity [] qs o = 1 / 2 ∧ parentsSimilarity qs [] o = 1 / 2 := by
  simp [parentsSimilarity]

/-! ## Non-vacuity (tests on literals, not the property) -/

-- MARTHA / MARHTA: a window > 0, one transposed pair
example : jaro [77, 65, 82, 84, 72, 65] [77, 65, 82, 72, 84, 65] = 17 / 18 := by decide +kernel
-- the boost branch is taken and is strictly inside (0,1)
example : jaroWinkler [97, 98, 99, 100] [97, 98, 100, 99] 0 8 = 11 / 15 := by decide +kernel
-- normalisation: "Jo  HN." ~ "jo hn"
example : cleanName [74, 111, 32, 32, 72, 78, 46] = [106, 111, 32, 104, 110] := by decide +kernel
-- a pair on which the two greedy runs visit the positions in different orders (window 1)
example : jaro [97, 98, 97, 97, 98, 98] [98, 97, 97, 98, 97, 98] = jaro [98, 97, 97, 98, 97, 98] [97, 98, 97, 97, 98, 98] ∧
    jaro [97, 98, 97, 97, 98, 98] [98, 97, 97, 98, 97, 98] = 8 / 9 := by decide +kernel
-- the default options are a valid configuration, so every `Valid` hypothesis above is satisfiable
example : defaultOpts.Valid := defaultOpts_valid
-- a date pair strictly inside the parabola: 1900 vs 1901, MaxYears 3
example : dateSimilarity (some ⟨⟨0, 0, 1900⟩, ⟨0, 0, 1900⟩⟩) (some ⟨⟨0, 0, 1901⟩, ⟨0, 0, 1901⟩⟩) 3 = 8 / 9 := by
  decide +kernel

-- the witness of the fix "list similarity tracks matched individuals per side": three people of
-- one document, tie-heavy (P0~P1 and P1~P3 score 1), the two lists share P0 and P1
def wDate : Option DateR := some ⟨⟨0, 0, 1900⟩, ⟨0, 0, 1900⟩⟩
def wP0 : Indi := ⟨0, [[74, 111, 104, 110, 32, 83, 109, 105, 116, 104]], wDate, wDate⟩
def wP1 : Indi := ⟨1, [[74, 111, 104, 110, 32, 83, 109, 105, 116, 104], [74, 97, 110, 101, 32, 68, 111, 101]], wDate, wDate⟩
def wP3 : Indi := ⟨3, [[74, 97, 110, 101, 32, 68, 111, 101]], wDate, wDate⟩
example : NoRepeats [wP0, wP1] ∧ NoRepeats [wP3, wP1, wP0] ∧
    listSimilarity [wP0, wP1] [wP3, wP1, wP0] defaultOpts = 5 / 6 ∧
    listSimilarity [wP3, wP1, wP0] [wP0, wP1] defaultOpts = 5 / 6 := by decide +kernel

end Gedcom.C12
