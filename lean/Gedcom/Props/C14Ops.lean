/-
  C14, round 4 — totality of the root-package partial operations modelled in Model/Totality.lean,
  and the obligations on the regenerated table of partial operations (Generated/PartialOps.lean).
-/
import Gedcom.Model.Totality
import Gedcom.Model.PartialOpsTable
import Gedcom.Props.C14
namespace Gedcom.C14
open Gedcom Gedcom.Totality

/-! ## primitives -/

theorem idx_ok_of_lt {α} (op : Op) (xs : List α) (i : Nat) (h : i < xs.length) :
    idx op xs (i : Int) = .ok xs[i] := by
  unfold idx
  have : ¬ ((i : Int) < 0) := by omega
  simp [this, List.getElem?_eq_getElem h]

/-! ## maxInt64 / maxInt -/

theorem maxLoop_total (xs : List Int) : ∀ (fuel i : Nat) (r : Int), ∃ v, maxLoop xs fuel i r = .ok v := by
  intro fuel
  induction fuel with
  | zero => intro i r; exact ⟨r, rfl⟩
  | succ f ih =>
    intro i r
    unfold maxLoop
    by_cases h : i < xs.length
    · simp only [h, if_true, idx_ok_of_lt .maxNext xs i h, R.bind]
      exact ih _ _
    · simp only [h, if_false]; exact ⟨r, rfl⟩

/-- `maxInt64` / `maxInt` return for every argument list, the empty one included -/
theorem maxOf_total (xs : List Int) : ∃ v, maxOf xs = .ok v := by
  unfold maxOf
  by_cases h : xs.length = 0
  · simp [h]
  · have hpos : 0 < xs.length := Nat.pos_of_ne_zero h
    have h0 : idx .maxFirst xs 0 = .ok xs[0] := idx_ok_of_lt .maxFirst xs 0 hpos
    have hb : (xs.length == 0) = false := by simp [h]
    simp only [hb, h0, R.bind]
    exact maxLoop_total xs _ _ _

/-- `notifierStep()` is at least one whatever the option says (zero and negative steps included) -/
theorem notifierStep_pos (n : Int) : ∃ s, notifierStep n = .ok s ∧ 1 ≤ s := by
  refine ⟨if 1 > n then 1 else n, ?_, ?_⟩
  · simp [notifierStep, maxOf, maxLoop, idx, R.bind]
  · split <;> omega

theorem concurrentJobs_pos (n : Int) : ∃ s, concurrentJobs n = .ok s ∧ 1 ≤ s := notifierStep_pos n

/-- the progress tick `done % o.notifierStep()` never divides by zero: the loop of `collectResults`
    returns for every `-progress` step and every number of results -/
theorem progress_total (step : Int) (results : Nat) : ∃ ds, progressDones step results = .ok ds := by
  unfold progressDones
  suffices h : ∀ (f done : Nat), ∃ ds, progressLoop step f done = .ok ds from h _ _
  intro f
  induction f with
  | zero => intro done; exact ⟨[], rfl⟩
  | succ f ih =>
    intro done
    obtain ⟨s, hs, hpos⟩ := notifierStep_pos step
    obtain ⟨rest, hrest⟩ := ih (done + 1)
    have hne : ¬ s = 0 := by omega
    unfold progressLoop
    simp only [hs, R.bind, modOp, hne, if_false, hrest]
    exact ⟨_, rfl⟩

/-- the ticks are exactly the multiples of the effective step below the number of results -/
theorem progress_first_tick (step : Int) (results : Nat) :
    ∃ rest, progressDones step (results + 1) = .ok (0 :: rest) := by
  obtain ⟨s, hs, hpos⟩ := notifierStep_pos step
  obtain ⟨rest, hrest⟩ : ∃ ds, progressLoop step results 1 = .ok ds := by
    have := progress_total step results
    suffices h : ∀ (f done : Nat), ∃ ds, progressLoop step f done = .ok ds from h _ _
    intro f
    induction f with
    | zero => intro done; exact ⟨[], rfl⟩
    | succ f ih =>
      intro done
      obtain ⟨rest, hrest⟩ := ih (done + 1)
      have hne : ¬ s = 0 := by omega
      unfold progressLoop
      simp only [hs, R.bind, modOp, hne, if_false, hrest]
      exact ⟨_, rfl⟩
  have hne : ¬ s = 0 := by omega
  refine ⟨rest, ?_⟩
  unfold progressDones progressLoop
  simp [hs, R.bind, modOp, hne, hrest]

/-! ## MultipleSexesWarning -/

/-- `String()` of the warning that `multipleSexesWarnings` creates never slices out of range -/
theorem multipleSexes_total {α} (sexes : List α) : ∃ r, sexesSentence sexes = .ok r := by
  unfold sexesSentence multipleSexesWarnings
  by_cases h : sexes.length > 1
  · simp only [h, if_true]
    have h1 : sexes.length - 1 < sexes.length := by omega
    have hcast : ((sexes.length : Int) - 1) = ((sexes.length - 1 : Nat) : Int) := by omega
    have hb : (0:Int) ≤ ((sexes.length - 1 : Nat) : Int) ∧ ((sexes.length - 1 : Nat) : Int) ≤ (sexes.length : Int) := by omega
    unfold sexesString sliceTo
    rw [hcast, if_pos hb, idx_ok_of_lt .sexesLast sexes _ h1]
    exact ⟨_, rfl⟩
  · simp only [h, if_false]; exact ⟨none, rfl⟩

/-- the method on its own is partial: the guard that protects it is in another function -/
theorem sexesString_counterexample : (sexesString ([] : List Nat)).isOk = false := by decide

/-! ## NameNode.parts -/

theorem nameParts_length (v : Str) : (nameParts v).length = 4 := rfl

/-- group 2 is the group of the existing surname model -/
theorem nameParts_surname (v : Str) : surnameGroupPart v = .ok (Resolve.surnameGroup v) := rfl

/-- `parts()[1]`, `parts()[2]`, `parts()[3]` exist for every NAME value -/
theorem nameParts_total (v : Str) :
    (∃ g, givenNameFallback v = .ok g) ∧ (∃ s, surnameGroupPart v = .ok s) ∧ (∃ x, suffixFallback v = .ok x) :=
  ⟨⟨_, rfl⟩, ⟨_, rfl⟩, ⟨_, rfl⟩⟩

/-! ### the surname slice: `CleanSpace` keeps the two slashes of group 2 -/

open Gedcom.Resolve in
section
theorem dropFront47 (r : Str) : dropSpaceFront (47 :: r) = none := by
  unfold dropSpaceFront
  split <;> (try simp_all [isAsciiSpace])
  all_goals (rename_i h; obtain ⟨rfl, _⟩ := h; simp +decide)

theorem dropBack47 (r : Str) : dropSpaceBack (47 :: r) = none := by
  unfold dropSpaceBack
  split <;> (try simp_all [isAsciiSpace])
  all_goals (rename_i h; obtain ⟨rfl, _⟩ := h; simp +decide)

theorem trimFront47 (f : Nat) (r : Str) : trimFront f (47 :: r) = 47 :: r := by
  cases f <;> simp [trimFront, dropFront47]

theorem trimBackRev47 (f : Nat) (r : Str) : trimBackRev f (47 :: r) = 47 :: r := by
  cases f <;> simp [trimBackRev, dropBack47]

theorem trimSpace47 (m : Str) : trimSpace (47 :: (m ++ [47])) = 47 :: (m ++ [47]) := by
  unfold trimSpace
  simp only [trimFront47]
  have : (47 :: (m ++ [47]) : Str).reverse = 47 :: (m.reverse ++ [47]) := by simp
  rw [this, trimBackRev47]
  simp

theorem collapse47 (xs : Str) : collapseRuns (47 :: xs) = 47 :: collapseRuns xs := by
  simp [collapseRuns]

theorem collapseEnd47 : ∀ xs : Str, ∃ m, collapseRuns (xs ++ [47]) = m ++ [47]
  | [] => ⟨[], by simp [collapseRuns]⟩
  | b :: r => by
    obtain ⟨m, hm⟩ := collapseEnd47 r
    simp only [List.cons_append, collapseRuns]
    split
    · exact ⟨m, hm⟩
    · exact ⟨b :: m, by simp [hm]⟩

theorem cleanSpace47 (inner : Str) : ∃ m, cleanSpace (47 :: (inner ++ [47])) = 47 :: (m ++ [47]) := by
  obtain ⟨m, hm⟩ := collapseEnd47 inner
  refine ⟨m, ?_⟩
  unfold cleanSpace
  rw [collapse47, hm]
  exact trimSpace47 m

theorem surnameGroup_shape (v : Str) : surnameGroup v = [] ∨ ∃ inner, surnameGroup v = 47 :: (inner ++ [47]) := by
  unfold surnameGroup
  cases List.dropWhile (fun x => x != 47) v with
  | nil => left; rfl
  | cons _ r =>
    by_cases h : (List.takeWhile (fun x => x != 47) r).length < r.length
    · right; exact ⟨List.takeWhile (fun x => x != 47) r, by simp [h]⟩
    · left; simp [h]

end

/-- `lastName[1 : lastNameLength-1]` is in range for every NAME value: the group is empty (early
    exit) or `/…/`, and `CleanSpace` keeps both slashes, so the cleaned string has at least two bytes -/
theorem surnameSlice_total (v : Str) : ∃ s, surnameSliced v = .ok s := by
  unfold surnameSliced
  rw [nameParts_surname]
  simp only [R.bind]
  rcases surnameGroup_shape v with h | ⟨inner, h⟩
  · rw [h]
    exact ⟨[], by decide⟩
  · rw [h]
    obtain ⟨m, hm⟩ := cleanSpace47 inner
    rw [hm]
    have hlen : ((47 :: (m ++ [47]) : Str).length : Int) = (m.length : Int) + 2 := by simp; omega
    unfold sliceMid
    have hb : (0:Int) ≤ 1 ∧ (1:Int) ≤ ((47 :: (m ++ [47]) : Str).length : Int) - 1 ∧
        ((47 :: (m ++ [47]) : Str).length : Int) - 1 ≤ ((47 :: (m ++ [47]) : Str).length : Int) := by omega
    simp only [List.isEmpty_cons, Bool.false_eq_true, if_false, hb, and_self, if_true]
    exact ⟨_, rfl⟩

/-- the slice computes what the existing surname model computes -/
theorem surnameSliced_eq_fallback (v : Str) : surnameSliced v = surnameFallback v := by
  unfold surnameSliced surnameFallback
  rw [nameParts_surname]
  simp only [R.bind, R.map]
  rcases surnameGroup_shape v with h | ⟨inner, h⟩
  · rw [h]; decide
  · rw [h]
    obtain ⟨m, hm⟩ := cleanSpace47 inner
    rw [hm]
    unfold sliceMid
    have hb : (0:Int) ≤ 1 ∧ (1:Int) ≤ ((47 :: (m ++ [47]) : Str).length : Int) - 1 ∧
        ((47 :: (m ++ [47]) : Str).length : Int) - 1 ≤ ((47 :: (m ++ [47]) : Str).length : Int) := by
      simp; omega
    simp only [List.isEmpty_cons, Bool.false_eq_true, if_false, hb, and_self, if_true]
    congr 1
    have e1 : (1 : Int).toNat = 1 := rfl
    have e2 : (((47 :: (m ++ [47]) : Str).length : Int) - 1).toNat - 1 = (47 :: (m ++ [47]) : Str).length - 2 := by
      simp
    rw [e1, e2]

/-! ## PlaceNode.JurisdictionalEntities -/

theorem jurisdictionalEntities_total (name : Str) : ∃ r, jurisdictionalEntities name = .ok r := by
  unfold jurisdictionalEntities
  by_cases h : (splitComma name).length = 4
  · simp only [h, bne_self_eq_false, Bool.false_eq_true, if_false]
    have e0 : idx .placePart (splitComma name) 0 = .ok (splitComma name)[0] := idx_ok_of_lt .placePart (splitComma name) 0 (by omega)
    have e1 : idx .placePart (splitComma name) 1 = .ok (splitComma name)[1] := idx_ok_of_lt .placePart (splitComma name) 1 (by omega)
    have e2 : idx .placePart (splitComma name) 2 = .ok (splitComma name)[2] := idx_ok_of_lt .placePart (splitComma name) 2 (by omega)
    have e3 : idx .placePart (splitComma name) 3 = .ok (splitComma name)[3] := idx_ok_of_lt .placePart (splitComma name) 3 (by omega)
    simp only [e0, e1, e2, e3, R.bind]
    exact ⟨_, rfl⟩
  · have hb : ((splitComma name).length != 4) = true := by simp [h]
    simp only [hb, if_true]
    exact ⟨_, rfl⟩

/-! ## Date.String -/

theorem monthName_long (n : Nat) (s : String) (h : monthName n = some s) : 3 ≤ s.toList.length := by
  unfold monthName at h
  split at h <;> first | (cases h; decide) | cases h

theorem monthChars_long (m : Int) : 3 ≤ (monthChars m).length := by
  unfold monthChars
  split
  · next s hs =>
    by_cases h0 : 0 ≤ m
    · simp only [h0, if_true] at hs; exact monthName_long _ _ hs
    · simp only [h0, if_false] at hs; cases hs
  · simp only [List.length_append, List.length_cons, List.length_nil]
    have : ("%!Month(".toList).length = 8 := by decide
    omega

/-- `date.Month.String()[:3]` is in range for every month number, the invalid ones included -/
theorem monthAbbrev_total (m : Int) : ∃ r, monthAbbrev m = .ok r := by
  unfold monthAbbrev
  by_cases h : m = 0
  · simp [h]
  · simp only [h, if_false]
    unfold sliceTo
    have := monthChars_long m
    have hh : (0 : Int) ≤ 3 ∧ (3 : Int) ≤ ((monthChars m).length : Int) := by omega
    simp only [hh, and_self, if_true]
    exact ⟨_, rfl⟩

/-! non-vacuity -/
example : progressDones 0 5 = .ok [0, 1, 2, 3, 4] := by decide
example : progressDones (-7) 3 = .ok [0, 1, 2] := by decide
example : progressDones 2 5 = .ok [0, 2, 4] := by decide
example : (modOp .progressMod 3 0).isOk = false := by decide
example : sexesSentence [1, 2, 3] = .ok (some ([1, 2], 3)) := by decide
example : sexesSentence [1] = .ok none := by decide
example : (jurisdictionalEntities (Resolve.bs "a,b")).isOk = true := by decide
example : monthAbbrev 13 = .ok ['%', '!', 'M'] := by decide

/-! ## the regenerated table of partial operations -/

open Gedcom.PartialOpsTable Gedcom.Generated.PartialOps

/-- no partial operation reachable from cmd/gedcom is unaccounted for: a new unguarded site, or a
    site whose recorded local guard is gone, makes this fail -/
theorem partial_ops_all_classified : chunks.all chunkClassified = true := by decide +kernel

/-- every site of class `invariant` names one of the totality theorems listed in
    `PartialOpsTable.provedTheorems` -/
theorem partial_ops_invariants_named : chunks.all chunkNamed = true := by decide +kernel

/-- every type assertion on a node that was found by its tag (`n.(*SexNode)` for `n` in
    `NodesWithTag(node, TagSex)`, `CastTo`, `castNodesWithTag`) asserts the Go type that the decoder
    gives that tag (Generated.kindTable, a decode probe per tag): the assertion cannot fail on a
    decoded document -/
theorem tag_asserts_sound :
    tagAsserts.all (fun p => Resolve.tagKind (Resolve.bs p.1) == p.2) = true := by decide +kernel

/-! each listed name is a theorem of this development (the build fails when one is missing) -/
#check @eventDate_total
#check @indexLetter_total
#check @surnameStartsWith_total
#check @progress_total
#check @multipleSexes_total
#check @nameParts_total
#check @surnameSlice_total
#check @jurisdictionalEntities_total
#check @monthAbbrev_total
#check @tag_asserts_sound

end Gedcom.C14
