/-
  C04, second part — the converse direction ("undocumented forms are reported as invalid", for
  every byte string), the soundness fact behind the bytewise treatment of letter case, and what
  the code does with years outside 1..9999.  Property theorems only.
-/
import Gedcom.Props.C04
import Gedcom.Lemmas.DateConverse
namespace Gedcom.C04
open Gedcom

/-! ## facts decided over the generated lists -/

theorem dateKeywords_listed : ∀ k ∈ dateKeywords, k ∈ keywords := by decide
theorem betweenKeywords_listed : ∀ k ∈ betweenKeywords, k ∈ Generated.wordsBetween := by decide
theorem andKeywords_listed : ∀ k ∈ andKeywords, k ∈ Generated.wordsAnd := by decide

/-- **Letter case can be treated bytewise.**  Go's `(?i)` matches a pattern letter also against
    non-ASCII runes whose simple case folding is that letter; only `k` (U+212A, Kelvin sign) and
    `s` (U+017F, long s) have such runes.  No keyword, between-word or and-word — the words that
    enter the two patterns — contains `k`/`K`/`s`/`S`, so ASCII comparison is exact for them.
    `strings.ToLower`, applied to the month word, maps exactly one non-ASCII rune that `\w` can
    match onto an ASCII letter (U+212A ↦ `k`); no month word contains `k`, so a word containing
    that rune is not a month in the code and in the model alike. -/
theorem letter_case_is_bytewise :
    (∀ w ∈ dateKeywords ++ betweenKeywords ++ andKeywords, ∀ b ∈ w,
        toLowerB b ≠ 107 ∧ toLowerB b ≠ 115) ∧
    (∀ wm ∈ Generated.monthWords, ∀ b ∈ wm.1, toLowerB b ≠ 107) := by decide

/-! ## the converse: what is valid is documented -/

/-- `t` is one date as the code reads it, in documented vocabulary:
    `keyword? ␠? (digits␠)? (month-word␠)? digits` where the keyword is a listed keyword and the
    month word a listed month word, each in some letter case, and `d` is exactly what is written —
    the keyword's constraint (Exact without keyword), the decimal values of the numerals (leading
    zeros immaterial; capped at the largest int), the month of the word; a day comes only with a
    month, lies in 1..(days of that month in that year) and then the year is at most 9999.
    Deviations from the documented grammar that this admits, and nothing else: the space after
    the keyword may be missing (`abt1900`, `ca.1900`, `abtmar 1900`), a space may stand before a
    sentence without keyword, numerals may have any number of digits, the year may be 0 when a
    month is given and may exceed 9999 when no day is given. -/
structure IsDate (t : Str) (d : PDate) : Prop where
  ex : ∃ kw sep day mon year : Str,
    t = kw ++ sep ++ day ++ mon ++ year ∧ (sep = [] ∨ sep = [32]) ∧
    ((kw = [] ∧ d.constraint = .exact) ∨
      ((∃ k ∈ keywords, CaseVariant k kw) ∧ d.constraint = docConstraint kw)) ∧
    ((day = [] ∧ d.day = 0) ∨
      ∃ D, isDigits D = true ∧ day = D ++ [32] ∧ d.day = min (decToNat D) maxInt ∧
        1 ≤ d.day ∧ (d.day : Int) ≤ dim (isLeap d.year) d.month ∧ d.month ≠ 0 ∧ d.year ≤ 9999) ∧
    ((mon = [] ∧ d.month = 0) ∨
      ∃ M, ∃ wm ∈ Generated.monthWords, CaseVariant wm.1 M ∧ mon = M ++ [32] ∧ d.month = wm.2) ∧
    isDigits year = true ∧ d.year = min (decToNat year) maxInt ∧ d.parseError = false

theorem isDate_of_spells {t : Str} {d : PDate} (h : Spells t d) : IsDate t d := by
  obtain ⟨kw, sep, day, mon, year, h1, h2, h3, h4, h5, h6, h7, h8, h9⟩ := h.ex
  refine ⟨kw, sep, day, mon, year, h1, h2, ?_, ?_, ?_, h7, by rw [h8, atoi_digits h7], h9⟩
  · rcases h3 with rfl | ⟨k, hk, hl⟩
    · left; exact ⟨rfl, by rw [h4]; exact constraint_nil⟩
    · right
      have hdoc : ∃ k ∈ keywords, CaseVariant k kw := ⟨k, dateKeywords_listed k hk, hl⟩
      exact ⟨hdoc, by rw [h4]; exact constraint_of_documented hdoc⟩
  · rcases h5 with h5 | ⟨D, hD, hd, hv, hc⟩
    · exact Or.inl h5
    · right
      simp only [calendarOK, Bool.and_eq_true, bne_iff_ne, ne_eq, decide_eq_true_eq] at hc
      exact ⟨D, hD, hd, by rw [hv, atoi_digits hD], hc.1.2, hc.2, hc.1.1.1, hc.1.1.2⟩
  · rcases h6 with h6 | ⟨M, wm, hwm, hl, hm, hv⟩
    · exact Or.inl h6
    · right
      have hlow : lowerStr wm.1 = wm.1 := by
        have := (monthWords_facts wm hwm).1
        unfold lowerLetters at this
        simp only [Bool.and_eq_true, List.all_eq_true] at this
        exact lowerStr_of_lowerLetters this.2
      exact ⟨M, wm, hwm, by unfold CaseVariant; rw [hl, hlow], hm, hv⟩

/-- **Whatever is accepted is documented — for every byte string.**  If the parse of `s` is valid,
    then the cleaned value either is one date (`IsDate`) denoting the common start and end, or is
    `B␠X␠A␠Y` with `B` a listed between-word and `A` a listed and-word in some letter case, `X` one
    date denoting the start and `Y` one date denoting the end.  Hence every other string — unknown
    words, a day without a month, month before day, trailing text whether or not it ends in a
    number, phrases, wrong order, stray characters — is invalid; the only tolerated deviations
    from the documented grammar are the ones listed at `IsDate`. -/
theorem accepts_only_documented (s : Str) (hv : (parseDateRange s).isValid = true) :
    (IsDate (cleanSpace s) (parseDateRange s).start ∧
      (parseDateRange s).end_ = (parseDateRange s).start) ∨
    (∃ BW X AW Y : Str, cleanSpace s = BW ++ 32 :: (X ++ 32 :: (AW ++ 32 :: Y)) ∧
      (∃ k ∈ Generated.wordsBetween, CaseVariant k BW) ∧ (∃ k ∈ Generated.wordsAnd, CaseVariant k AW) ∧
      IsDate X (parseDateRange s).start ∧ IsDate Y (parseDateRange s).end_) := by
  unfold parseDateRange at hv ⊢
  simp only at hv ⊢
  split at hv
  · next x hx =>
    right
    simp only [hx]
    obtain ⟨hs, ⟨bk, hbk, hbl⟩, ⟨aw, haw, hal⟩⟩ := matchRange_shape hx
    simp only [DateRange.isValid, Bool.and_eq_true, Bool.not_eq_true'] at hv
    exact ⟨x.1, x.2.1, x.2.2.1, x.2.2.2, hs, ⟨bk, betweenKeywords_listed bk hbk, hbl⟩,
      ⟨aw, andKeywords_listed aw haw, hal⟩,
      isDate_of_spells (parseDateParts_sound _ hv.1), isDate_of_spells (parseDateParts_sound _ hv.2)⟩
  · next hx =>
    left
    simp only [hx]
    simp only [DateRange.isValid, Bool.and_eq_true, Bool.not_eq_true'] at hv
    exact ⟨isDate_of_spells (parseDateParts_sound _ hv.1), trivial⟩

/-! ### consequences for trailing text -/

theorem count32_zero {t : Str} (h : ∀ b ∈ t, b ≠ 32) : t.count 32 = 0 :=
  List.count_eq_zero.mpr (fun hm => h 32 hm rfl)

theorem isDate_parts_no32 {t : Str} {d : PDate} (h : IsDate t d) :
    ∃ kw sep day mon year : Str, t = kw ++ sep ++ day ++ mon ++ year ∧ (sep = [] ∨ sep = [32]) ∧
      (kw = [] ∨ ∃ k ∈ keywords, CaseVariant k kw) ∧ kw.count 32 = 0 ∧
      day.count 32 ≤ 1 ∧ mon.count 32 ≤ 1 ∧ year.count 32 = 0 := by
  obtain ⟨kw, sep, day, mon, year, h1, h2, h3, h5, h6, h7, _, _⟩ := h.ex
  refine ⟨kw, sep, day, mon, year, h1, h2, ?_, ?_, ?_, ?_, ?_⟩
  · rcases h3 with ⟨h, _⟩ | ⟨h, _⟩
    · exact Or.inl h
    · exact Or.inr h
  · rcases h3 with ⟨rfl, _⟩ | ⟨h, _⟩
    · rfl
    · exact count32_zero (no32_of_solid (solid_of_kwTok (kwTok_of_documented h)))
  · rcases h5 with ⟨rfl, _⟩ | ⟨D, hD, rfl, _⟩
    · simp
    · rw [List.count_append, count32_zero (no32_of_solid (solid_of_isDigits hD))]; simp
  · rcases h6 with ⟨rfl, _⟩ | ⟨M, wm, hwm, hl, rfl, _⟩
    · simp
    · obtain ⟨_, _, _, _, hw, _⟩ := month_of_documented ⟨wm, hwm, hl⟩
      rw [List.count_append, count32_zero (no32_of_solid hw.solid)]; simp
  · exact count32_zero (no32_of_solid (solid_of_isDigits h7))

/-- one date has at most four space-separated tokens, and four only when the first is a keyword:
    so `5 Mar 1900 1`, `5 Mar 1900 AD 1`, `abt 5 Mar 1900 1` … cannot be valid -/
theorem isDate_tokens {t : Str} {d : PDate} (h : IsDate t d) :
    t.count 32 ≤ 3 ∧
    (t.count 32 = 3 → ∃ kw rest, t = kw ++ 32 :: rest ∧ (kw = [] ∨ ∃ k ∈ keywords, CaseVariant k kw)) := by
  obtain ⟨kw, sep, day, mon, year, h1, h2, h3, c1, c2, c3, c4⟩ := isDate_parts_no32 h
  have hc : t.count 32 = sep.count 32 + day.count 32 + mon.count 32 := by
    rw [h1]; simp only [List.count_append]; omega
  rcases h2 with rfl | rfl
  · refine ⟨by rw [hc]; simp; omega, fun h3' => ?_⟩
    rw [hc] at h3'; simp at h3'; omega
  · refine ⟨by rw [hc]; simp; omega, fun _ => ⟨kw, day ++ mon ++ year, by rw [h1]; simp, h3⟩⟩

/-- a valid value that is not a range has at most four tokens -/
theorem valid_single_tokens (s : Str) (hv : (parseDateRange s).isValid = true)
    (hr : matchRange (cleanSpace s) = none) : (cleanSpace s).count 32 ≤ 3 := by
  unfold parseDateRange at hv
  simp only [hr, DateRange.isValid, Bool.and_eq_true, Bool.not_eq_true'] at hv
  exact (isDate_tokens (isDate_of_spells (parseDateParts_sound _ hv.1))).1

example : (parseDateRange (lit "5 Mar 1900 1")).isValid = false ∧
    (parseDateRange (lit "Mar 1900 1")).isValid = false ∧
    (parseDateRange (lit "1900 1")).isValid = false ∧
    (parseDateRange (lit "abt 5 Mar 1900 1")).isValid = false ∧
    (parseDateRange (lit "5 1900")).isValid = false ∧
    (parseDateRange (lit "Mar 5 1900")).isValid = false := by decide

/-- the tolerated deviations, by evaluation -/
example : (parseDateRange (lit "abt1900")).start = ⟨0, 0, 1900, .about, false⟩ ∧
    (parseDateRange (lit "abtmar 1900")).start = ⟨0, 3, 1900, .about, false⟩ ∧
    (parseDateRange (lit "000005 Mar 001900")).start = ⟨5, 3, 1900, .exact, false⟩ := by decide

/-! ## years outside 1..9999 (outside the property's quantifier): what the code does, as theorems -/

theorem decToNat_zeros_append (z : Nat) (X : Str) :
    decToNat (List.replicate z 48 ++ X) = decToNat X := by
  induction z with
  | zero => simp
  | succ z ih => rw [List.replicate_succ, List.cons_append, decToNat_zero_cons, ih]

theorem atoi_numeral_all (z n : Nat) : atoi (numeral z n) = min n maxInt := by
  rw [atoi_digits (isDigits_numeral z n)]
  unfold numeral
  rw [decToNat_zeros_append, decToNat_natToDec]

theorem atoi_numeral_sp_all (z n : Nat) : atoi (numeral z n ++ [32]) = min n maxInt := by
  rw [atoi_sp (isDigits_numeral z n), atoi_numeral_all]

/-- a sentence with documented words and arbitrary numerals -/
structure Spelled (x : Sentence) : Prop where
  kw : ∀ T, x.kw = some T → ∃ k ∈ keywords, CaseVariant k T
  month : ∀ M, x.body.word = some M → ∃ wm ∈ Generated.monthWords, CaseVariant wm.1 M

/-- the documented constraint of an optional keyword token -/
def kwConstraint : Option Str → Constraint
  | some T => docConstraint T
  | none => .exact

theorem kwText_kwConstraint {x : Sentence}
    (h : ∀ T, x.kw = some T → ∃ k ∈ keywords, CaseVariant k T) :
    constraintFromString x.kwText = kwConstraint x.kw := by
  cases hk : x.kw with
  | none => simp [Sentence.kwText, hk, constraint_nil, kwConstraint]
  | some T => simpa [Sentence.kwText, hk, kwConstraint] using constraint_of_documented (h T hk)

/-- what the code computes for it: numerals by decimal value capped at the largest int, the
    calendar check (month 1..12, year ≤ 9999, day 1..days in month) only when a day is written -/
def codedValue (x : Sentence) : PDate :=
  let c : Constraint := kwConstraint x.kw
  let m := (x.body.word.bind monthOfWord).getD 0
  match x.body with
  | .Y _ y => ⟨0, 0, min y maxInt, c, false⟩
  | .MY _ _ y => ⟨0, m, min y maxInt, c, false⟩
  | .DMY _ d _ _ y =>
    if calendarOK (min d maxInt) m (min y maxInt) then ⟨min d maxInt, m, min y maxInt, c, false⟩
    else PDate.failed c
  | .ZMY _ _ _ _ => PDate.failed c

theorem wf_of_spelled {x : Sentence} (h : Spelled x) : x.WF := by
  refine ⟨fun T hT => kwTok_of_documented (h.kw T hT), ?_, ?_⟩
  · intro M hM
    obtain ⟨_, _, _, _, hw, _⟩ := month_of_documented (h.month M hM)
    exact hw
  · intro _ M yz y hb
    obtain ⟨_, _, _, _, _, h1, h2⟩ := month_of_documented (h.month M (by rw [hb]; rfl))
    exact ⟨h1, h2⟩

theorem result_of_spelled {x : Sentence} (h : Spelled x) : x.result = codedValue x := by
  have hc := kwText_kwConstraint h.kw
  unfold Sentence.result codedValue
  cases hb : x.body with
  | Y yz y =>
    simp [Body.groups, partsResult, atoi_nil, atoi_numeral_all, monthOf_nil, hc, Body.word]
  | MY M yz y =>
    obtain ⟨m, hm, _, _, hw, _⟩ := month_of_documented (h.month M (by rw [hb]; rfl))
    have hm' : monthOf (lowerStr M) = some m := hm
    simp [Body.groups, partsResult, atoi_nil, atoi_numeral_all, monthGroup_eval hw.solid,
      isEmpty_append_sp, hc, Body.word, hm, hm']
  | DMY dz d M yz y =>
    obtain ⟨m, hm, _, _, hw, _⟩ := month_of_documented (h.month M (by rw [hb]; rfl))
    have hm' : monthOf (lowerStr M) = some m := hm
    simp only [Body.groups, partsResult, atoi_numeral_sp_all, atoi_numeral_all,
      monthGroup_eval hw.solid, isEmpty_append_sp, hc, Body.word, hm, hm', Option.bind_some,
      Option.getD_some]
    by_cases hcal : calendarOK (min d maxInt) m (min y maxInt) = true <;> simp [hcal]
  | ZMY dz M yz y =>
    simp [Body.groups, partsResult_ZMY, hc]

/-- **All numerals, as coded.**  For every sentence with documented words and *any* numerals —
    year 0, years above 9999, days of any size — written in any letter case and spacing, both
    ends are `codedValue`. -/
theorem any_numbers_as_coded (x : Sentence) (hx : Spelled x) (gt : List (Nat × Str)) (e : Nat)
    (htok : gt.map (·.2) = x.tokens) (hgap : GapsOK gt) :
    (parseDateRange (render gt e)).start = codedValue x ∧
    (parseDateRange (render gt e)).end_ = codedValue x := by
  rw [x.parse (wf_of_spelled hx) gt e htok hgap, result_of_spelled hx]
  exact ⟨rfl, rfl⟩

/-- **Year 0** (about `codedValue`, which `any_numbers_as_coded` shows is what the parse returns).
    A bare year 0 (`0`, `0000`, `abt 0`) is a zero date, hence invalid; with a month
    it is *accepted* as month-year (or day-month-year, year 0 counting as a leap year) of year 0
    — the documentation of `Date` allows year 0, the property's domain starts at 1. -/
theorem year_zero_as_coded (x : Sentence) (hy : Body.year x.body = 0) :
    match x.body with
    | .Y _ _ => (codedValue x).isZero = true
    | .MY M _ _ => ∀ m, monthOfWord M = some m → codedValue x = ⟨0, m, 0, kwConstraint x.kw, false⟩
    | _ => True := by
  cases hb : x.body with
  | Y yz y =>
    rw [hb] at hy; simp only [Body.year] at hy; subst hy
    simp [codedValue, hb, PDate.isZero]
  | MY M yz y =>
    rw [hb] at hy; simp only [Body.year] at hy; subst hy
    intro m hm
    simp [codedValue, hb, Body.word, hm]
  | DMY dz d M yz y => trivial
  | ZMY dz M yz y => trivial

/-- **Years above 9999** (about `codedValue`, as above).  Without a day they are *accepted* with the written year (capped at the
    largest int); with a day they are rejected (the calendar check cannot represent them). -/
theorem year_above_9999_as_coded (x : Sentence) (hy : 9999 < Body.year x.body) :
    match x.body with
    | .Y _ y => codedValue x = ⟨0, 0, min y maxInt, kwConstraint x.kw, false⟩
    | .MY _ _ y => (codedValue x).year = min y maxInt ∧ (codedValue x).parseError = false
    | .DMY _ _ _ _ _ => (codedValue x).isZero = true
    | .ZMY _ _ _ _ => (codedValue x).isZero = true := by
  cases hb : x.body with
  | Y yz y => simp [codedValue, hb]
  | MY M yz y => simp [codedValue, hb]
  | DMY dz d M yz y =>
    rw [hb] at hy; simp only [Body.year] at hy
    have : calendarOK (min d maxInt) ((x.body.word.bind monthOfWord).getD 0) (min y maxInt) = false := by
      have : ¬ (min y maxInt ≤ 9999) := by unfold maxInt; omega
      simp [calendarOK, this]
    rw [hb] at this
    simp [codedValue, hb, this, PDate.failed, PDate.isZero]
  | ZMY dz M yz y => simp [codedValue, hb, PDate.failed, PDate.isZero]

/-- **Witnesses** (explicit counterexamples to "only years 1..9999 are accepted" and to the round
    trip without the hypothesis `1 ≤ year`): `Mar 0` is valid, prints as `Mar`, and `Mar` is
    invalid; `0` is invalid; `Mar 10000` is valid while `5 Mar 10000` is not; a 20-digit year is
    valid and silently becomes 9223372036854775807. -/
theorem years_outside_domain_witnesses :
    (parseDateRange (lit "0")).isValid = false ∧
    (parseDateRange (lit "Mar 0")).start = ⟨0, 3, 0, .exact, false⟩ ∧
    (parseDateRange (lit "Mar 0")).isValid = true ∧
    (parseDateRange (lit "Mar 0")).toString = lit "Mar" ∧
    (parseDateRange (parseDateRange (lit "Mar 0")).toString).isValid = false ∧
    (parseDateRange (lit "29 Feb 0")).start = ⟨29, 2, 0, .exact, false⟩ ∧
    (parseDateRange (lit "Mar 10000")).start = ⟨0, 3, 10000, .exact, false⟩ ∧
    (parseDateRange (lit "5 Mar 10000")).isValid = false ∧
    (parseDateRange (lit "99999999999999999999")).start = ⟨0, 0, 9223372036854775807, .exact, false⟩ ∧
    (parseDateRange (lit "99999999999999999999")).toString = lit "9223372036854775807" := by decide

end Gedcom.C04
