/-
  C13 — Reads never modify a document and views reflect every edit.

  Property theorems only; the lemmas are in `Gedcom.Lemmas.Cache`, the executable model (the one
  the driver runs against the real code) in `Gedcom.Model.Cache`.

  Shape.  `step fl s op` is one public-API call on the document-with-caches `s`; `fl` says which
  edit method resets which cache and is *regenerated from the Go source on every run*
  (`Gedcom.Cache.flags`, from `Generated.rawCacheFlags`).  `abs s` forgets every cache; `specView (abs s) v`
  recomputes view `v` from the bare node structure — what a document answers that has never
  cached anything, i.e. a freshly decoded one.  `Inv s` = every id allocated ∧ every cache entry
  equals the recomputed value (and the pointer index is complete).

  Everything is stated for *all* states, operations and histories — no bound on document size or
  history length.
-/
import Gedcom.Lemmas.CacheIso
import Gedcom.Props.C01
namespace Gedcom.C13
open Gedcom Gedcom.Cache

/-- **Obligation on the code.**  Every invalidation the proofs below need is present in the Go
    source (`Flags.sufficient` lists them; the three flags it leaves out are redundant given the
    others, so removing those statements from the code is harmless and does not break this).
    It stops checking the moment a needed cache reset disappears from /repo. -/
theorem flags_as_expected : Cache.flags.sufficient = true := by decide

/-- the flags of the current tree, written as the family the lemmas are proved for -/
theorem flags_eq : Cache.flags = Flags.goodWith Cache.flags.setHusbandPointerClearsCache
    Cache.flags.setWifePointerClearsCache Cache.flags.addFamilyResetsFamilies :=
  Flags.eq_goodWith _ flags_as_expected

/-- A freshly decoded document (pointer index built once, every cache empty) is coherent. -/
theorem coherent_init (heap : List NodeRec) (roots : List Id)
    (hr : ∀ r ∈ roots, r < heap.length) (hk : ∀ n c, c ∈ (Abs.mk heap roots).kids n → c < heap.length) :
    Inv (initOf heap roots) :=
  init_inv heap roots ⟨hr, hk⟩

/-- Whatever code has (at least) the listed invalidations keeps every cache coherent under every
    operation of the public edit API and every read. -/
theorem coherent_step_of_sufficient (fl : Flags) (hf : fl.sufficient = true) (s : St) (op : Op)
    (h : Inv s) : Inv (step fl s op).1 := by
  rw [Flags.eq_goodWith fl hf]
  unfold step
  split
  · rename_i hok
    exact exec_inv h op hok
  · exact h

/-- … in particular the code in /repo now. -/
theorem coherent_step (s : St) (op : Op) (h : Inv s) : Inv (step Cache.flags s op).1 :=
  coherent_step_of_sufficient _ flags_as_expected s op h

/-- … hence after every finite history, of any length. -/
theorem coherent_run (ops : List Op) : ∀ (s : St), Inv s → Inv (run Cache.flags s ops).1 := by
  induction ops with
  | nil => intro s h; exact h
  | cons o os ih =>
    intro s h
    exact ih _ (coherent_step s o h)

/-- In a coherent state every view named in the property answers exactly what the bare node
    structure gives — never a removed node, never missing an added one. -/
theorem views_fresh (s : St) (v : View) (h : Inv s) (hok : v.ok (abs s) = true) :
    (step Cache.flags s (.read v)).2 = specView (abs s) v := by
  have hok' : (Op.read v).ok (abs s) = true := hok
  unfold step
  rw [if_pos hok']
  exact (runView_sound v s h hok).2.2

/-- … so after any history from a decoded document every view is fresh. -/
theorem views_fresh_after (heap : List NodeRec) (roots : List Id)
    (hr : ∀ r ∈ roots, r < heap.length) (hk : ∀ n c, c ∈ (Abs.mk heap roots).kids n → c < heap.length)
    (ops : List Op) (v : View) :
    let s := (run Cache.flags (initOf heap roots) ops).1
    v.ok (abs s) = true → (step Cache.flags s (.read v)).2 = specView (abs s) v :=
  fun hok => views_fresh _ v (coherent_run ops _ (coherent_init heap roots hr hk)) hok

/-
  Full statement (not yet a theorem):

    theorem views_fresh_decode (s₀ := initOf heap roots, well-formed and tree-shaped) (ops : List Op)
        (s := (run Cache.flags s₀ ops).1) (v : View) (hok : v.ok (abs s)) (v's subject attached)
        (hl : C01.Legal ⟨bom, toForest (abs s)⟩) (o : Dec.Opts) :
        ∃ d φ, Dec.decode o (Dec.encode ⟨bom, toForest (abs s)⟩) = .ok d ∧
          ((step Cache.flags s (.read v)).2).map φ = (step Cache.flags (ofForest d.nodes) (.read (v.map φ))).2

  i.e. without `hwf` and `hiso` below.  What is proved is the same statement with these two
  structural facts about `ofForest (toForest (abs s))` as explicit hypotheses.
-/

/-- **The views of a long-lived document are those of a fresh decode of its text** (C01 link),
    partial: two structural facts are hypotheses.

    `toForest (abs s)` is the forest `Document.String()` writes; by C01 (`decode_encode`) decoding
    the encoder's text gives exactly that forest back, under every decoder option; `ofForest` is the
    state `NewDocumentFromString` builds from it.  Every view read on the live document `s` — after
    any history, with whatever is in its caches — is, node for node and in order, the view read on
    that freshly decoded document, *provided*

    * `hwf`  — the heap that preorder allocation (`allocNode`) builds from `toForest (abs s)` is
               well-formed (every root and child id allocated), and
    * `hiso` — that heap is the attached part of `abs s` renumbered by `φ` (same roots, tags,
               values, pointers and child lists up to `φ`).

    Both hold exactly when the attached part of `abs s` is a tree (no node under two parents, no
    cycle, depth below `heap.length`).  Discharging them needs: duplicate-free `SetNodes` arguments
    in `Op.ok`, a tree invariant carried through every primitive edit, and an induction over
    `allocNode`/`toNode` relating preorder positions to the old ids.  Until then they are checked at
    run time instead: the driver's `rebuild` request evaluates the *conclusion* (every dumped view
    of the live state against the same views of `ofForest (toForest (abs s))`, by position) at the
    end of every history of every run, on the model, and the oracle (S) evaluates it on the real
    decoder after every step. -/
theorem views_fresh_decode_partial (s : St) (h : Inv s) (v : View) (hok : v.ok (abs s) = true)
    (hsub : ∀ n, v.subject = some n → Att (abs s) n)
    (bom : Bool) (o : Dec.Opts) (hl : C01.Legal ⟨bom, toForest (abs s)⟩)
    (φ : Id → Id)
    (hwf : AWF (abs (ofForest (toForest (abs s)))))
    (hiso : Iso φ (abs s) (abs (ofForest (toForest (abs s))))) :
    ∃ d : Dec.Doc, Dec.decode o (Dec.encode ⟨bom, toForest (abs s)⟩) = .ok d ∧
      ((step Cache.flags s (.read v)).2).map φ =
        (step Cache.flags (ofForest d.nodes) (.read (v.map φ))).2 := by
  refine ⟨⟨bom, toForest (abs s)⟩, C01.decode_encode _ hl o, ?_⟩
  have hinv : Inv (ofForest (toForest (abs s))) := init_inv _ _ hwf
  rw [views_fresh s v h hok, views_fresh _ (v.map φ) hinv (ok_iso hiso v hsub hok),
      specView_iso hiso v hsub]

/-- A read leaves the document (hence its GEDCOM text) unchanged … -/
theorem reads_keep_document (s : St) (op : Op) (h : Inv s) (hr : op.isRead = true) :
    abs (step Cache.flags s op).1 = abs s := by
  rw [flags_eq]
  unfold step
  split
  · rename_i hok
    cases op with
    | read v => exact (runView_sound v s h hok).2.1
    | warnings => exact (warningsRead_pure s h trivial).2
    | string => rfl
    | gedcomString n => rfl
    | foreign => rfl
    | inert => rfl
    | _ => simp [Op.isRead] at hr
  · rfl

/-- … and every view answers the same before and after it. -/
theorem reads_pure (s : St) (op : Op) (v : View) (h : Inv s) (hr : op.isRead = true) :
    abs (step Cache.flags s op).1 = abs s ∧
    (step Cache.flags (step Cache.flags s op).1 (.read v)).2 = (step Cache.flags s (.read v)).2 := by
  have ha := reads_keep_document s op h hr
  refine ⟨ha, ?_⟩
  by_cases hok : v.ok (abs s) = true
  · rw [views_fresh _ v (coherent_step s op h) (ha ▸ hok), views_fresh s v h hok, ha]
  · have bad : ∀ t : St, ¬ (Op.read v).ok (abs t) = true → (step Cache.flags t (.read v)).2 = .bad := by
      intro t ht
      unfold step
      rw [if_neg ht]
    rw [bad _ (by rw [ha]; exact hok), bad s hok]

/-- `doc.String()` is a walk over the nodes: it answers the encoder's text of the current forest
    and touches no cache … -/
theorem string_is_encode (s : St) :
    step Cache.flags s .string = (s, .text (Dec.encForest 0 (toForest (abs s)))) := rfl

/-- … so no read — a view, `Warnings()`, `String()`, `GEDCOMString()`, or one of the black boxes —
    changes the GEDCOM text. -/
theorem reads_keep_text (s : St) (op : Op) (h : Inv s) (hr : op.isRead = true) :
    (step Cache.flags (step Cache.flags s op).1 .string).2 = (step Cache.flags s .string).2 := by
  rw [string_is_encode, string_is_encode, reads_keep_document s op h hr]

/-! ## the statement fails without the invalidations: concrete histories (replayed on the code) -/

/-- one individual `0` with a NAME child `1` -/
def demoHeap : List NodeRec := [⟨tINDI, [], [73, 49], [1], 0⟩, ⟨tNAME, [74], [], [], 0⟩]
def demoInit : St := initOf demoHeap [0]

/-- read Names twice (the first call only registers the node), delete the name, read again -/
def staleHistory : List Op :=
  [.read (.nodesWithTag 0 tNAME), .read (.nodesWithTag 0 tNAME), .deleteNode 0 1, .read (.nodesWithTag 0 tNAME)]

/-- the code as it was: `SimpleNode.DeleteNode` does not reset the node cache -/
def flagsNoDeleteReset : Flags := { Flags.good with simpleDeleteResetsNodeCache := false }

/-- without the reset the deleted NAME is still returned … -/
theorem stale_read_counterexample :
    (run flagsNoDeleteReset demoInit staleHistory).2 = [.ids [some 1], .ids [some 1], .none, .ids [some 1]] := by
  decide

/-- … with it, it is not. -/
theorem fresh_read_example :
    (run Flags.good demoInit staleHistory).2 = [.ids [some 1], .ids [some 1], .none, .ids []] := by
  decide

/-- one family `0` (pointer F) with HUSB child `1`; `Document.DeleteNode` without its resets keeps
    answering the deleted family from `Families()` and `NodeByPointer` -/
def famHeap : List NodeRec := [⟨tFAM, [], [70], [], 0⟩]
def flagsNoDocDelete : Flags :=
  { Flags.good with docDeleteRebuildsPointers := false, docDeleteClearsFamilies := false,
                    docDeleteResetsIndividuals := false }
def docDeleteHistory : List Op := [.read .families, .docDelete 0, .read .families, .read (.byPointer [70])]

theorem stale_family_counterexample :
    (run flagsNoDocDelete (initOf famHeap [0]) docDeleteHistory).2 =
      [.ids [some 0], .none, .ids [some 0], .ids [some 0]] := by decide

theorem fresh_family_example :
    (run Flags.good (initOf famHeap [0]) docDeleteHistory).2 =
      [.ids [some 0], .none, .ids [], .ids [none]] := by decide

/-- the same through `Document.SetNodes(nil)` -/
def flagsNoDocSetNodes : Flags :=
  { Flags.good with docSetNodesRebuildsPointers := false, docSetNodesClearsFamilies := false,
                    docSetNodesResetsIndividuals := false }
def docSetNodesHistory : List Op := [.read .families, .docSetNodes [], .read .families, .read (.byPointer [70])]

theorem stale_setnodes_counterexample :
    (run flagsNoDocSetNodes (initOf famHeap [0]) docSetNodesHistory).2 =
      [.ids [some 0], .none, .ids [some 0], .ids [some 0]] := by decide

theorem fresh_setnodes_example :
    (run Flags.good (initOf famHeap [0]) docSetNodesHistory).2 =
      [.ids [some 0], .none, .ids [], .ids [none]] := by decide

/-- family `0` (F) and individual `1` (I1): `Families()` of the individual is cached empty, then
    `AddChild` — without the FamilyNode override the individual still has no family -/
def childHeap : List NodeRec := [⟨tFAM, [], [70], [], 0⟩, ⟨tINDI, [], [73, 49], [], 0⟩]
def flagsNoFamilyOverride : Flags :=
  { Flags.good with familyAddResetsCaches := false, familyDeleteResetsCaches := false,
                    familySetNodesResetsCaches := false }
def addChildHistory : List Op := [.read (.indFamilies 1), .addChild 0 1, .read (.indFamilies 1), .read (.parents 1)]

theorem stale_individual_counterexample :
    (run flagsNoFamilyOverride (initOf childHeap [0, 1]) addChildHistory).2 =
      [.ids [], .none, .ids [], .ids []] := by decide

theorem fresh_individual_example :
    (run Flags.good (initOf childHeap [0, 1]) addChildHistory).2 =
      [.ids [], .none, .ids [some 0], .ids [some 0]] := by decide

/-! ## non-vacuity -/

example : Inv demoInit := coherent_init _ _ (by decide) (by
  intro n c hc
  match n with
  | 0 => simp [Abs.kids, demoHeap] at hc; subst hc; decide
  | 1 => simp [Abs.kids, demoHeap] at hc
  | n + 2 => simp [Abs.kids, demoHeap] at hc)

/-- the hypotheses of `views_fresh_decode_partial` are satisfiable: the demo document is what its own
    forest decodes to, with `φ = id` -/
theorem demo_awf : AWF (abs demoInit) := ⟨by decide, by
  intro n c hc
  match n with
  | 0 => simp [Abs.kids, demoHeap, demoInit, initOf, abs] at hc; subst hc; decide
  | 1 => simp [Abs.kids, demoHeap, demoInit, initOf, abs] at hc
  | n + 2 => simp [Abs.kids, demoHeap, demoInit, initOf, abs] at hc⟩

example : abs (ofForest (toForest (abs demoInit))) = abs demoInit := by rfl
example : Iso id (abs demoInit) (abs (ofForest (toForest (abs demoInit)))) := by
  have e : abs (ofForest (toForest (abs demoInit))) = abs demoInit := by rfl
  rw [e]; exact Iso.refl demo_awf

example : (View.nodesWithTag 0 tNAME).ok (abs demoInit) = true := by decide
example : (Op.addChild 0 1).ok (abs (initOf childHeap [0, 1])) = true := by decide
example : (Op.read (.indFamilies 1)).isRead = true := rfl

end Gedcom.C13
