/-
  C13 — Reads never modify a document and views reflect every edit.

  Property theorems only; the lemmas are in `Gedcom.Lemmas.Cache`, the executable model (the one
  the driver runs against the real code) in `Gedcom.Model.Cache`.

  Shape.  `step fl s op` is one public-API call on the document-with-caches `s`; `fl` says which
  edit method resets which cache and is *regenerated from the Go source on every run*
  (`Gedcom.Cache.flags`, from `Generated.rawCacheFlags`).  `abs s` forgets every cache; `specView (abs s) v`
  recomputes view `v` from the bare node structure — what a document answers that has never
  cached anything, i.e. a freshly decoded one.  `Inv s` = every id allocated ∧ every cache entry
  equals the recomputed value (and the pointer index is complete).

  Everything is stated for *all* states, operations and histories — no bound on document size or
  history length.
-/
import Gedcom.Lemmas.CacheMono
import Gedcom.Lemmas.CacheAlpha
import Gedcom.Lemmas.CacheEff
import Gedcom.Props.C01
namespace Gedcom.C13
open Gedcom Gedcom.Cache

/-- **Obligation on the code.**  Every invalidation the proofs below need is present in the Go
    source (`Flags.sufficient` lists them; the three flags it leaves out are redundant given the
    others, so removing those statements from the code is harmless and does not break this).
    It stops checking the moment a needed cache reset disappears from /repo. -/
theorem flags_as_expected : Cache.flags.sufficient = true := by decide

/-- the flags of the current tree, written as the family the lemmas are proved for -/
theorem flags_eq : Cache.flags = Flags.goodWith Cache.flags.setHusbandPointerClearsCache
    Cache.flags.setWifePointerClearsCache Cache.flags.addFamilyResetsFamilies :=
  Flags.eq_goodWith _ flags_as_expected

/-- A freshly decoded document (pointer index built once, every cache empty) is coherent. -/
theorem coherent_init (heap : List NodeRec) (roots : List Id)
    (hr : ∀ r ∈ roots, r < heap.length) (hk : ∀ n c, c ∈ (Abs.mk heap roots).kids n → c < heap.length) :
    Inv (initOf heap roots) :=
  init_inv heap roots ⟨hr, hk⟩

/-- Whatever code has (at least) the listed invalidations keeps every cache coherent under every
    operation of the public edit API and every read. -/
theorem coherent_step_of_sufficient (fl : Flags) (hf : fl.sufficient = true) (s : St) (op : Op)
    (h : Inv s) : Inv (step fl s op).1 := by
  rw [Flags.eq_goodWith fl hf]
  unfold step
  split
  · rename_i hok
    exact exec_inv h op hok
  · exact h

/-- … in particular the code in /repo now. -/
theorem coherent_step (s : St) (op : Op) (h : Inv s) : Inv (step Cache.flags s op).1 :=
  coherent_step_of_sufficient _ flags_as_expected s op h

/-- … hence after every finite history, of any length. -/
theorem coherent_run (ops : List Op) : ∀ (s : St), Inv s → Inv (run Cache.flags s ops).1 := by
  induction ops with
  | nil => intro s h; exact h
  | cons o os ih =>
    intro s h
    exact ih _ (coherent_step s o h)

/-- In a coherent state every view named in the property answers exactly what the bare node
    structure gives — never a removed node, never missing an added one. -/
theorem views_fresh (s : St) (v : View) (h : Inv s) (hok : v.ok (abs s) = true) :
    (step Cache.flags s (.read v)).2 = specView (abs s) v := by
  have hok' : (Op.read v).ok (abs s) = true := hok
  unfold step
  rw [if_pos hok']
  exact (runView_sound v s h hok).2.2

/-- … so after any history from a decoded document every view is fresh. -/
theorem views_fresh_after (heap : List NodeRec) (roots : List Id)
    (hr : ∀ r ∈ roots, r < heap.length) (hk : ∀ n c, c ∈ (Abs.mk heap roots).kids n → c < heap.length)
    (ops : List Op) (v : View) :
    let s := (run Cache.flags (initOf heap roots) ops).1
    v.ok (abs s) = true → (step Cache.flags s (.read v)).2 = specView (abs s) v :=
  fun hok => views_fresh _ v (coherent_run ops _ (coherent_init heap roots hr hk)) hok

/-! ## a decoded document stays a forest, and its views are those of a fresh decode of its text -/

/-- The state the decoder builds from any forest is coherent and every child has a larger id than
    its parent (preorder layout). -/
theorem tree_init (f : Forest) : TInv (ofForest f) := tinv_init f

/-- Every operation keeps both: caches coherent, and the document a forest (an edit only drops
    children or attaches a node it has just allocated). -/
theorem tree_step (s : St) (op : Op) (h : TInv s) : TInv (step Cache.flags s op).1 := by
  rw [flags_eq]
  unfold step
  split
  · rename_i hok
    exact tinv_exec h op hok
  · exact h

/-- … hence after every finite history from a decoded document. -/
theorem tree_run (ops : List Op) : ∀ (s : St), TInv s → TInv (run Cache.flags s ops).1 := by
  induction ops with
  | nil => intro s h; exact h
  | cons o os ih =>
    intro s h
    exact ih _ (tree_step s o h)

/-- **The views of a long-lived document are those of a fresh decode of its text** (C01 link).

    `toForest (abs s)` is the forest `Document.String()` writes (`string_is_encode`); by C01
    (`decode_encode`) decoding the encoder's text gives exactly that forest back, under every
    decoder option; `ofForest` is the state `NewDocumentFromString` builds from it (preorder
    layout).  `psi (abs s)` sends a node of the fresh document to the live node at the same
    position.  Then, with whatever the live document has in its caches:

    * every view that can be asked of the fresh document answers, node for node and in order
      (under `psi`), what the same view answers on the live document at the corresponding node;
    * every attached record of the live document is the `psi`-image of a fresh node, so this covers
      every view of every record the text contains.

    No structural hypothesis is left: the two facts that `views_fresh_decode_partial` used to assume
    (the re-allocated heap is well-formed and is the live heap renumbered) are `ofForest_awf` and
    `fresh_iso`, and what the latter needs — the live heap has no cycle — follows from `TInv`,
    which `tree_run` establishes for every state reachable from a decoded document.  `Legal` is C01's
    hypothesis on the strings (no line breaks in values, …), not a structural one. -/
theorem views_fresh_decode (s : St) (h : TInv s) (bom : Bool) (o : Dec.Opts)
    (hl : C01.Legal ⟨bom, toForest (abs s)⟩) :
    ∃ d : Dec.Doc, Dec.decode o (Dec.encode ⟨bom, toForest (abs s)⟩) = .ok d ∧
      (∀ v : View, v.ok (abs (ofForest d.nodes)) = true →
        ((step Cache.flags (ofForest d.nodes) (.read v)).2).map (psi (abs s)) =
          (step Cache.flags s (.read (v.map (psi (abs s))))).2) ∧
      (∀ n, Att (abs s) n → ∃ k, k < (ofForest d.nodes).heap.length ∧ psi (abs s) k = n) := by
  refine ⟨⟨bom, toForest (abs s)⟩, C01.decode_encode _ hl o, ?_, ?_⟩
  · intro v hok
    have w := h.1.1.awf
    have iso := fresh_iso w h.2.ranked
    have wf := fresh_awf (abs s)
    have hinv : Inv (ofForest (toForest (abs s))) := init_inv _ _ wf
    have hs : ∀ n, v.subject = some n → n < (abs (ofForest (toForest (abs s)))).heap.length := by
      intro n hn
      cases v with
      | nodesWithTag m t => cases hn; exact of_decide_eq_true hok
      | individuals => cases hn
      | families => cases hn
      | byPointer p => cases hn
      | indFamilies i => cases hn; exact wf.roots _ (isIndi_iff.mp hok).1
      | spouses i => cases hn; exact wf.roots _ (isIndi_iff.mp hok).1
      | parents i => cases hn; exact wf.roots _ (isIndi_iff.mp hok).1
      | children i => cases hn; exact wf.roots _ (isIndi_iff.mp hok).1
      | husband f => cases hn; exact tag_lt (isFam_iff.mp hok) tFAM_ne
      | wife f => cases hn; exact tag_lt (isFam_iff.mp hok) tFAM_ne
      | famChildren f => cases hn; exact tag_lt (isFam_iff.mp hok) tFAM_ne
      | names i => cases hn; exact wf.roots _ (isIndi_iff.mp hok).1
      | eventsOf i t =>
        cases hn
        simp only [View.ok, Bool.and_eq_true] at hok
        exact wf.roots _ (isIndi_iff.mp hok.1).1
      | allEvents i => cases hn; exact wf.roots _ (isIndi_iff.mp hok).1
    rw [views_fresh _ v hinv hok, views_fresh s _ h.1 (ok_iso iso v hs hok), specView_iso iso v hs]
  · intro n hn
    exact att_psi h.1.1.awf h.2.ranked hn

/-- … in particular after any history on any decoded document. -/
theorem views_fresh_decode_run (f : Forest) (ops : List Op) (bom : Bool) (o : Dec.Opts)
    (hl : C01.Legal ⟨bom, toForest (abs (run Cache.flags (ofForest f) ops).1)⟩) :
    ∃ d : Dec.Doc,
      Dec.decode o (Dec.encode ⟨bom, toForest (abs (run Cache.flags (ofForest f) ops).1)⟩) = .ok d ∧
      (∀ v : View, v.ok (abs (ofForest d.nodes)) = true →
        ((step Cache.flags (ofForest d.nodes) (.read v)).2).map (psi (abs (run Cache.flags (ofForest f) ops).1)) =
          (step Cache.flags (run Cache.flags (ofForest f) ops).1
            (.read (v.map (psi (abs (run Cache.flags (ofForest f) ops).1))))).2) ∧
      (∀ n, Att (abs (run Cache.flags (ofForest f) ops).1) n →
        ∃ k, k < (ofForest d.nodes).heap.length ∧ psi (abs (run Cache.flags (ofForest f) ops).1) k = n) :=
  views_fresh_decode _ (tree_run ops _ (tree_init f)) bom o hl

/-- A read leaves the document (hence its GEDCOM text) unchanged … -/
theorem reads_keep_document (s : St) (op : Op) (h : Inv s) (hr : op.isRead = true) :
    abs (step Cache.flags s op).1 = abs s := by
  rw [flags_eq]
  unfold step
  split
  · rename_i hok
    cases op with
    | read v => exact (runView_sound v s h hok).2.1
    | warnings => exact (warningsRead_pure s h trivial).2
    | string => rfl
    | gedcomString n => rfl
    | foreign => rfl
    | inert => rfl
    | _ => simp [Op.isRead] at hr
  · rfl

/-- … and every view answers the same before and after it. -/
theorem reads_pure (s : St) (op : Op) (v : View) (h : Inv s) (hr : op.isRead = true) :
    abs (step Cache.flags s op).1 = abs s ∧
    (step Cache.flags (step Cache.flags s op).1 (.read v)).2 = (step Cache.flags s (.read v)).2 := by
  have ha := reads_keep_document s op h hr
  refine ⟨ha, ?_⟩
  by_cases hok : v.ok (abs s) = true
  · rw [views_fresh _ v (coherent_step s op h) (ha ▸ hok), views_fresh s v h hok, ha]
  · have bad : ∀ t : St, ¬ (Op.read v).ok (abs t) = true → (step Cache.flags t (.read v)).2 = .bad := by
      intro t ht
      unfold step
      rw [if_neg ht]
    rw [bad _ (by rw [ha]; exact hok), bad s hok]

/-- `doc.String()` is a walk over the nodes: it answers the encoder's text of the current forest
    and touches no cache … -/
theorem string_is_encode (s : St) :
    step Cache.flags s .string = (s, .text (Dec.encForest 0 (toForest (abs s)))) := rfl

/-- … so no read — a view, `Warnings()`, `String()`, `GEDCOMString()`, or one of the black boxes —
    changes the GEDCOM text. -/
theorem reads_keep_text (s : St) (op : Op) (h : Inv s) (hr : op.isRead = true) :
    (step Cache.flags (step Cache.flags s op).1 .string).2 = (step Cache.flags s .string).2 := by
  rw [string_is_encode, string_is_encode, reads_keep_document s op h hr]

/-! ## the model's step is the source's statement list

  `Generated/CacheEffects.lean` holds, for SimpleNode / FamilyNode / IndividualNode `.AddNode`,
  `.DeleteNode`, `.SetNodes` and for `Document.DeleteNode`, `.SetNodes`, the statements of the Go method
  body in source order (go/ast; `if didDelete`, `if node.document != nil` as guards; private helpers
  inlined; anything unrecognised is `.bad`), and the version protocol of `IndividualNode.Families()` /
  `Spouses()`.  `CacheEff.runBody` interprets a list on the model's state. -/

open Gedcom.CacheEff in
/-- **Obligation**: every statement of the eleven bodies is inside the fragment (nothing was
    skipped or guessed). -/
theorem mutators_translated :
    (inFragment Generated.simpleAddNode && inFragment Generated.simpleDeleteNode &&
     inFragment Generated.simpleSetNodes && inFragment Generated.familyAddNode &&
     inFragment Generated.familyDeleteNode && inFragment Generated.familySetNodes &&
     inFragment Generated.individualAddNode && inFragment Generated.individualDeleteNode &&
     inFragment Generated.individualSetNodes && inFragment Generated.documentDeleteNode &&
     inFragment Generated.documentSetNodes) = true := by decide

/-- **Obligation**: only SimpleNode, FamilyNode and IndividualNode (and Document, for its root list)
    define the three methods — the dispatch by tag in `addNodeSrc` … is complete. -/
theorem overriders_as_modelled :
    Generated.overriders =
      [("AddNode", ["Document", "FamilyNode", "IndividualNode", "SimpleNode"]),
       ("DeleteNode", ["Document", "FamilyNode", "IndividualNode", "SimpleNode"]),
       ("SetNodes", ["Document", "FamilyNode", "IndividualNode", "SimpleNode"])] := by decide

open Gedcom.CacheEff in
/-- **Obligation**: both cached getters follow the version protocol — read (cached, stamp, value),
    trust it iff `cached && stamp == familyLinksVersion`, store (value, true, current version) — each
    with its *own* three fields. -/
theorem getters_translated :
    Generated.getterFamilies =
      ⟨["cachedFamilies", "familiesVersion", "families"], .cachedAndVersionCurrent,
       [("families", .result), ("cachedFamilies", .yes), ("familiesVersion", .docVersion)]⟩ ∧
    Generated.getterSpouses =
      ⟨["cachedSpouses", "spousesVersion", "spouses"], .cachedAndVersionCurrent,
       [("spouses", .result), ("cachedSpouses", .yes), ("spousesVersion", .docVersion)]⟩ := by decide

/-- … so a stamp written by one getter can never validate what the other remembered. -/
theorem getter_stamps_separate :
    (Generated.getterFamilies.snapshot.all fun f => !Generated.getterSpouses.snapshot.contains f) = true ∧
    (Generated.getterFamilies.stores.all fun f => !Generated.getterSpouses.snapshot.contains f.1) = true ∧
    (Generated.getterSpouses.stores.all fun f => !Generated.getterFamilies.snapshot.contains f.1) = true := by
  decide

/-- The protocol in the small: what was stored under the current version is trusted; after
    `familyLinksVersion++` nothing stored before is — the model's `bumpFamilyLinks` (drop every
    entry) is exactly that. -/
theorem version_protocol {α : Type} (V : Nat) (v : α) (c : CacheEff.Cell α) (h : c.version ≤ V) :
    (CacheEff.Cell.store V v).get V = some v ∧ c.get (V + 1) = none ∧ (CacheEff.Cell.store V v).version ≤ V :=
  ⟨CacheEff.cell_store_get V v, CacheEff.cell_bump_miss c V h, CacheEff.cell_store_le V v⟩

open Gedcom.CacheEff in
/-- **`n.DeleteNode(c)`, `n.SetNodes(ks)`, `n.AddNode(x)`, `doc.DeleteNode(r)`, `doc.SetNodes(ks)` of the
    model are the translated bodies, run in source order** (dispatched on the Go type of the receiver,
    which the tag decides; `AddNode` after the new node was allocated).  The model's step for these
    operations is therefore *derived from* the source's statement list: a statement added, removed,
    reordered or put under another condition in the Go method changes the right-hand side. -/
theorem step_is_source (s : St) :
    (∀ n c, (exec Cache.flags s (.deleteNode n c)).1 = runBody sup ⟨n, c, []⟩ (deleteNodeSrc ((abs s).tag n)) s) ∧
    (∀ n ks, (exec Cache.flags s (.setNodes n ks)).1 = runBody sup ⟨n, 0, ks⟩ (setNodesSrc ((abs s).tag n)) s) ∧
    (∀ n t v p, (exec Cache.flags s (.addNode n t v p)).1 =
      runBody sup ⟨n, s.heap.length, []⟩ (addNodeSrc ((abs (alloc ⟨t, v, p, [], 0⟩ s)).tag n))
        (alloc ⟨t, v, p, [], 0⟩ s)) ∧
    (∀ r, (exec Cache.flags s (.docDelete r)).1 = runBody sup ⟨0, r, []⟩ Generated.documentDeleteNode s) ∧
    (∀ ks, (exec Cache.flags s (.docSetNodes ks)).1 = runBody sup ⟨0, 0, ks⟩ Generated.documentSetNodes s) := by
  rw [flags_eq]
  exact ⟨fun n c => deleteKid_is_source n c s, fun n ks => setKidsOp_is_source n ks s,
    fun n t v p => addKid_is_source n s.heap.length (alloc ⟨t, v, p, [], 0⟩ s),
    fun r => docDelete_is_source r s, fun ks => docSetNodes_is_source ks s⟩

/-! ## the statement fails without the invalidations: concrete histories (replayed on the code) -/

/-- one individual `0` with a NAME child `1` -/
def demoHeap : List NodeRec := [⟨tINDI, [], [73, 49], [1], 0⟩, ⟨tNAME, [74], [], [], 0⟩]
def demoInit : St := initOf demoHeap [0]

/-- read Names twice (the first call only registers the node), delete the name, read again -/
def staleHistory : List Op :=
  [.read (.nodesWithTag 0 tNAME), .read (.nodesWithTag 0 tNAME), .deleteNode 0 1, .read (.nodesWithTag 0 tNAME)]

/-- the code as it was: `SimpleNode.DeleteNode` does not reset the node cache -/
def flagsNoDeleteReset : Flags := { Flags.good with simpleDeleteResetsNodeCache := false }

/-- without the reset the deleted NAME is still returned … -/
theorem stale_read_counterexample :
    (run flagsNoDeleteReset demoInit staleHistory).2 = [.ids [some 1], .ids [some 1], .none, .ids [some 1]] := by
  decide

/-- … with it, it is not. -/
theorem fresh_read_example :
    (run Flags.good demoInit staleHistory).2 = [.ids [some 1], .ids [some 1], .none, .ids []] := by
  decide

/-- one family `0` (pointer F) with HUSB child `1`; `Document.DeleteNode` without its resets keeps
    answering the deleted family from `Families()` and `NodeByPointer` -/
def famHeap : List NodeRec := [⟨tFAM, [], [70], [], 0⟩]
def flagsNoDocDelete : Flags :=
  { Flags.good with docDeleteRebuildsPointers := false, docDeleteClearsFamilies := false,
                    docDeleteResetsIndividuals := false }
def docDeleteHistory : List Op := [.read .families, .docDelete 0, .read .families, .read (.byPointer [70])]

theorem stale_family_counterexample :
    (run flagsNoDocDelete (initOf famHeap [0]) docDeleteHistory).2 =
      [.ids [some 0], .none, .ids [some 0], .ids [some 0]] := by decide

theorem fresh_family_example :
    (run Flags.good (initOf famHeap [0]) docDeleteHistory).2 =
      [.ids [some 0], .none, .ids [], .ids [none]] := by decide

/-- the same through `Document.SetNodes(nil)` -/
def flagsNoDocSetNodes : Flags :=
  { Flags.good with docSetNodesRebuildsPointers := false, docSetNodesClearsFamilies := false,
                    docSetNodesResetsIndividuals := false }
def docSetNodesHistory : List Op := [.read .families, .docSetNodes [], .read .families, .read (.byPointer [70])]

theorem stale_setnodes_counterexample :
    (run flagsNoDocSetNodes (initOf famHeap [0]) docSetNodesHistory).2 =
      [.ids [some 0], .none, .ids [some 0], .ids [some 0]] := by decide

theorem fresh_setnodes_example :
    (run Flags.good (initOf famHeap [0]) docSetNodesHistory).2 =
      [.ids [some 0], .none, .ids [], .ids [none]] := by decide

/-- family `0` (F) and individual `1` (I1): `Families()` of the individual is cached empty, then
    `AddChild` — without the FamilyNode override the individual still has no family -/
def childHeap : List NodeRec := [⟨tFAM, [], [70], [], 0⟩, ⟨tINDI, [], [73, 49], [], 0⟩]
def flagsNoFamilyOverride : Flags :=
  { Flags.good with familyAddResetsCaches := false, familyDeleteResetsCaches := false,
                    familySetNodesResetsCaches := false }
def addChildHistory : List Op := [.read (.indFamilies 1), .addChild 0 1, .read (.indFamilies 1), .read (.parents 1)]

theorem stale_individual_counterexample :
    (run flagsNoFamilyOverride (initOf childHeap [0, 1]) addChildHistory).2 =
      [.ids [], .none, .ids [], .ids []] := by decide

theorem fresh_individual_example :
    (run Flags.good (initOf childHeap [0, 1]) addChildHistory).2 =
      [.ids [], .none, .ids [some 0], .ids [some 0]] := by decide

/-! ## round 4: the rest of the alphabet — `DeleteNodesWithTag`, subtrees, names and events

  `Op.deleteNodesWithTag`, the views `names` / `eventsOf` / `allEvents` are constructors of `Op` / `View`,
  so every theorem above (`coherent_step`, `tree_step`, `views_fresh`, `views_fresh_decode`, `reads_pure`,
  …) already quantifies over them.  What follows is what is specific to them. -/

/-- **`DeleteNodesWithTag(n, t)`**: afterwards the children of `n` are the former ones without those
    tagged `t`, in the same order (also when matching and other children alternate — the in-place
    loop this function once was skipped the node after each removed one); nothing else of the
    document changes. -/
theorem deleteNodesWithTag_spec (s : St) (n : Nat) (t : Str) (hn : n < s.heap.length) :
    (abs (step Cache.flags s (.deleteNodesWithTag n t)).1).kids n =
      ((abs s).kids n).filter (fun c => !((abs s).tag c == t)) ∧
    (∀ m, m ≠ n → (abs (step Cache.flags s (.deleteNodesWithTag n t)).1).kids m = (abs s).kids m) ∧
    (∀ m, (abs (step Cache.flags s (.deleteNodesWithTag n t)).1).tag m = (abs s).tag m) ∧
    (∀ m, (abs (step Cache.flags s (.deleteNodesWithTag n t)).1).value m = (abs s).value m) ∧
    (∀ m, (abs (step Cache.flags s (.deleteNodesWithTag n t)).1).ptr m = (abs s).ptr m) ∧
    (abs (step Cache.flags s (.deleteNodesWithTag n t)).1).roots = (abs s).roots ∧
    (abs (step Cache.flags s (.deleteNodesWithTag n t)).1).heap.length = (abs s).heap.length := by
  rw [flags_eq]
  have hok : (Op.deleteNodesWithTag n t).ok (abs s) = true := decide_eq_true hn
  unfold step
  rw [if_pos hok]
  exact deleteKidsWithTag_abs s hn t

open Gedcom.CacheEff in
/-- **Obligation**: every statement of `Document.AddNode` (helper `addPointerToCache` inlined, go/ast) is
    inside the fragment — nothing skipped or guessed — and the body ends with the version bump. -/
theorem document_addNode_translated :
    docAddFragment Generated.documentAddNode = true ∧
    Generated.documentAddNode.getLast? = some ⟨.always, .bumpLinks⟩ := by decide

open Gedcom.CacheEff in
/-- **`doc.AddNode(record)` of the model is the translated body of `Document.AddNode`**, run in source
    order on the state in which the record has been allocated — for a plain node, an INDI record and a
    FAM record alike (the guards `pointer != ""` and `case TagFamily` are evaluated on the record). -/
theorem docAddNode_is_source (s : St) (t v p : Str) :
    (exec Cache.flags s (.docAddNode t v p)).1 =
      runDocAdd s.heap.length Generated.documentAddNode (alloc ⟨t, v, p, [], 0⟩ s) := by
  rw [flags_eq]
  exact docAppend_is_source _ s

open Gedcom.CacheEff in
/-- **Obligation**: the body of `DeleteNodesWithTag` (go/ast, `Generated.deleteNodesWithTagLoop`) is a
    loop over a *copy* of the child list, tests the tag, and calls `DeleteNode` on the loop variable —
    nothing else. -/
theorem deleteNodesWithTag_translated :
    Generated.deleteNodesWithTagLoop = ⟨.copyOfKids, .tagIs, [.deleteNodeCall]⟩ := by decide

/-- **The model's `DeleteNodesWithTag` is that loop**, run with the model's own `DeleteNode` step (which
    `step_is_source` in turn derives from the statements of the `DeleteNode` bodies): the closed form
    the machine executes and the source's call sequence reach the same state, caches included. -/
theorem deleteNodesWithTag_is_source (s : St) (n : Nat) (t : Str) (hn : n < s.heap.length) :
    CacheEff.runTagLoop Cache.flags Generated.deleteNodesWithTagLoop n t s =
      some (exec Cache.flags s (.deleteNodesWithTag n t)).1 := by
  rw [deleteNodesWithTag_translated, flags_eq]
  show some (deleteLoop _ n t s) = some (deleteKidsWithTag _ n t s)
  rw [deleteKidsWithTag_is_loop s hn t]

/-- … and no view returns a removed node: with whatever was cached before, the children-by-tag
    lookup for that tag answers the empty list right after the call. -/
theorem deleted_by_tag_not_viewed (s : St) (n : Nat) (t : Str) (h : Inv s) (hn : n < s.heap.length) :
    (step Cache.flags (step Cache.flags s (.deleteNodesWithTag n t)).1 (.read (.nodesWithTag n t))).2 =
      .ids [] := by
  obtain ⟨hk, _, ht, _, _, _, hl⟩ := deleteNodesWithTag_spec s n t hn
  have hi' := coherent_step s (.deleteNodesWithTag n t) h
  have hok : (View.nodesWithTag n t).ok (abs (step Cache.flags s (.deleteNodesWithTag n t)).1) = true := by
    simp only [View.ok, decide_eq_true_eq]
    rw [hl]; exact hn
  rw [views_fresh _ _ hi' hok]
  simp only [specView, specNWT, hk, List.filter_filter]
  have : List.filter (fun a => ((abs (step Cache.flags s (.deleteNodesWithTag n t)).1).tag a == t &&
      !((abs s).tag a == t))) ((abs s).kids n) = [] := by
    apply List.filter_eq_nil_iff.mpr
    intro c _
    rw [ht c]
    cases (abs s).tag c == t <;> simp
  rw [this]; rfl

/-- **One call with a subtree** (`n.AddNode(NewNode(…, children…))`, `doc.AddNode(subtree)`,
    `doc.AddIndividual(ptr, children…)`, run by the model as the history `addTreeOps` /
    `docAddTreeOps` / `addIndividualWithOps`, all or nothing): it keeps the invariant of reachable
    states, so `views_fresh_decode` holds after it … -/
theorem subtree_call_keeps_invariant (s : St) (ops : List Op) (h : TInv s) :
    TInv (runAtomic Cache.flags s ops).1 := by
  unfold runAtomic
  split
  · exact h
  · exact tree_run ops s h

/-- … and a call that is rejected (a tag `NewNode` panics for anywhere in the subtree, a receiver
    that is not in the document) leaves no trace. -/
theorem subtree_call_atomic (s : St) (ops : List Op) (hb : (runAtomic Cache.flags s ops).2 = .bad) :
    (runAtomic Cache.flags s ops).1 = s := by
  unfold runAtomic at hb ⊢
  split
  · rfl
  · rename_i hc
    rw [if_neg hc] at hb
    cases hb

/-- **Obligation on the code** (the event table is regenerated from `Tag.IsEvent()`): the four tags
    the event accessors look up are event tags … -/
theorem event_accessors_are_events : eventAccessorTags.all isEventTag = true := by decide

/-- … hence `Births()`, `Baptisms()`, `Deaths()`, `Burials()` each answer a sub-sequence of
    `AllEvents()` (same nodes, same order), on every document. -/
theorem event_accessors_within_allEvents (a : Abs) (i : Id) (t : Str)
    (ht : eventAccessorTags.contains t = true) : (specNWT a i t).Sublist (specAllEvents a i) := by
  apply specNWT_sublist_allEvents
  have hm : t ∈ eventAccessorTags := by simpa using ht
  exact List.all_eq_true.mp event_accessors_are_events t hm

/-! ## non-vacuity -/

example : Inv demoInit := coherent_init _ _ (by decide) (by
  intro n c hc
  match n with
  | 0 => simp [Abs.kids, demoHeap] at hc; subst hc; decide
  | 1 => simp [Abs.kids, demoHeap] at hc
  | n + 2 => simp [Abs.kids, demoHeap] at hc)

/-- `views_fresh_decode` is about something: a decoded two-node document, edited -/
def demoForest : Forest := [.mk tINDI [] [73, 49] [.mk tNAME [74] [] []]]
example : abs (ofForest demoForest) = abs demoInit := by rfl
example : TInv (run Cache.flags (ofForest demoForest) [.read (.nodesWithTag 0 tNAME), .addNode 0 tNAME [75] [],
    .deleteNode 0 1]).1 := tree_run _ _ (tree_init _)
example : (abs (run Cache.flags (ofForest demoForest) [.addNode 0 tNAME [75] [], .deleteNode 0 1]).1).kids 0 = [2] := by
  decide
example : psi (abs (run Cache.flags (ofForest demoForest) [.addNode 0 tNAME [75] [], .deleteNode 0 1]).1) 1 = 2 := by
  decide

/-- NAME, BIRT, NAME below one individual: `DeleteNodesWithTag(NAME)` keeps the BIRT; a subtree
    BIRT{DATE} added in one call; names and events as views -/
def demoForest2 : Forest := [.mk tINDI [] [73, 49] [.mk tNAME [74] [] [], .mk tBIRT [] [] [], .mk tNAME [75] [] []]]
example : (run Cache.flags (ofForest demoForest2)
    [.read (.names 0), .read (.names 0), .deleteNodesWithTag 0 tNAME, .read (.names 0), .read (.allEvents 0),
     .read (.eventsOf 0 tBIRT), .read (.eventsOf 0 tNAME)]).2 =
    [.ids [some 1, some 3], .ids [some 1, some 3], .none, .ids [], .ids [some 2], .ids [some 2], .bad] := by decide
example : (abs (runAtomic Cache.flags (ofForest demoForest2)
    (addTreeOps 0 4 (.mk tDEAT [] [] [.mk tDATE [49] [] []]))).1).kids 4 = [5] := by decide
example : (runAtomic Cache.flags (ofForest demoForest2)
    (addTreeOps 0 4 (.mk tDEAT [] [] [.mk tHUSB [49] [] []]))).2 = .bad := by decide
example : (View.nodesWithTag 0 tNAME).ok (abs demoInit) = true := by decide
example : (Op.addChild 0 1).ok (abs (initOf childHeap [0, 1])) = true := by decide
example : (Op.read (.indFamilies 1)).isRead = true := rfl

end Gedcom.C13
