/-
  C20 — the conditions of the warning rules are the source's.
  `Gedcom.Generated.src*` (Generated/WarningsSrc.lean) is the go/ast translation of the `if`
  conditions of siblingsBornTooCloseWarnings, appendMarriedOutOfRange, tooOldWarnings and
  childrenBornBeforeParentsWarnings (harness/extract_warningssrc.go).  Here:
  (1) everything translated lies inside the fragment (`warnings_source_in_fragment`, by `decide`:
      no `.bad`, the statement shapes were recognised, the two windows agree with the behavioural
      probe of Generated/Warnings.lean);
  (2) interpreting the translated conditions in source order is the hand-written model
      (Gedcom/Model/Warnings.lean) for all documents, families, people and ages.
-/
import Gedcom.Model.Warnings
import Gedcom.Generated.WarningsSrc
namespace Gedcom.C20
open Gedcom Gedcom.Warn Gedcom.WarnSrc

/-- the constants the conditions refer to: the two windows as written in the source, the exported
    constants of Generated/Warnings.lean -/
def srcConsts : Consts :=
  ⟨Generated.srcNineMonthsDays * nsPerDay, Generated.srcTwoDaysDays * nsPerDay, Generated.yearNs,
   Generated.minMarriageAge, Generated.maxMarriageAge, Generated.maxLivingAge⟩

/-- **warnings_source_in_fragment** (obligation): the translator recognised every statement and
    expression it is responsible for, and the windows written in the source are the ones the
    behavioural probe measured. -/
theorem warnings_source_in_fragment :
    Generated.srcSiblingShape = true ∧ Generated.srcMarriedShape = true ∧
    Generated.srcTooOldShape = true ∧ Generated.srcCbbpShape = true ∧
    (Generated.srcSiblingOuterSkips ++ Generated.srcSiblingInnerSkips ++ Generated.srcCbbpSkips ++
      [Generated.srcSiblingReport, Generated.srcMarriedYoung, Generated.srcMarriedOld, Generated.srcTooOld] ++
      Generated.srcCbbpReports.map (·.1)).all Cond.ok = true ∧
    Generated.srcCbbpReports.map (·.2) = [Parent.husb, Parent.wife] ∧
    Generated.srcNineMonthsDays = Generated.siblingMaxDays ∧
    Generated.srcTwoDaysDays = Generated.siblingMinDays := by decide

/-! ### siblings born too close -/

/-- what the Go code has in scope for the pair `(child1, child2)` -/
def sibEnv (d : Doc) (c1 c2 : Nat) : Env :=
  let b1 := birthOf (indiOf d c1)
  let b2 := birthOf (indiOf d c2)
  { dur1 := dateSub (endI b1) (startI b1), dur2 := dateSub (endI b2) (startI b2),
    mn := dateSub (startI b1) (startI b2), mx := dateSub (endI b1) (endI b2),
    same := sameIndi (indiOf d c1) (indiOf d c2), subErr := subErr b1 b2 }

/-- the source, interpreted: no `continue` of the outer loop, none of the inner loop, and the
    report test -/
def srcSiblingHit (e : Env) : Bool :=
  passes srcConsts e Generated.srcSiblingOuterSkips && passes srcConsts e Generated.srcSiblingInnerSkips &&
    Generated.srcSiblingReport.eval srcConsts e

/-- **sibling_hit_is_the_source**: the model's test for a sibling pair (the twin window `<`, the
    nine-month window `<` / `>=`, their `||` / skip-chain structure and order) is the translated
    source, for every document and pair of children. -/
theorem sibling_hit_is_the_source (d : Doc) (c1 c2 : Nat) :
    siblingHit d c1 c2 = srcSiblingHit (sibEnv d c1 c2) := by
  simp only [siblingHit, srcSiblingHit, passes, sibEnv, srcConsts, Generated.srcSiblingOuterSkips,
    Generated.srcSiblingInnerSkips, Generated.srcSiblingReport, Generated.srcNineMonthsDays,
    Generated.srcTwoDaysDays, Cond.eval, Num.eval, Cmp.eval, Flag.eval, List.all_cons, List.all_nil,
    nineMonths, twoDays, Generated.siblingMaxDays, Generated.siblingMinDays, Int.mul_one,
    Bool.and_true, Bool.and_assoc, ge_iff_le]
  rfl

/-! ### married too young / too old -/

def ageEnv (a : Ages) : Env := { ageNs := a.hi, ageKnown := a.known }

/-- **married_check_is_the_source**: `appendMarriedOutOfRange` — "young" iff the age is known and
    `Years() < DefaultMinMarriageAge`, then "old" iff `Years() > DefaultMaxMarriageAge` — for every
    age. -/
theorem married_check_is_the_source (fam k : Nat) (a : Ages) (spouse : Nat) :
    marriedCheck fam k a spouse =
      (if Generated.srcMarriedYoung.eval srcConsts (ageEnv a) then [Warning.marriedOutOfRange fam spouse false k] else []) ++
      (if Generated.srcMarriedOld.eval srcConsts (ageEnv a) then [Warning.marriedOutOfRange fam spouse true k] else []) := by
  simp only [marriedCheck, Generated.srcMarriedYoung, Generated.srcMarriedOld, Cond.eval, Num.eval,
    Cmp.eval, Flag.eval, ageEnv, srcConsts, Int.mul_one, gt_iff_lt, decide_eq_true_eq]

/-! ### individual too old -/

/-- **too_old_is_the_source**: `tooOldWarnings` — `max.Years() > DefaultMaxLivingAge &&
    estimatedDeathDate != nil` — for every individual and date. -/
theorem too_old_is_the_source (i : Indi) (now : Date) :
    tooOld i now =
      if Generated.srcTooOld.eval srcConsts { ageNs := (ageNow i now).hi, deathKnown := (estDeath i).isSome }
      then [Warning.individualTooOld i.ptr] else [] := by
  simp only [tooOld, Generated.srcTooOld, Cond.eval, Num.eval, Cmp.eval, Flag.eval, srcConsts,
    Int.mul_one, gt_iff_lt]

/-! ### child born before parent -/

def cbbpEnv (d : Doc) (f : Fam) (c : Nat) : Env :=
  let fb := birthOf (f.husb.bind (indiOf d))
  let mb := birthOf (f.wife.bind (indiOf d))
  let cb := birthOf (indiOf d c)
  { childValid := validO cb, fatherValid := validO fb, motherValid := validO mb,
    childBeforeFather := yearsLtV cb fb, childBeforeMother := yearsLtV cb mb }

def parentPtr (f : Fam) : Parent → Nat
  | .husb => f.husb.getD 0
  | .wife => f.wife.getD 0
  | .bad => 0

/-- the loop body of the source, interpreted: skip tests, then one `if` per parent in source order -/
def srcCbbpChild (d : Doc) (f : Fam) (c : Nat) : List Warning :=
  if passes srcConsts (cbbpEnv d f c) Generated.srcCbbpSkips then
    Generated.srcCbbpReports.flatMap fun r =>
      if r.1.eval srcConsts (cbbpEnv d f c) then [Warning.childBornBeforeParent f.ptr (parentPtr f r.2) c] else []
  else []

/-- **cbbp_is_the_source**: the loop of `childrenBornBeforeParentsWarnings` (child without a valid
    birth skipped; father test and warning, then mother test and warning) is the translated source,
    for every document and family. -/
theorem cbbp_is_the_source (d : Doc) (f : Fam) :
    childrenBornBeforeParentsRaw d f = f.chil.flatMap (srcCbbpChild d f) := by
  simp only [childrenBornBeforeParentsRaw]
  congr 1
  funext c
  simp only [srcCbbpChild, passes, Generated.srcCbbpSkips, Generated.srcCbbpReports, cbbpEnv,
    Cond.eval, Flag.eval, List.all_cons, List.all_nil, Bool.and_true, Bool.not_not,
    List.flatMap_cons, List.flatMap_nil, List.append_nil, parentPtr]
  cases validO (birthOf (indiOf d c)) <;> simp

end Gedcom.C20
