/-
  C10 — Merging documents accounts for every person and keeps links valid.
  Property theorems about `Gedcom.MergeG.mergeG` (the function the driver runs): the composition
  of the individual matching (an input, C11), `IndividualNodes.Merge`, `MergeNodeSlices` on the
  other records and `NewDocumentWithNodes`, at the level of records, pointers and reference lines.
  Not here: the inside of `MergeNodes` on fact subtrees ("holds the facts of both", C09) and the
  re-decodability of the output (C01) — both are checked on the implementation by the harness.
-/
import Gedcom.Model.MergeGraph
namespace Gedcom.C10
open Gedcom.MergeG

/-- the input individuals one comparison accounts for (`false` = left, `true` = right) -/
def srcs : M → List (Bool × Nat)
  | .both i j => [(false, i), (true, j)]
  | .left i => [(false, i)]
  | .right j => [(true, j)]

def allSources (nl nr : Nat) : List (Bool × Nat) :=
  (List.range nl).map (fun i => (false, i)) ++ (List.range nr).map (fun j => (true, j))

/-- what C11 guarantees about `IndividualNodes.Compare`: every left and every right individual
    occurs in exactly one comparison (decidable) -/
def ValidMatching (m : List M) (nl nr : Nat) : Prop := (m.flatMap srcs).Perm (allSources nl nr)

instance (m : List M) (nl nr : Nat) : Decidable (ValidMatching m nl nr) := by
  unfold ValidMatching; exact inferInstance

theorem mem_allSources {nl nr : Nat} {s : Bool × Nat} :
    s ∈ allSources nl nr ↔ (s.1 = false ∧ s.2 < nl) ∨ (s.1 = true ∧ s.2 < nr) := by
  obtain ⟨b, k⟩ := s
  simp only [allSources, List.mem_append, List.mem_map, List.mem_range, Prod.mk.injEq]
  constructor
  · rintro (⟨i, hi, rfl, rfl⟩ | ⟨j, hj, rfl, rfl⟩)
    · exact Or.inl ⟨rfl, hi⟩
    · exact Or.inr ⟨rfl, hj⟩
  · rintro (⟨rfl, h⟩ | ⟨rfl, h⟩)
    · exact Or.inl ⟨k, h, rfl, rfl⟩
    · exact Or.inr ⟨k, h, rfl, rfl⟩

theorem ValidMatching.bound {m : List M} {nl nr : Nat} (h : ValidMatching m nl nr) {x : M} (hx : x ∈ m)
    {s : Bool × Nat} (hs : s ∈ srcs x) : (s.1 = false ∧ s.2 < nl) ∨ (s.1 = true ∧ s.2 < nr) :=
  mem_allSources.mp (h.mem_iff.mp (List.mem_flatMap.mpr ⟨x, hx, hs⟩))

theorem mergeOne_srcs {l r : List Rcd} {x : M}
    (hb : ∀ s ∈ srcs x, (s.1 = false ∧ s.2 < l.length) ∨ (s.1 = true ∧ s.2 < r.length)) :
    ∃ rc, mergeOne l r x = some (rc, srcs x) := by
  cases x with
  | both i j =>
    have hi : i < l.length := by
      rcases hb (false, i) (by simp [srcs]) with h | h
      · exact h.2
      · exact absurd h.1 (by simp)
    have hj : j < r.length := by
      rcases hb (true, j) (by simp [srcs]) with h | h
      · exact absurd h.1 (by simp)
      · exact h.2
    simp [mergeOne, srcs, List.getElem?_eq_getElem hi, List.getElem?_eq_getElem hj]
  | left i =>
    have hi : i < l.length := by
      rcases hb (false, i) (by simp [srcs]) with h | h
      · exact h.2
      · exact absurd h.1 (by simp)
    simp [mergeOne, srcs, List.getElem?_eq_getElem hi]
  | right j =>
    have hj : j < r.length := by
      rcases hb (true, j) (by simp [srcs]) with h | h
      · exact absurd h.1 (by simp)
      · exact h.2
    simp [mergeOne, srcs, List.getElem?_eq_getElem hj]

theorem sources_eq (l r : List Rcd) : ∀ (m : List M),
    (∀ x ∈ m, ∀ s ∈ srcs x, (s.1 = false ∧ s.2 < l.length) ∨ (s.1 = true ∧ s.2 < r.length)) →
    (mergeIndisSrc m l r).map (·.2) = m.map srcs := by
  intro m
  induction m with
  | nil => intro _; rfl
  | cons x m ih =>
    intro hb
    obtain ⟨rc, hrc⟩ := mergeOne_srcs (l := l) (r := r) (x := x) (hb x (by simp))
    simp only [mergeIndisSrc, List.filterMap_cons, hrc, List.map_cons]
    have := ih (fun y hy => hb y (by simp [hy]))
    simp only [mergeIndisSrc] at this
    rw [this]

/-- **accounting**: for a valid matching, the output individuals — one per comparison — account
    for every individual of either input exactly once (the sources of the output list are a
    permutation of all inputs), and no output individual holds two individuals of the same side. -/
theorem accounting (m : List M) (l r : List Rcd) (h : ValidMatching m l.length r.length) :
    (mergeIndisSrc m l r).length = m.length ∧
    ((mergeIndisSrc m l r).flatMap (·.2)).Perm (allSources l.length r.length) ∧
    ∀ o ∈ mergeIndisSrc m l r, o.2 ≠ [] ∧ (o.2.filter (fun s => s.1 == false)).length ≤ 1 ∧
      (o.2.filter (fun s => s.1 == true)).length ≤ 1 := by
  have hs := sources_eq l r m (fun x hx s hs => h.bound hx hs)
  refine ⟨?_, ?_, ?_⟩
  · have := congrArg List.length hs
    simpa using this
  · have : (mergeIndisSrc m l r).flatMap (·.2) = m.flatMap srcs := by
      rw [List.flatMap_def, hs, ← List.flatMap_def]
    rw [this]
    exact h
  · intro o ho
    have : o.2 ∈ (mergeIndisSrc m l r).map (·.2) := List.mem_map.mpr ⟨o, ho, rfl⟩
    rw [hs, List.mem_map] at this
    obtain ⟨x, _, hx⟩ := this
    rw [← hx]
    cases x <;> simp [srcs]

/-! ### references -/

theorem mem_mergeRefs {x : Ref} : ∀ (r l : List Ref), x ∈ mergeRefs l r ↔ x ∈ l ∨ x ∈ r := by
  intro r
  induction r with
  | nil => intro l; simp [mergeRefs]
  | cons y r ih =>
    intro l
    have : mergeRefs l (y :: r) = mergeRefs (if l.contains y then l else l ++ [y]) r := rfl
    rw [this, ih]
    by_cases hc : l.contains y = true
    · simp only [hc, if_true, List.mem_cons]
      have hy : y ∈ l := by simpa using hc
      constructor
      · rintro (h | h)
        · exact Or.inl h
        · exact Or.inr (Or.inr h)
      · rintro (h | rfl | h)
        · exact Or.inl h
        · exact Or.inl hy
        · exact Or.inr h
    · simp only [hc, Bool.false_eq_true, if_false, List.mem_append, List.mem_cons, List.not_mem_nil, or_false]
      constructor
      · rintro ((h | h) | h)
        · exact Or.inl h
        · exact Or.inr (Or.inl h)
        · exact Or.inr (Or.inr h)
      · rintro (h | h | h)
        · exact Or.inl (Or.inl h)
        · exact Or.inl (Or.inr h)
        · exact Or.inr h

/-- nothing is invented: a line of an output individual is a line of an input individual -/
theorem indi_refs_from_inputs {m : List M} {l r : List Rcd} {o : Rcd} (ho : o ∈ mergeIndis m l r)
    {x : Ref} (hx : x ∈ o.refs) : (∃ a ∈ l, x ∈ a.refs) ∨ (∃ b ∈ r, x ∈ b.refs) := by
  simp only [mergeIndis, mergeIndisSrc, List.mem_map, List.mem_filterMap] at ho
  obtain ⟨⟨o', ss⟩, ⟨c, _, hc⟩, rfl⟩ := ho
  cases c with
  | both i j =>
    simp only [mergeOne] at hc
    split at hc
    · rename_i a b ha hb
      simp only [Option.some.injEq, Prod.mk.injEq] at hc
      obtain ⟨rfl, _⟩ := hc
      rcases (mem_mergeRefs _ _).mp hx with h | h
      · exact Or.inl ⟨a, List.mem_of_getElem? ha, h⟩
      · exact Or.inr ⟨b, List.mem_of_getElem? hb, h⟩
    · simp at hc
  | left i =>
    simp only [mergeOne, Option.map_eq_some_iff] at hc
    obtain ⟨a, ha, he⟩ := hc
    simp only [Prod.mk.injEq] at he
    obtain ⟨rfl, _⟩ := he
    exact Or.inl ⟨a, List.mem_of_getElem? ha, hx⟩
  | right j =>
    simp only [mergeOne, Option.map_eq_some_iff] at hc
    obtain ⟨b, hb, he⟩ := hc
    simp only [Prod.mk.injEq] at he
    obtain ⟨rfl, _⟩ := he
    exact Or.inr ⟨b, List.mem_of_getElem? hb, hx⟩

theorem fam_refs_from_inputs {lf rf : List Rcd} {o : Rcd} (ho : o ∈ mergeFams lf rf)
    {x : Ref} (hx : x ∈ o.refs) : (∃ a ∈ lf, x ∈ a.refs) ∨ (∃ b ∈ rf, x ∈ b.refs) := by
  simp only [mergeFams, List.mem_append, List.mem_map, List.mem_filter] at ho
  rcases ho with ⟨f, hf, rfl⟩ | ⟨ho, _⟩
  · split at hx
    · rename_i g hg
      rcases (mem_mergeRefs _ _).mp hx with h | h
      · exact Or.inl ⟨f, hf, h⟩
      · exact Or.inr ⟨g, List.mem_of_find?_eq_some hg, h⟩
    · exact Or.inl ⟨f, hf, hx⟩
  · exact Or.inr ⟨o, ho, hx⟩

theorem fam_ptrs_kept {lf rf : List Rcd} {p : Nat}
    (h : p ∈ lf.map (·.ptr) ∨ p ∈ rf.map (·.ptr)) : p ∈ (mergeFams lf rf).map (·.ptr) := by
  have left : ∀ f ∈ lf, f.ptr ∈ (mergeFams lf rf).map (·.ptr) := by
    intro f hf
    simp only [mergeFams, List.map_append, List.mem_append, List.mem_map]
    left
    refine ⟨_, ⟨f, hf, rfl⟩, ?_⟩
    split <;> rfl
  rcases h with h | h
  · obtain ⟨f, hf, rfl⟩ := List.mem_map.mp h
    exact left f hf
  · obtain ⟨g, hg, rfl⟩ := List.mem_map.mp h
    by_cases hany : lf.any (fun f => f.ptr == g.ptr) = true
    · obtain ⟨f, hf, he⟩ := List.any_eq_true.mp hany
      have : f.ptr = g.ptr := by simpa using he
      rw [← this]; exact left f hf
    · simp only [mergeFams, List.map_append, List.mem_append, List.mem_map, List.mem_filter]
      right
      exact ⟨g, ⟨hg, by simpa using hany⟩, rfl⟩

/-- every matched pair carries the same pointer on both sides -/
def SamePointers (m : List M) (l r : List Rcd) : Prop :=
  ∀ i j, M.both i j ∈ m → ∀ a b, l[i]? = some a → r[j]? = some b → a.ptr = b.ptr

theorem indi_ptrs_kept {m : List M} {l r : List Rcd} (hv : ValidMatching m l.length r.length)
    (hp : SamePointers m l r) {p : Nat} (h : p ∈ l.map (·.ptr) ∨ p ∈ r.map (·.ptr)) :
    p ∈ (mergeIndis m l r).map (·.ptr) := by
  have out : ∀ x ∈ m, ∀ rc ss, mergeOne l r x = some (rc, ss) → rc.ptr ∈ (mergeIndis m l r).map (·.ptr) := by
    intro x hx rc ss hrc
    simp only [mergeIndis, mergeIndisSrc, List.map_map, List.mem_map, List.mem_filterMap]
    exact ⟨(rc, ss), ⟨x, hx, hrc⟩, rfl⟩
  rcases h with h | h
  · obtain ⟨a, ha, rfl⟩ := List.mem_map.mp h
    obtain ⟨i, hi, hia⟩ := List.mem_iff_getElem.mp ha
    have hsrc : (false, i) ∈ m.flatMap srcs :=
      hv.mem_iff.mpr (mem_allSources.mpr (Or.inl ⟨rfl, hi⟩))
    obtain ⟨x, hx, hs⟩ := List.mem_flatMap.mp hsrc
    have hget : l[i]? = some a := by rw [List.getElem?_eq_getElem hi, hia]
    cases x with
    | both i' j =>
      simp only [srcs, List.mem_cons, Prod.mk.injEq, Bool.false_eq_true, false_and, or_false,
        List.not_mem_nil, true_and] at hs
      subst hs
      have hj : j < r.length := by
        rcases hv.bound hx (s := (true, j)) (by simp [srcs]) with h | h
        · exact absurd h.1 (by simp)
        · exact h.2
      have hm : mergeOne l r (.both i j) =
          some (⟨a.ptr, mergeRefs a.refs r[j].refs⟩, [(false, i), (true, j)]) := by
        simp [mergeOne, hget, List.getElem?_eq_getElem hj]
      have h' := out _ hx _ _ hm
      exact h'
    | left i' =>
      simp only [srcs, List.mem_cons, Prod.mk.injEq, true_and, List.not_mem_nil, or_false] at hs
      subst hs
      have hm : mergeOne l r (.left i) = some (a, [(false, i)]) := by simp [mergeOne, hget]
      exact out _ hx _ _ hm
    | right j => simp [srcs] at hs
  · obtain ⟨b, hb, rfl⟩ := List.mem_map.mp h
    obtain ⟨j, hj, hjb⟩ := List.mem_iff_getElem.mp hb
    have hsrc : (true, j) ∈ m.flatMap srcs :=
      hv.mem_iff.mpr (mem_allSources.mpr (Or.inr ⟨rfl, hj⟩))
    obtain ⟨x, hx, hs⟩ := List.mem_flatMap.mp hsrc
    have hget : r[j]? = some b := by rw [List.getElem?_eq_getElem hj, hjb]
    cases x with
    | both i j' =>
      simp only [srcs, List.mem_cons, Prod.mk.injEq, Bool.true_eq_false, false_and, false_or,
        List.not_mem_nil, true_and, or_false] at hs
      subst hs
      have hi : i < l.length := by
        rcases hv.bound hx (s := (false, i)) (by simp [srcs]) with h | h
        · exact h.2
        · exact absurd h.1 (by simp)
      have hgi : l[i]? = some l[i] := List.getElem?_eq_getElem hi
      have hsame := hp i j hx _ _ hgi hget
      have hm : mergeOne l r (.both i j) =
          some (⟨l[i].ptr, mergeRefs l[i].refs b.refs⟩, [(false, i), (true, j)]) := by
        simp [mergeOne, hgi, hget]
      rw [← hsame]
      have h' := out _ hx _ _ hm
      exact h'
    | left i => simp [srcs] at hs
    | right j' =>
      simp only [srcs, List.mem_cons, Prod.mk.injEq, true_and, List.not_mem_nil, or_false] at hs
      subst hs
      have hm : mergeOne l r (.right j) = some (b, [(true, j)]) := by simp [mergeOne, hget]
      exact out _ hx _ _ hm

/-! Full statement (kept visible, **false of the code**, DESIGN defect 10):
      `resolves l → resolves r → ValidMatching m … → resolves (mergeG m l r)`
    `MergeNodes` keeps the left pointer and nothing rewrites the references of the right document. -/

/-- **references_resolve_partial**: when every matched pair has the same pointer on both sides,
    references that resolve in both inputs resolve in the merged document. -/
theorem references_resolve_partial (m : List M) (l r : G)
    (hv : ValidMatching m l.indis.length r.indis.length) (hp : SamePointers m l.indis r.indis)
    (hl : resolves l) (hr : resolves r) : resolves (mergeG m l r) := by
  constructor
  · intro f hf x hx
    simp only [mergeG] at hf
    simp only [indiPtrs, mergeG]
    apply indi_ptrs_kept hv hp
    rcases fam_refs_from_inputs hf hx with ⟨a, ha, hxa⟩ | ⟨b, hb, hxb⟩
    · exact Or.inl (hl.1 a ha x hxa)
    · exact Or.inr (hr.1 b hb x hxb)
  · intro i hi x hx
    simp only [mergeG] at hi
    simp only [famPtrs, mergeG]
    apply fam_ptrs_kept
    rcases indi_refs_from_inputs hi hx with ⟨a, ha, hxa⟩ | ⟨b, hb, hxb⟩
    · exact Or.inl (hl.2 a ha x hxa)
    · exact Or.inr (hr.2 b hb x hxb)

/-- the two-family witness: the same husband and child as `@1@`, `@2@` on the left and `@3@`,
    `@4@` on the right, in family `@10@` on both sides -/
def witnessL : G := ⟨[⟨1, [(3, 10)]⟩, ⟨2, [(4, 10)]⟩], [⟨10, [(0, 1), (2, 2)]⟩]⟩
def witnessR : G := ⟨[⟨3, [(3, 10)]⟩, ⟨4, [(4, 10)]⟩], [⟨10, [(0, 3), (2, 4)]⟩]⟩
def witnessM : List M := [.both 0 0, .both 1 1]

/-- **dangling_counterexample**: both inputs resolve, the matching is valid, and the merged
    family keeps `HUSB @3@` / `CHIL @4@`, which name no record (replayed on the implementation by
    the harness: known finding `merge-does-not-rewrite-pointers`). -/
theorem dangling_counterexample :
    resolves witnessL ∧ resolves witnessR ∧ ValidMatching witnessM 2 2 ∧
    (mergeG witnessM witnessL witnessR).fams = [⟨10, [(0, 1), (2, 2), (0, 3), (2, 4)]⟩] ∧
    indiPtrs (mergeG witnessM witnessL witnessR) = [1, 2] ∧
    ¬ resolves (mergeG witnessM witnessL witnessR) := by
  refine ⟨by decide, by decide, by decide, by decide, by decide, by decide⟩

/-! Non-vacuity (tests, not the property): a same-pointer edited copy meets the guards. -/
def copyR : G := ⟨[⟨2, [(4, 10)]⟩, ⟨1, [(3, 10), (3, 11)]⟩, ⟨5, [(2, 11)]⟩], [⟨10, [(0, 1), (2, 2)]⟩, ⟨11, [(0, 1), (2, 5)]⟩]⟩
def copyM : List M := [.both 0 1, .both 1 0, .right 2]
example : ValidMatching copyM 2 3 ∧ resolves copyR := by decide
example : SamePointers copyM witnessL.indis copyR.indis := by
  intro i j h a b ha hb
  simp only [copyM, List.mem_cons, M.both.injEq, List.not_mem_nil, or_false, reduceCtorEq] at h
  rcases h with ⟨rfl, rfl⟩ | ⟨rfl, rfl⟩ <;> simp [witnessL, copyR] at ha hb <;> subst ha <;> subst hb <;> rfl
example : resolves (mergeG copyM witnessL copyR) ∧
    indiPtrs (mergeG copyM witnessL copyR) = [1, 2, 5] := by decide

end Gedcom.C10
