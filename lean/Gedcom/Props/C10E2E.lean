/-
  C10 — accounting, end to end.  `accounting_composed` (Props/C10Compose.lean) is about
  `mergeIndis … (winners …)`; here the statement is made about the function the driver runs for
  the `mergecomposed` requests — `MergeD.mergeComposed`: persons and similarity scores in (as the
  C11 / C12 tie hands them over), C11's model of `Compare` computing the comparisons, C09's merges
  consuming them, the merged document out — and about the Boolean `accountedB` the driver
  evaluates on the result of every case.
-/
import Gedcom.Props.C10Compose
namespace Gedcom.C10
open Gedcom Gedcom.Match Gedcom.MergeD

theorem mergeDocs_indis {res : List Res} {Ld Rd : List INode} {st st' : MSt}
    {indis : List (Res × INode)} {others : List INode}
    (h : mergeDocs res Ld Rd st = .ok indis others st') :
    ∃ s1, mergeIndis (indisOf Ld) (indisOf Rd) res st = .ok indis s1 := by
  unfold mergeDocs at h
  split at h
  · cases h
  · cases h
  · cases h
  · rename_i out s1 hind
    simp only at h
    split at h
    · cases h
    · cases h
    · simp only [DocOutcome.ok.injEq] at h
      obtain ⟨rfl, _, _⟩ := h
      exact ⟨s1, hind⟩

/-- **accounting_end_to_end.**  Persons `Lp`, `Rp` describe the individuals of the two documents
    (same node ids), the scores are any functions of two individuals, `arrival` any order of
    arrival of C11's jobs, C11's guards hold.  If the composed pipeline delivers a document, its
    individuals are — one per comparison, in order — the comparisons of C11's `winners`, every
    individual of either input is accounted for exactly once, and the check the driver runs on
    the result (`accountedB`) says so. -/
theorem accounting_end_to_end (Lp Rp : List Person) (Ld Rd : List INode)
    (hL : Lp.map (·.id) = (indisOf Ld).map INode.id) (hR : Rp.map (·.id) = (indisOf Rd).map INode.id)
    (scoreT scoreF : Nat → Nat → Rat) (prefer minW : Rat)
    (ch : Person → Option Person) (s0 : Sent) (arrival : List Job)
    (hperm : arrival.Perm (jobsFrom ch s0 Lp Rp scoreT scoreF prefer)) (hadm : Admissible Rp ch)
    (hids : IdsOK Lp Rp) (hp : PtrsOK Lp Rp)
    (st st' : MSt) (indis : List (Res × INode)) (others : List INode)
    (h : mergeComposed Lp Rp minW arrival Ld Rd st = .ok indis others st') :
    indis.map (·.1) = winners Lp Rp minW arrival ∧
    (∀ x ∈ (indisOf Ld).map INode.id, leftCount x (indis.map (·.1)) = 1) ∧
    (∀ y ∈ (indisOf Rd).map INode.id, rightCount y (indis.map (·.1)) = 1) ∧
    accountedB (indisOf Ld) (indisOf Rd) indis = true := by
  obtain ⟨s1, hind⟩ := mergeDocs_indis h
  obtain ⟨h1, h2, h3⟩ := accounting_composed Lp Rp (indisOf Ld) (indisOf Rd) hL hR scoreT scoreF prefer
    minW ch s0 arrival hperm hadm hids hp st s1 indis hind
  refine ⟨h1, h2, h3, ?_⟩
  simp only [accountedB, Bool.and_eq_true, List.all_eq_true, beq_iff_eq]
  exact ⟨fun x hx => h2 x hx, fun y hy => h3 y hy⟩

end Gedcom.C10
