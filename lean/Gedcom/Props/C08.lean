/-
  C08 — A node diff accounts for every node and leaves its inputs alone.
  Property theorems only.  All are about `compareNodes` / `Diff.sort` / `Diff.isDeepEqual` / `diffRun`,
  the functions the driver executes against `CompareNodes`, `Sort`, `IsDeepEqual`, `String`, `Tag`
  of /repo/node_diff.go, for *all* pairs of id-carrying trees (no bound on size, depth or width).
  `INode.At t d x`: `x` is a node of `t` at depth `d`; `EntryAt D d e`: `e` is an entry of the diff `D`
  at depth `d`.  Nodes carry their id, so `x = y` is identity when ids are unique.
-/
import Gedcom.Lemmas.DiffEqual
import Gedcom.Lemmas.DiffSort
import Gedcom.Lemmas.DiffPair
import Gedcom.Lemmas.DiffGuard
import Gedcom.Lemmas.StableSort
import Gedcom.Generated.DiffSrc
import Gedcom.Lemmas.DateGuard
namespace Gedcom.C08
open Gedcom Diff

/-! ### the two passes -/

/-- provenance of every entry w.r.t. the trees `l`, `r`, and "never both absent" -/
def Prov (l r : INode) (d : Nat) (L R : Option INode) : Prop :=
  (∀ x, L = some x → INode.At l d x) ∧ (∀ y, R = some y → INode.At r d y) ∧ (L.isSome ∨ R.isSome)

/-- a two-sided entry below the root pairs nodes of which the left `Equals` the right -/
def Paired (eq : INode → INode → Bool) (d : Nat) (L R : Option INode) : Prop :=
  1 ≤ d → ∀ x y, L = some x → R = some y → eq x y = true

theorem leftPass_all (eq : INode → INode → Bool) (l r : INode) :
    Diff.All (fun d L R => Prov l r d L R ∧ R = none) 0 (traverse eq true l Diff.empty) := by
  apply traverse_all eq true _ (fun d n => INode.At l d n)
  · intro d n k h hk; exact h.child hk
  · intro d n D hq _ hp
    have hR : D.right = none := by
      rcases hp with hp | hp
      · exact hp.2
      · exact hp.2
    refine ⟨⟨?_, ?_, ?_⟩, by simpa [fillR] using hR⟩
    · intro x hx
      cases hl : D.left with
      | some x0 =>
        rw [hl, fillL_some] at hx
        cases hx
        rcases hp with hp | hp
        · exact hp.1.1 _ hl
        · rw [hp.1] at hl; cases hl
      | none =>
        simp [fillL, hl] at hx
        subst hx; exact hq
    · intro y hy
      simp [fillR, hR] at hy
    · left
      cases hl : D.left <;> simp [fillL]
  · exact INode.At.root l
  · exact Or.inl ⟨rfl, rfl⟩
  · exact Or.inr ⟨rfl, rfl⟩
  · intro c hc; cases hc

theorem compare_all (eq : INode → INode → Bool) (l r : INode) :
    Diff.All (fun d L R => Prov l r d L R ∧ Paired eq d L R) 0 (compareWith eq l r) := by
  have hleft := leftPass_all eq l r
  unfold compareWith
  apply traverse_all eq false _ (fun d n => INode.At r d n)
  · intro d n k h hk; exact h.child hk
  · intro d n D hq hadm hp
    have hL : fillL false n D.left = D.left := by simp [fillL]
    rw [hL]
    refine ⟨⟨?_, ?_, ?_⟩, ?_⟩
    · intro x hx
      rcases hp with hp | hp
      · exact hp.1.1 x hx
      · rw [hp.1] at hx; cases hx
    · intro y hy
      cases hr : D.right with
      | some y0 =>
        rw [hr, fillR_some] at hy
        cases hy
        rcases hp with hp | hp
        · exact hp.1.2.1 _ hr
        · rw [hp.2] at hr; cases hr
      | none =>
        simp [fillR, hr] at hy
        subst hy; exact hq
    · right
      cases hr : D.right <;> simp [fillR]
    · intro hd x y hx hy
      cases hr : D.right with
      | some y0 =>
        rw [hr, fillR_some] at hy
        cases hy
        rcases hp with hp | hp
        · exact hp.2 hd x _ hx hr
        · rw [hp.1] at hx; cases hx
      | none =>
        simp [fillR, hr] at hy
        subst hy
        rcases hadm with h | h | h
        · rw [h.1] at hx; cases hx
        · omega
        · simpa [Diff.matchesNode, hx, hr] using h
  · exact INode.At.root r
  · exact Or.inr (Or.inl rfl)
  · left
    have := hleft.root
    exact ⟨this.1, fun _ x y _ hy => by rw [this.2] at hy; cases hy⟩
  · intro c hc
    apply (hleft.kids c hc).mono
    intro d L R h
    exact ⟨h.1, fun _ x y _ hy => by rw [h.2] at hy; cases hy⟩

/-! ### the property -/

/-- **Provenance.** The left node of every entry is a node of the left input at the entry's depth,
    the right node one of the right input at that depth, and no entry lacks both. -/
theorem provenance (l r : INode) {d : Nat} {e : Diff} (he : EntryAt (compareNodes l r) d e) :
    (∀ x, e.left = some x → INode.At l d x) ∧ (∀ y, e.right = some y → INode.At r d y) ∧
      (e.left.isSome ∨ e.right.isSome) := by
  have := (compare_all iequals l r).entry he
  simp only [Nat.zero_add] at this
  exact this.1

/-- the root entry holds the two compared nodes themselves -/
theorem root_entry (l r : INode) :
    (compareNodes l r).left = some l ∧ (compareNodes l r).right = some r := by
  cases l with | mk i t v p ks =>
  cases r with | mk i' t' v' p' ks' =>
  simp [compareNodes, compareWith, traverse, fillL, fillR, Diff.empty, Diff.left, Diff.right]

/-- **Coverage, left input.** Every node of the left input is represented, at its depth, by an
    entry whose *left* node is that node or a node that `Equals` it. -/
theorem coverage_left (l r : INode) {d : Nat} {x : INode} (hx : INode.At l d x) :
    ∃ e h, EntryAt (compareNodes l r) d e ∧ e.left = some h ∧ (h = x ∨ iequals h x = true) := by
  -- after the left pass some entry holds it, necessarily on the left (no entry has a right node yet)
  have hcov := traverse_cover iequals true l d Diff.empty x hx (Or.inl rfl)
  obtain ⟨e0, he0, ⟨h, hs, heq⟩⟩ := hcov.entry
  have hnoR := ((leftPass_all iequals l r).entry he0).2
  have hleft : Diff.Ex (fun L _ => L = some h) d (traverse iequals true l Diff.empty) := by
    refine Diff.Ex.of_entry he0 ?_
    rcases hs with hs | hs
    · exact hs
    · rw [hnoR] at hs; cases hs
  -- the right pass keeps the entry and its left node
  have := traverse_ex iequals false (fun L _ => L = some h)
    (fun n L R hL => by simp [fillL, hL]) r d _ hleft
  obtain ⟨e, he, hl⟩ := this.entry
  exact ⟨e, h, he, hl, heq⟩

/-- **Coverage, right input.** Every node of the right input is represented, at its depth, by an
    entry holding (on either side) that node or a node that `Equals` it. -/
theorem coverage_right (l r : INode) {d : Nat} {y : INode} (hy : INode.At r d y) :
    ∃ e h, EntryAt (compareNodes l r) d e ∧ (e.left = some h ∨ e.right = some h) ∧
      (h = y ∨ iequals h y = true) := by
  have hadm : AdmC iequals false r (traverse iequals true l Diff.empty) := by
    left
    simpa using (leftPass_all iequals l r).root.2
  obtain ⟨e, he, ⟨h, hs, heq⟩⟩ := (traverse_cover iequals false r d _ y hy hadm).entry
  exact ⟨e, h, he, hs, heq⟩

/-- **Coverage.** Every input node is represented by an entry, at the node's depth, holding a node
    equal to it (the node itself, or one whose `Equals` accepts it). -/
theorem coverage (l r : INode) {d : Nat} {x : INode} (hx : INode.At l d x ∨ INode.At r d x) :
    ∃ e h, EntryAt (compareNodes l r) d e ∧ (e.left = some h ∨ e.right = some h) ∧
      (h = x ∨ iequals h x = true) := by
  rcases hx with hx | hx
  · obtain ⟨e, h, he, hl, heq⟩ := coverage_left l r hx
    exact ⟨e, h, he, Or.inl hl, heq⟩
  · exact coverage_right l r hx

/-- **Coverage, as the property words it.** Every input node is represented by an entry, at the
    node's depth, holding a node whose `Equals` accepts it (`Equals` is reflexive — C07 — so this
    includes the entries that hold the node itself). -/
theorem coverage_equals (l r : INode) {d : Nat} {x : INode} (hx : INode.At l d x ∨ INode.At r d x) :
    ∃ e h, EntryAt (compareNodes l r) d e ∧ (e.left = some h ∨ e.right = some h) ∧
      iequals h x = true := by
  obtain ⟨e, h, he, hs, heq⟩ := coverage l r hx
  refine ⟨e, h, he, hs, ?_⟩
  rcases heq with rfl | heq
  · exact iequals_refl _
  · exact heq

/-- **Two-sided only when both inputs contain such a node.** An entry below the root that has both
    sides holds a node of the left input and a node of the right input, at the entry's depth, of
    which the left `Equals` the right.  (The root entry always holds both compared nodes.) -/
theorem two_sided (l r : INode) {d : Nat} {e : Diff} {x y : INode}
    (he : EntryAt (compareNodes l r) (d + 1) e) (hl : e.left = some x) (hr : e.right = some y) :
    INode.At l (d + 1) x ∧ INode.At r (d + 1) y ∧ iequals x y = true := by
  have := (compare_all iequals l r).entry he
  simp only [Nat.zero_add] at this
  exact ⟨this.1.1 x hl, this.1.2.1 y hr, this.2 (by omega) x y hl hr⟩

/-- `two_sided` as an equivalence on the entry: it is two-sided exactly when its right node is a
    node of the right input that its left node `Equals`. -/
theorem two_sided_iff (l r : INode) {d : Nat} {e : Diff} {x : INode}
    (he : EntryAt (compareNodes l r) (d + 1) e) (hl : e.left = some x) :
    e.right.isSome ↔ ∃ y, e.right = some y ∧ INode.At r (d + 1) y ∧ iequals x y = true := by
  constructor
  · intro h
    cases hr : e.right with
    | none => rw [hr] at h; cases h
    | some y => exact ⟨y, rfl, (two_sided l r he hl hr).2⟩
  · rintro ⟨y, hy, _⟩; simp [hy]

/-- **No missed pairing** (the converse of `two_sided`): when a right node ends up alone in a
    right-only entry, the left node of no sibling entry `Equals` it — had one done so, the node would
    have been paired with it instead. -/
theorem no_missed_pair (l r : INode) {d : Nat} {p ci cj : Diff} {x y : INode}
    (hp : EntryAt (compareNodes l r) d p) (hi : ci ∈ p.kids) (hj : cj ∈ p.kids)
    (hx : ci.left = some x) (hnl : cj.left = none) (hy : cj.right = some y) :
    iequals x y = false := by
  have hleft : Diff.AllK (SibOK iequals) (traverse iequals true l Diff.empty) := by
    apply allK_of_left _ 0
    apply (leftPass_all iequals l r).mono
    intro d L R h
    rcases h.1.2.2 with h1 | h1
    · exact h1
    · rw [h.2] at h1; cases h1
  have hall : Diff.AllK (SibOK iequals) (compareNodes l r) := traverse_allK iequals r _ hleft
  exact (hall.entry hp) ci hi cj hj x y hx hnl hy

/-- **One-sided entries.** An entry whose left node `Equals` no node of the right input at that depth
    has no right node … -/
theorem one_sided_left (l r : INode) {d : Nat} {e : Diff} {x : INode}
    (he : EntryAt (compareNodes l r) (d + 1) e) (hl : e.left = some x)
    (hno : ∀ y, INode.At r (d + 1) y → iequals x y = false) : e.right = none := by
  cases hr : e.right with
  | none => rfl
  | some y =>
    have := two_sided l r he hl hr
    rw [hno y this.2.1] at this
    exact absurd this.2.2 (by simp)

/-- … and an entry whose right node is accepted by the `Equals` of no left input node at that depth
    has no left node. -/
theorem one_sided_right (l r : INode) {d : Nat} {e : Diff} {y : INode}
    (he : EntryAt (compareNodes l r) (d + 1) e) (hr : e.right = some y)
    (hno : ∀ x, INode.At l (d + 1) x → iequals x y = false) : e.left = none := by
  cases hl : e.left with
  | none => rfl
  | some x =>
    have := two_sided l r he hl hr
    rw [hno x this.1] at this
    exact absurd this.2.2 (by simp)

/-- **A node present on the left only yields a left-only entry**: if no other left node at its depth
    `Equals` it and it `Equals` no right node at that depth, some entry has exactly this node on the
    left and nothing on the right. -/
theorem one_sided (l r : INode) {d : Nat} {x : INode} (hx : INode.At l (d + 1) x)
    (hown : ∀ x', INode.At l (d + 1) x' → iequals x' x = true → x' = x)
    (hother : ∀ y, INode.At r (d + 1) y → iequals x y = false) :
    ∃ e, EntryAt (compareNodes l r) (d + 1) e ∧ e.left = some x ∧ e.right = none := by
  obtain ⟨e, h, he, hl, heq⟩ := coverage_left l r hx
  have hh : h = x := by
    rcases heq with heq | heq
    · exact heq
    · exact hown h ((provenance l r he).1 h hl) heq
  subst hh
  exact ⟨e, he, hl, one_sided_left l r he hl hother⟩

/-- **A node present on the right only yields a right-only entry**: if it is not a node of the left
    input, no left node at its depth `Equals` it and no other right node at that depth `Equals`
    it, some entry has exactly this node on the right and nothing on the left. -/
theorem one_sided_of_right (l r : INode) {d : Nat} {y : INode} (hy : INode.At r (d + 1) y)
    (hown : ∀ y', INode.At r (d + 1) y' → iequals y' y = true → y' = y)
    (hother : ∀ x, INode.At l (d + 1) x → x ≠ y ∧ iequals x y = false) :
    ∃ e, EntryAt (compareNodes l r) (d + 1) e ∧ e.right = some y ∧ e.left = none := by
  obtain ⟨e, h, he, hs, heq⟩ := coverage_right l r hy
  have hprov := provenance l r he
  rcases hs with hs | hs
  · -- the holder cannot be a left node
    have hat := hprov.1 h hs
    have := hother h hat
    rcases heq with heq | heq
    · exact absurd heq this.1
    · rw [this.2] at heq; cases heq
  · have hh : h = y := by
      rcases heq with heq | heq
      · exact heq
      · exact hown h (hprov.2.1 h hs) heq
    subst hh
    exact ⟨e, he, hs, one_sided_right l r he hs (fun x hx => (hother x hx).2)⟩

/-! ### IsDeepEqual -/

mutual
theorem isDeepEqual_all : ∀ (D : Diff) (d : Nat), D.isDeepEqual = true →
    Diff.All (fun _ L R => L.isSome = true ∧ R.isSome = true) d D
  | .mk L R cs, d, h => by
    rw [Diff.isDeepEqual] at h
    simp only [Bool.and_eq_true] at h
    exact Diff.All.mk ⟨h.1.1, h.1.2⟩ (isDeepEqualL_all cs (d + 1) h.2)
theorem isDeepEqualL_all : ∀ (cs : List Diff) (d : Nat), Diff.isDeepEqualL cs = true →
    ∀ c ∈ cs, Diff.All (fun _ L R => L.isSome = true ∧ R.isSome = true) d c
  | [], _, _ => by intro c hc; cases hc
  | c0 :: cs, d, h => by
    rw [Diff.isDeepEqualL] at h
    simp only [Bool.and_eq_true] at h
    intro c hc
    rcases List.mem_cons.mp hc with heq | hc
    · exact heq ▸ isDeepEqual_all c0 d h.1
    · exact isDeepEqualL_all cs d h.2 c hc
end

mutual
theorem all_isDeepEqual : ∀ (D : Diff) (d : Nat),
    Diff.All (fun _ L R => L.isSome = true ∧ R.isSome = true) d D → D.isDeepEqual = true
  | .mk L R cs, d, h => by
    rw [Diff.isDeepEqual]
    have hr := h.root
    simp only [Diff.left, Diff.right] at hr
    simp only [Bool.and_eq_true]
    exact ⟨hr, allL_isDeepEqual cs (d + 1) h.kids⟩
theorem allL_isDeepEqual : ∀ (cs : List Diff) (d : Nat),
    (∀ c ∈ cs, Diff.All (fun _ L R => L.isSome = true ∧ R.isSome = true) d c) →
    Diff.isDeepEqualL cs = true
  | [], _, _ => by rw [Diff.isDeepEqualL]
  | c0 :: cs, d, h => by
    rw [Diff.isDeepEqualL]
    simp only [Bool.and_eq_true]
    exact ⟨all_isDeepEqual c0 d (h c0 List.mem_cons_self),
      allL_isDeepEqual cs d (fun c hc => h c (List.mem_cons_of_mem _ hc))⟩
end

/-- `IsDeepEqual` is true exactly when every entry of the diff, at every depth, is two-sided -/
theorem isDeepEqual_iff (D : Diff) :
    D.isDeepEqual = true ↔ ∀ d e, EntryAt D d e → e.left.isSome = true ∧ e.right.isSome = true := by
  constructor
  · intro h d e he
    simpa using (isDeepEqual_all D 0 h).entry he
  · intro h
    apply all_isDeepEqual D 0
    apply Diff.All.of_entries
    intro k e he
    exact h k e he

/-! ### Sort keeps the accounting -/

/-- **`Sort` only reorders.** The entries of the sorted diff at depth `d` hold exactly the pairs of
    nodes that the entries of the original diff at depth `d` hold — so provenance, coverage, pairing
    and one-sidedness (all statements about which nodes an entry at a given depth holds) survive
    sorting. -/
theorem sort_entries (D : Diff) (d : Nat) (L R : Option INode) :
    (∃ e', EntryAt D.sort d e' ∧ e'.left = L ∧ e'.right = R) ↔
      (∃ e, EntryAt D d e ∧ e.left = L ∧ e.right = R) := by
  constructor
  · rintro ⟨e', he', hl, hr⟩
    obtain ⟨e, he, hl', hr'⟩ := sort_entry_of d D e' he'
    exact ⟨e, he, hl'.trans hl, hr'.trans hr⟩
  · rintro ⟨e, he, hl, hr⟩
    obtain ⟨e', he', hl', hr'⟩ := sort_entry_to d D e he
    exact ⟨e', he', hl'.trans hl, hr'.trans hr⟩

/-- provenance still holds after `Sort` -/
theorem provenance_sorted (l r : INode) {d : Nat} {e : Diff}
    (he : EntryAt (compareNodes l r).sort d e) :
    (∀ x, e.left = some x → INode.At l d x) ∧ (∀ y, e.right = some y → INode.At r d y) ∧
      (e.left.isSome ∨ e.right.isSome) := by
  obtain ⟨e0, he0, hl, hr⟩ := sort_entry_of d _ e he
  have := provenance l r he0
  rw [hl, hr] at this
  exact this

/-- `IsDeepEqual` is not affected by `Sort` -/
theorem isDeepEqual_sort (D : Diff) : D.sort.isDeepEqual = D.isDeepEqual := by
  have h1 := isDeepEqual_iff D
  have h2 := isDeepEqual_iff D.sort
  cases hD : D.isDeepEqual with
  | true =>
    rw [h2]
    intro d e' he'
    obtain ⟨e, he, hl, hr⟩ := sort_entry_of d D e' he'
    have := (h1.mp hD) d e he
    rw [hl, hr] at this
    exact this
  | false =>
    cases hS : D.sort.isDeepEqual with
    | false => rfl
    | true =>
      have : D.isDeepEqual = true := by
        rw [h1]
        intro d e he
        obtain ⟨e', he', hl, hr⟩ := sort_entry_to d D e he
        have := (h2.mp hS) d e' he'
        rw [hl, hr] at this
        exact this
      rw [hD] at this; cases this

/-! ### Sort is the stable sort -/

/-- **Uniqueness of the stable sort** (generic): if `lt` is a strict weak order on the elements of
    `l`, every sorted and stable arrangement of `l` — given as a permutation `r` of the elements
    tagged with their original positions — equals `sliceStable lt l`.  So Go's `sort.SliceStable`
    (insertion-sorted blocks of 20 merged by `symMerge`, a stable sort) and the model's insertion
    sort agree for any number of elements. -/
theorem sliceStable_unique {α : Type} (lt : α → α → Bool) (l : List α) (h : swoB lt l = true)
    (r : List (α × Nat)) (hperm : r.Perm l.zipIdx)
    (hsorted : r.Pairwise (fun p q => lt q.1 p.1 = false))
    (hstable : r.Pairwise (fun p q => lt p.1 q.1 = false → p.2 < q.2)) :
    r.map (·.1) = sliceStable lt l :=
  sliceStable_unique_idx lt (swoB_sound lt l h) r hperm hsorted hstable

theorem flatKeys_eq : ∀ (cs : List Diff), Diff.flatKeys cs = (Diff.sortKeyed cs).map (·.1)
  | [] => by rw [Diff.flatKeys, Diff.sortKeyed]; rfl
  | c :: cs => by rw [Diff.flatKeys, Diff.sortKeyed, flatKeys_eq cs]; rfl

/-- **`Sort` of an entry is the stable sort of its children by `isLessThan`**, whenever
    `isLessThan` is a strict weak order on them (`Diff.sortExact` checks this for the lists of more
    than 20 children, where Go no longer runs the plain insertion sort): any sorted, stable
    arrangement `r` of the keyed children yields exactly the children of the sorted entry. -/
theorem sort_kids_unique (L R : Option INode) (cs : List Diff)
    (h : swoB lessKey (Diff.flatKeys cs) = true)
    (r : List ((SortKey × Diff) × Nat)) (hperm : r.Perm (Diff.sortKeyed cs).zipIdx)
    (hsorted : r.Pairwise (fun p q => lessKey q.1.1 p.1.1 = false))
    (hstable : r.Pairwise (fun p q => lessKey p.1.1 q.1.1 = false → p.2 < q.2)) :
    r.map (·.1.2) = ((Diff.mk L R cs).sort).kids := by
  have hswo : SWOOn (fun a b : SortKey × Diff => lessKey a.1 b.1) (Diff.sortKeyed cs) := by
    have h0 := swoB_sound lessKey _ h
    rw [flatKeys_eq] at h0
    have mem : ∀ a ∈ Diff.sortKeyed cs, a.1 ∈ (Diff.sortKeyed cs).map (·.1) :=
      fun a ha => List.mem_map.mpr ⟨a, ha, rfl⟩
    exact ⟨fun a ha => h0.1 _ (mem a ha),
      fun a ha b hb c hc => h0.2.1 _ (mem a ha) _ (mem b hb) _ (mem c hc),
      fun a ha b hb c hc => h0.2.2 _ (mem a ha) _ (mem b hb) _ (mem c hc)⟩
  have := sliceStable_unique_idx (fun a b : SortKey × Diff => lessKey a.1 b.1) hswo r hperm hsorted hstable
  rw [Diff.sort]
  show _ = (sliceStable _ (Diff.sortKeyed cs)).map (·.2)
  rw [← this, List.map_map]
  rfl

/-- **Where `isLessThan` is not a strict weak order.** Entries whose tags share a `sortValue` level
    are compared by `Years()` when both are `Yearer`s (DATE, EVEN, RESI) and by value otherwise, so
    mixing the two kinds on one level can cycle: DATE `1900` < PLAC `5 Main St` (values),
    PLAC `5 Main St` < DATE `Abt. 1850` (values), DATE `Abt. 1850` < DATE `1900` (years).  On such
    lists the result of `sort.SliceStable` depends on its algorithm; the model is Go's insertion
    sort, exact up to 20 entries. -/
theorem isLessThan_not_strict_weak :
    swoB lessNode [.mk (lit "DATE") (lit "1900") [] [], .mk (lit "PLAC") (lit "5 Main St") [] [],
      .mk (lit "DATE") (lit "Abt. 1850") [] []] = false := by decide

/-! ### the decision logic is the source's (go/ast translation, Generated/DiffSrc.lean) -/

section source
open Gedcom.DiffSrc Gedcom.Generated.DiffSrc

/-- **Obligation.** Everything the translator read from `traverse` and `isLessThan` was inside its
    fragment: the statement shapes are the expected ones, every condition uses only the atoms and
    comparisons of its context, every assignment goes to `nd.Left` or `nd.Right`, and both operands
    of `isLessThan` are flattened with `LeftNode()` (the model sorts by `flatten true`). -/
theorem diff_source_translated :
    traverseNilGuard = true ∧ traverseStatementsRecognised = true ∧ traverseLoopShape = true ∧
    matchLoopOnlyIfs = true ∧ matchBodiesUniform = true ∧
    (traverseAssigns.all fun g => g.cond.inFragment .side && g.slot != .bad) = true ∧
    (matchConds.all fun c => c.inFragment .matching) = true ∧
    lessStatementsRecognised = true ∧ lessOperands = ["LeftNode", "LeftNode"] ∧
    (lessCases.all fun c => c.cond.inFragment .less && c.result.inFragment .less) = true ∧
    lessDefault.inFragment .less = true := by decide

/-- **The side assignments of `traverse` are the model's `fillL` / `fillR`.** Executing the source's
    guarded assignments in order, for either side, any node and any state of the entry, sets the
    entry's nodes to exactly what the model's `traverse` puts there. -/
theorem traverse_sides_is_source (isLeft : Bool) (n : INode) (L R : Option INode) :
    runGuarded isLeft n traverseAssigns (L, R) = (fillL isLeft n L, fillR isLeft n R) := by
  cases isLeft <;> cases L <;> cases R <;> rfl

/-- **The match conditions of the inner loop are the model's `matchesNode`.** A child is sent into
    an existing entry by the source's `if` statements exactly when `Diff.matchesNode` holds. -/
theorem traverse_match_is_source (eq : INode → INode → Bool) (k : INode) (c : Diff) :
    runMatch eq k c matchConds = Diff.matchesNode eq k c := by
  cases c with | mk L R cs =>
  cases L <;> cases R <;>
    simp [runMatch, matchConds, BExp.eval, matchAtoms, Diff.matchesNode, Diff.left, Diff.right]

/-- **The comparison cascade of `isLessThan` is the model's `lessKey`**, for all pairs of keys:
    tag sort level first, then `Years()` when both are `Yearer`s, then the value. -/
theorem isLessThan_is_source (a b : SortKey) :
    runCascade a b lessCases lessDefault = lessKey a b := by
  simp only [lessCases, lessDefault, runCascade, BExp.eval, lessNe, lessLt, lessAtoms, keyOf, lessKey]
  by_cases h : a.level = b.level
  · simp [h]
  · have hne : (a.level != b.level) = true := by simpa using h
    simp only [hne, if_true]
    exact decide_eq_decide.mpr Iff.rfl

/-- the model's `traverse`, with its head and its match test replaced by the interpreted source -/
theorem traverse_is_source (eq : INode → INode → Bool) (isLeft : Bool) (n : INode) (D : Diff) :
    (traverse eq isLeft n D).left = (runGuarded isLeft n traverseAssigns (D.left, D.right)).1 ∧
    (traverse eq isLeft n D).right = (runGuarded isLeft n traverseAssigns (D.left, D.right)).2 := by
  rw [traverse_sides_is_source, traverse_left, traverse_right]
  exact ⟨rfl, rfl⟩
end source

/-! ### deep-equal inputs -/

/-- The guard of `deepEqual_all_two_sided` (C07's transitivity guard, per level of the comparison):
    among the nodes of depth `d + 1` of both inputs `Equals` is reflexive, symmetric and transitive.
    It holds for all trees of plain nodes and fails only for siblings such as RESI / EVEN nodes
    with overlapping sets of dates or constrained DATE values. -/
def EquivLevels (l r : INode) : Prop :=
  ∀ d a b c, (INode.At l (d + 1) a ∨ INode.At r (d + 1) a) → (INode.At l (d + 1) b ∨ INode.At r (d + 1) b) →
    (INode.At l (d + 1) c ∨ INode.At r (d + 1) c) →
    iequals a a = true ∧ (iequals a b = true → iequals b a = true) ∧
      (iequals a b = true → iequals b c = true → iequals a c = true)

/-- **Two deep-equal inputs give an all-two-sided diff** (for example a tree and a reordered copy),
    provided `Equals` is an equivalence on every level.  The full statement — without the guard —
    is false of the code: `deepEqual_all_two_sided_counterexample`. -/
theorem deepEqual_all_two_sided_partial (l r : INode) (hde : deepEqual l.erase r.erase = true)
    (hg : EquivLevels l r) : (compareNodes l r).isDeepEqual = true := by
  have hk : PMatch DeepEq l.kids r.kids := DeepEq.kids hde
  have hguard : EquivGuard iequals (l.kids ++ r.kids) := by
    intro d a b c ha hb hc
    have lift : ∀ x, BelowLevel (l.kids ++ r.kids) d x → INode.At l (d + 1) x ∨ INode.At r (d + 1) x := by
      intro x ⟨s, hs, hat⟩
      rcases List.mem_append.mp hs with hs | hs
      · left
        cases l with | mk i t v p ks => exact INode.At.kid hs hat
      · right
        cases r with | mk i t v p ks => exact INode.At.kid hs hat
    exact hg d a b c (lift a ha) (lift b hb) (lift c hc)
  have hcore := allTwo_core iequals DeepEq (fun a b h => DeepEq.shallow h) (fun a b h => DeepEq.kids h)
    (INode.sizeL l.kids) l.kids r.kids (Nat.le_refl _) hk hguard
  apply all_isDeepEqual _ 0
  cases l with | mk i t v p ks =>
  cases r with | mk i' t' v' p' ks' =>
  have hform : compareNodes (.mk i t v p ks) (.mk i' t' v' p' ks') =
      .mk (some (.mk i t v p ks)) (some (.mk i' t' v' p' ks'))
        (traverseKids iequals false ks' (traverseKids iequals true ks [])) := by
    simp [compareNodes, compareWith, traverse, fillL, fillR, Diff.empty, Diff.left, Diff.right, Diff.kids]
  rw [hform]
  exact Diff.All.mk ⟨rfl, rfl⟩ hcore

/-- the guard is not vacuous: it holds for every pair of trees whose nodes all have the plain
    `SimpleNode.Equals` (tag, value and pointer) -/
theorem equivLevels_of_plain (l r : INode)
    (hl : ∀ d a, INode.At l d a → a.erase.rule = .simple)
    (hr : ∀ d a, INode.At r d a → a.erase.rule = .simple) : EquivLevels l r := by
  have hplain : ∀ (a b : INode), a.erase.rule = .simple →
      iequals a b = (a.erase.tag == b.erase.tag && a.erase.value == b.erase.value &&
        a.erase.ptr == b.erase.ptr) := by
    intro a b h
    unfold iequals equalsShallow
    rw [h]
  intro d a b c ha hb hc
  have hpa : a.erase.rule = .simple := by rcases ha with h | h; exact hl _ _ h; exact hr _ _ h
  have hpb : b.erase.rule = .simple := by rcases hb with h | h; exact hl _ _ h; exact hr _ _ h
  refine ⟨?_, ?_, ?_⟩
  · rw [hplain a a hpa]; simp
  · rw [hplain a b hpa, hplain b a hpb]
    simp only [Bool.and_eq_true, beq_iff_eq]
    rintro ⟨⟨h1, h2⟩, h3⟩
    exact ⟨⟨h1.symm, h2.symm⟩, h3.symm⟩
  · rw [hplain a b hpa, hplain b c hpb, hplain a c hpa]
    simp only [Bool.and_eq_true, beq_iff_eq]
    rintro ⟨⟨h1, h2⟩, h3⟩ ⟨⟨k1, k2⟩, k3⟩
    exact ⟨⟨h1.trans k1, h2.trans k2⟩, h3.trans k3⟩

/-- descendants of a tree that satisfies C07's guard satisfy it -/
theorem okNode_at {D : List Str} {l a : INode} {d : Nat} (h : INode.At l d a)
    (hok : okNode D l.erase = true) : okNode D a.erase = true := by
  induction h with
  | root n => exact hok
  | @kid i t v p ks k d x hk _ ih =>
    apply ih
    apply okNode_kid hok
    simp only [INode.erase, Node.kids, eraseList_eq_map]
    exact List.mem_map_of_mem hk

/-- **The guard beyond plain nodes (round 4)**: it holds for every pair of trees — any node kinds:
    BIRT / DEAT / BURI / BAPM, DATE, `_UID`, RESI, EVEN — provided `DateNode.Equals` is an
    equivalence on the DATE values present (C07's guard `dateEquiv` / `okNode`, which
    `C07.guard_of_plain` gives for all values without a before / after constraint) and the RESI /
    EVEN nodes are undated, i.e. compared through their children (PLAC children / value and all
    children).  Dated RESI / EVEN siblings are what the counterexample below uses. -/
theorem equivLevels_of_undated (D : List Str) (hD : dateEquiv D = true) (l r : INode)
    (hl : okNode D l.erase = true) (hr : okNode D r.erase = true)
    (ul : ∀ d a, INode.At l d a → a.erase.rule = .resi ∨ a.erase.rule = .even → a.erase.dates = [])
    (ur : ∀ d a, INode.At r d a → a.erase.rule = .resi ∨ a.erase.rule = .even → a.erase.dates = []) :
    EquivLevels l r := by
  intro d a b c ha hb hc
  have oka : okNode D a.erase = true := by
    rcases ha with h | h; exact okNode_at h hl; exact okNode_at h hr
  have okb : okNode D b.erase = true := by
    rcases hb with h | h; exact okNode_at h hl; exact okNode_at h hr
  have okc : okNode D c.erase = true := by
    rcases hc with h | h; exact okNode_at h hl; exact okNode_at h hr
  have ub : b.erase.rule = .resi ∨ b.erase.rule = .even → b.erase.dates = [] := by
    rcases hb with h | h; exact ul _ _ h; exact ur _ _ h
  refine ⟨?_, ?_, ?_⟩
  · unfold iequals
    rw [equalsShallow_eq]
    exact equalsSpec_refl _ (fun k _ => deepEqual_refl k)
  · intro h
    unfold iequals at h ⊢
    rw [equalsShallow_eq] at h ⊢
    exact equalsSpec_symm_of_ok D hD _ _ oka okb h
  · intro h1 h2
    unfold iequals at h1 h2 ⊢
    rw [equalsShallow_eq] at h1 h2 ⊢
    refine equalsSpec_trans_undated D hD _ _ _ oka okb okc ?_ h1 h2
    intro hra
    apply ub
    rw [equalsSpec_rule h1]
    exact hra

/-- … hence a tree and any deep-equal tree (for example a re-ordered copy) with undated RESI / EVEN
    nodes and DATE values on which `DateNode.Equals` is an equivalence give an all-two-sided diff. -/
theorem deepEqual_all_two_sided_undated (D : List Str) (hD : dateEquiv D = true) (l r : INode)
    (hde : deepEqual l.erase r.erase = true)
    (hl : okNode D l.erase = true) (hr : okNode D r.erase = true)
    (ul : ∀ d a, INode.At l d a → a.erase.rule = .resi ∨ a.erase.rule = .even → a.erase.dates = [])
    (ur : ∀ d a, INode.At r d a → a.erase.rule = .resi ∨ a.erase.rule = .even → a.erase.dates = []) :
    (compareNodes l r).isDeepEqual = true :=
  deepEqual_all_two_sided_partial l r hde (equivLevels_of_undated D hD l r hl hr ul ur)

/-- undated RESI siblings with permuted PLAC children: deep-equal, and the diff says so -/
example :
    let a : INode := (labelNode 0 (.mk (lit "INDI") [] (lit "P1") [
      .mk (lit "RESI") [] [] [.mk (lit "PLAC") (lit "a") [] [], .mk (lit "PLAC") (lit "b") [] []],
      .mk (lit "RESI") [] [] [.mk (lit "PLAC") (lit "c") [] []]])).1
    let b : INode := (labelNode 100 (.mk (lit "INDI") [] (lit "P1") [
      .mk (lit "RESI") [] [] [.mk (lit "PLAC") (lit "c") [] []],
      .mk (lit "RESI") [] [] [.mk (lit "PLAC") (lit "b") [] [], .mk (lit "PLAC") (lit "a") [] []]])).1
    deepEqual a.erase b.erase = true ∧ (compareNodes a b).isDeepEqual = true ∧
      okNode [] a.erase = true ∧ dateEquiv [] = true := by decide +kernel

/-- **The guard is decidable by the model**: when the executable check `equivLevelsB` (the driver
    answers it for every generated case) says yes, the guard holds. -/
theorem equivLevels_of_check (l r : INode) (h : equivLevelsB l r = true) : EquivLevels l r := by
  have hg := guardB_sound iequals _ _ h
  intro d a b c ha hb hc
  have lift : ∀ x, (INode.At l (d + 1) x ∨ INode.At r (d + 1) x) → BelowLevel (l.kids ++ r.kids) d x := by
    intro x hx
    rcases hx with hx | hx
    · obtain ⟨k, hk, hat⟩ := hx.succ
      exact ⟨k, List.mem_append_left _ hk, hat⟩
    · obtain ⟨k, hk, hat⟩ := hx.succ
      exact ⟨k, List.mem_append_right _ hk, hat⟩
  exact hg d a b c (lift a ha) (lift b hb) (lift c hc)

/-- `deepEqual_all_two_sided_partial` with the executable guard: whenever the model answers
    `deepEqual = true` and `equivLevelsB = true` for a pair, the diff is all-two-sided.  The harness
    owes all-two-sidedness of the implementation exactly on these answers. -/
theorem deepEqual_all_two_sided_checked (l r : INode) (hde : deepEqual l.erase r.erase = true)
    (hc : equivLevelsB l r = true) : (compareNodes l r).isDeepEqual = true :=
  deepEqual_all_two_sided_partial l r hde (equivLevels_of_check l r hc)

/-- a tree with the RESI children {1900}, {1901}, {1900, 1901} and the copy with the children in the
    order 3, 1, 2 -/
def chainL : INode :=
  (labelNode 0 (.mk (lit "ZROOT") [] [] [
    .mk (lit "RESI") [] [] [.mk (lit "DATE") (lit "1900") [] []],
    .mk (lit "RESI") [] [] [.mk (lit "DATE") (lit "1901") [] []],
    .mk (lit "RESI") [] [] [.mk (lit "DATE") (lit "1900") [] [], .mk (lit "DATE") (lit "1901") [] []]])).1
def chainR : INode :=
  (labelNode 1000000 (.mk (lit "ZROOT") [] [] [
    .mk (lit "RESI") [] [] [.mk (lit "DATE") (lit "1900") [] [], .mk (lit "DATE") (lit "1901") [] []],
    .mk (lit "RESI") [] [] [.mk (lit "DATE") (lit "1900") [] []],
    .mk (lit "RESI") [] [] [.mk (lit "DATE") (lit "1901") [] []]])).1

/-- **Counterexample to the unguarded statement** (known finding `nontransitive-siblings`, replayed
    on the implementation by the harness stream "RESI chain"): the two inputs are deep-equal — the
    second is a reordered copy of the first — but the diff has a left-only entry, because
    RESI{1900} `Equals` RESI{1900,1901} `Equals` RESI{1901} while RESI{1900} does not equal RESI{1901}. -/
theorem deepEqual_all_two_sided_counterexample :
    deepEqual chainL.erase chainR.erase = true ∧ (compareNodes chainL chainR).isDeepEqual = false := by
  decide

/-- the pair on which defect 8 was observed: BIRT{DATE 1900}, DEAT against BIRT{DATE 1901}, DEAT -/
def witnessL : INode :=
  (labelNode 0 (.mk (lit "ZROOT") [] [] [.mk (lit "BIRT") [] [] [.mk (lit "DATE") (lit "1900") [] []],
    .mk (lit "DEAT") [] [] []])).1
def witnessR : INode :=
  (labelNode 1000000 (.mk (lit "ZROOT") [] [] [.mk (lit "BIRT") [] [] [.mk (lit "DATE") (lit "1901") [] []],
    .mk (lit "DEAT") [] [] []])).1

/-! ### purity -/

/-- the flags regenerated from the current code say that `Sort` does not write to the compared
    nodes (fails to check as soon as `LeftNode`/`RightNode` flatten in place again) -/
theorem sort_does_not_write : sortMutates = false := by decide

theorem applyWrites_nil (n : INode) : applyWrites [] n = n := rfl

theorem stepWith_false_inputs (w : DiffWorld) (op : DiffOp) :
    (diffStepWith false w op).1.left = w.left ∧ (diffStepWith false w op).1.right = w.right := by
  cases op <;> simp [diffStepWith, applyWrites_nil]

theorem runWith_false_inputs : ∀ (ops : List DiffOp) (w : DiffWorld),
    (diffRunWith false w ops).1.left = w.left ∧ (diffRunWith false w ops).1.right = w.right
  | [], w => by simp [diffRunWith]
  | op :: ops, w => by
    simp only [diffRunWith]
    have h1 := stepWith_false_inputs w op
    have h2 := runWith_false_inputs ops (diffStepWith false w op).1
    exact ⟨h2.1.trans h1.1, h2.2.trans h1.2⟩

/-- **Purity.** Computing a diff and then applying CompareNodes, String, IsDeepEqual, Sort and Tag in
    any order and any number of times leaves both compared trees exactly as they were.  `diffRun` is
    the model of the current code: what `Sort` writes is decided by the regenerated flags. -/
theorem pure (l r : INode) (ops : List DiffOp) :
    (diffRun (DiffWorld.init l r) ops).1.left = l ∧ (diffRun (DiffWorld.init l r) ops).1.right = r := by
  unfold diffRun
  rw [sort_does_not_write]
  exact runWith_false_inputs ops (DiffWorld.init l r)

/-- the model of the *unrepaired* code (in-place flattening) does modify the left input: on the
    witness of defect 8 the left BIRT node gains two children (DATE 1900 again and DATE 1901) -/
theorem pure_needs_copy :
    (diffRunWith true (DiffWorld.init witnessL witnessR) [.sort]).1.left.size = witnessL.size + 2 := by
  decide

/-! ### non-vacuity -/

/-- the witness pair has a two-sided, a left-only and a right-only entry -/
example : (compareNodes witnessL witnessR).isDeepEqual = false := by decide
example : ((compareNodes witnessL witnessR).kids.map (fun e => (e.left.isSome, e.right.isSome)) =
    [(true, true), (true, true)]) ∧
    (((compareNodes witnessL witnessR).kids.head?.map (fun e => e.kids.map
      (fun c => (c.left.isSome, c.right.isSome)))) = some [(true, false), (false, true)]) := by decide
/-- a plain tree and its reordered copy: all two-sided -/
example : (compareNodes
    (labelNode 0 (.mk (lit "ZROOT") [] [] [.mk (lit "NOTE") (lit "a") [] [], .mk (lit "OCCU") (lit "b") [] []])).1
    (labelNode 1000000 (.mk (lit "ZROOT") [] [] [.mk (lit "OCCU") (lit "b") [] [], .mk (lit "NOTE") (lit "a") [] []])).1
  ).isDeepEqual = true := by decide
/-- operations in some order on the witness leave the inputs alone (instance of `pure`) -/
example : (diffRun (DiffWorld.init witnessL witnessR) [.sort, .string, .compare, .sort, .tag]).1.left.size =
    witnessL.size := by decide

end Gedcom.C08
