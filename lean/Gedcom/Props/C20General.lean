/-
  C20 on general dates — the `*_sound_complete` theorems of Props/C20.lean without the `ExactDates`
  guard: DATE values of every shape C04's `parseDateRange` produces (month / year precision,
  Abt. / Bef. / Aft., `Bet. … and …` ranges, half-parsed ranges) as the driver classifies them
  (`DateV.ok` / `.bad` / `.gen`).

  The specification reads a DATE value `x` through four views only:
    * `x.valid`            — neither end is the zero date (`DateRange.IsValid`);
    * `x.parseErr`         — an end carries a parse error;
    * `dayS x`, `dayE x`   — civil day number of the first day of the start date and of the last day
                             of the end date (`dayS_gen` / `dayE_gen`: C05's `firstDay` / `lastDay`);
    * `sYears x`, `eYears x`, `midYears x` — `Years()` of the start date, of the end date and of the
                             range (their mean) as exact fractions (numerator, positive denominator),
                             compared by cross-multiplication as C05 does.
  About `Gedcom.Warn.warnings` (the function the driver runs).
-/
import Gedcom.Props.C20
namespace Gedcom.C20
open Gedcom Gedcom.Warn

/-! ### views of a DATE value used by the specification -/

/-- `StartDate().Years()` as an exact fraction -/
def sYears (x : DateV) : Int × Int := startFrac (some x)
/-- `EndDate().Years()` as an exact fraction -/
def eYears (x : DateV) : Int × Int := endFrac (some x)

/-- `a < b` for fractions with positive denominators -/
def FracLt (a b : Int × Int) : Prop := a.1 * b.2 < b.1 * a.2

instance (a b : Int × Int) : Decidable (FracLt a b) := by unfold FracLt; exact inferInstance

/-- an end of the value carries a parse error -/
def _root_.Gedcom.Warn.DateV.parseErr : DateV → Bool
  | .ok _ => false
  | .bad _ => true
  | .gen _ s e => s.parseError || e.parseError

/-- the start `Years()` of an exact day is C05's fraction; of a general date that of its start -/
theorem sYears_ok (t : Date) : sYears (.ok t) = ((t.year : Int) * t.yearsDen + t.yearsNum, t.yearsDen) := rfl
theorem sYears_gen (l : Nat) (s e : PDate) : sYears (.gen l s e) = s.yearsFrac := rfl
theorem eYears_gen (l : Nat) (s e : PDate) : eYears (.gen l s e) = e.yearsFrac := rfl

/-- for two calendar days the `Years()` scale is the calendar (C05 `years_strict_mono`) -/
theorem fracLt_days {a b : Date} (ha : C05.Full a) (hb : C05.Full b) :
    FracLt (sYears (.ok a)) (sYears (.ok b)) ↔ dayOf a < dayOf b := by
  have := yearsLtV_ok ha hb
  rw [show yearsLtV (some (.ok a)) (some (.ok b)) = decide (a.yearsLt b) from rfl, decide_eq_true_iff] at this
  exact this

theorem yearsLtV_valid {a b : DateV} (ha : a.valid = true) (hb : b.valid = true) :
    yearsLtV (some a) (some b) = true ↔ FracLt (sYears a) (sYears b) := by
  cases a <;> cases b <;>
    simp_all [yearsLtV, DateV.valid, FracLt, sYears, startFrac, fracLt, Date.isBefore, Date.yearsLt] <;>
    exact decide_eq_true_iff

theorem validO_iff_some {b : Option DateV} : validO b = true ↔ ∃ x, b = some x ∧ x.valid = true := by
  cases b <;> simp [validO]

/-! ### ChildBornBeforeParent, every date shape, no guard -/

/-- what the walk collects before the document-level pair set, family by family -/
theorem raw_child_born_before_parent_general (d : Doc) (now : Date) (fp p c : Nat) :
    Warning.childBornBeforeParent fp p c ∈ rawWarnings d now ↔
      ∃ f, Rec.fam f ∈ d ∧ f.ptr = fp ∧ c ∈ f.chil ∧ (f.husb = some p ∨ f.wife = some p) ∧
        ∃ xc xp, birthOf (indiOf d c) = some xc ∧ birthOf (indiOf d p) = some xp ∧
          xc.valid = true ∧ xp.valid = true ∧ FracLt (sYears xc) (sYears xp) := by
  rw [mem_warnings_cases]
  constructor
  · rintro (⟨i, hi, h | h | h | h⟩ | ⟨f, hf, h | h | h | h | h⟩)
    all_goals try wrong_kind h
    rw [mem_cbbp_fam] at h
    simp only [childrenBornBeforeParentsRaw, List.mem_flatMap] at h
    obtain ⟨c', hc', h⟩ := h
    split at h
    · simp at h
    · rename_i hcv
      simp only [Bool.not_eq_true] at hcv
      obtain ⟨xc, hxc, hvc⟩ := validO_iff_some.mp (by simpa using hcv)
      simp only [List.mem_append] at h
      rcases h with h | h
      · split at h
        · rename_i hc
          simp at h
          obtain ⟨rfl, rfl, rfl⟩ := h
          simp only [Bool.and_eq_true] at hc
          obtain ⟨xp, hxp, hvp⟩ := validO_iff_some.mp hc.1
          cases hh : f.husb with
          | none => simp [hh, birthOf] at hxp
          | some hp =>
            simp only [hh, Option.bind_some] at hxp hc
            rw [hxc, hxp, yearsLtV_valid hvc hvp] at hc
            exact ⟨f, hf, rfl, hc', Or.inl (by simp [hh]), xc, xp, hxc, by simpa using hxp, hvc, hvp, hc.2⟩
        · simp at h
      · split at h
        · rename_i hc
          simp at h
          obtain ⟨rfl, rfl, rfl⟩ := h
          simp only [Bool.and_eq_true] at hc
          obtain ⟨xp, hxp, hvp⟩ := validO_iff_some.mp hc.1
          cases hh : f.wife with
          | none => simp [hh, birthOf] at hxp
          | some wp =>
            simp only [hh, Option.bind_some] at hxp hc
            rw [hxc, hxp, yearsLtV_valid hvc hvp] at hc
            exact ⟨f, hf, rfl, hc', Or.inr (by simp [hh]), xc, xp, hxc, by simpa using hxp, hvc, hvp, hc.2⟩
        · simp at h
  · rintro ⟨f, hf, rfl, hc, hpar, xc, xp, hxc, hxp, hvc, hvp, hlt⟩
    refine Or.inr ⟨f, hf, Or.inl ?_⟩
    rw [mem_cbbp_fam]
    simp only [childrenBornBeforeParentsRaw, List.mem_flatMap]
    refine ⟨c, hc, ?_⟩
    have hv : validO (birthOf (indiOf d c)) = true := validO_iff_some.mpr ⟨xc, hxc, hvc⟩
    have hvp' : validO (birthOf (indiOf d p)) = true := validO_iff_some.mpr ⟨xp, hxp, hvp⟩
    have h2 : yearsLtV (birthOf (indiOf d c)) (birthOf (indiOf d p)) = true := by
      rw [hxc, hxp]; exact (yearsLtV_valid hvc hvp).mpr hlt
    simp only [hv, Bool.not_true, Bool.false_eq_true, if_false, List.mem_append]
    rcases hpar with hh | hh
    · left; simp [hh, hvp', h2]
    · right; simp [hh, hvp', h2]

/-- **ChildBornBeforeParent, general dates** (full, no guard): (parent, child) is reported — once,
    in the context of the first family in file order that warrants it — exactly when `child` is a
    CHIL of some family, `parent` its HUSB or WIFE, both have a *valid* birth date (first DATE of the
    first dated BIRT; any shape: imprecise, constrained, a range) and the `Years()` of the start of
    the child's birth is strictly below that of the parent's.  `fracLt_days` reads the comparison
    as one of civil days when both starts are calendar days. -/
theorem child_born_before_parent_sound_complete_general (d : Doc) (now : Date) (p c : Nat) :
    (∃ fp, Warning.childBornBeforeParent fp p c ∈ warnings d now) ↔
      ∃ f, Rec.fam f ∈ d ∧ c ∈ f.chil ∧ (f.husb = some p ∨ f.wife = some p) ∧
        ∃ xc xp, birthOf (indiOf d c) = some xc ∧ birthOf (indiOf d p) = some xp ∧
          xc.valid = true ∧ xp.valid = true ∧ FracLt (sYears xc) (sYears xp) := by
  constructor
  · rintro ⟨fp, h⟩
    obtain ⟨f, hf, _, rest⟩ := (raw_child_born_before_parent_general d now fp p c).mp
      ((oncePerPair_sublist _).subset h)
    exact ⟨f, hf, rest⟩
  · rintro ⟨f, hf, rest⟩
    exact opp_cbbp_kept _ [] [] (by simp)
      ⟨f.ptr, (raw_child_born_before_parent_general d now f.ptr p c).mpr ⟨f, hf, rfl, rest⟩⟩

/-! ### SiblingsBornTooClose on general dates -/

/-- the sibling condition over the four day numbers: neither birth range is 274 days wide or wider,
    the starts are at least 2 days apart, and the starts or the ends are fewer than 274 days apart -/
def SibDays (s1 e1 s2 e2 : Int) : Prop :=
  e1 - s1 < 274 ∧ s1 - e1 < 275 ∧ e2 - s2 < 274 ∧ s2 - e2 < 275 ∧
  (2 ≤ s1 - s2 ∨ 2 ≤ s2 - s1) ∧
  ((s1 - s2 < 274 ∧ s2 - s1 < 274) ∨ (e1 - e2 < 274 ∧ e2 - e1 < 274))

instance (s1 e1 s2 e2 : Int) : Decidable (SibDays s1 e1 s2 e2) := by unfold SibDays; exact inferInstance

theorem SibDays.symm {s1 e1 s2 e2 : Int} (h : SibDays s1 e1 s2 e2) : SibDays s2 e2 s1 e1 := by
  unfold SibDays at *; omega

/-- the documented sibling condition on two children, general birth dates: different people, both
    have a birth date (first DATE of the first dated BIRT) without a parse error, and the day
    numbers of its start and end satisfy `SibDays` -/
def SibSpecG (d : Doc) (c1 c2 : Nat) : Prop :=
  c1 ≠ c2 ∧ ∃ x1 x2, birthOf (indiOf d c1) = some x1 ∧ birthOf (indiOf d c2) = some x2 ∧
    x1.parseErr = false ∧ x2.parseErr = false ∧ SibDays (dayS x1) (dayE x1) (dayS x2) (dayE x2)

theorem SibSpecG.symm {d : Doc} {a b : Nat} (h : SibSpecG d a b) : SibSpecG d b a := by
  obtain ⟨hne, x1, x2, h1, h2, p1, p2, h3⟩ := h
  exact ⟨fun e => hne e.symm, x2, x1, h2, h1, p2, p1, h3.symm⟩

/-- guard, per DATE value: it carries a parse error (the code skips it), or both ends are Go's zero
    time (years 0 / above 9999: `Time()` cannot represent them), or both ends are whole days inside
    the window `[lo, hi]` -/
def _root_.Gedcom.Warn.DateV.sibOK (lo hi : Int) (x : DateV) : Bool :=
  x.parseErr ||
  (startI (some x) == zeroTime && endI (some x) == zeroTime) ||
  (startI (some x) == dayS x * nsPerDay && endI (some x) == (dayE x + 1) * nsPerDay - 1 &&
    decide (lo ≤ dayS x) && decide (dayS x ≤ hi) && decide (lo ≤ dayE x) && decide (dayE x ≤ hi))

/-- guard, per document (decidable): every DATE of every individual is `sibOK` -/
def SibDates (lo hi : Int) (d : Doc) : Prop :=
  ((indis d).all fun i => i.events.all fun e => e.dates.all (DateV.sibOK lo hi)) = true

instance (lo hi : Int) (d : Doc) : Decidable (SibDates lo hi d) := by unfold SibDates; exact inferInstance

/-- `subErr` is "either operand carries a parse error" -/
def errO : Option DateV → Bool
  | some x => x.parseErr
  | none => false

theorem subErr_eq (b1 b2 : Option DateV) : subErr b1 b2 = (errO b1 || errO b2) := by
  rcases b1 with _ | x1 <;> rcases b2 with _ | x2
  · rfl
  · cases x2 <;> rfl
  · cases x1 <;> simp [subErr, errO, DateV.parseErr]
  · cases x1 <;> cases x2 <;> simp [subErr, errO, DateV.parseErr]

/-- what the guard says about an optional birth date -/
def Shape (lo hi : Int) (b : Option DateV) : Prop :=
  errO b = true ∨
  (errO b = false ∧ startI b = zeroTime ∧ endI b = zeroTime ∧ ∀ x, b = some x → dayS x = 1 ∧ dayE x = 1) ∨
  (errO b = false ∧ ∃ x, b = some x ∧ startI b = dayS x * nsPerDay ∧ endI b = (dayE x + 1) * nsPerDay - 1 ∧
    lo ≤ dayS x ∧ dayS x ≤ hi ∧ lo ≤ dayE x ∧ dayE x ≤ hi)

theorem shape_of_birth {lo hi : Int} {d : Doc} (hg : SibDates lo hi d) (c : Nat) :
    Shape lo hi (birthOf (indiOf d c)) := by
  cases hb : birthOf (indiOf d c) with
  | none => exact Or.inr (Or.inl ⟨rfl, rfl, rfl, by simp⟩)
  | some x =>
    obtain ⟨i, hi⟩ := birthOf_indiOf_some hb
    rw [hi] at hb
    obtain ⟨e, he, _, hx⟩ := birthOf_some hb
    unfold SibDates at hg
    simp only [List.all_eq_true] at hg
    have hok := hg i (mem_indis.mpr (indiOf_some hi).1) e he x hx
    cases hpe : x.parseErr with
    | true => exact Or.inl (by simp [errO, hpe])
    | false =>
      simp only [DateV.sibOK, hpe, Bool.false_or, Bool.or_eq_true, Bool.and_eq_true, beq_iff_eq,
        decide_eq_true_eq] at hok
      rcases hok with ⟨h1, h2⟩ | ⟨⟨⟨⟨⟨h1, h2⟩, h3⟩, h4⟩, h5⟩, h6⟩
      · refine Or.inr (Or.inl ⟨by simp [errO, hpe], h1, h2, ?_⟩)
        intro y hy
        simp only [Option.some.injEq] at hy
        subst hy
        constructor
        · simp [dayS, h1, zeroTime, nsPerDay]
        · simp [dayE, h2, zeroTime, nsPerDay]
      · exact Or.inr (Or.inr ⟨by simp [errO, hpe], x, rfl, h1, h2, h3, h4, h5, h6⟩)

/-- the nanosecond arithmetic of the loop body on two births that are whole days inside a window of
    106751 days (the range of `time.Duration`) -/
theorem sib_arith_real (lo s1 e1 s2 e2 : Int)
    (a1 : lo ≤ s1) (a2 : s1 ≤ lo + 106751) (a3 : lo ≤ e1) (a4 : e1 ≤ lo + 106751)
    (a5 : lo ≤ s2) (a6 : s2 ≤ lo + 106751) (a7 : lo ≤ e2) (a8 : e2 ≤ lo + 106751) :
    ((¬ dateSub ((e1 + 1) * nsPerDay - 1) (s1 * nsPerDay) ≥ nineMonths) ∧
     (¬ dateSub ((e2 + 1) * nsPerDay - 1) (s2 * nsPerDay) ≥ nineMonths) ∧
     (¬ dateSub (s1 * nsPerDay) (s2 * nsPerDay) < twoDays) ∧
     (dateSub (s1 * nsPerDay) (s2 * nsPerDay) < nineMonths ∨
      dateSub ((e1 + 1) * nsPerDay - 1) ((e2 + 1) * nsPerDay - 1) < nineMonths)) ↔
    SibDays s1 e1 s2 e2 := by
  have q1 := dateSub_spec ((e1 + 1) * nsPerDay - 1) (s1 * nsPerDay)
  have q2 := dateSub_spec ((e2 + 1) * nsPerDay - 1) (s2 * nsPerDay)
  have q3 := dateSub_spec (s1 * nsPerDay) (s2 * nsPerDay)
  have q4 := dateSub_spec ((e1 + 1) * nsPerDay - 1) ((e2 + 1) * nsPerDay - 1)
  generalize dateSub ((e1 + 1) * nsPerDay - 1) (s1 * nsPerDay) = v1 at *
  generalize dateSub ((e2 + 1) * nsPerDay - 1) (s2 * nsPerDay) = v2 at *
  generalize dateSub (s1 * nsPerDay) (s2 * nsPerDay) = v3 at *
  generalize dateSub ((e1 + 1) * nsPerDay - 1) ((e2 + 1) * nsPerDay - 1) = v4 at *
  simp only [nsPerDay, nineMonths, twoDays, SibDays,
    Generated.siblingMaxDays, Generated.siblingMinDays] at *
  omega

/-- a birth at Go's zero time against a birth of whole days after day 106752 (the year 293): never
    reported, in either order; two births at the zero time: never reported -/
theorem sib_arith_zero (s e : Int) (hs : 106753 ≤ s) (he : 106753 ≤ e) :
    ¬ (¬ dateSub zeroTime (s * nsPerDay) < twoDays) ∧
    ¬ (dateSub (s * nsPerDay) zeroTime < nineMonths ∨
       dateSub ((e + 1) * nsPerDay - 1) zeroTime < nineMonths) ∧
    ¬ (¬ dateSub zeroTime zeroTime < twoDays) := by
  have q1 := dateSub_spec zeroTime (s * nsPerDay)
  have q2 := dateSub_spec (s * nsPerDay) zeroTime
  have q3 := dateSub_spec ((e + 1) * nsPerDay - 1) zeroTime
  have q4 := dateSub_spec zeroTime zeroTime
  generalize dateSub zeroTime (s * nsPerDay) = v1 at *
  generalize dateSub (s * nsPerDay) zeroTime = v2 at *
  generalize dateSub ((e + 1) * nsPerDay - 1) zeroTime = v3 at *
  generalize dateSub zeroTime zeroTime = v4 at *
  simp only [nsPerDay, nineMonths, twoDays, zeroTime,
    Generated.siblingMaxDays, Generated.siblingMinDays] at *
  omega

/-- the loop body decides exactly the general sibling condition -/
theorem siblingHit_iff_general {d : Doc} {lo hi : Int} (hg : SibDates lo hi d) (hlo : 106753 ≤ lo)
    (hspan : hi - lo ≤ 106751) (c1 c2 : Nat) :
    siblingHit d c1 c2 = true ↔ SibSpecG d c1 c2 := by
  rw [siblingHit_true, subErr_eq]
  unfold SibSpecG
  have sh1 := shape_of_birth hg c1
  have sh2 := shape_of_birth hg c2
  generalize hb1 : birthOf (indiOf d c1) = b1 at *
  generalize hb2 : birthOf (indiOf d c2) = b2 at *
  rcases sh1 with e1 | ⟨n1, z1s, z1e, z1d⟩ | ⟨n1, x1, rfl, r1s, r1e, w1⟩
  · -- child 1 carries a parse error
    constructor
    · rintro ⟨_, _, h3, _⟩; simp [e1] at h3
    · rintro ⟨_, y1, y2, rfl, _, p1, _⟩; simp [errO, p1] at e1
  · rcases sh2 with e2 | ⟨n2, z2s, z2e, z2d⟩ | ⟨n2, x2, rfl, r2s, r2e, w2⟩
    · constructor
      · rintro ⟨_, _, h3, _⟩; simp [e2] at h3
      · rintro ⟨_, y1, y2, _, rfl, _, p2, _⟩; simp [errO, p2] at e2
    · -- both at the zero time
      constructor
      · rintro ⟨_, _, _, _, h5, _⟩
        rw [z1s, z2s] at h5
        exact absurd h5 (sib_arith_zero 106753 106753 (by omega) (by omega)).2.2
      · rintro ⟨_, y1, y2, rfl, rfl, _, _, hd⟩
        obtain ⟨a1, a2⟩ := z1d _ rfl
        obtain ⟨a3, a4⟩ := z2d _ rfl
        unfold SibDays at hd; omega
    · -- zero time against whole days
      constructor
      · rintro ⟨_, _, _, _, h5, _⟩
        rw [z1s, r2s] at h5
        exact absurd h5 (sib_arith_zero (dayS x2) (dayE x2) (by omega) (by omega)).1
      · rintro ⟨_, y1, y2, rfl, e2, _, _, hd⟩
        simp only [Option.some.injEq] at e2; subst e2
        obtain ⟨a1, a2⟩ := z1d _ rfl
        unfold SibDays at hd; omega
  · rcases sh2 with e2 | ⟨n2, z2s, z2e, z2d⟩ | ⟨n2, x2, rfl, r2s, r2e, w2⟩
    · constructor
      · rintro ⟨_, _, h3, _⟩; simp [e2] at h3
      · rintro ⟨_, y1, y2, _, rfl, _, p2, _⟩; simp [errO, p2] at e2
    · -- whole days against the zero time
      constructor
      · rintro ⟨_, _, _, _, _, h6⟩
        rw [r1s, r1e, z2s, z2e] at h6
        exact absurd h6 (sib_arith_zero (dayS x1) (dayE x1) (by omega) (by omega)).2.1
      · rintro ⟨_, y1, y2, e1, rfl, _, _, hd⟩
        simp only [Option.some.injEq] at e1; subst e1
        obtain ⟨a1, a2⟩ := z2d _ rfl
        unfold SibDays at hd; omega
    · -- two births of whole days
      obtain ⟨i1, hi1⟩ := birthOf_indiOf_some hb1
      obtain ⟨i2, hi2⟩ := birthOf_indiOf_some hb2
      have hs := sameIndi_iff hi1 hi2
      have ha := sib_arith_real lo (dayS x1) (dayE x1) (dayS x2) (dayE x2)
        (by omega) (by omega) (by omega) (by omega) (by omega) (by omega) (by omega) (by omega)
      simp only [errO] at n1 n2
      rw [r1s, r1e, r2s, r2e]
      constructor
      · rintro ⟨h1, h2, _, h4, h5, h6⟩
        have hne : c1 ≠ c2 := by
          intro e
          rw [hs.mpr e] at h2
          simp at h2
        exact ⟨hne, x1, x2, rfl, rfl, n1, n2, ha.mp ⟨h1, h4, h5, h6⟩⟩
      · rintro ⟨hne, y1, y2, e1, e2, _, _, hd⟩
        simp only [Option.some.injEq] at e1 e2
        subst e1; subst e2
        have hsf : sameIndi (indiOf d c1) (indiOf d c2) = false := by
          cases hq : sameIndi (indiOf d c1) (indiOf d c2) with
          | false => rfl
          | true => exact absurd (hs.mp hq) hne
        obtain ⟨h1, h4, h5, h6⟩ := ha.mpr hd
        exact ⟨h1, hsf, by simp [errO, n1, n2], h4, h5, h6⟩

/-- in the context of one family -/
theorem raw_siblings_general (d : Doc) (now : Date) {lo hi : Int} (hg : SibDates lo hi d)
    (hlo : 106753 ≤ lo) (hspan : hi - lo ≤ 106751) (fp a b : Nat) :
    (Warning.siblingsBornTooClose fp a b ∈ rawWarnings d now ∨
     Warning.siblingsBornTooClose fp b a ∈ rawWarnings d now) ↔
      ∃ f, Rec.fam f ∈ d ∧ f.ptr = fp ∧ a ∈ f.chil ∧ b ∈ f.chil ∧ SibSpecG d a b := by
  rw [mem_siblings, mem_siblings]
  constructor
  · rintro (⟨f, hf, rfl, h⟩ | ⟨f, hf, rfl, h⟩)
    · obtain ⟨hm, hh⟩ := (sibInv d f).sound _ h
      obtain ⟨ha, hb⟩ := mem_chilPairs.mp hm
      exact ⟨f, hf, rfl, ha, hb, (siblingHit_iff_general hg hlo hspan a b).mp hh⟩
    · obtain ⟨hm, hh⟩ := (sibInv d f).sound _ h
      obtain ⟨hb, ha⟩ := mem_chilPairs.mp hm
      exact ⟨f, hf, rfl, ha, hb, ((siblingHit_iff_general hg hlo hspan b a).mp hh).symm⟩
  · rintro ⟨f, hf, rfl, ha, hb, hs⟩
    have hh := (siblingHit_iff_general hg hlo hspan a b).mpr hs
    obtain ⟨q, hq, hsym⟩ := pairsHas_iff.mp
      ((sibInv d f).complete (a, b) (mem_chilPairs.mpr ⟨ha, hb⟩) hh)
    obtain ⟨q1, q2⟩ := q
    rcases hsym with ⟨e1, e2⟩ | ⟨e1, e2⟩ <;> simp only at e1 e2 <;> subst e1 <;> subst e2
    · exact Or.inl ⟨f, hf, rfl, hq⟩
    · exact Or.inr ⟨f, hf, rfl, hq⟩

/-- **SiblingsBornTooClose, general dates** (partial: explicit decidable guard `SibDates lo hi d`
    with `106753 ≤ lo`, `hi − lo ≤ 106751`): {a, b} is reported — once, in one order or the other,
    by the first family in file order that warrants it — exactly when `a ≠ b` are CHIL of one
    family, both have a birth date of any shape without a parse error, neither birth range is 274
    days wide or wider, the first days of the two births are at least 2 days apart, and the first
    days or the last days are fewer than 274 days apart.
    The guard: every DATE of an individual that has no parse error either sits at Go's zero time
    with both ends (years 0 and above 9999) or denotes whole days inside a window of 106751 days
    (`time.Duration`) after day 106752.  Outside it the full statement is false of the code:
    `siblings_general_counterexample`. -/
theorem siblings_sound_complete_general_partial (d : Doc) (now : Date) {lo hi : Int}
    (hg : SibDates lo hi d) (hlo : 106753 ≤ lo) (hspan : hi - lo ≤ 106751) (a b : Nat) :
    (∃ fp, Warning.siblingsBornTooClose fp a b ∈ warnings d now ∨
           Warning.siblingsBornTooClose fp b a ∈ warnings d now) ↔
      ∃ f, Rec.fam f ∈ d ∧ a ∈ f.chil ∧ b ∈ f.chil ∧ SibSpecG d a b := by
  constructor
  · rintro ⟨fp, h⟩
    have h' : Warning.siblingsBornTooClose fp a b ∈ rawWarnings d now ∨
        Warning.siblingsBornTooClose fp b a ∈ rawWarnings d now :=
      h.imp (fun h => (oncePerPair_sublist _).subset h) (fun h => (oncePerPair_sublist _).subset h)
    obtain ⟨f, hf, _, rest⟩ := (raw_siblings_general d now hg hlo hspan fp a b).mp h'
    exact ⟨f, hf, rest⟩
  · rintro ⟨f, hf, rest⟩
    rcases (raw_siblings_general d now hg hlo hspan f.ptr a b).mpr ⟨f, hf, rfl, rest⟩ with h | h
    · exact opp_sib_kept _ [] [] (by simp [pairsHas]) ⟨f.ptr, h⟩
    · obtain ⟨f', hf'⟩ := opp_sib_kept _ [] [] (by simp [pairsHas]) ⟨f.ptr, h⟩
      exact ⟨f', hf'.symm⟩

/-- the boundary of the guard: child 1 born on 1 Jan 1600, child 2 "Bet. 10 Apr 1892 and 11 Apr
    1892" — 106751 days (292 years) later by the first day, 106752 by the last.  The difference of
    the last days exceeds `time.Duration`, `Time.Sub` saturates at the minimum, `NewDuration`'s
    negation leaves it negative, and "negative < nine months" reports the pair: the condition
    `SibSpecG` is false, the warning is there. -/
def sibFar : Doc :=
  [.indi ⟨1, [], [⟨.birt, [.ok ⟨1, 1, 1600⟩]⟩]⟩,
   .indi ⟨2, [], [⟨.birt, [.gen 0 ⟨10, 4, 1892, .exact, false⟩ ⟨11, 4, 1892, .exact, false⟩]⟩]⟩,
   .fam ⟨1, none, none, [1, 2], []⟩]

theorem siblings_general_counterexample :
    Warning.siblingsBornTooClose 1 1 2 ∈ warnings sibFar today ∧ ¬ SibSpecG sibFar 1 2 ∧
    dayS (.gen 0 ⟨10, 4, 1892, .exact, false⟩ ⟨11, 4, 1892, .exact, false⟩) - dayS (.ok ⟨1, 1, 1600⟩) = 106751 := by
  refine ⟨by decide, ?_, by decide⟩
  rintro ⟨_, x1, x2, h1, h2, _, _, hd⟩
  have e1 : birthOf (indiOf sibFar 1) = some (.ok ⟨1, 1, 1600⟩) := by decide
  have e2 : birthOf (indiOf sibFar 2) =
      some (.gen 0 ⟨10, 4, 1892, .exact, false⟩ ⟨11, 4, 1892, .exact, false⟩) := by decide
  rw [e1] at h1; rw [e2] at h2
  simp only [Option.some.injEq] at h1 h2
  subst h1; subst h2
  revert hd
  decide

/-! Non-vacuity -/

/-- children: "Mar 1830" (month precision), "Bet. 20 Mar 1830 and 2 Apr 1830", "Abt. 1831" (a year:
    365 days wide), "Bef. 30 Nov 1830"; the father "Aft. Apr 1830" is younger than child 1 -/
def sampleG : Doc :=
  [.indi ⟨1, [], [⟨.birt, [.gen 0 ⟨0, 3, 1830, .exact, false⟩ ⟨0, 3, 1830, .exact, false⟩]⟩]⟩,
   .indi ⟨2, [], [⟨.birt, [.gen 0 ⟨20, 3, 1830, .exact, false⟩ ⟨2, 4, 1830, .exact, false⟩]⟩]⟩,
   .indi ⟨3, [], [⟨.birt, [.gen 0 ⟨0, 0, 1831, .about, false⟩ ⟨0, 0, 1831, .about, false⟩]⟩]⟩,
   .indi ⟨4, [], [⟨.birt, [.gen 0 ⟨30, 11, 1830, .before, false⟩ ⟨30, 11, 1830, .before, false⟩]⟩]⟩,
   .indi ⟨5, [], [⟨.birt, [.gen 0 ⟨0, 4, 1830, .after, false⟩ ⟨0, 4, 1830, .after, false⟩]⟩]⟩,
   .fam ⟨1, some 5, none, [1, 2, 3, 4], []⟩]

example : SibDates (dayOf ⟨1, 1, 1800⟩) (dayOf ⟨1, 1, 1900⟩) sampleG ∧ 106753 ≤ dayOf ⟨1, 1, 1800⟩ ∧
    dayOf ⟨1, 1, 1900⟩ - dayOf ⟨1, 1, 1800⟩ ≤ 106751 := by decide
example : warnings sampleG today =
    [.childBornBeforeParent 1 5 1, .childBornBeforeParent 1 5 2,
     .siblingsBornTooClose 1 1 2, .siblingsBornTooClose 1 1 4, .siblingsBornTooClose 1 2 4] := by decide
example : SibDays (dayS (.ok ⟨2, 3, 1830⟩)) (dayE (.ok ⟨2, 3, 1830⟩)) (dayS (.ok ⟨4, 3, 1830⟩))
    (dayE (.ok ⟨4, 3, 1830⟩)) := by decide

end Gedcom.C20
