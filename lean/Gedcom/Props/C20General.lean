/-
  C20 on general dates — the `*_sound_complete` theorems of Props/C20.lean without the `ExactDates`
  guard: DATE values of every shape C04's `parseDateRange` produces (month / year precision,
  Abt. / Bef. / Aft., `Bet. … and …` ranges, half-parsed ranges) as the driver classifies them
  (`DateV.ok` / `.bad` / `.gen`).

  The specification reads a DATE value `x` through four views only:
    * `x.valid`            — neither end is the zero date (`DateRange.IsValid`);
    * `x.parseErr`         — an end carries a parse error;
    * `dayS x`, `dayE x`   — civil day number of the first day of the start date and of the last day
                             of the end date (`dayS_gen` / `dayE_gen`: C05's `firstDay` / `lastDay`);
    * `sYears x`, `eYears x`, `midYears x` — `Years()` of the start date, of the end date and of the
                             range (their mean) as exact fractions (numerator, positive denominator),
                             compared by cross-multiplication as C05 does.
  About `Gedcom.Warn.warnings` (the function the driver runs).
-/
import Gedcom.Props.C20
import Gedcom.Model.WarningsSpec
namespace Gedcom.C20
open Gedcom Gedcom.Warn

/-! ### views of a DATE value used by the specification -/

/-- the start `Years()` of an exact day is C05's fraction; of a general date that of its start -/
theorem sYears_ok (t : Date) : sYears (.ok t) = ((t.year : Int) * t.yearsDen + t.yearsNum, t.yearsDen) := rfl
theorem sYears_gen (l : Nat) (s e : PDate) : sYears (.gen l s e) = s.yearsFrac := rfl
theorem eYears_gen (l : Nat) (s e : PDate) : eYears (.gen l s e) = e.yearsFrac := rfl

/-- for two calendar days the `Years()` scale is the calendar (C05 `years_strict_mono`) -/
theorem fracLt_days {a b : Date} (ha : C05.Full a) (hb : C05.Full b) :
    FracLt (sYears (.ok a)) (sYears (.ok b)) ↔ dayOf a < dayOf b := by
  have := yearsLtV_ok ha hb
  rw [show yearsLtV (some (.ok a)) (some (.ok b)) = decide (a.yearsLt b) from rfl, decide_eq_true_iff] at this
  exact this

theorem yearsLtV_valid {a b : DateV} (ha : a.valid = true) (hb : b.valid = true) :
    yearsLtV (some a) (some b) = true ↔ FracLt (sYears a) (sYears b) := by
  cases a <;> cases b <;>
    simp_all [yearsLtV, DateV.valid, FracLt, sYears, startFrac, fracLt, Date.isBefore, Date.yearsLt] <;>
    exact decide_eq_true_iff

theorem validO_iff_some {b : Option DateV} : validO b = true ↔ ∃ x, b = some x ∧ x.valid = true := by
  cases b <;> simp [validO]

/-! ### ChildBornBeforeParent, every date shape, no guard -/

/-- what the walk collects before the document-level pair set, family by family -/
theorem raw_child_born_before_parent_general (d : Doc) (now : Date) (fp p c : Nat) :
    Warning.childBornBeforeParent fp p c ∈ rawWarnings d now ↔
      ∃ f, Rec.fam f ∈ d ∧ f.ptr = fp ∧ c ∈ f.chil ∧ (f.husb = some p ∨ f.wife = some p) ∧
        ∃ xc xp, birthOf (indiOf d c) = some xc ∧ birthOf (indiOf d p) = some xp ∧
          xc.valid = true ∧ xp.valid = true ∧ FracLt (sYears xc) (sYears xp) := by
  rw [mem_warnings_cases]
  constructor
  · rintro (⟨i, hi, h | h | h | h⟩ | ⟨f, hf, h | h | h | h | h⟩)
    all_goals try wrong_kind h
    rw [mem_cbbp_fam] at h
    simp only [childrenBornBeforeParentsRaw, List.mem_flatMap] at h
    obtain ⟨c', hc', h⟩ := h
    split at h
    · simp at h
    · rename_i hcv
      simp only [Bool.not_eq_true] at hcv
      obtain ⟨xc, hxc, hvc⟩ := validO_iff_some.mp (by simpa using hcv)
      simp only [List.mem_append] at h
      rcases h with h | h
      · split at h
        · rename_i hc
          simp at h
          obtain ⟨rfl, rfl, rfl⟩ := h
          simp only [Bool.and_eq_true] at hc
          obtain ⟨xp, hxp, hvp⟩ := validO_iff_some.mp hc.1
          cases hh : f.husb with
          | none => simp [hh, birthOf] at hxp
          | some hp =>
            simp only [hh, Option.bind_some] at hxp hc
            rw [hxc, hxp, yearsLtV_valid hvc hvp] at hc
            exact ⟨f, hf, rfl, hc', Or.inl (by simp [hh]), xc, xp, hxc, by simpa using hxp, hvc, hvp, hc.2⟩
        · simp at h
      · split at h
        · rename_i hc
          simp at h
          obtain ⟨rfl, rfl, rfl⟩ := h
          simp only [Bool.and_eq_true] at hc
          obtain ⟨xp, hxp, hvp⟩ := validO_iff_some.mp hc.1
          cases hh : f.wife with
          | none => simp [hh, birthOf] at hxp
          | some wp =>
            simp only [hh, Option.bind_some] at hxp hc
            rw [hxc, hxp, yearsLtV_valid hvc hvp] at hc
            exact ⟨f, hf, rfl, hc', Or.inr (by simp [hh]), xc, xp, hxc, by simpa using hxp, hvc, hvp, hc.2⟩
        · simp at h
  · rintro ⟨f, hf, rfl, hc, hpar, xc, xp, hxc, hxp, hvc, hvp, hlt⟩
    refine Or.inr ⟨f, hf, Or.inl ?_⟩
    rw [mem_cbbp_fam]
    simp only [childrenBornBeforeParentsRaw, List.mem_flatMap]
    refine ⟨c, hc, ?_⟩
    have hv : validO (birthOf (indiOf d c)) = true := validO_iff_some.mpr ⟨xc, hxc, hvc⟩
    have hvp' : validO (birthOf (indiOf d p)) = true := validO_iff_some.mpr ⟨xp, hxp, hvp⟩
    have h2 : yearsLtV (birthOf (indiOf d c)) (birthOf (indiOf d p)) = true := by
      rw [hxc, hxp]; exact (yearsLtV_valid hvc hvp).mpr hlt
    simp only [hv, Bool.not_true, Bool.false_eq_true, if_false, List.mem_append]
    rcases hpar with hh | hh
    · left; simp [hh, hvp', h2]
    · right; simp [hh, hvp', h2]

/-- **ChildBornBeforeParent, general dates** (full, no guard): (parent, child) is reported — once,
    in the context of the first family in file order that warrants it — exactly when `child` is a
    CHIL of some family, `parent` its HUSB or WIFE, both have a *valid* birth date (first DATE of the
    first dated BIRT; any shape: imprecise, constrained, a range) and the `Years()` of the start of
    the child's birth is strictly below that of the parent's.  `fracLt_days` reads the comparison
    as one of civil days when both starts are calendar days. -/
theorem child_born_before_parent_sound_complete_general (d : Doc) (now : Date) (p c : Nat) :
    (∃ fp, Warning.childBornBeforeParent fp p c ∈ warnings d now) ↔
      ∃ f, Rec.fam f ∈ d ∧ c ∈ f.chil ∧ (f.husb = some p ∨ f.wife = some p) ∧
        ∃ xc xp, birthOf (indiOf d c) = some xc ∧ birthOf (indiOf d p) = some xp ∧
          xc.valid = true ∧ xp.valid = true ∧ FracLt (sYears xc) (sYears xp) := by
  constructor
  · rintro ⟨fp, h⟩
    obtain ⟨f, hf, _, rest⟩ := (raw_child_born_before_parent_general d now fp p c).mp
      ((oncePerPair_sublist _).subset h)
    exact ⟨f, hf, rest⟩
  · rintro ⟨f, hf, rest⟩
    exact opp_cbbp_kept _ [] [] (by simp)
      ⟨f.ptr, (raw_child_born_before_parent_general d now f.ptr p c).mpr ⟨f, hf, rfl, rest⟩⟩

/-! ### SiblingsBornTooClose on general dates -/

/-- the sibling condition over the four day numbers: neither birth range is 274 days wide or wider,
    the starts are at least 2 days apart, and the starts or the ends are fewer than 274 days apart -/
def SibDays (s1 e1 s2 e2 : Int) : Prop :=
  e1 - s1 < 274 ∧ s1 - e1 < 275 ∧ e2 - s2 < 274 ∧ s2 - e2 < 275 ∧
  (2 ≤ s1 - s2 ∨ 2 ≤ s2 - s1) ∧
  ((s1 - s2 < 274 ∧ s2 - s1 < 274) ∨ (e1 - e2 < 274 ∧ e2 - e1 < 274))

instance (s1 e1 s2 e2 : Int) : Decidable (SibDays s1 e1 s2 e2) := by unfold SibDays; exact inferInstance

theorem SibDays.symm {s1 e1 s2 e2 : Int} (h : SibDays s1 e1 s2 e2) : SibDays s2 e2 s1 e1 := by
  unfold SibDays at *; omega

/-- the documented sibling condition on two children, general birth dates: different people, both
    have a birth date (first DATE of the first dated BIRT) without a parse error, and the day
    numbers of its start and end satisfy `SibDays` -/
def SibSpecG (d : Doc) (c1 c2 : Nat) : Prop :=
  c1 ≠ c2 ∧ ∃ x1 x2, birthOf (indiOf d c1) = some x1 ∧ birthOf (indiOf d c2) = some x2 ∧
    x1.parseErr = false ∧ x2.parseErr = false ∧ SibDays (dayS x1) (dayE x1) (dayS x2) (dayE x2)

theorem SibSpecG.symm {d : Doc} {a b : Nat} (h : SibSpecG d a b) : SibSpecG d b a := by
  obtain ⟨hne, x1, x2, h1, h2, p1, p2, h3⟩ := h
  exact ⟨fun e => hne e.symm, x2, x1, h2, h1, p2, p1, h3.symm⟩

/-- `subErr` is "either operand carries a parse error" -/
def errO : Option DateV → Bool
  | some x => x.parseErr
  | none => false

theorem subErr_eq (b1 b2 : Option DateV) : subErr b1 b2 = (errO b1 || errO b2) := by
  rcases b1 with _ | x1 <;> rcases b2 with _ | x2
  · rfl
  · cases x2 <;> rfl
  · cases x1 <;> simp [subErr, errO, DateV.parseErr]
  · cases x1 <;> cases x2 <;> simp [subErr, errO, DateV.parseErr]

/-- what the guard says about an optional birth date -/
def Shape (lo hi : Int) (b : Option DateV) : Prop :=
  errO b = true ∨
  (errO b = false ∧ startI b = zeroTime ∧ endI b = zeroTime ∧ ∀ x, b = some x → dayS x = 1 ∧ dayE x = 1) ∨
  (errO b = false ∧ ∃ x, b = some x ∧ startI b = dayS x * nsPerDay ∧ endI b = (dayE x + 1) * nsPerDay - 1 ∧
    lo ≤ dayS x ∧ dayS x ≤ hi ∧ lo ≤ dayE x ∧ dayE x ≤ hi)

theorem shape_of_birth {lo hi : Int} {d : Doc} (hg : SibDates lo hi d) (c : Nat) :
    Shape lo hi (birthOf (indiOf d c)) := by
  cases hb : birthOf (indiOf d c) with
  | none => exact Or.inr (Or.inl ⟨rfl, rfl, rfl, by simp⟩)
  | some x =>
    obtain ⟨i, hi⟩ := birthOf_indiOf_some hb
    rw [hi] at hb
    obtain ⟨e, he, _, hx⟩ := birthOf_some hb
    unfold SibDates at hg
    simp only [List.all_eq_true] at hg
    have hok := hg i (mem_indis.mpr (indiOf_some hi).1) e he x hx
    cases hpe : x.parseErr with
    | true => exact Or.inl (by simp [errO, hpe])
    | false =>
      simp only [DateV.sibOK, hpe, Bool.false_or, Bool.or_eq_true, Bool.and_eq_true, beq_iff_eq,
        decide_eq_true_eq] at hok
      rcases hok with ⟨h1, h2⟩ | ⟨⟨⟨⟨⟨h1, h2⟩, h3⟩, h4⟩, h5⟩, h6⟩
      · refine Or.inr (Or.inl ⟨by simp [errO, hpe], h1, h2, ?_⟩)
        intro y hy
        simp only [Option.some.injEq] at hy
        subst hy
        constructor
        · simp [dayS, h1, zeroTime, nsPerDay]
        · simp [dayE, h2, zeroTime, nsPerDay]
      · exact Or.inr (Or.inr ⟨by simp [errO, hpe], x, rfl, h1, h2, h3, h4, h5, h6⟩)

/-- the nanosecond arithmetic of the loop body on two births that are whole days, however far apart
    (with the repaired `NewDuration` the absolute value saturates at the maximum, which lies above
    every threshold) -/
theorem sib_arith_real (s1 e1 s2 e2 : Int) :
    ((¬ dateSub ((e1 + 1) * nsPerDay - 1) (s1 * nsPerDay) ≥ nineMonths) ∧
     (¬ dateSub ((e2 + 1) * nsPerDay - 1) (s2 * nsPerDay) ≥ nineMonths) ∧
     (¬ dateSub (s1 * nsPerDay) (s2 * nsPerDay) < twoDays) ∧
     (dateSub (s1 * nsPerDay) (s2 * nsPerDay) < nineMonths ∨
      dateSub ((e1 + 1) * nsPerDay - 1) ((e2 + 1) * nsPerDay - 1) < nineMonths)) ↔
    SibDays s1 e1 s2 e2 := by
  have q1 := dateSub_spec ((e1 + 1) * nsPerDay - 1) (s1 * nsPerDay)
  have q2 := dateSub_spec ((e2 + 1) * nsPerDay - 1) (s2 * nsPerDay)
  have q3 := dateSub_spec (s1 * nsPerDay) (s2 * nsPerDay)
  have q4 := dateSub_spec ((e1 + 1) * nsPerDay - 1) ((e2 + 1) * nsPerDay - 1)
  generalize dateSub ((e1 + 1) * nsPerDay - 1) (s1 * nsPerDay) = v1 at *
  generalize dateSub ((e2 + 1) * nsPerDay - 1) (s2 * nsPerDay) = v2 at *
  generalize dateSub (s1 * nsPerDay) (s2 * nsPerDay) = v3 at *
  generalize dateSub ((e1 + 1) * nsPerDay - 1) ((e2 + 1) * nsPerDay - 1) = v4 at *
  simp only [nsPerDay, nineMonths, twoDays, SibDays,
    Generated.siblingMaxDays, Generated.siblingMinDays] at *
  omega

/-- a birth at Go's zero time (1 Jan 0001) against a birth of whole days after day 275 (from the year
    2 on): never reported, in either order; two births at the zero time: never reported -/
theorem sib_arith_zero (s e : Int) (hs : 276 ≤ s) (he : 276 ≤ e) :
    ¬ (dateSub zeroTime (s * nsPerDay) < nineMonths ∨
       dateSub zeroTime ((e + 1) * nsPerDay - 1) < nineMonths) ∧
    ¬ (dateSub (s * nsPerDay) zeroTime < nineMonths ∨
       dateSub ((e + 1) * nsPerDay - 1) zeroTime < nineMonths) ∧
    ¬ (¬ dateSub zeroTime zeroTime < twoDays) := by
  have q1 := dateSub_spec zeroTime (s * nsPerDay)
  have q2 := dateSub_spec (s * nsPerDay) zeroTime
  have q3 := dateSub_spec ((e + 1) * nsPerDay - 1) zeroTime
  have q4 := dateSub_spec zeroTime zeroTime
  have q5 := dateSub_spec zeroTime ((e + 1) * nsPerDay - 1)
  generalize dateSub zeroTime ((e + 1) * nsPerDay - 1) = v5 at *
  generalize dateSub zeroTime (s * nsPerDay) = v1 at *
  generalize dateSub (s * nsPerDay) zeroTime = v2 at *
  generalize dateSub ((e + 1) * nsPerDay - 1) zeroTime = v3 at *
  generalize dateSub zeroTime zeroTime = v4 at *
  simp only [nsPerDay, nineMonths, twoDays, zeroTime,
    Generated.siblingMaxDays, Generated.siblingMinDays] at *
  omega

/-- the loop body decides exactly the general sibling condition -/
theorem siblingHit_iff_general {d : Doc} {lo hi : Int} (hg : SibDates lo hi d) (hlo : 276 ≤ lo)
    (c1 c2 : Nat) :
    siblingHit d c1 c2 = true ↔ SibSpecG d c1 c2 := by
  rw [siblingHit_true, subErr_eq]
  unfold SibSpecG
  have sh1 := shape_of_birth hg c1
  have sh2 := shape_of_birth hg c2
  generalize hb1 : birthOf (indiOf d c1) = b1 at *
  generalize hb2 : birthOf (indiOf d c2) = b2 at *
  rcases sh1 with e1 | ⟨n1, z1s, z1e, z1d⟩ | ⟨n1, x1, rfl, r1s, r1e, w1⟩
  · -- child 1 carries a parse error
    constructor
    · rintro ⟨_, _, h3, _⟩; simp [e1] at h3
    · rintro ⟨_, y1, y2, rfl, _, p1, _⟩; simp [errO, p1] at e1
  · rcases sh2 with e2 | ⟨n2, z2s, z2e, z2d⟩ | ⟨n2, x2, rfl, r2s, r2e, w2⟩
    · constructor
      · rintro ⟨_, _, h3, _⟩; simp [e2] at h3
      · rintro ⟨_, y1, y2, _, rfl, _, p2, _⟩; simp [errO, p2] at e2
    · -- both at the zero time
      constructor
      · rintro ⟨_, _, _, _, h5, _⟩
        rw [z1s, z2s] at h5
        exact absurd h5 (sib_arith_zero 276 276 (by omega) (by omega)).2.2
      · rintro ⟨_, y1, y2, rfl, rfl, _, _, hd⟩
        obtain ⟨a1, a2⟩ := z1d _ rfl
        obtain ⟨a3, a4⟩ := z2d _ rfl
        unfold SibDays at hd; omega
    · -- zero time against whole days
      constructor
      · rintro ⟨_, _, _, _, _, h6⟩
        rw [z1s, z1e, r2s, r2e] at h6
        exact absurd h6 (sib_arith_zero (dayS x2) (dayE x2) (by omega) (by omega)).1
      · rintro ⟨_, y1, y2, rfl, e2, _, _, hd⟩
        simp only [Option.some.injEq] at e2; subst e2
        obtain ⟨a1, a2⟩ := z1d _ rfl
        unfold SibDays at hd; omega
  · rcases sh2 with e2 | ⟨n2, z2s, z2e, z2d⟩ | ⟨n2, x2, rfl, r2s, r2e, w2⟩
    · constructor
      · rintro ⟨_, _, h3, _⟩; simp [e2] at h3
      · rintro ⟨_, y1, y2, _, rfl, _, p2, _⟩; simp [errO, p2] at e2
    · -- whole days against the zero time
      constructor
      · rintro ⟨_, _, _, _, _, h6⟩
        rw [r1s, r1e, z2s, z2e] at h6
        exact absurd h6 (sib_arith_zero (dayS x1) (dayE x1) (by omega) (by omega)).2.1
      · rintro ⟨_, y1, y2, e1, rfl, _, _, hd⟩
        simp only [Option.some.injEq] at e1; subst e1
        obtain ⟨a1, a2⟩ := z2d _ rfl
        unfold SibDays at hd; omega
    · -- two births of whole days
      obtain ⟨i1, hi1⟩ := birthOf_indiOf_some hb1
      obtain ⟨i2, hi2⟩ := birthOf_indiOf_some hb2
      have hs := sameIndi_iff hi1 hi2
      have ha := sib_arith_real (dayS x1) (dayE x1) (dayS x2) (dayE x2)
      simp only [errO] at n1 n2
      rw [r1s, r1e, r2s, r2e]
      constructor
      · rintro ⟨h1, h2, _, h4, h5, h6⟩
        have hne : c1 ≠ c2 := by
          intro e
          rw [hs.mpr e] at h2
          simp at h2
        exact ⟨hne, x1, x2, rfl, rfl, n1, n2, ha.mp ⟨h1, h4, h5, h6⟩⟩
      · rintro ⟨hne, y1, y2, e1, e2, _, _, hd⟩
        simp only [Option.some.injEq] at e1 e2
        subst e1; subst e2
        have hsf : sameIndi (indiOf d c1) (indiOf d c2) = false := by
          cases hq : sameIndi (indiOf d c1) (indiOf d c2) with
          | false => rfl
          | true => exact absurd (hs.mp hq) hne
        obtain ⟨h1, h4, h5, h6⟩ := ha.mpr hd
        exact ⟨h1, hsf, by simp [errO, n1, n2], h4, h5, h6⟩


/-- under the guard a pair that meets the condition has two *valid* birth dates (neither end is the
    zero date): the property's "both have a valid birth date" -/
theorem sibSpecG_valid {d : Doc} {lo hi : Int} (hg : SibDates lo hi d) (hlo : 276 ≤ lo)
    {c1 c2 : Nat} (h : SibSpecG d c1 c2) :
    ∃ x1 x2, birthOf (indiOf d c1) = some x1 ∧ birthOf (indiOf d c2) = some x2 ∧
      x1.valid = true ∧ x2.valid = true := by
  obtain ⟨_, x1, x2, h1, h2, p1, p2, hd⟩ := h
  have key : ∀ c x, birthOf (indiOf d c) = some x → x.parseErr = false → 276 ≤ dayS x →
      276 ≤ dayE x → x.valid = true := by
    intro c x hb hp hs he
    cases x with
    | ok t => rfl
    | bad l => simp [DateV.parseErr] at hp
    | gen l s e =>
      have ts : timeOK s = true := by
        cases h : timeOK s with
        | true => rfl
        | false => simp [dayS, startI, h, zeroTime, nsPerDay] at hs
      have te : timeOK e = true := by
        cases h : timeOK e with
        | true => rfl
        | false => simp [dayE, endI, h, zeroTime, nsPerDay] at he
      simp only [timeOK, Bool.and_eq_true, decide_eq_true_eq] at ts te
      have zs : s.isZero = false := by
        cases h : s.isZero with
        | false => rfl
        | true => simp [PDate.isZero] at h; omega
      have ze : e.isZero = false := by
        cases h : e.isZero with
        | false => rfl
        | true => simp [PDate.isZero] at h; omega
      simp [DateV.valid, zs, ze]
  have s1 := shape_of_birth hg c1
  have s2 := shape_of_birth hg c2
  rw [h1] at s1; rw [h2] at s2
  have r1 : 276 ≤ dayS x1 ∧ 276 ≤ dayE x1 ∧ 276 ≤ dayS x2 ∧ 276 ≤ dayE x2 := by
    rcases s1 with e1 | ⟨_, _, _, z1⟩ | ⟨_, y1, e1, _, _, w1⟩
    · simp [errO, p1] at e1
    · obtain ⟨a1, a2⟩ := z1 _ rfl
      rcases s2 with e2 | ⟨_, _, _, z2⟩ | ⟨_, y2, e2, _, _, w2⟩
      · simp [errO, p2] at e2
      · obtain ⟨a3, a4⟩ := z2 _ rfl
        unfold SibDays at hd; omega
      · simp only [Option.some.injEq] at e2; subst e2
        unfold SibDays at hd; omega
    · simp only [Option.some.injEq] at e1; subst e1
      rcases s2 with e2 | ⟨_, _, _, z2⟩ | ⟨_, y2, e2, _, _, w2⟩
      · simp [errO, p2] at e2
      · obtain ⟨a3, a4⟩ := z2 _ rfl
        unfold SibDays at hd; omega
      · simp only [Option.some.injEq] at e2; subst e2
        omega
  exact ⟨x1, x2, h1, h2, key c1 x1 h1 p1 r1.1 r1.2.1, key c2 x2 h2 p2 r1.2.2.1 r1.2.2.2⟩

/-- in the context of one family -/
theorem raw_siblings_general (d : Doc) (now : Date) {lo hi : Int} (hg : SibDates lo hi d)
    (hlo : 276 ≤ lo) (fp a b : Nat) :
    (Warning.siblingsBornTooClose fp a b ∈ rawWarnings d now ∨
     Warning.siblingsBornTooClose fp b a ∈ rawWarnings d now) ↔
      ∃ f, Rec.fam f ∈ d ∧ f.ptr = fp ∧ a ∈ f.chil ∧ b ∈ f.chil ∧ SibSpecG d a b := by
  rw [mem_siblings, mem_siblings]
  constructor
  · rintro (⟨f, hf, rfl, h⟩ | ⟨f, hf, rfl, h⟩)
    · obtain ⟨hm, hh⟩ := (sibInv d f).sound _ h
      obtain ⟨ha, hb⟩ := mem_chilPairs.mp hm
      exact ⟨f, hf, rfl, ha, hb, (siblingHit_iff_general hg hlo a b).mp hh⟩
    · obtain ⟨hm, hh⟩ := (sibInv d f).sound _ h
      obtain ⟨hb, ha⟩ := mem_chilPairs.mp hm
      exact ⟨f, hf, rfl, ha, hb, ((siblingHit_iff_general hg hlo b a).mp hh).symm⟩
  · rintro ⟨f, hf, rfl, ha, hb, hs⟩
    have hh := (siblingHit_iff_general hg hlo a b).mpr hs
    obtain ⟨q, hq, hsym⟩ := pairsHas_iff.mp
      ((sibInv d f).complete (a, b) (mem_chilPairs.mpr ⟨ha, hb⟩) hh)
    obtain ⟨q1, q2⟩ := q
    rcases hsym with ⟨e1, e2⟩ | ⟨e1, e2⟩ <;> simp only at e1 e2 <;> subst e1 <;> subst e2
    · exact Or.inl ⟨f, hf, rfl, hq⟩
    · exact Or.inr ⟨f, hf, rfl, hq⟩

/-- **SiblingsBornTooClose, general dates** (partial: explicit decidable guard `SibDates lo hi d`
    with `276 ≤ lo`; no bound on the distance between dates since `NewDuration` saturates): {a, b} is reported — once, in one order or the other,
    by the first family in file order that warrants it — exactly when `a ≠ b` are CHIL of one
    family, both have a birth date of any shape without a parse error, neither birth range is 274
    days wide or wider, the first days of the two births are at least 2 days apart, and the first
    days or the last days are fewer than 274 days apart.
    The guard: every DATE of an individual that has no parse error either sits at Go's zero time
    with both ends (years 0 and above 9999) or denotes whole days from day 276 on (the year 2: an
    absent birth date sits at Go's zero time, 1 Jan 0001, and a birth in the year 1 would be "close"
    to it).  `siblings_292_years_regression` keeps the witness of the repaired defect. -/
theorem siblings_sound_complete_general_partial (d : Doc) (now : Date) {lo hi : Int}
    (hg : SibDates lo hi d) (hlo : 276 ≤ lo) (a b : Nat) :
    (∃ fp, Warning.siblingsBornTooClose fp a b ∈ warnings d now ∨
           Warning.siblingsBornTooClose fp b a ∈ warnings d now) ↔
      ∃ f, Rec.fam f ∈ d ∧ a ∈ f.chil ∧ b ∈ f.chil ∧ SibSpecG d a b := by
  constructor
  · rintro ⟨fp, h⟩
    have h' : Warning.siblingsBornTooClose fp a b ∈ rawWarnings d now ∨
        Warning.siblingsBornTooClose fp b a ∈ rawWarnings d now :=
      h.imp (fun h => (oncePerPair_sublist _).subset h) (fun h => (oncePerPair_sublist _).subset h)
    obtain ⟨f, hf, _, rest⟩ := (raw_siblings_general d now hg hlo fp a b).mp h'
    exact ⟨f, hf, rest⟩
  · rintro ⟨f, hf, rest⟩
    rcases (raw_siblings_general d now hg hlo f.ptr a b).mpr ⟨f, hf, rfl, rest⟩ with h | h
    · exact opp_sib_kept _ [] [] (by simp [pairsHas]) ⟨f.ptr, h⟩
    · obtain ⟨f', hf'⟩ := opp_sib_kept _ [] [] (by simp [pairsHas]) ⟨f.ptr, h⟩
      exact ⟨f', hf'.symm⟩

/-- the witness of the defect repaired by fixes/C20-duration-saturates.patch: child 1 born on 1 Jan
    1600, child 2 "Bet. 10 Apr 1892 and 11 Apr 1892" — 106751 days (292 years) later by the first
    day, 106752 by the last. -/
def sibFar : Doc :=
  [.indi ⟨1, [], [⟨.birt, [.ok ⟨1, 1, 1600⟩]⟩]⟩,
   .indi ⟨2, [], [⟨.birt, [.gen 0 ⟨10, 4, 1892, .exact, false⟩ ⟨11, 4, 1892, .exact, false⟩]⟩]⟩,
   .fam ⟨1, none, none, [1, 2], []⟩]

/-- regression (known finding siblings-292-years-apart, repaired): the difference of the last days
    exceeds `time.Duration`, `Time.Sub` saturates at the minimum; with the rule before the repair
    (`durAbsOld`: `duration = -duration` alone) the result stayed negative and passed "< nine
    months", so the pair was reported although the condition `SibSpecG` is false; with the repaired
    rule the distance saturates at the maximum and the pair is not reported. -/
theorem siblings_292_years_regression :
    Warning.siblingsBornTooClose 1 1 2 ∉ warnings sibFar today ∧ ¬ SibSpecG sibFar 1 2 ∧
    dayS (.gen 0 ⟨10, 4, 1892, .exact, false⟩ ⟨11, 4, 1892, .exact, false⟩) - dayS (.ok ⟨1, 1, 1600⟩) = 106751 ∧
    durAbsOld (timeSub (endI (birthOf (indiOf sibFar 1))) (endI (birthOf (indiOf sibFar 2)))) < nineMonths ∧
    ¬ dateSub (endI (birthOf (indiOf sibFar 1))) (endI (birthOf (indiOf sibFar 2))) < nineMonths := by
  refine ⟨by decide, ?_, by decide, by decide, by decide⟩
  rintro ⟨_, x1, x2, h1, h2, _, _, hd⟩
  have e1 : birthOf (indiOf sibFar 1) = some (.ok ⟨1, 1, 1600⟩) := by decide
  have e2 : birthOf (indiOf sibFar 2) =
      some (.gen 0 ⟨10, 4, 1892, .exact, false⟩ ⟨11, 4, 1892, .exact, false⟩) := by decide
  rw [e1] at h1; rw [e2] at h2
  simp only [Option.some.injEq] at h1 h2
  subst h1; subst h2
  revert hd
  decide

/-! ### `Years()` on one integer scale, and "the first date with the least / greatest `Years()`"

  The denominators of `Years()` are 1, 2, 366, 732 or 734, so every value is a whole number of
  1/268644 years (`keyOf`).  `DateNodes.Minimum()` / `Maximum()` then select the first element with
  the least start key / greatest end key (`firstMin`, `firstMax`: plain recursion over the list,
  unlike the code's left fold with its running candidate). -/

def GoodDen (n : Int) : Prop := n = 1 ∨ n = 2 ∨ n = 366 ∨ n = 732 ∨ n = 734

theorem keyOf_mul (f : Int × Int) (h : GoodDen f.2) : keyOf f * f.2 = 268644 * f.1 := by
  unfold keyOf
  rcases h with h | h | h | h | h <;> rw [h] <;> omega

theorem fracLt_key {a b : Int × Int} (ha : GoodDen a.2) (hb : GoodDen b.2) :
    FracLt a b ↔ keyOf a < keyOf b := by
  unfold FracLt keyOf
  rcases ha with h | h | h | h | h <;> rcases hb with h' | h' | h' | h' | h' <;> rw [h, h'] <;> omega

theorem cum_nonneg (l : Bool) (m : Nat) : 0 ≤ cum l m := by
  unfold cum
  split <;> (try split) <;> omega

theorem dim_nonneg (l : Bool) (m : Nat) : 0 ≤ dim l m := by
  unfold dim
  split <;> (try split) <;> omega

theorem yearsNum_pos' (t : Date) : 0 < t.yearsNum := by
  unfold Date.yearsNum yearDay
  have c := cum_nonneg (isLeap t.year) t.month
  have dn := dim_nonneg (isLeap t.year) t.month
  split
  · rcases daysInYear_cases (t.year : Int) with e | e <;> rw [e] <;> omega
  · split
    · omega
    · omega

theorem date_frac_good (t : Date) :
    GoodDen t.yearsDen ∧ 0 < (t.year : Int) * t.yearsDen + t.yearsNum := by
  have hp := yearsNum_pos' t
  have hy : (0 : Int) ≤ (t.year : Int) := Int.natCast_nonneg _
  rcases yearsDen_cases t with e | e
  · exact ⟨Or.inr (Or.inr (Or.inr (Or.inl e))), by rw [e]; omega⟩
  · exact ⟨Or.inr (Or.inr (Or.inr (Or.inr e))), by rw [e]; omega⟩

theorem pfrac_good (p : PDate) : GoodDen p.yearsFrac.2 ∧ 0 ≤ p.yearsFrac.1 := by
  unfold PDate.yearsFrac
  split
  · exact ⟨Or.inl rfl, by simp⟩
  · split
    · have := date_frac_good p.toDate
      exact ⟨this.1, by have := this.2; simp only [PDate.toDate] at *; omega⟩
    · split
      · exact ⟨Or.inr (Or.inl rfl), by simp only; omega⟩
      · exact ⟨Or.inr (Or.inr (Or.inl rfl)), by simp⟩

theorem keyOf_nonneg {f : Int × Int} (h : GoodDen f.2) (hn : 0 ≤ f.1) : 0 ≤ keyOf f := by
  unfold keyOf
  rcases h with h | h | h | h | h <;> rw [h] <;> omega

theorem keyOf_pos {f : Int × Int} (h : GoodDen f.2) (hn : 0 < f.1) : 0 < keyOf f := by
  unfold keyOf
  rcases h with h | h | h | h | h <;> rw [h] <;> omega

theorem sYears_good (x : DateV) : GoodDen (sYears x).2 ∧ 0 ≤ (sYears x).1 := by
  cases x with
  | ok t => have := date_frac_good t; exact ⟨this.1, Int.le_of_lt this.2⟩
  | bad l => exact ⟨Or.inl rfl, by simp [sYears, startFrac]⟩
  | gen l s e => exact pfrac_good s

theorem eYears_good (x : DateV) : GoodDen (eYears x).2 ∧ 0 ≤ (eYears x).1 := by
  cases x with
  | ok t => have := date_frac_good t; exact ⟨this.1, Int.le_of_lt this.2⟩
  | bad l => exact ⟨Or.inl rfl, by simp [eYears, endFrac]⟩
  | gen l s e => exact pfrac_good e

/-- `Minimum()`'s comparison is `<` on the start keys, for values of every shape -/
theorem yearsLtV_key (y m : DateV) : yearsLtV (some y) (some m) = true ↔ skey y < skey m := by
  have gy := sYears_good y
  have gm := sYears_good m
  have hk := fracLt_key gy.1 gm.1
  unfold skey
  cases m with
  | bad l =>
    have : keyOf (sYears (.bad l)) = 0 := by simp [keyOf, sYears, startFrac]
    have := keyOf_nonneg gy.1 gy.2
    cases y <;> simp [yearsLtV] <;> omega
  | ok t =>
    cases y with
    | ok u =>
      rw [← hk]
      show decide (u.yearsLt t) = true ↔ _
      rw [decide_eq_true_iff]; rfl
    | bad l =>
      have h0 : keyOf (sYears (.bad l)) = 0 := by simp [keyOf, sYears, startFrac]
      have := keyOf_pos (f := sYears (.ok t)) (date_frac_good t).1 (date_frac_good t).2
      simp only [yearsLtV, true_iff, h0]
      exact this
    | gen l s e =>
      rw [← hk]
      show fracLt _ _ = true ↔ _
      simp only [fracLt, decide_eq_true_iff]; rfl
  | gen l s e =>
    rw [← hk]
    cases y <;> (show fracLt _ _ = true ↔ _) <;> simp only [fracLt, decide_eq_true_iff] <;> rfl

/-- `Maximum()`'s comparison is `<` on the end keys -/
theorem yearsLtE_key (y m : DateV) : yearsLtE (some y) (some m) = true ↔ ekey y < ekey m := by
  have gy := eYears_good y
  have gm := eYears_good m
  have hk := fracLt_key gy.1 gm.1
  unfold ekey
  cases m with
  | bad l =>
    have : keyOf (eYears (.bad l)) = 0 := by simp [keyOf, eYears, endFrac]
    have := keyOf_nonneg gy.1 gy.2
    cases y <;> simp [yearsLtE] <;> omega
  | ok t =>
    cases y with
    | ok u =>
      rw [← hk]
      show decide (u.yearsLt t) = true ↔ _
      rw [decide_eq_true_iff]; rfl
    | bad l =>
      have h0 : keyOf (eYears (.bad l)) = 0 := by simp [keyOf, eYears, endFrac]
      have := keyOf_pos (f := eYears (.ok t)) (date_frac_good t).1 (date_frac_good t).2
      simp only [yearsLtE, true_iff, h0]
      exact this
    | gen l s e =>
      rw [← hk]
      show fracLt _ _ = true ↔ _
      simp only [fracLt, decide_eq_true_iff]; rfl
  | gen l s e =>
    rw [← hk]
    cases y <;> (show fracLt _ _ = true ↔ _) <;> simp only [fracLt, decide_eq_true_iff] <;> rfl

/-- what `firstMin` returns: an element, nothing before it has a key as small, nothing after it a
    smaller one -/
theorem firstMin_spec (key : DateV → Int) : ∀ (ds : List DateV) (a : DateV), firstMin key ds = some a →
    ∃ pre post, ds = pre ++ a :: post ∧ (∀ x ∈ pre, key a < key x) ∧ (∀ x ∈ post, key a ≤ key x) := by
  intro ds
  induction ds with
  | nil => intro a h; simp [firstMin] at h
  | cons x rest ih =>
    intro a h
    simp only [firstMin] at h
    cases hr : firstMin key rest with
    | none =>
      rw [hr] at h
      simp only [Option.some.injEq] at h
      subst h
      have : rest = [] := by
        cases rest with
        | nil => rfl
        | cons y ys =>
          simp only [firstMin] at hr
          split at hr
          · simp at hr
          · split at hr <;> simp at hr
      subst this
      exact ⟨[], [], rfl, by simp, by simp⟩
    | some m =>
      rw [hr] at h
      obtain ⟨pre, post, e, h1, h2⟩ := ih m hr
      simp only at h
      split at h
      · rename_i hlt
        simp only [Option.some.injEq] at h
        subst h
        refine ⟨x :: pre, post, by rw [e]; rfl, ?_, h2⟩
        intro y hy
        rcases List.mem_cons.mp hy with rfl | hy
        · exact hlt
        · exact h1 y hy
      · rename_i hlt
        simp only [Option.some.injEq] at h
        subst h
        refine ⟨[], rest, rfl, by simp, ?_⟩
        intro y hy
        rw [e] at hy
        rcases List.mem_append.mp hy with hy | hy
        · have := h1 y hy; omega
        · rcases List.mem_cons.mp hy with rfl | hy
          · omega
          · have := h2 y hy; omega

theorem fold_firstMin (key : DateV → Int) (step : DateV → DateV → DateV)
    (hstep : ∀ m y, step m y = if key y < key m then y else m) :
    ∀ (rest : List DateV) (m : DateV), rest.foldl step m =
      match firstMin key rest with
      | none => m
      | some r => if key r < key m then r else m := by
  intro rest
  induction rest with
  | nil => intro m; rfl
  | cons y ys ih =>
    intro m
    simp only [List.foldl_cons, firstMin]
    rw [ih, hstep]
    cases firstMin key ys with
    | none => rfl
    | some r =>
      simp only
      by_cases h1 : key y < key m <;> by_cases h2 : key r < key y <;> by_cases h3 : key r < key m <;>
        simp [h1, h2, h3] <;> omega

theorem firstMin_skey (ds : List DateV) : firstMin skey ds = minimumV ds := by
  cases ds with
  | nil => rfl
  | cons x rest =>
    rw [minimumV_cons, fold_firstMin skey minStep (fun m y => by
      unfold minStep
      by_cases h : skey y < skey m
      · rw [if_pos h, if_pos ((yearsLtV_key y m).mpr h)]
      · rw [if_neg h, if_neg (fun h' => h ((yearsLtV_key y m).mp h'))])]
    simp only [firstMin]
    cases firstMin skey rest with
    | none => rfl
    | some r => simp only; split <;> rfl

theorem firstMax_ekey (ds : List DateV) : firstMax ekey ds = maximumV ds := by
  unfold firstMax
  cases ds with
  | nil => rfl
  | cons x rest =>
    rw [maximumV_cons, fold_firstMin (fun x => - ekey x) maxStep (fun m y => by
      unfold maxStep
      by_cases h : ekey m < ekey y
      · rw [if_pos ((yearsLtE_key m y).mpr h), if_pos (by omega)]
      · rw [if_neg (fun h' => h ((yearsLtE_key m y).mp h')), if_neg (by omega)])]
    simp only [firstMin]
    cases firstMin (fun x => - ekey x) rest with
    | none => rfl
    | some r => simp only; split <;> rfl

theorem estBirthS_eq (i : Indi) : estBirthS i = estBirth i := by
  unfold estBirthS estBirth
  simp only [firstMin_skey]

theorem estDeathS_eq (i : Indi) : estDeathS i = estDeath i := by
  unfold estDeathS estDeath
  simp only [firstMin_skey]

/-! ### MarriedOutOfRange on general dates -/

theorem wholeIn_iff {lo hi : Int} {x : DateV} : x.wholeIn lo hi = true ↔
    startI (some x) = dayS x * nsPerDay ∧ endI (some x) = (dayE x + 1) * nsPerDay - 1 ∧
      lo ≤ dayS x ∧ dayS x ≤ hi ∧ lo ≤ dayE x ∧ dayE x ≤ hi := by
  simp only [DateV.wholeIn, Bool.and_eq_true, beq_iff_eq, decide_eq_true_eq, and_assoc]

theorem WholeDates.indi {lo hi : Int} {d : Doc} (h : WholeDates lo hi d) {i : Indi}
    (hi' : Rec.indi i ∈ d) {e : Ev} (he : e ∈ i.events) {x : DateV} (hx : x ∈ e.dates)
    (hv : x.valid = true) : x.wholeIn lo hi = true := by
  unfold WholeDates at h
  rw [List.all_eq_true] at h
  have := h _ hi'
  simp only [List.all_eq_true] at this
  simpa [hv] using this e he _ hx

theorem WholeDates.fam {lo hi : Int} {d : Doc} (h : WholeDates lo hi d) {f : Fam}
    (hf : Rec.fam f ∈ d) {e : Ev} (he : e ∈ f.events) {x : DateV} (hx : x ∈ e.dates)
    (hv : x.valid = true) : x.wholeIn lo hi = true := by
  unfold WholeDates at h
  rw [List.all_eq_true] at h
  have := h _ hf
  simp only [List.all_eq_true] at this
  simpa [hv] using this e he _ hx

theorem fold_max_mem : ∀ (rest : List DateV) (m : DateV),
    rest.foldl maxStep m = m ∨ rest.foldl maxStep m ∈ rest := by
  intro rest
  induction rest with
  | nil => intro m; exact Or.inl rfl
  | cons y rest ih =>
    intro m
    simp only [List.foldl_cons]
    rcases ih (maxStep m y) with h | h
    · rw [h]
      unfold maxStep
      split
      · exact Or.inr (by simp)
      · exact Or.inl rfl
    · exact Or.inr (by simp [h])

theorem maximumV_mem {ds : List DateV} {x : DateV} (h : maximumV ds = some x) : x ∈ ds := by
  cases ds with
  | nil => simp [maximumV] at h
  | cons y rest =>
    rw [maximumV_cons] at h
    simp only [Option.some.injEq] at h
    subst h
    rcases fold_max_mem rest y with h | h
    · rw [h]; simp
    · simp [h]

theorem ageAt_valid {i : Indi} {a c xb : DateV} (heb : estBirth i = some xb) (hv : xb.valid = true) :
    (ageAt i a c).known = true ∧
    (ageAt i a c).hi =
      if dateSub (startI (some a)) (startI (some xb)) > dateSub (endI (some c)) (endI (some xb))
      then dateSub (startI (some a)) (startI (some xb))
      else dateSub (endI (some c)) (endI (some xb)) := by
  unfold ageAt
  simp only [heb, validO, hv, Bool.not_true, Bool.false_eq_true, if_false]
  split <;> simp

/-- the age arithmetic on whole days, however far apart (the distances saturate at the maximum
    duration, above both limits): the larger of the two
    distances (first day to first day, last day to last day) against 16 and 100 years of 365.25 days -/
theorem moor_arith_gen (A B1 C B2 : Int) :
    ((if dateSub (A * nsPerDay) (B1 * nsPerDay) > dateSub ((C + 1) * nsPerDay - 1) ((B2 + 1) * nsPerDay - 1)
      then dateSub (A * nsPerDay) (B1 * nsPerDay)
      else dateSub ((C + 1) * nsPerDay - 1) ((B2 + 1) * nsPerDay - 1)) <
        Generated.minMarriageAge * Generated.yearNs ↔
      absd A B1 * 4 < 16 * 1461 ∧ absd C B2 * 4 < 16 * 1461) ∧
    ((if dateSub (A * nsPerDay) (B1 * nsPerDay) > dateSub ((C + 1) * nsPerDay - 1) ((B2 + 1) * nsPerDay - 1)
      then dateSub (A * nsPerDay) (B1 * nsPerDay)
      else dateSub ((C + 1) * nsPerDay - 1) ((B2 + 1) * nsPerDay - 1)) >
        Generated.maxMarriageAge * Generated.yearNs ↔
      absd A B1 * 4 > 100 * 1461 ∨ absd C B2 * 4 > 100 * 1461) := by
  have s1 := dateSub_spec (A * nsPerDay) (B1 * nsPerDay)
  have s2 := dateSub_spec ((C + 1) * nsPerDay - 1) ((B2 + 1) * nsPerDay - 1)
  generalize dateSub (A * nsPerDay) (B1 * nsPerDay) = v1 at *
  generalize dateSub ((C + 1) * nsPerDay - 1) ((B2 + 1) * nsPerDay - 1) = v2 at *
  simp only [nsPerDay, absd, Generated.minMarriageAge, Generated.maxMarriageAge, Generated.yearNs] at *
  constructor
  · split <;> split <;> split <;> omega
  · split <;> split <;> split <;> omega

/-- the two day distances the married check looks at: first day of the earliest marriage date
    against the first day of the estimated birth, last day of the latest marriage date against the
    last day of the estimated birth -/
def MoorYoung (a b xb : DateV) : Prop :=
  absd (dayS a) (dayS xb) * 4 < 16 * 1461 ∧ absd (dayE b) (dayE xb) * 4 < 16 * 1461
def MoorOld (a b xb : DateV) : Prop :=
  absd (dayS a) (dayS xb) * 4 > 100 * 1461 ∨ absd (dayE b) (dayE xb) * 4 > 100 * 1461

theorem minimumV_none {ds : List DateV} : minimumV ds = none ↔ ds = [] := by
  cases ds <;> simp [minimumV]
theorem maximumV_none {ds : List DateV} : maximumV ds = none ↔ ds = [] := by
  cases ds <;> simp [maximumV]

theorem ageAtEvent_general {i : Indi} {e : Ev} {lo hi : Int}
    (hi_ : ∀ e' ∈ i.events, ∀ x ∈ e'.dates, x.valid = true → x.wholeIn lo hi = true)
    (he : ∀ x ∈ e.dates, x.valid = true → x.wholeIn lo hi = true) :
    (((ageAtEvent i e).known = true ∧
        (ageAtEvent i e).hi < Generated.minMarriageAge * Generated.yearNs) ↔
      ∃ xb a b, estBirth i = some xb ∧ xb.valid = true ∧
        minimumV (e.dates.filter DateV.valid) = some a ∧
        maximumV (e.dates.filter DateV.valid) = some b ∧ MoorYoung a b xb) ∧
    ((ageAtEvent i e).hi > Generated.maxMarriageAge * Generated.yearNs ↔
      ∃ xb a b, estBirth i = some xb ∧ xb.valid = true ∧
        minimumV (e.dates.filter DateV.valid) = some a ∧
        maximumV (e.dates.filter DateV.valid) = some b ∧ MoorOld a b xb) := by
  have hpos := yearNs_pos
  have hpos2 : (0 : Int) < Generated.minMarriageAge * Generated.yearNs := by
    simp [Generated.minMarriageAge, Generated.yearNs]
  unfold ageAtEvent
  simp only
  cases hmin : minimumV (e.dates.filter DateV.valid) with
  | none =>
    simp only [unknownAges]
    refine ⟨⟨fun h => by simp at h, ?_⟩, ⟨fun h => by omega, ?_⟩⟩ <;>
      · rintro ⟨_, _, _, _, _, h, _⟩; simp at h
  | some a =>
    cases hmax : maximumV (e.dates.filter DateV.valid) with
    | none =>
      rw [maximumV_none] at hmax
      rw [hmax] at hmin
      simp [minimumV] at hmin
    | some b =>
      simp only
      by_cases hv : validO (estBirth i) = true
      · obtain ⟨xb, hxb, hvb⟩ := validO_iff_some.mp hv
        obtain ⟨hk, hhi⟩ := ageAt_valid (a := a) (c := b) hxb hvb
        obtain ⟨eb', heb', hxb'⟩ := estBirth_mem hxb
        obtain ⟨w1, w2, w3, w4, w5, w6⟩ := wholeIn_iff.mp (hi_ eb' heb' xb hxb' hvb)
        have hma := List.mem_filter.mp (minimumV_mem hmin)
        have hmb := List.mem_filter.mp (maximumV_mem hmax)
        obtain ⟨u1, u2, u3, u4, u5, u6⟩ := wholeIn_iff.mp (he a hma.1 hma.2)
        obtain ⟨v1, v2, v3, v4, v5, v6⟩ := wholeIn_iff.mp (he b hmb.1 hmb.2)
        have ar := moor_arith_gen (dayS a) (dayS xb) (dayE b) (dayE xb)
        rw [hhi, hk, u1, w1, v2, w2]
        constructor
        · constructor
          · rintro ⟨_, h⟩
            exact ⟨xb, a, b, hxb, hvb, rfl, rfl, ar.1.mp h⟩
          · rintro ⟨xb', a', b', h1, _, h2, h3, h4⟩
            rw [hxb] at h1
            simp only [Option.some.injEq] at h1 h2 h3
            subst h1; subst h2; subst h3
            exact ⟨rfl, ar.1.mpr h4⟩
        · constructor
          · intro h
            exact ⟨xb, a, b, hxb, hvb, rfl, rfl, ar.2.mp h⟩
          · rintro ⟨xb', a', b', h1, _, h2, h3, h4⟩
            rw [hxb] at h1
            simp only [Option.some.injEq] at h1 h2 h3
            subst h1; subst h2; subst h3
            exact ar.2.mpr h4
      · have hv' : validO (estBirth i) = false := by simpa using hv
        obtain ⟨hk, hhi⟩ := ageAt_unknown (a := a) (c := b) hv'
        rw [hk, hhi]
        refine ⟨⟨fun h => by simp at h, ?_⟩, ⟨fun h => by omega, ?_⟩⟩ <;>
          · rintro ⟨xb, _, _, h1, h2, _⟩
            rw [h1] at hv
            simp [validO, h2] at hv

/-- **MarriedOutOfRange, general dates** (partial: explicit decidable guard `WholeDates lo hi d` for
    any `lo`, `hi`: every valid DATE denotes whole days of the years 1..9999, not Go's zero time; no
    bound on the distance between dates since `NewDuration` saturates).  For the MARR node at position `k` of family `fp` and spouse `sp`: reported
    exactly when `sp` is the HUSB or WIFE, the estimated birth `xb` of `sp` (`estBirthS`: the first
    of all BIRT dates with the least start `Years()`, else of all baptism dates) is a valid date of
    any shape, the node has a valid date, and with `a` = the first of its valid dates with the least
    start `Years()` and `b` = the first with the greatest end `Years()`
    * young: first day of `a` and last day of `b` are both fewer than 16 × 365.25 days from the first
      / last day of `xb`;
    * old: one of the two distances exceeds 100 × 365.25 days. -/
theorem married_sound_complete_general_partial (d : Doc) (now : Date) {lo hi : Int}
    (hg : WholeDates lo hi d) (fp sp : Nat) (old : Bool) (k : Nat) :
    Warning.marriedOutOfRange fp sp old k ∈ warnings d now ↔
      ∃ f, Rec.fam f ∈ d ∧ f.ptr = fp ∧ (f.husb = some sp ∨ f.wife = some sp) ∧
        ∃ e, f.events[k]? = some e ∧ e.kind = .marr ∧
          ∃ i, indiOf d sp = some i ∧ ∃ xb a b, estBirthS i = some xb ∧ xb.valid = true ∧
            firstMin skey (e.dates.filter DateV.valid) = some a ∧
            firstMax ekey (e.dates.filter DateV.valid) = some b ∧
            ((old = false ∧ MoorYoung a b xb) ∨ (old = true ∧ MoorOld a b xb)) := by
  simp only [estBirthS_eq, firstMin_skey, firstMax_ekey]
  have spec : ∀ f, Rec.fam f ∈ d → ∀ e, e ∈ f.events → ∀ i, indiOf d sp = some i → _ :=
    fun f hf e he i hi' => ageAtEvent_general (i := i) (e := e)
      (fun e' he' x hx hv => hg.indi (indiOf_some hi').1 he' hx hv)
      (fun x hx hv => hg.fam hf he hx hv)
  rw [warnings, mem_oncePerPair_other (by simp [Warning.kind]) (by simp [Warning.kind]), mem_warnings_cases]
  constructor
  · rintro (⟨i, hi, h | h | h | h⟩ | ⟨f, hf, h | h | h | h | h⟩)
    all_goals try wrong_kind h
    unfold marriedOutOfRange at h
    obtain ⟨j, e, hj, hm⟩ := (mem_marriedFrom f.events 0).mp h
    obtain ⟨hk, rfl, rfl, i, hi, hsp, hc⟩ := mem_marriedAt.mp hm
    have he := List.mem_of_getElem? hj
    have sp' := spec f hf e he i hi
    refine ⟨f, hf, rfl, hsp, e, by simpa using hj, hk, i, hi, ?_⟩
    rcases hc with ⟨rfl, h1, h2⟩ | ⟨rfl, h1⟩
    · obtain ⟨xb, a, b, r1, r2, r3, r4, r5⟩ := sp'.1.mp ⟨h1, h2⟩
      exact ⟨xb, a, b, r1, r2, r3, r4, Or.inl ⟨rfl, r5⟩⟩
    · obtain ⟨xb, a, b, r1, r2, r3, r4, r5⟩ := sp'.2.mp h1
      exact ⟨xb, a, b, r1, r2, r3, r4, Or.inr ⟨rfl, r5⟩⟩
  · rintro ⟨f, hf, rfl, hsp, e, hj, hk, i, hi, xb, a, b, r1, r2, r3, r4, hc⟩
    refine Or.inr ⟨f, hf, Or.inr (Or.inr (Or.inl ?_))⟩
    unfold marriedOutOfRange
    rw [mem_marriedFrom]
    refine ⟨k, e, hj, ?_⟩
    rw [Nat.zero_add, mem_marriedAt]
    have he := List.mem_of_getElem? hj
    have sp' := spec f hf e he i hi
    refine ⟨hk, rfl, rfl, i, hi, hsp, ?_⟩
    rcases hc with ⟨rfl, r5⟩ | ⟨rfl, r5⟩
    · have := sp'.1.mpr ⟨xb, a, b, r1, r2, r3, r4, r5⟩
      exact Or.inl ⟨rfl, this.1, this.2⟩
    · exact Or.inr ⟨rfl, sp'.2.mpr ⟨xb, a, b, r1, r2, r3, r4, r5⟩⟩


/-! ### IndividualTooOld on general dates -/

theorem midYears_ok (t : Date) : midYears (.ok t) = sYears (.ok t) := rfl
theorem midYears_gen (l : Nat) (s e : PDate) : midYears (.gen l s e) =
    (s.yearsFrac.1 * e.yearsFrac.2 + e.yearsFrac.1 * s.yearsFrac.2, 2 * (s.yearsFrac.2 * e.yearsFrac.2)) := rfl

/-- `Years(xd) − Years(xb) > n` on the ranges' `Years()` (cross-multiplied) -/
def MidYearsApartGt (xb xd : DateV) (n : Int) : Prop :=
  (midYears xd).1 * (midYears xb).2 - (midYears xb).1 * (midYears xd).2 >
    n * ((midYears xd).2 * (midYears xb).2)

instance (xb xd : DateV) (n : Int) : Decidable (MidYearsApartGt xb xd n) := by
  unfold MidYearsApartGt; exact inferInstance

/-- on exact days this is the `YearsApartGt` of `too_old_sound_complete` -/
theorem midYearsApart_ok (tb td : Date) (n : Int) :
    MidYearsApartGt (.ok tb) (.ok td) n ↔ YearsApartGt tb td n := Iff.rfl

theorem midDen_bounds (x : DateV) : 0 < (midYears x).2 ∧ (midYears x).2 ≤ 1077512 := by
  cases x with
  | ok t =>
    simp only [midYears, yearsFrac]
    rcases yearsDen_cases t with e | e <;> rw [e] <;> omega
  | bad l => simp [midYears, yearsFrac]
  | gen l s e =>
    simp only [midYears, yearsFrac]
    rcases (pfrac_good s).1 with h | h | h | h | h <;> rcases (pfrac_good e).1 with h' | h' | h' | h' | h' <;>
      rw [h, h'] <;> omega

theorem trunc_gt (N D : Int) (h0 : 0 < D) (h1 : D < 31557600000000000) :
    truncDiv (N * Generated.yearNs) D > Generated.maxLivingAge * Generated.yearNs ↔ N > 100 * D := by
  unfold truncDiv
  have hK : Generated.yearNs = 31557600000000000 := rfl
  have hM : Generated.maxLivingAge = 100 := rfl
  rw [hM, hK]
  by_cases h : N * 31557600000000000 ≥ 0
  · rw [if_pos h]
    have key : 100 * 31557600000000000 + 1 ≤ N * 31557600000000000 / D ↔
        (100 * 31557600000000000 + 1) * D ≤ N * 31557600000000000 := Int.le_ediv_iff_mul_le h0
    constructor
    · intro hh; have := key.mp (by omega); omega
    · intro hh; have := key.mpr (by omega); omega
  · rw [if_neg h]
    have : 0 ≤ (-(N * 31557600000000000)) / D := Int.ediv_nonneg (by omega) (by omega)
    constructor <;> intro hh <;> omega

theorem ageAt_c_valid {i : Indi} {a c xb : DateV} (heb : estBirth i = some xb) (hv : xb.valid = true) :
    (ageAt i a c).c =
      if yearsLtV (some a) (some xb) then AgeC.beforeBirth
      else if yearsLtE (estDeath i) (some c) && (estDeath i).isSome then AgeC.afterDeath
      else AgeC.living := by
  unfold ageAt
  simp only [heb, validO, hv, Bool.not_true, Bool.false_eq_true, if_false]
  split <;> rfl

theorem PastDates.indi {now : Date} {d : Doc} (h : PastDates now d) {i : Indi} (hi : Rec.indi i ∈ d)
    {e : Ev} (he : e ∈ i.events) {x : DateV} (hx : x ∈ e.dates) :
    skey x ≤ skey (.ok now) ∧ ekey x < ekey (.ok now) := by
  unfold PastDates at h
  simp only [List.all_eq_true] at h
  simpa [DateV.past] using h i (mem_indis.mpr hi) e he x hx

theorem tooOld_iff_general {i : Indi} {now : Date}
    (hpast : ∀ e ∈ i.events, ∀ x ∈ e.dates, skey x ≤ skey (.ok now) ∧ ekey x < ekey (.ok now)) :
    ((ageNow i now).hi > Generated.maxLivingAge * Generated.yearNs ∧ (estDeath i).isSome = true) ↔
      ∃ xb xd, estBirth i = some xb ∧ xb.valid = true ∧ estDeath i = some xd ∧
        MidYearsApartGt xb xd 100 := by
  have hpos : (0 : Int) < Generated.maxLivingAge * Generated.yearNs := by
    simp [Generated.maxLivingAge, Generated.yearNs]
  by_cases hv : validO (estBirth i) = true
  · obtain ⟨xb, heb, hvb⟩ := validO_iff_some.mp hv
    obtain ⟨eb', heb', hxb'⟩ := estBirth_mem heb
    have hbp := hpast eb' heb' xb hxb'
    have hnb : yearsLtV (some (.ok now)) (some xb) = false := by
      cases h : yearsLtV (some (.ok now)) (some xb) with
      | false => rfl
      | true => have := (yearsLtV_key _ _).mp h; omega
    have hc := ageAt_c_valid (a := .ok now) (c := .ok now) heb hvb
    rw [hnb] at hc
    simp only [Bool.false_eq_true, if_false] at hc
    cases hed : estDeath i with
    | none =>
      constructor
      · rintro ⟨_, h⟩; simp at h
      · rintro ⟨_, _, _, _, h, _⟩; simp at h
    | some xd =>
      obtain ⟨ed', hed', hxd'⟩ := estDeath_mem hed
      have hdp := hpast ed' hed' xd hxd'
      have hafter : (ageAt i (.ok now) (.ok now)).c = AgeC.afterDeath := by
        rw [hc, hed]
        simp [(yearsLtE_key xd (.ok now)).mpr hdp.2]
      have hage : (ageNow i now).hi =
          truncDiv (((yearsFrac (some xd)).1 * (yearsFrac (some xb)).2 -
            (yearsFrac (some xb)).1 * (yearsFrac (some xd)).2) * Generated.yearNs)
            ((yearsFrac (some xd)).2 * (yearsFrac (some xb)).2) := by
        unfold ageNow
        simp only [hafter, if_true, hed, heb]
      have b1 := midDen_bounds xd
      have b2 := midDen_bounds xb
      simp only [midYears] at b1 b2
      have hD0 : 0 < (yearsFrac (some xd)).2 * (yearsFrac (some xb)).2 := Int.mul_pos b1.1 b2.1
      have hD1 : (yearsFrac (some xd)).2 * (yearsFrac (some xb)).2 ≤ 1077512 * 1077512 :=
        Int.mul_le_mul b1.2 b2.2 (by omega) (by omega)
      rw [hage, trunc_gt _ _ hD0 (by omega)]
      constructor
      · rintro ⟨h, _⟩
        exact ⟨xb, xd, heb, hvb, rfl, by unfold MidYearsApartGt midYears; omega⟩
      · rintro ⟨xb', xd', e1, _, e2, h⟩
        rw [heb] at e1
        simp only [Option.some.injEq] at e1 e2
        subst e1; subst e2
        exact ⟨by unfold MidYearsApartGt midYears at h; omega, rfl⟩
  · have hv' : validO (estBirth i) = false := by simpa using hv
    have : ageNow i now = unknownAges := by
      unfold ageNow ageAt
      simp [hv', unknownAges]
    rw [this]
    constructor
    · rintro ⟨h, _⟩; simp only [unknownAges] at h; omega
    · rintro ⟨xb, _, h, h2, _⟩
      rw [h] at hv'; simp [validO, h2] at hv'

/-- **IndividualTooOld, general dates** (guard = the property's own domain: every DATE of an
    individual lies in the past, `PastDates`, decidable; dates of every shape): reported for `p`
    exactly when `p` has an estimated birth `xb` that is a valid date, an estimated death `xd`
    (`estBirthS` / `estDeathS`: the first date with the least start `Years()` among the BIRT dates,
    else the baptism dates / among the DEAT dates, else the BURI dates) and
    `Years(xd) − Years(xb) > 100`, `Years()` of a range being the mean of its two ends (exact
    fractions, `midYears`). -/
theorem too_old_sound_complete_general (d : Doc) (now : Date) (hp : PastDates now d) (p : Nat) :
    Warning.individualTooOld p ∈ warnings d now ↔
      ∃ i, Rec.indi i ∈ d ∧ i.ptr = p ∧ ∃ xb xd, estBirthS i = some xb ∧ xb.valid = true ∧
        estDeathS i = some xd ∧ MidYearsApartGt xb xd 100 := by
  simp only [estBirthS_eq, estDeathS_eq]
  have key : ∀ i, Rec.indi i ∈ d → _ := fun i hi =>
    tooOld_iff_general (i := i) (now := now) (fun e he x hx => hp.indi hi he hx)
  rw [warnings, mem_oncePerPair_other (by simp [Warning.kind]) (by simp [Warning.kind]), mem_warnings_cases]
  constructor
  · rintro (⟨i, hi, h | h | h | h⟩ | ⟨f, hf, h | h | h | h | h⟩)
    all_goals try wrong_kind h
    obtain ⟨rfl, h1, h2⟩ := mem_tooOld.mp h
    obtain ⟨xb, xd, r1, r2, r3, r4⟩ := (key i hi).mp ⟨h1, h2⟩
    exact ⟨i, hi, rfl, xb, xd, r1, r2, r3, r4⟩
  · rintro ⟨i, hi, rfl, xb, xd, r1, r2, r3, r4⟩
    refine Or.inl ⟨i, hi, Or.inr (Or.inl ?_)⟩
    have := (key i hi).mpr ⟨xb, xd, r1, r2, r3, r4⟩
    exact mem_tooOld.mpr ⟨rfl, this.1, this.2⟩


/-! ### IncorrectEventOrder on dates of every shape, no guard -/

theorem matrix_entirelyBefore (l1 l2 : Letter) :
    Generated.compareMatrix l1 l2 = .entirelyBefore ↔ l1 = .b ∧ l2 = .b := by
  cases l1 <;> cases l2 <;> simp [Generated.compareMatrix]

theorem letterOf_b (v s e : Int) : letterOf v s e = .b ↔ v < s ∧ v ≠ e := by
  unfold letterOf
  constructor
  · intro h
    repeat' split at h
    all_goals first | omega | (exact absurd h (by decide))
  · rintro ⟨h1, h2⟩
    have h3 : ¬ v = s := by omega
    simp [h1, h2, h3]

theorem letterEnd_b (v s e : Int) : letterEnd v s e = .b ↔ letterOf v s e = .b := by
  unfold letterEnd
  split
  · rename_i h
    rw [h.1]
    constructor <;> intro h' <;> exact absurd h' (by decide)
  · rfl

/-- `DateRange.Compare` answers "entirely before" exactly when both ends of the receiver lie before
    the argument's start and differ from the argument's end (for ranges that run forwards:
    `b < c`, C06 `event_order`) -/
theorem compare_entirelyBefore (a b c d : Int) :
    compare a b c d = .entirelyBefore ↔ (a < c ∧ a ≠ d) ∧ (b < c ∧ b ≠ d) := by
  unfold compare letterStart
  rw [matrix_entirelyBefore, letterEnd_b, letterOf_b, letterOf_b]

/-- what the event-order check decides about two dates: both ends of `x2` (first day of its start,
    last day of its end) lie before the first day of `x1` and are not the last day of `x1` -/
def EndsBefore (x2 x1 : DateV) : Prop :=
  (dayS x2 < dayS x1 ∧ dayS x2 ≠ dayE x1) ∧ (dayE x2 < dayS x1 ∧ dayE x2 ≠ dayE x1)

instance (x2 x1 : DateV) : Decidable (EndsBefore x2 x1) := by unfold EndsBefore; exact inferInstance

/-- for ranges that run forwards it is "`x2` ends before `x1` starts" -/
theorem endsBefore_forward {x2 x1 : DateV} (h1 : dayS x1 ≤ dayE x1) (h2 : dayS x2 ≤ dayE x2) :
    EndsBefore x2 x1 ↔ dayE x2 < dayS x1 := by
  unfold EndsBefore; omega

/-- **IncorrectEventOrder, dates of every shape** (full, no guard): "the `k2` (`x2`) was before the
    `k1` (`x1`)" is reported for individual `p` exactly when `p` has those two dated events, `k2`
    belongs to a later group than `k1` (birth < baptism < death < burial), both dates are valid and
    `x2` ends before `x1` starts (`EndsBefore`; `endsBefore_forward`). -/
theorem event_order_sound_complete_general (d : Doc) (now : Date) (p : Nat) (k2 : EvKind) (x2 : DateV)
    (k1 : EvKind) (x1 : DateV) :
    Warning.incorrectEventOrder p k2 x2 k1 x1 ∈ warnings d now ↔
      ∃ i, Rec.indi i ∈ d ∧ i.ptr = p ∧ ∃ g1 g2, groupOf k1 = some g1 ∧ groupOf k2 = some g2 ∧
        g1 < g2 ∧ Dated i k1 x1 ∧ Dated i k2 x2 ∧ x1.valid = true ∧ x2.valid = true ∧
        EndsBefore x2 x1 := by
  have hpair : ∀ (q : Nat) (ev fut : EvKind × DateV),
      Warning.incorrectEventOrder p k2 x2 k1 x1 ∈ orderPair q ev fut ↔
        p = q ∧ ev = (k1, x1) ∧ fut = (k2, x2) ∧ x1.valid = true ∧ x2.valid = true ∧
          EndsBefore x2 x1 := by
    intro q ev fut
    rw [orderPair_eq]
    obtain ⟨ek, ed⟩ := ev
    obtain ⟨fk, fd⟩ := fut
    constructor
    · intro h
      split at h
      · rename_i hc
        simp only [List.mem_singleton, Warning.incorrectEventOrder.injEq] at h
        obtain ⟨rfl, rfl, rfl, rfl, rfl⟩ := h
        simp only [Bool.and_eq_true, decide_eq_true_eq] at hc
        exact ⟨rfl, rfl, rfl, hc.1.1, hc.1.2, (compare_entirelyBefore _ _ _ _).mp hc.2⟩
      · simp at h
    · rintro ⟨rfl, he, hf, hv1, hv2, hlt⟩
      simp only [Prod.mk.injEq] at he hf
      obtain ⟨rfl, rfl⟩ := he
      obtain ⟨rfl, rfl⟩ := hf
      have := (compare_entirelyBefore _ _ _ _).mpr hlt
      simp [hv1, hv2, this]
  rw [warnings, mem_oncePerPair_other (by simp [Warning.kind]) (by simp [Warning.kind]), mem_warnings_cases]
  constructor
  · rintro (⟨i, hi, h | h | h | h⟩ | ⟨f, hf, h | h | h | h | h⟩)
    all_goals try wrong_kind h
    unfold incorrectEventOrder at h
    obtain ⟨n, m, g, fg, hnm, hn, hm, ev, hev, fut, hfut, hw⟩ := (mem_orderFrom _).mp h
    obtain ⟨rfl, rfl, rfl, hv1, hv2, hlt⟩ := (hpair _ _ _).mp hw
    obtain ⟨hg1, hd1⟩ := (group_idx hn).mp hev
    obtain ⟨hg2, hd2⟩ := (group_idx hm).mp hfut
    exact ⟨i, hi, rfl, n, m, hg1, hg2, hnm, hd1, hd2, hv1, hv2, hlt⟩
  · rintro ⟨i, hi, rfl, g1, g2, hg1, hg2, hlt, hd1, hd2, hv1, hv2, hday⟩
    refine Or.inl ⟨i, hi, Or.inl ?_⟩
    unfold incorrectEventOrder
    rw [mem_orderFrom]
    have hg2lt : g2 < 4 := by cases k2 <;> simp [groupOf] at hg2 <;> omega
    obtain ⟨G1, hG1⟩ := group_idx_exists (i := i) (n := g1) (by omega)
    obtain ⟨G2, hG2⟩ := group_idx_exists (i := i) (n := g2) hg2lt
    exact ⟨g1, g2, G1, G2, hlt, hG1, hG2, (k1, x1), (group_idx hG1).mpr ⟨hg1, hd1⟩,
      (k2, x2), (group_idx hG2).mpr ⟨hg2, hd2⟩, (hpair _ _ _).mpr ⟨rfl, rfl, rfl, hv1, hv2, hday⟩⟩

/-! Non-vacuity -/

/-- children: "Mar 1830" (month precision), "Bet. 20 Mar 1830 and 2 Apr 1830", "Abt. 1831" (a year:
    365 days wide), "Bef. 30 Nov 1830"; the father "Aft. Apr 1830" is younger than child 1 -/
def sampleG : Doc :=
  [.indi ⟨1, [], [⟨.birt, [.gen 0 ⟨0, 3, 1830, .exact, false⟩ ⟨0, 3, 1830, .exact, false⟩]⟩]⟩,
   .indi ⟨2, [], [⟨.birt, [.gen 0 ⟨20, 3, 1830, .exact, false⟩ ⟨2, 4, 1830, .exact, false⟩]⟩]⟩,
   .indi ⟨3, [], [⟨.birt, [.gen 0 ⟨0, 0, 1831, .about, false⟩ ⟨0, 0, 1831, .about, false⟩]⟩]⟩,
   .indi ⟨4, [], [⟨.birt, [.gen 0 ⟨30, 11, 1830, .before, false⟩ ⟨30, 11, 1830, .before, false⟩]⟩]⟩,
   .indi ⟨5, [], [⟨.birt, [.gen 0 ⟨0, 4, 1830, .after, false⟩ ⟨0, 4, 1830, .after, false⟩]⟩]⟩,
   .fam ⟨1, some 5, none, [1, 2, 3, 4], []⟩]

example : SibDates (dayOf ⟨1, 1, 1800⟩) (dayOf ⟨1, 1, 1900⟩) sampleG ∧ 276 ≤ dayOf ⟨1, 1, 1800⟩ := by decide
example : SibDates (dayOf ⟨1, 1, 1600⟩) (dayOf ⟨1, 1, 1900⟩) sibFar := by decide
example : warnings sampleG today =
    [.childBornBeforeParent 1 5 1, .childBornBeforeParent 1 5 2,
     .siblingsBornTooClose 1 1 2, .siblingsBornTooClose 1 1 4, .siblingsBornTooClose 1 2 4] := by decide
example : SibDays (dayS (.ok ⟨2, 3, 1830⟩)) (dayE (.ok ⟨2, 3, 1830⟩)) (dayS (.ok ⟨4, 3, 1830⟩))
    (dayE (.ok ⟨4, 3, 1830⟩)) := by decide

/-- husband "Mar 1800", wife "Abt. 1795"; MARR "Jun 1815" (he is 15, she 19 or 20) and MARR
    "Bet. 1896 and 1897" (he is 96, she over 100 by the end of the range);
    individual 3: born "1800", died "Bet. 1901 and 1903" (mean 1902.5: 102 years), buried "Jun 1901"
    (its end lies before the start of the death range: reported); individual 4: born "1800", died
    "Bet. 1899 and 1901" (mean 1900.5: exactly 100 years, not reported) -/
def sampleM : Doc :=
  [.indi ⟨1, [], [⟨.birt, [.gen 0 ⟨0, 3, 1800, .exact, false⟩ ⟨0, 3, 1800, .exact, false⟩]⟩]⟩,
   .indi ⟨2, [], [⟨.birt, [.gen 0 ⟨0, 0, 1795, .about, false⟩ ⟨0, 0, 1795, .about, false⟩]⟩]⟩,
   .indi ⟨3, [], [⟨.birt, [.gen 0 ⟨0, 0, 1800, .exact, false⟩ ⟨0, 0, 1800, .exact, false⟩]⟩,
      ⟨.deat, [.gen 0 ⟨0, 0, 1901, .exact, false⟩ ⟨0, 0, 1903, .exact, false⟩]⟩,
      ⟨.buri, [.gen 0 ⟨0, 6, 1900, .exact, false⟩ ⟨0, 6, 1900, .exact, false⟩]⟩]⟩,
   .indi ⟨4, [], [⟨.birt, [.gen 0 ⟨0, 0, 1800, .exact, false⟩ ⟨0, 0, 1800, .exact, false⟩]⟩,
      ⟨.deat, [.gen 0 ⟨0, 0, 1899, .exact, false⟩ ⟨0, 0, 1901, .exact, false⟩]⟩]⟩,
   .fam ⟨1, some 1, some 2, [],
      [⟨.marr, [.gen 0 ⟨0, 6, 1815, .exact, false⟩ ⟨0, 6, 1815, .exact, false⟩]⟩,
       ⟨.marr, [.gen 0 ⟨0, 0, 1896, .exact, false⟩ ⟨0, 0, 1897, .exact, false⟩]⟩]⟩]

example : WholeDates (dayOf ⟨1, 1, 1790⟩) (dayOf ⟨1, 1, 1910⟩) sampleM ∧
    dayOf ⟨1, 1, 1910⟩ - dayOf ⟨1, 1, 1790⟩ ≤ 106751 ∧ PastDates today sampleM := by decide
example : warnings sampleM today =
    [.incorrectEventOrder 3 .buri (.gen 0 ⟨0, 6, 1900, .exact, false⟩ ⟨0, 6, 1900, .exact, false⟩)
        .deat (.gen 0 ⟨0, 0, 1901, .exact, false⟩ ⟨0, 0, 1903, .exact, false⟩),
     .individualTooOld 3,
     .marriedOutOfRange 1 1 false 0, .marriedOutOfRange 1 2 true 1] := by decide

end Gedcom.C20
