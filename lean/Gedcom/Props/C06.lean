/-
  C06 — Date-range comparison returns the documented interval relation.
  Property theorems only.  All are about `compare`, which reads the *generated* table
  `Generated.compareMatrix` (probed from `DateRange.Compare` on every run), for all
  integer day numbers `a ≤ b`, `c ≤ d` — no window, no sample.
-/
import Gedcom.Lemmas.Compare
import Gedcom.Model.CompareSrc
namespace Gedcom.C06
open Gedcom

/-- a range compared with itself is `equal` (single-day ranges included) -/
theorem compare_self (a b : Int) (_h : a ≤ b) : compare a b a b = .equal := by
  rw [compare_eq]
  rcases ord_cases a a with ⟨h, h'⟩ | ⟨h, h'⟩ | ⟨h, h'⟩ <;>
  rcases ord_cases a b with ⟨k, k'⟩ | ⟨k, k'⟩ | ⟨k, k'⟩ <;>
  rcases ord_cases b a with ⟨m, m'⟩ | ⟨m, m'⟩ | ⟨m, m'⟩ <;>
  rcases ord_cases b b with ⟨n, n'⟩ | ⟨n, n'⟩ | ⟨n, n'⟩ <;>
  first | omega | (rw [h, k, m, n]; rfl)

/-- the result is never `invalid` when both ranges run forwards -/
theorem never_invalid (a b c d : Int) (h1 : a ≤ b) (h2 : c ≤ d) : compare a b c d ≠ .invalid := by
  rw [compare_eq]
  rcases ord_cases a c with ⟨h, h'⟩ | ⟨h, h'⟩ | ⟨h, h'⟩ <;>
  rcases ord_cases a d with ⟨k, k'⟩ | ⟨k, k'⟩ | ⟨k, k'⟩ <;>
  rcases ord_cases b c with ⟨m, m'⟩ | ⟨m, m'⟩ | ⟨m, m'⟩ <;>
  rcases ord_cases b d with ⟨n, n'⟩ | ⟨n, n'⟩ | ⟨n, n'⟩ <;>
  first | omega | (rw [h, k, m, n]; decide)

/-- swapping the operands yields the converse relation -/
theorem converse (a b c d : Int) (h1 : a ≤ b) (h2 : c ≤ d) :
    compare c d a b = conv (compare a b c d) := by
  rw [compare_eq, compare_eq, ord_swap a c, ord_swap b c, ord_swap a d, ord_swap b d]
  rcases ord_cases a c with ⟨h, h'⟩ | ⟨h, h'⟩ | ⟨h, h'⟩ <;>
  rcases ord_cases a d with ⟨k, k'⟩ | ⟨k, k'⟩ | ⟨k, k'⟩ <;>
  rcases ord_cases b c with ⟨m, m'⟩ | ⟨m, m'⟩ | ⟨m, m'⟩ <;>
  rcases ord_cases b d with ⟨n, n'⟩ | ⟨n, n'⟩ | ⟨n, n'⟩ <;>
  first | omega | (rw [h, k, m, n]; rfl)

/-- exactly one of the simplified verdicts holds for every constant but `invalid` … -/
theorem verdict_table (r : Rel) (h : r ≠ .invalid) :
    (Generated.relIsEqual r && !Generated.relIsPartiallyEqual r && !Generated.relIsNotEqual r) ||
    (!Generated.relIsEqual r && Generated.relIsPartiallyEqual r && !Generated.relIsNotEqual r) ||
    (!Generated.relIsEqual r && !Generated.relIsPartiallyEqual r && Generated.relIsNotEqual r) = true := by
  cases r <;> first | (exact absurd rfl h) | decide

/-- … hence for every comparison of forward ranges -/
theorem verdict_exactly_one (a b c d : Int) (h1 : a ≤ b) (h2 : c ≤ d) :
    let r := compare a b c d
    (Generated.relIsEqual r && !Generated.relIsPartiallyEqual r && !Generated.relIsNotEqual r) ||
    (!Generated.relIsEqual r && Generated.relIsPartiallyEqual r && !Generated.relIsNotEqual r) ||
    (!Generated.relIsEqual r && !Generated.relIsPartiallyEqual r && Generated.relIsNotEqual r) = true :=
  verdict_table _ (never_invalid a b c d h1 h2)

/-- the result is the relation drawn in the documentation -/
theorem documented_relation (a b c d : Int) (h1 : a ≤ b) (h2 : c ≤ d) :
    compare a b c d = documentedRel a b c d := by
  rw [compare_eq]
  unfold documentedRel
  rcases ord_cases a c with ⟨h, h'⟩ | ⟨h, h'⟩ | ⟨h, h'⟩ <;>
  rcases ord_cases a d with ⟨k, k'⟩ | ⟨k, k'⟩ | ⟨k, k'⟩ <;>
  rcases ord_cases b c with ⟨m, m'⟩ | ⟨m, m'⟩ | ⟨m, m'⟩ <;>
  rcases ord_cases b d with ⟨n, n'⟩ | ⟨n, n'⟩ | ⟨n, n'⟩ <;>
  first
  | omega
  | (rw [h, k, m, n]; simp only [letterOf', letterEnd', Generated.compareMatrix]
     repeat' split
     all_goals first | rfl | omega)

/-- `entirelyBefore` is exactly "ends before the other starts" (what the
    wrong-event-order warning relies on) -/
theorem event_order (a b c d : Int) (h1 : a ≤ b) (h2 : c ≤ d) :
    compare a b c d = .entirelyBefore ↔ b < c := by
  rw [documented_relation a b c d h1 h2]
  unfold documentedRel
  constructor
  · intro h
    repeat' split at h
    all_goals first | omega | (exact absurd h (by decide))
  · intro h
    have h4 : ¬ a = c := by omega
    have h5 : ¬ b = d := by omega
    have h6 : a < c := by omega
    simp [h4, h5, h6, h]

/-- the same on dates of any granularity -/
theorem compareDates_self (s e : Date) (h : s.firstDay ≤ e.lastDay) :
    compareDates s e s e = .equal := compare_self _ _ h

/-! Non-vacuity: concrete non-trivial instances (tests, not the property). -/
example : compare 3 3 3 3 = .equal := by decide
example : compare 3 20 20 20 = .outsideEnd ∧ compare 20 20 3 20 = .insideEnd := by decide
example : compare 1 2 3 20 = .entirelyBefore ∧ (2:Int) < 3 := by decide

/-! ## The decision logic is the source's

`Generated/CompareSrc.lean` is read from date_range.go on every run with go/ast: the map literal
`dateRangeCompareMatrix`, the cases of the switch in `compareDatesForLetter` in order, and the
statements of `Compare`.  `CompareSrc.srcCompare` interprets them on whole-day numbers. -/

/-- **Obligation on the regenerated source shape**: `Compare` consists of exactly the four
    statements `srcCompare` mirrors, every case of the switch has a shape the interpretation
    understands, and all three instants are truncated to whole days before they are compared. -/
theorem compare_source_shape :
    Generated.compareStatements =
      ["start := compareDatesForLetter(dr.start, dr2.start, dr2.end)",
       "end := compareDatesForLetter(dr.end, dr2.start, dr2.end)",
       "if end == \"e\" && compareDatesForLetter(dr.end, dr2.end, dr2.end) == \"e\" { end = \"E\" }",
       "return dateRangeCompareMatrix[start+end]"] ∧
    CompareSrc.casesUnderstood Generated.letterCases = true ∧
    Generated.letterTruncations = 3 := by decide

theorem srcLetter_eq (v s e : Int) :
    CompareSrc.srcLetter v s e = CompareSrc.letterName (letterOf v s e) := by
  unfold CompareSrc.srcLetter letterOf
  simp only [Generated.letterCases, Generated.letterDefault, List.find?, CompareSrc.caseHolds]
  by_cases h1 : v = s
  · have b1 : (v == s) = true := by simpa using h1
    simp [h1, b1, CompareSrc.letterName]
  · have b1 : (v == s) = false := by simpa using h1
    by_cases h2 : v = e
    · have b2 : (v == e) = true := by simpa using h2
      simp [b1, b2, if_neg h1, if_pos h2, CompareSrc.letterName]
    · have b2 : (v == e) = false := by simpa using h2
      by_cases h3 : v < s
      · simp [h1, h2, h3, b1, b2, CompareSrc.letterName]
      · by_cases h4 : e < v
        · simp [h1, h2, h3, h4, b1, b2, CompareSrc.letterName]
        · simp [h1, h2, h3, h4, b1, b2, CompareSrc.letterName]

theorem matrix_lookup (l1 l2 lf : Letter) :
    Generated.matrixSrc.lookup (CompareSrc.letterName l1 ++
      (if CompareSrc.letterName l2 == "e" && CompareSrc.letterName lf == "e" then "E"
       else CompareSrc.letterName l2)) =
    some (CompareSrc.relName (Generated.compareMatrix l1
      (if l2 = .e ∧ lf = .e then .E else l2))) := by
  cases l1 <;> cases l2 <;> cases lf <;> decide

/-- **The model's `compare` is the source's decision logic.** For all day numbers, interpreting
    the regenerated switch cases, fix-up statement and map literal gives the constant the model
    computes — whose table `Generated.compareMatrix` is probed from the running code.  So the two
    regenerated descriptions of `Compare` (behavioural probe and source translation) agree with
    each other and with the model, on every input. -/
theorem compare_is_the_source (a b c d : Int) :
    CompareSrc.srcCompare a b c d = some (CompareSrc.relName (compare a b c d)) := by
  unfold CompareSrc.srcCompare compare letterStart letterEnd
  simp only [srcLetter_eq]
  exact matrix_lookup (letterOf a c d) (letterOf b c d) (letterOf b d d)

end Gedcom.C06
