/-
  C03 — Decoding never crashes: any input yields a document or an error.
  Property theorems only, about `Dec.decode` (the byte-level model the driver executes and
  the correspondence ties to `Decoder.Decode` on arbitrary bytes × both options).
  Totality and termination are Lean's acceptance of `decode` as a total function
  (structural recursion over the line list; no fuel).
-/
import Gedcom.Model.Decoder
import Gedcom.Generated.DecodeShape
import Gedcom.Generated.ReadLineProgram
import Gedcom.Lemmas.ReadLine
namespace Gedcom.C03
open Gedcom Gedcom.Dec

theorem run_panic (o : Opts) (st : St) (k : Nat) (ls : List Str) (c : PanicClass)
    (h : run o st k ls = .inl (.panic c)) : o.allowInvalidIndents = false := by
  induction ls generalizing st k with
  | nil => simp [run] at h
  | cons l ls ih =>
    rw [run] at h
    cases hs : step o st l with
    | next s' => rw [hs] at h; exact ih s' (k + 1) h
    | error => rw [hs] at h; simp at h
    | panic c' =>
      -- the only panicking branch of `step` is guarded by `¬ allowInvalidIndents`
      unfold step unparsable place at hs
      cases hi : o.allowInvalidIndents
      · rfl
      · simp only [hi] at hs
        repeat' split at hs
        all_goals simp_all

/-- **No crash.** For every byte string and every option combination the decoder returns a
    document, an error, or the documented "indent is too large" panic — and that panic only
    while invalid indents are not allowed. -/
theorem no_unexpected_panic (o : Opts) (s : Str) (c : PanicClass) (h : decode o s = .panic c) :
    c = .indentTooLarge ∧ o.allowInvalidIndents = false := by
  refine ⟨by cases c; rfl, ?_⟩
  unfold decode at h
  simp only at h
  split at h
  · rename_i out hrun; subst h; exact run_panic o _ _ _ c hrun
  · simp at h

/-- with `AllowInvalidIndents` decoding never panics at all -/
theorem lenient_never_panics (o : Opts) (s : Str) (h : o.allowInvalidIndents = true) (c : PanicClass) :
    decode o s ≠ .panic c := by
  intro hp
  have := (no_unexpected_panic o s c hp).2
  rw [h] at this; simp at this

theorem run_error (o : Opts) (st : St) (k : Nat) (ls : List Str) (n : Nat)
    (h : run o st k ls = .inl (.error n)) :
    ∃ pre l post st', ls = pre ++ l :: post ∧ n = k + pre.length ∧
      run o st k pre = .inr st' ∧ step o st' l = .error := by
  induction ls generalizing st k with
  | nil => simp [run] at h
  | cons l ls ih =>
    rw [run] at h
    cases hs : step o st l with
    | next s' =>
      rw [hs] at h
      obtain ⟨pre, l', post, st', h1, h2, h3, h4⟩ := ih s' (k + 1) h
      refine ⟨l :: pre, l', post, st', by simp [h1], by simp [h2]; omega, ?_, h4⟩
      simp [run, hs, h3]
    | error =>
      rw [hs] at h
      simp only [Sum.inl.injEq, Outcome.error.injEq] at h
      exact ⟨[], l, ls, st, rfl, by simp [h], by simp [run], hs⟩
    | panic c => rw [hs] at h; simp at h

/-- **The error names the offending line.** When decoding fails with `line n`, `n` is the
    1-based number (counting as the code counts: every CR and every LF ends a line) of the
    first line at which the loop fails; all lines before it were consumed without error. -/
theorem error_names_line (o : Opts) (s : Str) (n : Nat) (h : decode o s = .error n) :
    ∃ pre l post st, splitLines (stripBOM s).2 = pre ++ l :: post ∧ n = pre.length + 1 ∧
      run o ⟨[], [], false⟩ 1 pre = .inr st ∧ step o st l = .error := by
  unfold decode at h
  simp only at h
  split at h
  · rename_i out hrun
    subst h
    obtain ⟨pre, l, post, st', h1, h2, h3, h4⟩ := run_error o _ 1 _ n hrun
    exact ⟨pre, l, post, st', h1, by omega, h3, h4⟩
  · simp at h

/-- what makes a line the offending one: it is not blank and either is outside the line
    grammar (or is a HUSB/WIFE/CHIL line before any family) while it cannot continue a previous
    value, or it is an indented line with no open node at all -/
theorem error_line_cause (o : Opts) (st : St) (l : Str) (h : step o st l = .error) :
    l ≠ [] ∧
    (((parseLine l = none ∨ ∃ pl, parseLine l = some pl ∧ isRoleTag pl.tag = true ∧ st.seenFam = false) ∧
        (o.allowMultiLine = false ∨ st.stack = [])) ∨
     (∃ pl, parseLine l = some pl ∧ pl.level ≠ 0 ∧ st.stack = [] ∧ o.allowInvalidIndents = true)) := by
  unfold step place at h
  split at h
  · simp at h
  · rename_i hne
    refine ⟨hne, ?_⟩
    split at h
    · rename_i hp
      left
      refine ⟨Or.inl hp, ?_⟩
      unfold unparsable at h
      cases hm : o.allowMultiLine <;> cases hst : st.stack <;> simp_all
    · rename_i pl hp
      split at h
      · rename_i hrole
        left
        simp only [Bool.and_eq_true, Bool.not_eq_eq_eq_not, Bool.not_true] at hrole
        refine ⟨Or.inr ⟨pl, hp, hrole.1, hrole.2⟩, ?_⟩
        unfold unparsable at h
        cases hm : o.allowMultiLine <;> cases hst : st.stack <;> simp_all
      · right
        refine ⟨pl, hp, ?_⟩
        by_cases h0 : pl.level = 0
        · simp [h0] at h
        · by_cases hd : st.stack.length ≤ pl.level - 1
          · cases hi : o.allowInvalidIndents
            · simp [h0, hd, hi] at h
            · by_cases he : st.stack = []
              · exact ⟨h0, he, rfl⟩
              · simp [h0, hd, hi, he] at h
          · simp [h0, hd] at h

theorem run_panic_at (o : Opts) (st : St) (k : Nat) (ls : List Str) (c : PanicClass)
    (h : run o st k ls = .inl (.panic c)) :
    ∃ pre l post st', ls = pre ++ l :: post ∧
      run o st k pre = .inr st' ∧ step o st' l = .panic c := by
  induction ls generalizing st k with
  | nil => simp [run] at h
  | cons l ls ih =>
    rw [run] at h
    cases hs : step o st l with
    | next s' =>
      rw [hs] at h
      obtain ⟨pre, l', post, st', h1, h3, h4⟩ := ih s' (k + 1) h
      refine ⟨l :: pre, l', post, st', by simp [h1], ?_, h4⟩
      simp [run, hs, h3]
    | error => rw [hs] at h; simp at h
    | panic c' =>
      cases c; cases c'
      exact ⟨[], l, ls, st, rfl, by simp [run], hs⟩

/-- **Where the tolerated panic comes from.** When decoding panics there is a first line at which
    it does; every line before it was consumed without error, and that line is a well-formed
    GEDCOM line (inside the line grammar, not a family-role line before any family) whose level
    is more than one deeper than the number of open levels, read while invalid indents are not
    allowed.  Nothing else — no byte, no blank or malformed line, no option — makes the decoder
    panic. -/
theorem panic_line_cause (o : Opts) (s : Str) (c : PanicClass) (h : decode o s = .panic c) :
    ∃ pre l post st pl, splitLines (stripBOM s).2 = pre ++ l :: post ∧
      run o ⟨[], [], false⟩ 1 pre = .inr st ∧
      parseLine l = some pl ∧ pl.level ≠ 0 ∧ st.stack.length ≤ pl.level - 1 ∧
      o.allowInvalidIndents = false := by
  unfold decode at h
  simp only at h
  split at h
  · rename_i out hrun
    subst h
    obtain ⟨pre, l, post, st', h1, h3, h4⟩ := run_panic_at o _ 1 _ c hrun
    refine ⟨pre, l, post, st', ?_⟩
    unfold step at h4
    split at h4
    · simp at h4
    · split at h4
      · unfold unparsable at h4
        repeat' split at h4
        all_goals simp at h4
      · rename_i pl hp
        split at h4
        · unfold unparsable at h4
          repeat' split at h4
          all_goals simp at h4
        · refine ⟨pl, h1, h3, hp, ?_⟩
          unfold place at h4
          by_cases h0 : pl.level = 0
          · simp [h0] at h4
          · by_cases hd : st'.stack.length ≤ pl.level - 1
            · cases hi : o.allowInvalidIndents
              · exact ⟨h0, hd, rfl⟩
              · by_cases he : st'.stack = [] <;> simp [h0, hd, hi, he] at h4
            · simp [h0, hd] at h4
  · simp at h

theorem run_ok_steps (o : Opts) (st st' : St) (k : Nat) (ls : List Str)
    (h : run o st k ls = .inr st') :
    ∀ pre l post, ls = pre ++ l :: post → ∃ s1 s2, run o st k pre = .inr s1 ∧ step o s1 l = .next s2 := by
  induction ls generalizing st k with
  | nil => intro pre l post hls; simp at hls
  | cons x xs ih =>
    intro pre l post hls
    rw [run] at h
    cases hs : step o st x with
    | next s1 =>
      rw [hs] at h
      cases pre with
      | nil =>
        simp only [List.nil_append, List.cons.injEq] at hls
        obtain ⟨rfl, _⟩ := hls
        exact ⟨st, s1, by simp [run], hs⟩
      | cons p ps =>
        simp only [List.cons_append, List.cons.injEq] at hls
        obtain ⟨rfl, hxs⟩ := hls
        obtain ⟨a, b, h1, h2⟩ := ih s1 (k + 1) h ps l post hxs
        exact ⟨a, b, by simp [run, hs, h1], h2⟩
    | error => rw [hs] at h; simp at h
    | panic c => rw [hs] at h; simp at h

theorem run_inl_not_ok (o : Opts) (st : St) (k : Nat) (ls : List Str) (d : Doc) :
    run o st k ls ≠ .inl (.ok d) := by
  induction ls generalizing st k with
  | nil => simp [run]
  | cons l ls ih =>
    rw [run]
    cases hs : step o st l with
    | next s' => exact ih s' (k + 1)
    | error => simp
    | panic c => simp

/-- **A document is returned exactly when every line is consumed.** `decode` answers `.ok`
    if and only if no line of the input makes the loop fail: the three outcome classes are
    decided line by line, in order, and nothing after the last line can fail. -/
theorem ok_iff_every_line_consumed (o : Opts) (s : Str) :
    (∃ d, decode o s = .ok d) ↔
    ∃ st, run o ⟨[], [], false⟩ 1 (splitLines (stripBOM s).2) = .inr st := by
  unfold decode
  simp only
  cases hrun : run o ⟨[], [], false⟩ 1 (splitLines (stripBOM s).2) with
  | inl out =>
    simp only [reduceCtorEq, exists_false, iff_false, not_exists]
    intro d hd
    subst hd
    exact run_inl_not_ok o _ _ _ d hrun
  | inr st => simp

/-! Non-vacuity (tests on literals): the three outcome classes occur. -/
example : decode ⟨false, false⟩ [49, 32, 78] = .panic .indentTooLarge := by
  simp [decode, stripBOM, BOM, List.isPrefixOf, splitLines, splitLines.go, run, step, place, parseLine, parsePtr,
    afterTag, isDigit, isWord, SP, AT, LF, CR, decToNat, isRoleTag, tHUSB, tWIFE, tCHIL]

/-- **Obligation on the regenerated control skeleton of the decoder.** The loop of
    `Decoder.Decode`, `parseLine` and `consumeOptionalBOM` still have, in source order,
    exactly the conditions (and branch exits: return / continue / break / panic) that the model's
    `step`, `place`, `parseLine` and `stripBOM` were written from (`readLine` is translated:
    `lines_are_the_source_readLine` below).  This pins *where*
    the decoder can return an error, continue a previous value or panic; what each branch computes
    is tied by the correspondence.  decoder.go starts no goroutine, uses no channel and defers no
    call (the model's loop is sequential; a producer/consumer read-ahead would add exits the model
    does not have).  A rewritten loop breaks this obligation and the run then
    searches for a failing input with every stream. -/
theorem decode_source_shape :
    Generated.conditionsOfDecode =
      ["for !finished",
       "if err != nil",
       "if err != io.EOF => return",
       "if line == \"\" => continue",
       "if dec.AllowMultiLine && previousNode != nil",
       "if err != nil => return",
       "if dec.AllowMultiLine && previousNode != nil => continue",
       "if f, ok := node.(*FamilyNode); ok",
       "if indent == 0 => continue",
       "if indent-1 >= len(indents)",
       "if dec.AllowInvalidIndents && len(indents) > 0",
       "if dec.AllowInvalidIndents => return",
       "else of dec.AllowInvalidIndents => panic",
       "case indent >= len(indents)",
       "case indent < len(indents)-1",
       "default"] ∧
    Generated.conditionsOfParseLine =
      ["if len(parts) == 0 => return",
       "if parts[2] != \"\"",
       "case TagChild, TagHusband, TagWife",
       "if family == nil => return"] ∧
    Generated.conditionsOfConsumeOptionalBOM = ["if hasBOM"] ∧
    Generated.decoderConcurrency = [] := by decide

/-- **The line reader is the source's.** `Generated.readLineProgram` is translated on every run,
    clause by clause, from the byte loop of `Decoder.readLine` (error check, stop test, append;
    `if … { break }` and `switch { case …: return }` spellings alike).  It has the understood
    shape, its stop bytes are LF and CR, and calling it until the reader reports the end of the
    input — as the `Decode` loop does, processing the last, unterminated line too — yields
    exactly the lines `splitLines` gives the model, for every byte string. -/
theorem lines_are_the_source_readLine (s : Str) :
    ReadLine.stops Generated.readLineProgram = some [LF, CR] ∧
    ∀ bs, ReadLine.stops Generated.readLineProgram = some bs →
      ReadLine.allLines bs (s.length + 1) s = splitLines s := by
  have h : ReadLine.stops Generated.readLineProgram = some [LF, CR] := by decide
  refine ⟨h, ?_⟩
  intro bs hbs
  rw [h] at hbs
  cases hbs
  exact ReadLine.allLines_eq_go (s.length + 1) s (by omega)

end Gedcom.C03
