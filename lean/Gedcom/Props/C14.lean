/-
  C14 — No command crashes on a file the decoder accepts.

  The theorems are about the functions of `Gedcom.Model.Resolve` that the driver executes, at the
  guard flags regenerated from the current source (`generatedFlags`).  Each `*_total` says: for
  *every* document (any forest of records — dangling references, references to records of the
  wrong kind, empty HUSB/WIFE/CHIL values, people without NAME, names without surname, people who
  are their own parent or spouse, duplicate pointers, memberless families are all just forests)
  the call returns a value; the `panic` outcome of the partial primitives underneath is
  unreachable.  `generated_flags_safe` is the obligation that breaks when a repair is reverted; the
  `*_counterexample` theorems show that each guard is load-bearing (the panic *is* reachable in the
  same model without it), at the witnesses that crashed the unrepaired tree.

  Labelled partial (DESIGN §8 C14, §9): the theorems cover reference resolution, the family
  traversals, the warnings walk and the naming / index helpers; the ~60 page components of html/
  that do not index file-derived lists are tied by execution only.
-/
import Gedcom.Lemmas.Resolve
namespace Gedcom.C14
open Gedcom Gedcom.Resolve

/-- The guards found in the current source are those of the repaired code.  Regenerated on every
    run; reverting any repair of defect 15 makes this fail to check. -/
theorem generated_flags_safe : generatedFlags.Safe := by decide

/-- `valueToPointer` returns for every string, the empty one included. -/
theorem valueToPointer_total (v : Str) : Total (valueToPointer generatedFlags v) :=
  Resolve.valueToPointer_total _ (generated_flags_safe.elim).1 v

/-- A pointer is returned only for `@…@` of length ≥ 3, and then it is the inside. -/
theorem valueToPointer_spec (v p : Str) (h : valueToPointer generatedFlags v = .ok p) (hp : p ≠ []) :
    v = [64] ++ p ++ [64] :=
  valueToPointer_spec' _ (generated_flags_safe.elim).1 v p h hp

/-- `HusbandNode.Individual()` through `FamilyNode.Husband()` never panics. -/
theorem husbandIndividual_total (doc : Doc) (fam : Node) : Total (husbandIndividual generatedFlags doc fam) :=
  husbandIndividual_total' generated_flags_safe doc fam

/-- `WifeNode.Individual()` never panics. -/
theorem wifeIndividual_total (doc : Doc) (fam : Node) : Total (wifeIndividual generatedFlags doc fam) :=
  wifeIndividual_total' generated_flags_safe doc fam

/-- `ChildNode.Individual()` never panics, whatever the CHIL value is. -/
theorem childIndividual_total (doc : Doc) (c : Node) : Total (childIndividual generatedFlags doc c) :=
  childIndividual_total' generated_flags_safe doc c

/-- `ChildNodes.Individuals()` never panics. -/
theorem childNodesIndividuals_total (doc : Doc) (cs : List Node) :
    Total (childNodesIndividuals generatedFlags doc cs) :=
  childNodesIndividuals_total' generated_flags_safe doc cs

/-- Whatever a role node resolves to is an INDI root record of the document whose pointer is the
    one written in the value (never a record of another kind). -/
theorem resolved_is_individual (site : Site) (rf : RefFlags) (doc : Doc) (role : Node) (e : Ent)
    (h : roleIndividual generatedFlags site rf doc role = .ok (some e)) :
    isIndi e.node = true ∧ e ∈ roots doc ∧ role.value = [64] ++ e.node.ptr ++ [64] := by
  unfold roleIndividual at h
  obtain ⟨p, hp⟩ := valueToPointer_total role.value
  rw [hp, ok_bind] at h
  unfold assertIndi at h
  cases hn : nodeByPointer doc p with
  | none =>
    rw [hn] at h
    by_cases hf : rf.nilSafe = true <;> simp [hf] at h
  | some x =>
    rw [hn] at h
    by_cases hi : isIndi x.node = true
    · simp only [hi, ↓reduceIte, Res.ok.injEq, Option.some.injEq] at h
      subst h
      unfold nodeByPointer at hn
      by_cases hpe : p.isEmpty = true
      · simp [hpe] at hn
      · simp only [hpe, Bool.false_eq_true, ↓reduceIte] at hn
        have hmem := List.mem_of_find?_eq_some hn
        have hptr := List.find?_some hn
        simp only [beq_iff_eq] at hptr
        refine ⟨hi, by simpa using hmem, ?_⟩
        have hpne : p ≠ [] := by intro h0; simp [h0] at hpe
        rw [hptr]
        exact valueToPointer_spec _ _ hp hpne
    · by_cases hf : rf.kindSafe = true <;> simp [hi, hf] at h

/-- `IndividualNode.Spouses()` never panics. -/
theorem spouses_total (doc : Doc) (indi : Ent) : Total (spouses generatedFlags doc indi) :=
  spouses_total' generated_flags_safe doc indi

/-- `IndividualNode.Families()` never panics. -/
theorem families_total (doc : Doc) (indi : Ent) : Total (familiesOf generatedFlags doc indi) :=
  familiesOf_total' generated_flags_safe doc indi

/-- `IndividualNode.Parents()` never panics. -/
theorem parents_total (doc : Doc) (indi : Ent) : Total (parents generatedFlags doc indi) :=
  parents_total' generated_flags_safe doc indi

/-- `IndividualNode.Children()` never panics. -/
theorem children_total (doc : Doc) (indi : Ent) : Total (childrenOf generatedFlags doc indi) :=
  childrenOf_total' generated_flags_safe doc indi

/-- `IndividualNode.SpouseChildren()` (with `FamilyWithSpouse`, `FamilyWithUnknownSpouse`) never panics. -/
theorem spouseChildren_total (doc : Doc) (indi : Ent) : Total (spouseChildrenKeys generatedFlags doc indi) :=
  spouseChildrenKeys_total' generated_flags_safe doc indi

/-- `getIndexLetter` classifies every surname — empty, starting with a digit, a symbol or a
    multi-byte character — as '#' or a letter a..z (it compares the first *byte*, which for a
    multi-byte character is ≥ 0x80 and therefore a symbol). -/
theorem indexLetter_total (surname : Str) :
    indexLetterOf surname = symbolLetter ∨ (97 ≤ indexLetterOf surname ∧ indexLetterOf surname ≤ 122) :=
  indexLetterOf_range surname

/-- `surnameStartsWith` never indexes an empty string (an empty index name is replaced by "#"). -/
theorem surnameStartsWith_total (indexName : Str) (letter : UInt8) : Total (startsWithLetter indexName letter) :=
  startsWithLetter_total' indexName letter

/-- `SurnameLink` takes `surname[0]`; the surname list page only builds links for the surnames
    `getSurnames` collected, which are non-empty — so the page never panics. -/
theorem surnameList_total (doc : Doc) : Total (surnameList doc) := surnameList_total' doc

/-- `PublishHeader` never indexes an empty letter list. -/
theorem header_total (showIndividuals : Bool) (letters : List UInt8) :
    Total (header generatedFlags showIndividuals letters) :=
  header_total' generated_flags_safe showIndividuals letters

/-- The individual page renders for a person with any number of NAME records, zero included. -/
theorem individualPage_total (showIndividuals : Bool) (letters : List UInt8) (indi : Node) :
    Total (individualPage generatedFlags showIndividuals letters indi) :=
  individualPage_total' generated_flags_safe showIndividuals letters indi

/-- `EventDate` never indexes an empty date list (`IsBlank` guards `c.dates[0]`). -/
theorem eventDate_total {α} (dates : List α) : Total (eventDate dates) := eventDate_total' dates

/-- `IndividualDates.EventDates` takes `births[0]`, `baptisms[0]`, `deaths[0]`, `burials[0]` only
    under the `len(…) > 0` case of the same list — for any four event lists. -/
theorem eventDates_total {α} (births baptisms deaths burials : List α) :
    Total (eventDates births baptisms deaths burials) := eventDates_total' births baptisms deaths burials

/-- Place pages dereference `placesMap[key]`; the keys handed to the pages are the keys of that
    map, so the entry is never nil — for any place map. -/
theorem placePages_total {α} (m : List (Str × α)) : Total (placePages m) := placePages_total' m

/-- the dereference itself is partial: a key that is not in the map panics in the same model -/
theorem placePage_counterexample : (lookupPlace ([] : List (Str × Nat)) [97]).panicSite = some .placePage := by decide

/-- `Document.Warnings()` never panics … -/
theorem warnings_total (doc : Doc) : Total (warningsWalk generatedFlags doc) :=
  ⟨_, walkForest_spec generated_flags_safe doc doc⟩

/-- … and terminates after visiting every node of the file exactly once: the walk is over the
    record *trees*; family links (HUSB/WIFE/CHIL/FAMC/FAMS), cyclic or not, are only looked up,
    never followed. -/
theorem warnings_terminates (doc : Doc) : warningsWalk generatedFlags doc = .ok (Forest.size doc) :=
  walkForest_spec generated_flags_safe doc doc

/-- `publish`, in every visibility mode (`listed`, `hasPage` are arbitrary predicates) and with
    the individual and surname page groups on or off, never panics in the modelled layer. -/
theorem publish_total (doc : Doc) (showIndividuals showFamilies showSurnames : Bool) (listed hasPage : Ent → Bool) :
    Total (publish generatedFlags doc showIndividuals showFamilies showSurnames listed hasPage) := by
  have hs := generated_flags_safe
  unfold publish
  apply total_bind (header_total' hs _ _)
  intro _
  apply total_bind (mapRes_total _ _ (fun e _ => personPage_total' hs doc _ _ e))
  intro pages
  apply total_bind (mapRes_total _ _ (fun f _ => familyRow_total' hs doc f))
  intro _
  apply total_bind
  · unfold surnamePage
    split
    · exact surnameList_total' doc
    · simp
  intro _
  simp

/-- one page is rendered per person selected by `hasPage` (nobody is skipped by a crash) -/
theorem publish_pages (doc : Doc) (showFamilies showSurnames : Bool) (listed hasPage : Ent → Bool) (n : Nat)
    (h : publish generatedFlags doc true showFamilies showSurnames listed hasPage = .ok n) :
    n = ((individuals doc).filter hasPage).length := by
  unfold publish at h
  simp only [↓reduceIte] at h
  cases h1 : header generatedFlags true (indexLetters doc listed) with
  | panic s => simp [h1] at h
  | ok a =>
    rw [h1, ok_bind] at h
    cases h2 : mapRes (personPage generatedFlags doc true (indexLetters doc listed))
        ((individuals doc).filter hasPage) with
    | panic s => simp [h2] at h
    | ok pages =>
      rw [h2, ok_bind] at h
      cases h3 : mapRes (familyRow generatedFlags doc) (if showFamilies = true then families doc else []) with
      | panic s => simp [h3] at h
      | ok u =>
        rw [h3, ok_bind] at h
        cases h4 : surnamePage showSurnames doc with
        | panic s => simp [h4] at h
        | ok v =>
          rw [h4, ok_bind] at h
          simp only [pure_eq_ok, Res.ok.injEq] at h
          rw [← h]
          exact mapRes_length _ _ _ h2

/-- `diff` (the traversals behind `SurroundingSimilarity`, for every individual of a side) never panics. -/
theorem diff_total (doc : Doc) : Total (diffSide generatedFlags doc) := by
  have hs := generated_flags_safe
  unfold diffSide
  apply total_bind
  · apply mapRes_total
    intro e _
    unfold surrounding
    apply total_bind (spouses_total' hs doc e)
    intro _
    apply total_bind (childrenOf_total' hs doc e)
    intro cs
    apply total_bind (childNodesIndividuals_total' hs doc cs)
    intro _
    apply total_bind (parents_total' hs doc e)
    intro ps
    apply total_bind (mapRes_total _ _ (fun f _ => familyRow_total' hs doc f))
    intro _
    simp
  intro _
  simp

/-! ## each guard is load-bearing: the panics of the unrepaired tree, in the same model -/

def n (tag value ptr : String) (kids : List Node := []) : Node := .mk (bs tag) (bs value) (bs ptr) kids

/-- `1 HUSB` (no value): `val[0]` on the empty string -/
theorem empty_value_counterexample : (valueToPointer unrepairedFlags []).panicSite = some .valueToPointer := by decide

/-- `0 @S1@ SOUR` / `0 @F1@ FAM` / `1 HUSB @S1@`: assertion on a record of the wrong kind -/
def wrongKindFam : Node := n "FAM" "" "F1" [n "HUSB" "@S1@" ""]
def wrongKindDoc : Doc := [n "SOUR" "" "S1", wrongKindFam]
theorem wrong_kind_counterexample :
    (husbandIndividual unrepairedFlags wrongKindDoc wrongKindFam).panicSite = some .husband := by
  decide

/-- `1 CHIL @I9@` with no such record: `ChildNodes.Individuals` asserted on nil -/
def danglingFam : Node := n "FAM" "" "F1" [n "CHIL" "@I9@" ""]
theorem dangling_child_counterexample :
    (childNodesIndividuals unrepairedFlags [danglingFam] (childNodes danglingFam)).panicSite
      = some .childNodes := by
  decide

/-- every page header when nobody is listed (hide mode, empty file) -/
theorem no_letters_counterexample : (header unrepairedFlags true []).panicSite = some .header := by decide

/-- the page of `0 @I1@ INDI` / `1 SEX M` -/
def noNameIndi : Node := n "INDI" "" "I1" [n "SEX" "M" ""]
theorem no_name_counterexample :
    (individualPage unrepairedFlags true [symbolLetter] noNameIndi).panicSite = some .page := by
  decide

/-- with the repaired flags the same inputs return -/
theorem witnesses_repaired :
    (valueToPointer generatedFlags []).val? = some [] ∧
    (husbandIndividual generatedFlags wrongKindDoc wrongKindFam).isOk = true ∧
    ((childNodesIndividuals generatedFlags [danglingFam] (childNodes danglingFam)).val?.map List.length) = some 0 ∧
    (header generatedFlags true []).val? = some none ∧
    (individualPage generatedFlags true [symbolLetter] noNameIndi).val? = some 0 := by
  decide

/-! ## non-vacuity -/

/-- a person who is their own parent and spouse, a duplicate pointer, a memberless family: the walk
    visits all 9 nodes, the traversals return -/
def cyclicDoc : Doc :=
  [n "INDI" "" "I1" [n "NAME" "A /B/" ""], n "INDI" "" "I1" [],
   n "FAM" "" "F1" [n "HUSB" "@I1@" "", n "WIFE" "@I1@" "", n "CHIL" "@I1@" "", n "CHIL" "" ""],
   n "FAM" "" "F2" []]

example : (warningsWalk generatedFlags cyclicDoc).val? = some 9 := by decide
example : ((spouses generatedFlags cyclicDoc ⟨0, n "INDI" "" "I1" [n "NAME" "A /B/" ""]⟩).val?.map
    (fun l => l.map (fun o => o.map (·.idx)))) = some [some 1, some 1] := by decide
example : indexLetters cyclicDoc (fun _ => true) = [35, 98] := by decide
example : indexLetterOf (bs "1st") = 35 ∧ indexLetterOf [0xC3, 0x89] = 35 ∧ indexLetterOf (bs "Smith") = 115 := by decide
example : surnameOf (some (n "NAME" "Bob  /O'Neil/ Jr" "")) = bs "O'Neil" := by decide

end Gedcom.C14
