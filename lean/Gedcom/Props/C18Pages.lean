/-
  C18 — page assembly inside the model.

  `Generated.pagePrograms` are the `WriteHTMLTo` bodies of the page components of package html,
  translated from the source (go/ast) into programs over the html/core algebra with holes
  (`Gedcom.Html.Prog`).  For every program that passes the decidable obligation `progOk` (the
  literal bytes of its nodes form complete fitting tags; every non-literal in a raw sink is on the
  allow-list) and for **every** assignment of byte strings to its string holes, the rendered bytes
  are well nested and have the same element/attribute skeleton as under any other assignment with
  the same control holes — in particular the one that blanks every string.  The theorems of the
  algebra (`render_wellNested`, `structure_preserved`) are lifted over `eval`.
-/
import Gedcom.Props.C18
import Gedcom.Model.HtmlProg
import Gedcom.Generated.Pages
namespace Gedcom.C18
open Gedcom Gedcom.Html

/-! ### helpers -/

theorem mem_subs {α : Type} {s l : List α} (h : s.Sublist l) : s ∈ subs l := by
  induction h with
  | slnil => simp [subs]
  | cons a _ ih => simp only [subs, List.mem_append]; exact Or.inl ih
  | cons_cons a _ ih => simp only [subs, List.mem_append, List.mem_map]; exact Or.inr ⟨_, ih, rfl⟩

theorem sortAttrs_cons (a : Str × Str) (l : List (Str × Str)) :
    sortAttrs (a :: l) = insertAttr a (sortAttrs l) := rfl

/-- a list that is already in `core.Tag`'s order is left alone by its sort -/
theorem sortAttrs_sorted (l : List (Str × Str)) (h : chainLe (l.map (·.1)) = true) : sortAttrs l = l := by
  induction l with
  | nil => rfl
  | cons a l ih =>
    rw [sortAttrs_cons]
    cases l with
    | nil => rfl
    | cons b t =>
      simp only [List.map_cons, chainLe, Bool.and_eq_true] at h
      rw [ih (by simpa [List.map_cons] using h.2)]
      simp [insertAttr, h.1]

theorem names_evalKV (ρ : Env) (attrs : List (Str × SExp)) :
    (attrs.map (evalKV ρ)).map (·.1) = attrs.map (·.1) := by
  simp [List.map_map, Function.comp_def, evalKV]

theorem mkTag_trusted (n : Str) (l : List (Str × Str)) (b : Comp)
    (hc : chainLe (l.map (·.1)) = true) (hf : tagFits n (l.map (·.1)) = true) :
    trusted (mkTag n l b) = trusted b := by
  unfold mkTag
  rw [sortAttrs_sorted l hc]
  have hsub : ((l.filter fun a => !a.2.isEmpty).map (·.1)) ∈ subs (l.map (·.1)) :=
    mem_subs (List.Sublist.map _ List.filter_sublist)
  have hw := (List.all_eq_true.mp hf) _ hsub
  have : wrapOk (Comp.pre (.tag n (l.filter fun a => !a.2.isEmpty) b))
      (Comp.post (.tag n (l.filter fun a => !a.2.isEmpty) b)) = true := by
    rw [← hw]
    apply wrapOk_congr
    · show (tagOpen n _).map eraseP = (tagOpen n _).map eraseP
      rw [tagOpen_erase, List.map_map]; rfl
    · rfl
  simp [trusted, this]

theorem mkTag_shape (n : Str) (l : List (Str × Str)) (b : Comp) (hc : chainLe (l.map (·.1)) = true) :
    shape (mkTag n l b) =
      .tag n ((l.filter fun a => !a.2.isEmpty).map fun kv => (kv.1, ([] : Str))) (shape b) := by
  unfold mkTag
  rw [sortAttrs_sorted l hc]; rfl

theorem getD_map_eq {α β : Type} (f : α → β) (l l' : List α) (h : l'.map f = l.map f) (i : Nat) (d : α) :
    f (l'.getD i d) = f (l.getD i d) := by
  induction l generalizing l' i with
  | nil =>
    cases l' with
    | nil => rfl
    | cons _ _ => simp at h
  | cons a t ih =>
    cases l' with
    | nil => simp at h
    | cons a' t' =>
      simp only [List.map_cons, List.cons.injEq] at h
      cases i with
      | zero => simpa using h.1
      | succ i => simpa using ih t' h.2 i

theorem isEmpty_append' (a b : Str) : (a ++ b).isEmpty = (a.isEmpty && b.isEmpty) := by
  cases a <;> cases b <;> rfl

theorem evalI_same (ρ ρ' : Env) (h : sameCtl ρ ρ') (n : IExp) : evalI ρ' n = evalI ρ n := by
  cases n with
  | lit n => rfl
  | hole i => simp [evalI, h.2.1]

/-- the emptiness of a string expression does not depend on the content of the holes -/
theorem evalS_empty (ρ ρ' : Env) (h : sameCtl ρ ρ') (e : SExp) :
    (evalS ρ' e).isEmpty = (evalS ρ e).isEmpty := by
  induction e with
  | lit s => rfl
  | hole i => exact getD_map_eq List.isEmpty _ _ h.1 i []
  | cat a b iha ihb => simp only [evalS, isEmpty_append', iha, ihb]
  | itoa n => simp [evalS, evalI_same ρ ρ' h]

theorem attrs_shape_congr (ρ ρ' : Env) (h : sameCtl ρ ρ') (attrs : List (Str × SExp)) :
    (((attrs.map (evalKV ρ')).filter fun a => !a.2.isEmpty).map fun kv => (kv.1, ([] : Str))) =
    (((attrs.map (evalKV ρ)).filter fun a => !a.2.isEmpty).map fun kv => (kv.1, ([] : Str))) := by
  induction attrs with
  | nil => rfl
  | cons a t ih =>
    simp only [List.map_cons, List.filter_cons, evalKV, evalS_empty ρ ρ' h a.2]
    split
    · simp only [List.map_cons]; rw [ih]
    · exact ih

theorem shape_seqs (l : List Comp) : shape (seqs l) = seqs (l.map shape) := by
  induction l with
  | nil => rfl
  | cons c cs ih => simp [seqs, shape, ih]

theorem trusted_seqs (l : List Comp) : trusted (seqs l) = l.all trusted := by
  induction l with
  | nil => rfl
  | cons c cs ih => simp [seqs, trusted, ih]

theorem getD_all {α : Type} (p : α → Bool) (l : List α) (h : l.all p = true) (i : Nat) (d : α) (hd : p d = true) :
    p (l.getD i d) = true := by
  induction l generalizing i with
  | nil => simpa using hd
  | cons a t ih =>
    simp only [List.all_cons, Bool.and_eq_true] at h
    cases i with
    | zero => simpa using h.1
    | succ i => simpa using ih h.2 i

theorem lookup_mem' {α : Type} (l : List (Nat × α)) (k : Nat) (v : α) (h : l.lookup k = some v) : (k, v) ∈ l := by
  induction l with
  | nil => simp at h
  | cons a t ih =>
    obtain ⟨a1, a2⟩ := a
    simp only [List.lookup_cons] at h
    split at h
    · rename_i heq
      have : k = a1 := by simpa using heq
      subst this
      simp only [Option.some.injEq] at h
      subst h
      exact List.mem_cons_self
    · exact List.mem_cons_of_mem _ (ih h)

theorem page0_trusted : trusted (mkPage [] .nil []) = true := by decide +kernel
theorem row_wrap : wrapOk (Comp.pre (.row .nil)) (Comp.post (.row .nil)) = true := by decide +kernel
theorem tr_wrap : wrapOk (Comp.pre (.tableRow .nil)) (Comp.post (.tableRow .nil)) = true := by decide +kernel

/-- the frame of `core.Page` is trusted for every title once it is for the empty one -/
theorem mkPage_trusted (t g : Str) (b : Comp) (h0 : trusted (mkPage [] .nil g) = true) :
    trusted (mkPage t b g) = trusted b := by
  have h0' : wrapOk (Comp.pre (.page [] g .nil footerRow)) (Comp.post (.page [] g .nil footerRow)) = true
      ∧ trusted footerRow = true := by
    have : (wrapOk (Comp.pre (.page [] g .nil footerRow)) (Comp.post (.page [] g .nil footerRow))
        && trusted Comp.nil && trusted footerRow) = true := h0
    simp only [trusted, Bool.and_true, Bool.and_eq_true] at this
    exact this
  have hw : wrapOk (Comp.pre (.page t g b footerRow)) (Comp.post (.page t g b footerRow)) = true := by
    rw [← h0'.1]
    apply wrapOk_congr
    · rw [pre_erase]; rfl
    · rfl
  show (wrapOk (Comp.pre (.page t g b footerRow)) (Comp.post (.page t g b footerRow))
        && trusted b && trusted footerRow) = trusted b
  simp [hw, h0'.2]

/-! ### the two inductions over programs -/

/-- **Programs keep trust**: under the obligation `progOk` and the assumptions `envOk` on the
    control holes, the tree a program builds is trusted — for every content of the string holes -/
theorem eval_trusted (p : Prog) (hp : progOk p = true) (ρ : Env) (hρ : envOk ρ = true) :
    trusted (eval ρ p) = true := by
  simp only [envOk, Bool.and_eq_true] at hρ
  obtain ⟨⟨⟨hk, hl⟩, hr⟩, hg⟩ := hρ
  induction p with
  | nil => rfl
  | seq a b iha ihb =>
    simp only [progOk, Bool.and_eq_true] at hp
    simp [eval, trusted, iha hp.1, ihb hp.2]
  | kid i => exact getD_all trusted _ hk i .nil rfl
  | kids i =>
    simp only [eval, trusted_seqs]
    exact getD_all (fun l => l.all trusted) _ hl i [] rfl
  | cond b t e iht ihe =>
    simp only [progOk, Bool.and_eq_true] at hp
    simp only [eval]
    split
    · exact iht hp.1
    · exact ihe hp.2
  | text s => rfl
  | raw r =>
    cases r with
    | lit s => exact hp
    | hole id =>
      show leafOk [lit (lookupRaw ρ.raws id)] = true
      unfold lookupRaw
      split
      · rename_i v hv
        exact (List.all_eq_true.mp hr) _ (lookup_mem' _ _ _ hv)
      · decide
  | anchor s => exact anchor_trusted _
  | tableHead cols => exact tableHead_trusted _
  | number n => exact number_trusted _
  | tag name attrs body ih =>
    simp only [progOk, Bool.and_eq_true] at hp
    simp only [eval]
    rw [mkTag_trusted _ _ _ (by rw [names_evalKV]; exact hp.1.1) (by rw [names_evalKV]; exact hp.1.2)]
    exact ih hp.2
  | cell h c w s body ih =>
    simp only [progOk, Bool.and_eq_true] at hp
    show (wrapOk (cellOpen h c w s) (cellClose h) && trusted (eval ρ body)) = true
    simp [hp.1, ih hp.2]
  | table c body ih =>
    simp only [progOk, Bool.and_eq_true] at hp
    show (wrapOk (Comp.pre (.table c .nil)) (Comp.post (.table c .nil)) && trusted (eval ρ body)) = true
    simp [hp.1, ih hp.2]
  | tableRow body ih =>
    show (wrapOk (Comp.pre (.tableRow .nil)) (Comp.post (.tableRow .nil)) && trusted (eval ρ body)) = true
    simp [tr_wrap, ih hp]
  | row body ih =>
    show (wrapOk (Comp.pre (.row .nil)) (Comp.post (.row .nil)) && trusted (eval ρ body)) = true
    simp [row_wrap, ih hp]
  | page t g body ih =>
    simp only [progOk, Bool.and_eq_true] at hp
    simp only [eval]
    cases g with
    | none => rw [mkPage_trusted _ _ _ page0_trusted]; exact ih hp.2
    | some id => rw [mkPage_trusted _ _ _ hg]; exact ih hp.2

/-- **Programs have one shape**: two assignments that differ only in the content of the string
    holes (and in the data inside the children) build trees of the same shape -/
theorem eval_shape (p : Prog) (hp : progOk p = true) (ρ ρ' : Env) (h : sameCtl ρ ρ') :
    shape (eval ρ' p) = shape (eval ρ p) := by
  induction p with
  | nil => rfl
  | seq a b iha ihb =>
    simp only [progOk, Bool.and_eq_true] at hp
    simp [eval, shape, iha hp.1, ihb hp.2]
  | kid i => exact getD_map_eq shape _ _ h.2.2.2.1 i .nil
  | kids i =>
    simp only [eval, shape_seqs]
    exact congrArg seqs (getD_map_eq (fun l => l.map shape) _ _ h.2.2.2.2.1 i [])
  | cond b t e iht ihe =>
    simp only [progOk, Bool.and_eq_true] at hp
    simp only [eval, h.2.2.1]
    split
    · exact iht hp.1
    · exact ihe hp.2
  | text s => rfl
  | raw r =>
    cases r with
    | lit s => rfl
    | hole id => simp [eval, evalR, h.2.2.2.2.2.1]
  | anchor s => rfl
  | tableHead cols => simp [eval, shape, List.map_map]
  | number n => simp [eval, evalI_same ρ ρ' h]
  | tag name attrs body ih =>
    simp only [progOk, Bool.and_eq_true] at hp
    simp only [eval]
    rw [mkTag_shape _ _ _ (by rw [names_evalKV]; exact hp.1.1),
        mkTag_shape _ _ _ (by rw [names_evalKV]; exact hp.1.1), attrs_shape_congr ρ ρ' h, ih hp.2]
  | cell hd c w s body ih =>
    simp only [progOk, Bool.and_eq_true] at hp
    simp [eval, shape, ih hp.2]
  | table c body ih =>
    simp only [progOk, Bool.and_eq_true] at hp
    simp [eval, shape, ih hp.2]
  | tableRow body ih => simp [eval, shape, ih hp]
  | row body ih => simp [eval, shape, ih hp]
  | page t g body ih =>
    simp only [progOk, Bool.and_eq_true] at hp
    simp only [eval, mkPage, shape, ih hp.2, h.2.2.2.2.2.2]

/-! ### the property, over the regenerated programs -/

/-- every program regenerated from package html passes the obligation: literal fragments are
    complete fitting tags, attribute lists are in `core.Tag`'s order, and no hole reaches a raw
    sink unless its call is on the allow-list (`rawSinkAllowList`, with reasons) -/
theorem page_programs_ok : Generated.pagePrograms.all (fun np => progOk np.2) = true := by
  decide +kernel

/-- **Structure of a page component is independent of file content.**  For every regenerated
    program, every assignment `ρ` whose control holes satisfy `envOk`, and every other assignment
    `ρ'` of byte strings to the string holes (`sameCtl`: same ints, bools, raw holes, child shapes;
    a string is empty in `ρ'` iff it is in `ρ`): the bytes rendered under `ρ'` are well nested and
    tokenize to the same tags, attribute names and nesting as under `ρ`. -/
theorem page_structure_preserved (name : String) (p : Prog) (hmem : (name, p) ∈ Generated.pagePrograms)
    (ρ ρ' : Env) (hρ : envOk ρ = true) (h : sameCtl ρ ρ') :
    wellNested (render (eval ρ' p)) = true ∧
    skeleton (render (eval ρ' p)) = skeleton (render (eval ρ p)) := by
  have hp : progOk p = true := (List.all_eq_true.mp page_programs_ok) _ hmem
  have ht := eval_trusted p hp ρ hρ
  have hs := eval_shape p hp ρ ρ' h
  have ht' : trusted (eval ρ' p) = true := by rw [← trusted_shape, hs, trusted_shape]; exact ht
  exact ⟨render_wellNested _ ht', structure_preserved _ _ hs ht⟩

theorem sameCtl_blank (ρ : Env) : sameCtl ρ (blankEnv ρ) := by
  refine ⟨?_, rfl, rfl, rfl, rfl, rfl, rfl⟩
  simp only [blankEnv, List.map_map]
  apply List.map_congr_left
  intro s _
  cases s <;> simp

/-- … in particular the page has the skeleton it has when every non-empty string is `x`: no
    content of a GEDCOM file can add, remove or reorder a tag or an attribute -/
theorem page_structure_blank (name : String) (p : Prog) (hmem : (name, p) ∈ Generated.pagePrograms)
    (ρ : Env) (hρ : envOk ρ = true) :
    wellNested (render (eval ρ p)) = true ∧
    skeleton (render (eval ρ p)) = skeleton (render (eval (blankEnv ρ) p)) := by
  have hb : envOk (blankEnv ρ) = true := hρ
  have hsym : sameCtl (blankEnv ρ) ρ := by
    obtain ⟨a, b, c, d, e, f, g⟩ := sameCtl_blank ρ
    exact ⟨a.symm, b.symm, c.symm, d.symm, e.symm, f.symm, g.symm⟩
  exact page_structure_preserved name p hmem (blankEnv ρ) ρ hb hsym

/-- a program in which a string hole reaches a raw sink by a call that is not on the allow-list is
    rejected, and so is one whose literal HTML does not close what it opens -/
theorem progOk_rejects :
    progOk (.raw (.hole 12345)) = false ∧ progOk (.raw (.lit b!"<td>")) = false ∧
    progOk (.tag b!"a b" [] .nil) = false ∧ progOk (.tag b!"a" [(b!"x\"y", .hole 0)] .nil) = false := by
  decide +kernel

/-! ### the Google Analytics id -/

/-- a Google Analytics id that cannot leave its attribute or its script: no `<`, no `"` -/
def inertB (g : Str) : Bool := g.all fun b => b != 60 && b != 34

theorem lexRun_inert (st : LState) (h : dataOk st = true) (g : Str) (hg : inertB g = true) :
    lexRun st g = (st, []) := by
  have hb : ∀ b ∈ g, b ≠ 60 ∧ b ≠ 34 := by
    intro b hb
    have := (List.all_eq_true.mp hg) b hb
    simpa using this
  cases st with
  | data => exact lexRun_data_stay _ fun b hb' => (hb b hb').1
  | quoted c q =>
    have hq : q = 34 := by simpa [dataOk] using h
    subst hq
    exact lexRun_quoted_stay _ _ _ fun b hb' => (hb b hb').2
  | rawText e m =>
    have hm : m = 0 ∧ e.head? = some 60 := by simpa [dataOk] using h
    obtain ⟨hm0, hhead⟩ := hm
    subst hm0
    exact lexRun_rawText_stay _ _ hhead fun b hb' => (hb b hb').1
  | _ => simp [dataOk] at h

/-- the slots of the id (marked as anchor data in the template) filled with the id's own bytes -/
def fill (g : Str) : Piece → Piece
  | .data .anchor _ => .lit g
  | p => p

theorem runPieces_fill (g : Str) (hg : inertB g = true) (st : LState) (ps : List Piece)
    (r : LState × List Tok) (h : runPieces st ps = some r) : runPieces st (ps.map (fill g)) = some r := by
  induction ps generalizing st r with
  | nil => exact h
  | cons p ps ih =>
    cases p with
    | lit s =>
      simp only [List.map_cons, fill, runPieces] at h ⊢
      cases h2 : runPieces (lexRun st s).1 ps with
      | none => simp [h2] at h
      | some r2 => rw [ih _ _ h2]; simpa [h2] using h
    | data e v =>
      simp only [runPieces] at h
      split at h
      · rename_i hok
        cases e with
        | anchor =>
          simp only [List.map_cons, fill, runPieces, lexRun_inert st hok g hg]
          rw [ih _ _ h]; simp
        | text => simp only [List.map_cons, fill, runPieces, hok, if_true]; exact ih _ _ h
        | head => simp only [List.map_cons, fill, runPieces, hok, if_true]; exact ih _ _ h
        | attr => simp only [List.map_cons, fill, runPieces, hok, if_true]; exact ih _ _ h
      · simp at h

theorem fmtPieces_fill (g : Str) (f : Str) (args : List Piece) :
    fmtPieces f (args.map (fill g)) = (fmtPieces f args).map (fill g) := by
  induction f, args using fmtPieces.induct with
  | case1 args => simp [fmtPieces]
  | case2 b args => simp [fmtPieces, fill]
  | case3 b c t args hb hc ih => simp [fmtPieces, hb, hc, ih, fill]
  | case4 b c t hb hc a rest ih => simp [fmtPieces, hb, hc, ih]
  | case5 b c t hb hc ih => simp [fmtPieces, hb, hc, fill] at ih ⊢; exact ih
  | case6 b c t args hb ih => simp [fmtPieces, hb, ih, fill]

theorem wrapOk_fill (g : Str) (hg : inertB g = true) (T post : List Piece) (h : wrapOk T post = true) :
    wrapOk (T.map (fill g)) post = true := by
  unfold wrapOk at h ⊢
  cases h1 : runPieces .data T with
  | none => simp [h1] at h
  | some r => rw [runPieces_fill g hg _ _ _ h1]; simpa [h1] using h

theorem escWith_nil (g : Str) : escWith [] g = g := by
  induction g with
  | nil => rfl
  | cons b t ih =>
    simp only [escWith] at ih ⊢
    simp [List.flatMap_cons, escByte, ih]

/-- the page frame with the two slots of the Google Analytics id left open -/
def gaTemplate : List Piece :=
  [lit Generated.pageHead] ++ fmtPieces Generated.gaFmt [.data .anchor [], .data .anchor []]
    ++ tagOpen Generated.pageTitleTag [] ++ [.data .text []] ++ tagClose Generated.pageTitleTag
    ++ [lit Generated.pageMid]

theorem gaTemplate_ok : wrapOk gaTemplate [lit Generated.pageTail] = true := by decide +kernel

/-- **The Google Analytics assumption of `envOk`, discharged**: the page frame is trusted for every
    id without `<` and `"` (the id is a command line option, written raw into an attribute and a
    script) -/
theorem ga_inert_trusted (g : Str) (hg : inertB g = true) : trusted (mkPage [] .nil g) = true := by
  cases hge : g with
  | nil => exact page0_trusted
  | cons x xs =>
    rw [← hge]
    have hne : g.isEmpty = false := by rw [hge]; rfl
    have hraw : rawGaId g = g := by
      unfold rawGaId
      have : Generated.gaEscTable = [] := rfl
      rw [this, escWith_nil]
    have hpre : (Comp.page [] g .nil footerRow).pre = gaTemplate.map (fill g) := by
      simp only [Comp.pre, gaTemplate, gaPieces, hne, hraw, List.map_append, ← fmtPieces_fill]
      rfl
    show (wrapOk (Comp.page [] g .nil footerRow).pre (Comp.page [] g .nil footerRow).post
        && trusted Comp.nil && trusted footerRow) = true
    rw [hpre]
    have := wrapOk_fill g hg gaTemplate [lit Generated.pageTail] gaTemplate_ok
    simp only [Comp.post]
    rw [this]
    simp [trusted, constants_trusted.2.2.2.2.2]

theorem envOk_of_inert (ρ : Env) (hk : ρ.kids.all trusted = true) (hl : ρ.lists.all (·.all trusted) = true)
    (hr : ρ.raws.all (fun kv => leafOk [lit kv.2]) = true) (hg : inertB ρ.ga = true) : envOk ρ = true := by
  simp [envOk, hk, hl, hr, ga_inert_trusted _ hg]

/-- a program instance without children and raw holes needs no assumption at all beyond an inert
    Google Analytics id: whatever the strings, well nested and of one skeleton -/
theorem page_structure_leaf (name : String) (p : Prog) (hmem : (name, p) ∈ Generated.pagePrograms)
    (strs strs' : List Str) (ints : List Int) (bools : List Bool) (ga : Str) (hg : inertB ga = true)
    (he : strs'.map List.isEmpty = strs.map List.isEmpty) :
    wellNested (render (eval { strs := strs', ints := ints, bools := bools, ga := ga } p)) = true ∧
    skeleton (render (eval { strs := strs', ints := ints, bools := bools, ga := ga } p)) =
      skeleton (render (eval { strs := strs, ints := ints, bools := bools, ga := ga } p)) :=
  page_structure_preserved name p hmem _ _ (envOk_of_inert _ rfl rfl rfl hg) ⟨he, rfl, rfl, rfl, rfl, rfl, rfl⟩

/-- the assumption of `envOk` on a raw hole holds for every value without `<` (ages: digits, `y`,
    `m`, `~`, `unknown`) -/
theorem raw_hole_inert (v : Str) (h : ∀ b ∈ v, b ≠ 60) : leafOk [lit v] = true := by
  simp [leafOk, runPieces, lit, lexRun_data_stay _ h, chk]

/-! ### programs all the way down -/

/-- a page assembled from regenerated programs all the way down: the children of every program
    are again program instances, or execution-only components that are trusted themselves -/
inductive Assembled : Comp → Prop
  | leaf (c : Comp) (h : trusted c = true) : Assembled c
  | prog (name : String) (p : Prog) (hmem : (name, p) ∈ Generated.pagePrograms) (ρ : Env)
      (hk : ∀ k ∈ ρ.kids, Assembled k) (hl : ∀ l ∈ ρ.lists, ∀ k ∈ l, Assembled k)
      (hr : ρ.raws.all (fun kv => leafOk [lit kv.2]) = true) (hg : trusted (mkPage [] .nil ρ.ga) = true) :
      Assembled (eval ρ p)

/-- … is trusted, hence well nested, whatever strings the holes of any level hold -/
theorem assembled_trusted (c : Comp) (h : Assembled c) : trusted c = true := by
  induction h with
  | leaf c h => exact h
  | prog name p hmem ρ hk hl hr hg ihk ihl =>
    have hp : progOk p = true := (List.all_eq_true.mp page_programs_ok) _ hmem
    apply eval_trusted p hp ρ
    simp only [envOk, Bool.and_eq_true]
    refine ⟨⟨⟨?_, ?_⟩, hr⟩, hg⟩
    · exact List.all_eq_true.mpr ihk
    · exact List.all_eq_true.mpr fun l hl' => List.all_eq_true.mpr (ihl l hl')

theorem assembled_wellNested (c : Comp) (h : Assembled c) : wellNested (render c) = true :=
  render_wellNested c (assembled_trusted c h)


theorem all_of_getD {α : Type} (p : α → Bool) (l : List α) (d : α) (h : ∀ i, p (l.getD i d) = true) :
    l.all p = true := by
  induction l with
  | nil => rfl
  | cons a t ih =>
    simp only [List.all_cons, Bool.and_eq_true]
    exact ⟨by simpa using h 0, ih fun i => by simpa using h (i + 1)⟩

theorem map_eq_of_getD {α β : Type} (f : α → β) (l l' : List α) (d : α) (hlen : l'.length = l.length)
    (h : ∀ i, f (l'.getD i d) = f (l.getD i d)) : l'.map f = l.map f := by
  induction l generalizing l' with
  | nil => cases l' with
    | nil => rfl
    | cons _ _ => simp at hlen
  | cons a t ih =>
    cases l' with
    | nil => simp at hlen
    | cons a' t' =>
      simp only [List.map_cons]
      congr 1
      · simpa using h 0
      · exact ih t' (by simpa using hlen) fun i => by simpa using h (i + 1)

/-- two pages assembled by the same programs at every level, with the same control holes and
    arbitrary strings in the string holes of every level -/
inductive SameAssembly : Comp → Comp → Prop
  | leaf (c c' : Comp) (hs : shape c' = shape c) (h : trusted c = true) : SameAssembly c c'
  | prog (name : String) (p : Prog) (hmem : (name, p) ∈ Generated.pagePrograms) (ρ ρ' : Env)
      (hstr : ρ'.strs.map List.isEmpty = ρ.strs.map List.isEmpty) (hi : ρ'.ints = ρ.ints)
      (hb : ρ'.bools = ρ.bools) (hraw : ρ'.raws = ρ.raws) (hga : ρ'.ga = ρ.ga)
      (hkl : ρ'.kids.length = ρ.kids.length)
      (hk : ∀ i, SameAssembly (ρ.kids.getD i .nil) (ρ'.kids.getD i .nil))
      (hll : ρ'.lists.length = ρ.lists.length)
      (hlen : ∀ j, (ρ'.lists.getD j []).length = (ρ.lists.getD j []).length)
      (hl : ∀ j i, SameAssembly ((ρ.lists.getD j []).getD i .nil) ((ρ'.lists.getD j []).getD i .nil))
      (hr : ρ.raws.all (fun kv => leafOk [lit kv.2]) = true) (hg : trusted (mkPage [] .nil ρ.ga) = true) :
      SameAssembly (eval ρ p) (eval ρ' p)

theorem sameAssembly_shape (c c' : Comp) (h : SameAssembly c c') : trusted c = true ∧ shape c' = shape c := by
  induction h with
  | leaf c c' hs h => exact ⟨h, hs⟩
  | prog name p hmem ρ ρ' hstr hi hb hraw hga hkl hk hll hlen hl hr hg ihk ihl =>
    have hp : progOk p = true := (List.all_eq_true.mp page_programs_ok) _ hmem
    constructor
    · apply eval_trusted p hp ρ
      simp only [envOk, Bool.and_eq_true]
      refine ⟨⟨⟨?_, ?_⟩, hr⟩, hg⟩
      · exact all_of_getD trusted _ .nil fun i => (ihk i).1
      · exact all_of_getD (fun l => l.all trusted) _ [] fun j => all_of_getD trusted _ .nil fun i => (ihl j i).1
    · apply eval_shape p hp ρ ρ'
      refine ⟨hstr, hi, hb, ?_, ?_, hraw, hga⟩
      · exact map_eq_of_getD shape _ _ .nil hkl fun i => (ihk i).2
      · exact map_eq_of_getD (fun l => l.map shape) _ _ [] hll fun j =>
          map_eq_of_getD shape _ _ .nil (hlen j) fun i => (ihl j i).2

/-- **Whole pages.**  Assembled from regenerated programs at every level (leaves: components
    outside the translator's fragment, assumed trusted), a page is well nested and its skeleton
    does not depend on what any string hole of any level holds. -/
theorem assembly_structure_preserved (c c' : Comp) (h : SameAssembly c c') :
    wellNested (render c') = true ∧ skeleton (render c') = skeleton (render c) := by
  obtain ⟨ht, hs⟩ := sameAssembly_shape c c' h
  have ht' : trusted c' = true := by rw [← trusted_shape, hs, trusted_shape]; exact ht
  exact ⟨render_wellNested _ ht', structure_preserved _ _ hs ht⟩

/-! ### the program builders are the composites of the model

  `Prog.div`, `Prog.link`, … (what the translator emits for `core.NewDiv`, `core.NewLink`, …) build,
  under every assignment, exactly the trees of `Html.div`, `Html.link`, … — the composites that the
  correspondence on random html/core trees ties to the Go constructors byte for byte. -/

theorem eval_seqs (ρ : Env) (l : List Prog) : eval ρ (Prog.seqs l) = seqs (l.map (eval ρ)) := by
  induction l with
  | nil => rfl
  | cons c cs ih => simp [Prog.seqs, seqs, eval, ih]

theorem eval_div (ρ : Env) (c : SExp) (b : Prog) : eval ρ (Prog.div c b) = div (evalS ρ c) (eval ρ b) := rfl
theorem eval_span (ρ : Env) (c : SExp) (b : Prog) : eval ρ (Prog.span c b) = span (evalS ρ c) (eval ρ b) := rfl
theorem eval_heading (ρ : Env) (n : Int) (c : SExp) (b : Prog) :
    eval ρ (Prog.heading n c b) = heading n (evalS ρ c) (eval ρ b) := rfl
theorem eval_column (ρ : Env) (w : Int) (b : Prog) : eval ρ (Prog.column w b) = column w (eval ρ b) := rfl
theorem eval_badgePill (ρ : Env) (color cls : SExp) (v : Prog) :
    eval ρ (Prog.badgePill color cls v) = badgePill (evalS ρ color) (evalS ρ cls) (eval ρ v) := by
  simp [Prog.badgePill, badgePill, eval_span, evalS, List.append_assoc]
theorem eval_bigTitle (ρ : Env) (n : Int) (t : Prog) : eval ρ (Prog.bigTitle n t) = bigTitle n (eval ρ t) := rfl
theorem eval_cardNoCount (ρ : Env) (t b : Prog) :
    eval ρ (Prog.cardNoCount t b) = card (eval ρ t) (-1) (eval ρ b) := rfl
theorem eval_link (ρ : Env) (b : Prog) (d s : SExp) :
    eval ρ (Prog.link b d s) = link (eval ρ b) (evalS ρ d) (evalS ρ s) := by
  simp [Prog.link, link, eval, evalKV, mkTag, sortAttrs, insertAttr, strLe]
theorem eval_keyedRow (ρ : Env) (t : SExp) (v : Prog) :
    eval ρ (Prog.keyedRow t v) = keyedTableRow (evalS ρ t) true (eval ρ v) := rfl
theorem eval_navAnchor (ρ : Env) (a : Bool) (h : SExp) (b : Prog) :
    eval ρ (Prog.navAnchor a h b) = navItem (eval ρ b) a (evalS ρ h) := rfl
theorem eval_octicon (ρ : Env) (n s : SExp) :
    eval ρ (Prog.octicon n s) = octicon (evalS ρ n) (evalS ρ s) := rfl
theorem eval_space (ρ : Env) : eval ρ Prog.space = space ∧ eval ρ Prog.empty = empty ∧
    eval ρ Prog.lineBreak = lineBreak ∧ eval ρ Prog.horizontalRule = horizontalRule ∧
    eval ρ Prog.horizontalRuleRow = horizontalRuleRow := ⟨rfl, rfl, rfl, rfl, rfl⟩
theorem eval_lines (ρ : Env) (l : List Prog) : eval ρ (Prog.lines l) = lines (l.map (eval ρ)) := by
  induction l with
  | nil => rfl
  | cons c cs ih =>
    cases cs with
    | nil => rfl
    | cons d ds => simp only [Prog.lines, List.map_cons, lines, eval] at ih ⊢; rw [ih]; rfl
theorem eval_countBadge (ρ : Env) (n : IExp) : eval ρ (Prog.countBadge n) = countBadge (evalI ρ n) := by
  simp [Prog.countBadge, countBadge, Prog.badgePill, badgePill, Prog.span, span, eval, evalKV, evalS]
theorem eval_cardCount (ρ : Env) (t : Prog) (n : IExp) (b : Prog) (h : evalI ρ n ≠ -1) :
    eval ρ (Prog.cardCount t n b) = card (eval ρ t) (evalI ρ n) (eval ρ b) := by
  simp [Prog.cardCount, card, h, Prog.div, div, Prog.heading, heading, Prog.badgePill, badgePill, Prog.span, span, eval, evalKV, evalS]
theorem eval_navPills (ρ : Env) (l : List Prog) :
    eval ρ (Prog.navPills (Prog.seqs l)) = navPills (l.map (eval ρ)) := by
  simp [Prog.navPills, navPills, eval, eval_seqs, evalKV, evalS]
theorem eval_navPillsRow (ρ : Env) (l : List Prog) :
    eval ρ (Prog.navPillsRow (Prog.seqs l)) = navPillsRow (l.map (eval ρ)) := by
  simp [Prog.navPillsRow, navPillsRow, Prog.column, column, Prog.div, div, eval, eval_navPills, evalKV, evalS]
theorem eval_navTabs (ρ : Env) (l : List Prog) :
    eval ρ (Prog.navTabs (Prog.seqs l)) = navTabs (l.map (eval ρ)) := by
  simp [Prog.navTabs, navTabs, Prog.column, column, Prog.div, div, eval, eval_seqs, evalKV, evalS]

/-! ### Non-vacuity -/

/-- a hostile value in every hole of a link program: same skeleton as the blank one, well nested -/
example :
    let p := Prog.link (.text (.hole 0)) (.hole 1) (.lit [])
    let evil : Str := b!"\"></a><script>alert(1)</script>'&"
    let ρ : Env := { strs := [evil, evil] }
    progOk p = true ∧ envOk ρ = true ∧ wellNested (render (eval ρ p)) = true ∧
    skeleton (render (eval ρ p)) = skeleton (render (eval (blankEnv ρ) p)) := by decide +kernel

/-- emptiness is control: an empty destination drops the `href` attribute (`core.NewTag`) -/
example :
    let p := Prog.link (.text (.hole 0)) (.hole 1) (.lit [])
    skeleton (render (eval { strs := [b!"a", []] } p)) ≠ skeleton (render (eval { strs := [b!"a", b!"x"] } p)) := by
  decide +kernel

end Gedcom.C18
