/-
  C11 — the decisions of the matching passes are the decisions of the Go source.
  `Generated.MatchSrc` is written on every run by harness/extract_matchsrc.go from the go/ast of
  `calculateWinners` and `createPointerJobs` (individual_nodes.go): the comparator handed to
  `sort.SliceStable`, the threshold tests, and the statements of the two loops in source order.
  The obligation pins the statement order and rejects anything outside the fragment; the
  theorems prove that the model's stable insertion, winner loop and pointer pass make exactly
  the translated comparisons, in that order, for all scores and thresholds.
-/
import Gedcom.Model.Match
import Gedcom.Generated.MatchSrc
namespace Gedcom.C11
open Gedcom Gedcom.Match Gedcom.MatchSrc

/-- the translated facts lie inside the fragment, the sort is the stable one, and the loops have
    exactly the statement sequences the model was written against: winner loop = threshold test
    with `break`, then the `found` test on both sides with `continue`, then send and the two
    marks; pointer pass = (in the worker pool, per left index) sentA guard, ByPointer look-up,
    nil guard, sentB guard, forced score, acceptance test, which stores the certain pair at its
    left index; then, sequentially in the order of the left slice, nil / sentA / sentB guards,
    adjust, send, store both pointers (since the fix "a right individual is matched by pointer
    only once, whatever the number of jobs") -/
theorem match_source_shape :
    Generated.srcSortIsStable = true ∧ Generated.srcLess.ok = true ∧ Generated.srcBreak.ok = true ∧
    Generated.srcAccept.ok = true ∧
    Generated.srcWinnerLoop = ["let:minW", "break-if", "skip-if-found:Left|Right", "send", "mark:Left", "mark:Right"] ∧
    Generated.srcPointerLoop = ["bind:a", "skip-if-sentA(a)", "lookup:b=ByPointer(a)", "skip-if-nil(b)",
      "skip-if-sentB(b)", "score:forced", "accept-if"] ∧
    Generated.srcAcceptBody = ["store-match:certain(a,b)@leftI"] ∧
    Generated.srcPointerEmit = ["skip-if-nil(match)", "skip-if-sentA(match.Left)", "skip-if-sentB(match.Right)",
      "adjust", "send:match", "storeA(match.Left)", "storeB(match.Right)"] := by
  decide

def envSort (i j : Rat) : Operand → Rat
  | .scoreI => i | .scoreJ => j | _ => 0

/-- the model's stable insertion moves a result behind an already placed one exactly when the
    source comparator sorts the placed one first -/
theorem sort_comparator_is_the_source (c d : Job) (ds : List Job) :
    insertDesc c (d :: ds) =
      if Generated.srcLess.eval (envSort d.score c.score) then d :: insertDesc c ds else c :: d :: ds := by
  by_cases h : c.score < d.score <;>
    simp [insertDesc, Generated.srcLess, Fact.eval, envSort, h]

def envWin (score minW : Rat) : Operand → Rat
  | .score => score | .minW => minW | _ => 0

/-- one iteration of the model's winner loop is the source's: the translated threshold test ends
    the loop, then the `found` test on either side skips, else the pair is sent and both sides
    are marked -/
theorem winner_loop_is_the_source (minW : Rat) (j : Job) (js : List Job) (found : List Nat) :
    greedy minW (j :: js) found =
      if Generated.srcBreak.eval (envWin j.score minW) then []
      else if found.contains j.l || found.contains j.r then greedy minW js found
      else j :: greedy minW js (j.l :: j.r :: found) := by
  by_cases h : j.score < minW <;>
    simp [greedy, Generated.srcBreak, Fact.eval, envWin, h]

def envPtr (score prefer : Rat) : Operand → Rat
  | .score => score | .prefer => prefer | _ => 0

/-- one iteration of the model's pointer pass is the source's: sentA guard, look-up by pointer,
    nil guard, sentB guard, then the translated `>= PreferPointerAbove` test on the forced score.
    The model's pass is sequential in the order of the left list with the sent sets threaded
    through; the source tests the guards in the pool against the sets the pass started with and
    again — against the current sets, with the stores — when it emits the stored matches in
    left-slice order.  The current sets contain the initial ones, so the emitted pairs are those
    of the model's single pass, for every number of jobs. -/
theorem pointer_pass_is_the_source (R : List Person) (scoreT : Nat → Nat → Rat) (prefer : Rat)
    (a : Person) (as : List Person) (s : Sent) :
    pointerJobs R scoreT prefer (a :: as) s =
      if s.a.contains a.ptr then pointerJobs R scoreT prefer as s else
      match R.find? (fun b => b.ptr == a.ptr) with
      | none => pointerJobs R scoreT prefer as s
      | some b =>
        if s.b.contains b.ptr then pointerJobs R scoreT prefer as s
        else if Generated.srcAccept.eval (envPtr (scoreT a.id b.id) prefer) then
          (⟨a.id, b.id, true, scoreT a.id b.id⟩ :: (pointerJobs R scoreT prefer as ⟨a.ptr :: s.a, b.ptr :: s.b⟩).1,
           (pointerJobs R scoreT prefer as ⟨a.ptr :: s.a, b.ptr :: s.b⟩).2)
        else pointerJobs R scoreT prefer as s := by
  rw [pointerJobs]
  by_cases h1 : s.a.contains a.ptr = true
  · rw [if_pos h1, if_pos h1]
  · rw [if_neg h1, if_neg h1]
    cases hf : R.find? (fun b => b.ptr == a.ptr) with
    | none => rfl
    | some b =>
      simp only
      by_cases h2 : s.b.contains b.ptr = true
      · rw [if_pos h2, if_pos h2]
      · rw [if_neg h2, if_neg h2]
        by_cases h : prefer ≤ scoreT a.id b.id <;>
          simp [Generated.srcAccept, Fact.eval, envPtr, h]

end Gedcom.C11
