/-
  C10 — when does the merged document decode again?  `output_redecodes` (Props/C10Compose.lean)
  needs `recordsBelowFam` of both inputs.  Here, without any condition on where role lines sit:
  * `output_redecodes_iff` — for inputs made of legal parts (everything the decoder returns, C02
    `decode_legal`) and any comparisons: the merged document decodes to itself **iff** its records,
    in the order the merge emits them (merged individuals first, then the other records), satisfy
    the role-order condition `rolesOKF false` — the Boolean the driver prints as `legal=` for every
    `mergedocs` request and the harness compares with what the real decoder does with the real
    output;
  * `roles_counterexample` — the condition on the inputs cannot be dropped: a document that the
    decoder accepts (a CHIL line inside an INDI record that follows a FAM record) merged with the
    empty document comes out with the individual *before* the family, and that text is rejected
    by the decoder ("CHIL without a family").  Replayed on the implementation by the harness
    (shape `roles-outside-fam`).
-/
import Gedcom.Props.C10Compose
namespace Gedcom.C10
open Gedcom Gedcom.Match Gedcom.MergeD Gedcom.Dec

/-- **output_redecodes_iff.** -/
theorem output_redecodes_iff (res : List Res) (Ld Rd : List INode) (st st' : MSt)
    (indis : List (Res × INode)) (others : List INode) (bom : Bool) (o : Opts)
    (hm : o.allowMultiLine = false)
    (hl : LegalF (eraseList Ld)) (hr : LegalF (eraseList Rd))
    (h : mergeDocs res Ld Rd st = .ok indis others st') :
    decode o (encode ⟨bom, eraseList (indis.map (·.2)) ++ eraseList others⟩) =
        .ok ⟨bom, eraseList (indis.map (·.2)) ++ eraseList others⟩ ↔
      rolesOKF false (eraseList (indis.map (·.2)) ++ eraseList others) = true := by
  constructor
  · intro hd
    exact (C02.decode_legal o hm _ _ hd).roles
  · intro hroles
    exact output_redecodes_partial res Ld Rd st st' indis others bom o hl hr h hroles

/-- the witness: `0 @F1@ FAM`, `0 @I1@ INDI`, `1 CHIL @I2@` -/
def rolesWitness : List Node :=
  [.mk (lit "FAM") [] (lit "F1") [],
   .mk (lit "INDI") [] (lit "I1") [.mk (lit "CHIL") (lit "@I2@") [] []]]
def rolesWitnessL : List INode := (labelList 0 rolesWitness).1
def rolesWitnessSt : MSt := { next := (labelList 0 rolesWitness).2, writes := [], oof := false }
/-- what the merge with the empty document returns: the individual first -/
def rolesWitnessOut : List Node :=
  [.mk (lit "INDI") [] (lit "I1") [.mk (lit "CHIL") (lit "@I2@") [] []],
   .mk (lit "FAM") [] (lit "F1") []]

/-- **roles_counterexample.**  The input is a legal document (the decoder returns it for its own
    text), its CHIL line is not below a FAM record, the merge with the empty document succeeds,
    and the merged document does not decode: line 2 is rejected. -/
theorem roles_counterexample :
    legalDocB ⟨false, rolesWitness⟩ = true ∧
    decode ⟨false, false⟩ (encode ⟨false, rolesWitness⟩) = .ok ⟨false, rolesWitness⟩ ∧
    recordsBelowFam rolesWitnessL = false ∧
    (mergeDocs [(some 1, none)] rolesWitnessL [] rolesWitnessSt).nodes.any (· == rolesWitnessOut) = true ∧
    rolesOKF false rolesWitnessOut = false ∧
    (match decode ⟨false, false⟩ (encode ⟨false, rolesWitnessOut⟩) with
     | .error 2 => true
     | _ => false) = true := by
  refine ⟨by decide +kernel, ?_, by decide +kernel, by decide +kernel, by decide +kernel, by decide +kernel⟩
  exact C01.decode_encode _ (C01.legal_of_check _ (by decide +kernel)) _

end Gedcom.C10
