/-
  C15 — queries never crash: parsing returns a query or a syntax error, evaluation returns a
  value or an error (no panic, no stack overflow, no endless loop), every result can be handed to
  every formatter.

  The theorems are about the functions the driver runs (`Gedcom.Q.parse`, `evalTop`, `evalRaw`,
  `evalVar`, `formatOutcome`), for all query strings / programs / documents / fuel.  Three code
  facts are regenerated on every run and used here through `decide`:
  `Generated.Query.evaluateRecovers` (Engine.Evaluate has a deferred recover),
  `Generated.Query.cycleGuard` (a variable that is re-entered while being evaluated is an error),
  `Generated.Query.fmtIsNilPanics` / `fmtCsvNilPanics` (formatters and nil tests).
-/
import Gedcom.Model.Query
import Gedcom.Lemmas.Query
namespace Gedcom.C15
open Gedcom Gedcom.Q

/-! ### parsing -/

/-- the tokenizer model has a deterministic equivalent for every regenerated token pattern -/
theorem patterns_known : patternsKnown = true := by decide

/-- `parse_total`.  `parse` is a total function on byte strings (Lean accepted the mutual
    recursion of the parser on the strictly decreasing remaining token list, and the tokenizer
    is structural on the input): for every query string it returns a compiled query or a
    syntax error — there is no third outcome. -/
theorem parse_total (s : Str) : (∃ e, parse s = .ok e) ∨ parse s = .syntaxError := by
  cases h : parse s with
  | ok e => exact Or.inl ⟨e, rfl⟩
  | syntaxError => exact Or.inr rfl

/-- a compiled query is exactly a statement list that consumed every token -/
theorem parse_ok_iff (ts : List Token) (e : Engine) :
    parseTokens ts = .ok e ↔ ∃ h, pStmts ";" ts = some (e, ⟨[], h⟩) := by
  unfold parseTokens
  constructor
  · intro hp
    split at hp
    · rename_i ss h heq
      cases hp
      exact ⟨h, heq⟩
    · cases hp
  · intro ⟨h, heq⟩
    simp [heq]

/-! ### evaluation never panics -/

/-- package q evaluates on the goroutine that called `Engine.Evaluate`: its sources contain no
    `go` statement and no worker-pool call (regenerated go/ast fact; when the sources cannot be
    located the fact is `none` and only the correspondence ties this).  The deferred recover of
    `Evaluate` — the flag `evalTop_no_panic` rests on — protects that goroutine only: a panic on
    any other goroutine ends the process. -/
theorem evaluation_on_one_goroutine : Generated.Query.concurrencySites.getD [] = [] := by decide

/-- `evalTop_no_panic`.  With the deferred recover in `Engine.Evaluate` (regenerated flag) no
    evaluation ends in a panic, for every program, every document list and every fuel. -/
theorem recoverNoDocs_true (o : Outcome Val) : recoverNoDocs true o = o := by
  cases o with
  | error k =>
    cases k with
    | recovered p => cases p <;> rfl
    | _ => rfl
  | _ => rfl

/-- the driver's `topOf` is `evalTop`: what the correspondence compares is what the theorems are about -/
theorem evalTop_eq_topOf (now fuel : Nat) (docs : List Forest) (eng : Engine) :
    evalTop now fuel docs eng = topOf (evalRaw now Generated.Query.cycleGuard fuel docs eng) := rfl

theorem evalTop_eq_with (now fuel : Nat) (docs : List Forest) (eng : Engine) :
    evalTop now fuel docs eng = evalTopWith now true Generated.Query.cycleGuard fuel docs eng := by
  have h1 : Generated.Query.evaluateRecovers = true := by decide
  have h2 : Generated.Query.evaluateRecoversNoDocuments = true := by decide
  unfold evalTop
  rw [h1, h2, recoverNoDocs_true]

theorem evalTop_no_panic (now fuel : Nat) (docs : List Forest) (eng : Engine) (p : PanicSite) :
    evalTop now fuel docs eng ≠ .panic p := by
  rw [evalTop_eq_with]
  unfold evalTopWith
  cases evalRaw now Generated.Query.cycleGuard fuel docs eng <;> simp [recoverOutcome]

/-- with no documents at all (`Evaluate(nil)`, `Evaluate([]*Document{})`) the index panic of
    `documents[0]` is an error, for every program — the recover is installed before the first
    document is taken (regenerated flag `evaluateRecoversNoDocuments`) -/
theorem evalTop_no_documents (now fuel : Nat) (eng : Engine) :
    evalTop now fuel [] eng = .error (.recovered .noDocuments) := by
  rw [evalTop_eq_with]; rfl

/-- the statement is false of an `Evaluate` that takes `documents[0]` outside its recover -/
theorem no_documents_counterexample (o : Outcome Val) (h : o = .error (.recovered .noDocuments)) :
    recoverNoDocs false o = .panic .noDocuments := by
  subst h; rfl

/-- what the recover does: a panic becomes an error, everything else is unchanged -/
theorem recover_spec (o : Outcome Val) :
    recoverOutcome true o = (match o with | .panic p => .error (.recovered p) | o => o) := by
  cases o <;> rfl

/-- the statement is false of code without the recover (the tree before the repair):
    `Combine(1)` panics in `reflect.MakeSlice` — the witness replayed on the implementation -/
theorem no_recover_counterexample :
    evalTopWith 2026 false false 3 [[]] [.mk [] [.call (ascii "Combine") [.mk [] [.const (ascii "1")]]]]
      = .panic .makeSlice := by rfl

/-! ### evaluation terminates -/

mutual
theorem ND_evalExpr (env : Env) (lk : Lookup) :
    ∀ (e : Expr) (v : Val), (∀ x ∈ varsE e, ∀ w, ND (lk x w)) → ND (evalExpr env lk e v)
  | .const s, v, _ => by unfold evalExpr; exact ND_ok _
  | .acc q, v, _ => by unfold evalExpr; exact ND_evalAccessor _ _ _ _
  | .var n, v, h => by unfold evalExpr; exact h n (by simp [varsE]) v
  | .question, v, _ => by unfold evalExpr; exact ND_questionOf _ _
  | .obj fs, v, h => by
    unfold evalExpr
    apply ND_mapDeep
    intro x
    apply ND_bind (ND_evalFields env lk fs x (by simpa [varsE] using h))
    intro kvs; exact ND_pure _
  | .bin l op r, v, h => by
    unfold evalExpr
    apply ND_mapDeep
    intro x
    exact ND_binaryOn _ _ _ _
      (ND_evalExpr env lk l x (fun y hy => h y (by simp [varsE, hy])))
      (ND_evalExpr env lk r x (fun y hy => h y (by simp [varsE, hy])))
  | .call f args, v, h => by
    unfold evalExpr
    have hargs : ∀ x ∈ varsSs args, ∀ w, ND (lk x w) := by simpa [varsE] using h
    split
    · exact ND_ok _
    · exact ND_questionOf _ _
    · split
      · rename_i a
        exact ND_firstLast _ _ _ (ND_evalStmt env lk a v (fun y hy => hargs y (by simp [varsSs, hy])))
      · exact ND_error _
    · split
      · rename_i a
        exact ND_firstLast _ _ _ (ND_evalStmt env lk a v (fun y hy => hargs y (by simp [varsSs, hy])))
      · exact ND_error _
    · split
      · rename_i c
        exact ND_onlyWith _ _ (fun x => ND_evalStmt env lk c x (fun y hy => hargs y (by simp [varsSs, hy])))
      · exact ND_error _
    · split
      · exact ND_ok _
      · rename_i a rest
        apply ND_bind (ND_evalStmt env lk a v (fun y hy => hargs y (by simp [varsSs, hy])))
        intro first
        split
        · apply ND_bind (ND_evalCombine env lk _ rest v _ (fun y hy => hargs y (by simp [varsSs, hy])))
          intro all; exact ND_pure _
        · exact ND_panic _
        · exact ND_panic _
    · exact ND_tagPathWith _ _ (ND_evalArgs env lk args .nil hargs)
    · split
      · rename_i a b
        exact ND_mergeWith _ _
          (ND_evalStmt env lk a .nil (fun y hy => hargs y (by simp [varsSs, hy])))
          (ND_evalStmt env lk b .nil (fun y hy => hargs y (by simp [varsSs, hy])))
      · exact ND_error _
    · exact ND_unsupported _
theorem ND_evalPipe (env : Env) (lk : Lookup) :
    ∀ (es : List Expr) (v : Val), (∀ x ∈ varsEs es, ∀ w, ND (lk x w)) → ND (evalPipe env lk es v)
  | [], v, _ => by unfold evalPipe; exact ND_ok _
  | e :: es, v, h => by
    unfold evalPipe
    apply ND_bind (ND_evalExpr env lk e v (fun y hy => h y (by simp [varsEs, hy])))
    intro r
    exact ND_evalPipe env lk es r (fun y hy => h y (by simp [varsEs, hy]))
theorem ND_evalStmt (env : Env) (lk : Lookup) :
    ∀ (s : Stmt) (v : Val), (∀ x ∈ varsS s, ∀ w, ND (lk x w)) → ND (evalStmt env lk s v)
  | .mk _ es, v, h => by
    unfold evalStmt
    exact ND_evalPipe env lk es v (by simpa [varsS] using h)
theorem ND_evalArgs (env : Env) (lk : Lookup) :
    ∀ (ss : List Stmt) (v : Val), (∀ x ∈ varsSs ss, ∀ w, ND (lk x w)) → ND (evalArgs env lk ss v)
  | [], v, _ => by unfold evalArgs; exact ND_ok _
  | s :: ss, v, h => by
    unfold evalArgs
    apply ND_bind (ND_evalStmt env lk s v (fun y hy => h y (by simp [varsSs, hy])))
    intro r
    apply ND_bind (ND_evalArgs env lk ss v (fun y hy => h y (by simp [varsSs, hy])))
    intro rs; exact ND_pure _
theorem ND_evalCombine (env : Env) (lk : Lookup) (e : Ty) :
    ∀ (ss : List Stmt) (v : Val) (acc : List Val), (∀ x ∈ varsSs ss, ∀ w, ND (lk x w)) →
      ND (evalCombine env lk e ss v acc)
  | [], v, acc, _ => by unfold evalCombine; exact ND_ok _
  | s :: ss, v, acc, h => by
    unfold evalCombine
    apply ND_bind (ND_evalStmt env lk s v (fun y hy => h y (by simp [varsSs, hy])))
    intro r
    split
    · split
      · exact ND_evalCombine env lk e ss v _ (fun y hy => h y (by simp [varsSs, hy]))
      · exact ND_panic _
    · exact ND_panic _
theorem ND_evalFields (env : Env) (lk : Lookup) :
    ∀ (fs : List (Str × Stmt)) (v : Val), (∀ x ∈ varsFs fs, ∀ w, ND (lk x w)) → ND (evalFields env lk fs v)
  | [], v, _ => by unfold evalFields; exact ND_ok _
  | (k, s) :: fs, v, h => by
    unfold evalFields
    apply ND_bind (ND_evalStmt env lk s v (fun y hy => h y (by simp [varsFs, hy])))
    intro r
    apply ND_bind (ND_evalFields env lk fs v (fun y hy => h y (by simp [varsFs, hy])))
    intro rs; exact ND_pure _
end

/-- the variable definitions are acyclic: some rank strictly decreases from every statement to
    every variable it mentions (statements that are not variables carry the name `""`) -/
def AcyclicVars (eng : Engine) : Prop :=
  ∃ rank : Str → Nat, ∀ s ∈ eng, ∀ y ∈ varsS s, rank y < rank s.name

theorem lookupVar_stmt (n : Nat) (eng : Engine) (x : Str) (s : Stmt)
    (h : lookupVar n eng x = some (.stmt s)) : s ∈ eng ∧ s.name = x := by
  unfold lookupVar at h
  split at h
  · cases h
  · cases hf : eng.find? (fun s => s.name == x) with
    | none => simp [hf] at h
    | some s' =>
      simp [hf] at h
      subst h
      exact ⟨List.mem_of_find?_eq_some hf, by simpa using List.find?_some hf⟩

/-- with acyclic definitions a variable of rank below the fuel never runs out of fuel -/
theorem ND_evalVar (env : Env) (guard : Bool) (rank : Str → Nat)
    (hacy : ∀ s ∈ env.eng, ∀ y ∈ varsS s, rank y < rank s.name) :
    ∀ (n : Nat) (active : List Str) (x : Str) (v : Val), rank x < n → ND (evalVar env guard n active x v) := by
  intro n
  induction n with
  | zero => intro _ _ _ h; omega
  | succ n ih =>
    intro active x v hx
    unfold evalVar
    split
    · exact ND_error _
    · exact ND_ok _
    · rename_i s hl
      have ⟨hmem, hname⟩ := lookupVar_stmt _ _ _ _ hl
      split
      · exact ND_error _
      · apply ND_evalStmt
        intro y hy w
        apply ih
        have := hacy s hmem y hy
        rw [hname] at this
        omega

theorem ND_evalAll (env : Env) (lk : Lookup) :
    ∀ (ss : List Stmt) (v : Val), (∀ s ∈ ss, ∀ y ∈ varsS s, ∀ w, ND (lk y w)) → ND (evalAll env lk ss v)
  | [], v, _ => by unfold evalAll; exact ND_ok _
  | s :: ss, v, h => by
    unfold evalAll
    apply ND_bind (ND_evalStmt env lk s _ (h s (by simp)))
    intro r
    exact ND_evalAll env lk ss r (fun s' hs' => h s' (by simp [hs']))

def maxRank (rank : Str → Nat) : List Stmt → Nat
  | [] => 0
  | s :: ss => max (rank s.name) (maxRank rank ss)

theorem le_maxRank (rank : Str → Nat) (ss : List Stmt) (s : Stmt) (h : s ∈ ss) : rank s.name ≤ maxRank rank ss := by
  induction ss with
  | nil => cases h
  | cons a l ih =>
    unfold maxRank
    cases h with
    | head => omega
    | tail _ h' => have := ih h'; omega

/-- `eval_terminates`.  A program whose variable definitions are acyclic is evaluated with
    finite recursion depth: from some fuel on, the evaluation never runs out of fuel — on any
    documents, with or without recover and cycle guard.  (The bound is 1 + the largest rank.) -/
theorem eval_terminates (eng : Engine) (h : AcyclicVars eng) :
    ∃ fuel, ∀ f, fuel ≤ f → ∀ (now : Nat) (recovers guard : Bool) (docs : List Forest),
      evalTopWith now recovers guard f docs eng ≠ .diverged := by
  obtain ⟨rank, hacy⟩ := h
  refine ⟨maxRank rank eng + 1, ?_⟩
  intro f hf now recovers guard docs
  have hraw : ND (evalRaw now guard f docs eng) := by
    unfold evalRaw
    split
    · exact ND_panic _
    · apply ND_evalAll
      intro s hs y hy w
      apply ND_evalVar (mkEnv now docs eng) guard rank hacy
      have h1 := hacy s hs y hy
      have h2 := le_maxRank rank eng s hs
      omega
  unfold evalTopWith
  cases hr : evalRaw now guard f docs eng with
  | diverged => exact absurd hr hraw.ne
  | panic p => cases recovers <;> simp [recoverOutcome]
  | _ => simp [recoverOutcome]

/-- a program without variables is acyclic -/
theorem acyclic_of_no_vars (eng : Engine) (h : ∀ s ∈ eng, varsS s = []) : AcyclicVars eng :=
  ⟨fun _ => 0, fun s hs y hy => by rw [h s hs] at hy; cases hy⟩

/-! #### the cyclic witness `X is X; X` -/

def cyclic : Engine := [.mk (ascii "X") [.var (ascii "X")], .mk [] [.var (ascii "X")]]

theorem cyclic_var_diverges (now : Nat) (docs : List Forest) (hd : docs.length = 1) :
    ∀ (n : Nat) (active : List Str) (v : Val),
      evalVar (mkEnv now docs cyclic) false n active (ascii "X") v = .diverged := by
  intro n
  induction n with
  | zero => intro _ _; rfl
  | succ n ih =>
    intro active v
    have hl : lookupVar (mkEnv now docs cyclic).docs.length (mkEnv now docs cyclic).eng (ascii "X")
        = some (.stmt (.mk (ascii "X") [.var (ascii "X")])) := by
      show lookupVar docs.length cyclic (ascii "X") = _
      rw [hd]; rfl
    unfold evalVar
    simp only [hl, Bool.false_and]
    simp [evalStmt, evalPipe, evalExpr, ih]

/-- `cyclic_diverges`.  Without a cycle guard (the tree before the repair) the program
    `X is X; X` needs unbounded recursion depth: it runs out of every fuel — in Go, the stack
    overflows, which no recover can catch. -/
theorem cyclic_diverges (now fuel : Nat) (recovers : Bool) :
    evalTopWith now recovers false fuel [[]] cyclic = .diverged := by
  have h := cyclic_var_diverges now [[]] rfl fuel [] (.doc 0)
  unfold evalTopWith evalRaw
  simp [cyclic, evalAll, evalStmt, evalPipe, evalExpr] at h ⊢
  simp [cyclic, h, recoverOutcome]

/-- with the cycle guard the same program is an error, at every fuel ≥ 2 -/
theorem cyclic_guarded (now n : Nat) (recovers : Bool) :
    evalTopWith now recovers true (n + 2) [[]] cyclic = .error .cycle := by
  cases recovers <;> rfl

/-- the evaluator of the current tree (regenerated flags) reports the cycle as an error -/
theorem cyclic_is_error_now (now : Nat) : evalTop now (defaultFuel [[]] cyclic) [[]] cyclic = .error .cycle := by
  have h1 : Generated.Query.cycleGuard = true := by decide
  rw [evalTop_eq_with, h1]
  exact cyclic_guarded now 3 _

/-! #### with the cycle guard every program terminates -/

theorem nodup_subset_length_le {α} [DecidableEq α] : ∀ (l m : List α), l.Nodup → (∀ a ∈ l, a ∈ m) → l.length ≤ m.length
  | [], _, _, _ => by simp
  | a :: l, m, hnd, hsub => by
    have ham : a ∈ m := hsub a (by simp)
    have hnd' : l.Nodup := (List.nodup_cons.mp hnd).2
    have hal : a ∉ l := (List.nodup_cons.mp hnd).1
    have hsub' : ∀ b ∈ l, b ∈ m.erase a := by
      intro b hb
      have hne : b ≠ a := fun h => hal (h ▸ hb)
      exact (List.mem_erase_of_ne hne).mpr (hsub b (by simp [hb]))
    have ih := nodup_subset_length_le l (m.erase a) hnd' hsub'
    have hlen := List.length_erase_of_mem ham
    have hpos : 0 < m.length := List.length_pos_of_mem ham
    simp only [List.length_cons]
    omega

theorem ND_evalVar_guarded (env : Env) :
    ∀ (n : Nat) (active : List Str) (x : Str) (v : Val), active.Nodup →
      (∀ a ∈ active, a ∈ env.eng.map Stmt.name) → env.eng.length < n + active.length →
      ND (evalVar env true n active x v) := by
  intro n
  induction n with
  | zero =>
    intro active x v hnd hsub hlen
    have := nodup_subset_length_le active (env.eng.map Stmt.name) hnd hsub
    simp at this hlen
    omega
  | succ n ih =>
    intro active x v hnd hsub hlen
    unfold evalVar
    split
    · exact ND_error _
    · exact ND_ok _
    · rename_i s hl
      have ⟨hmem, hname⟩ := lookupVar_stmt _ _ _ _ hl
      split
      · exact ND_error _
      · rename_i hg
        have hx : x ∉ active := by simpa using hg
        apply ND_evalStmt
        intro y _ w
        apply ih
        · exact List.nodup_cons.mpr ⟨hx, hnd⟩
        · intro a ha
          cases ha with
          | head => exact List.mem_map.mpr ⟨s, hmem, hname⟩
          | tail _ h' => exact hsub a h'
        · simp only [List.length_cons]; omega

/-- `guard_terminates`.  With the cycle guard every program terminates, cyclic or not: the
    variables being evaluated are pairwise distinct and each names a statement, so the nesting
    depth never exceeds the number of statements — fuel above that is never exhausted. -/
theorem guard_terminates (now : Nat) (eng : Engine) (docs : List Forest) (fuel : Nat) (hf : eng.length < fuel) (recovers : Bool) :
    evalTopWith now recovers true fuel docs eng ≠ .diverged := by
  have hraw : ND (evalRaw now true fuel docs eng) := by
    unfold evalRaw
    split
    · exact ND_panic _
    · apply ND_evalAll
      intro s _ y _ w
      exact ND_evalVar_guarded (mkEnv now docs eng) fuel [] y w List.nodup_nil (by simp) (by simpa [mkEnv] using hf)
  unfold evalTopWith
  cases hr : evalRaw now true fuel docs eng with
  | diverged => exact absurd hr hraw.ne
  | panic p => cases recovers <;> simp [recoverOutcome]
  | _ => simp [recoverOutcome]

/-- `evalTop_terminates`.  The evaluator of the current tree (regenerated cycle-guard flag), run
    with the fuel the driver uses, never diverges: no stack overflow, no endless loop. -/
theorem evalTop_terminates (now : Nat) (docs : List Forest) (eng : Engine) :
    evalTop now (defaultFuel docs eng) docs eng ≠ .diverged := by
  have h1 : Generated.Query.cycleGuard = true := by decide
  rw [evalTop_eq_with, h1]
  exact guard_terminates now eng docs _ (by unfold defaultFuel; omega) _

/-! ### formatters -/

/-- the flags of the current tree: no formatter applies a nil test to a non-nillable value or
    calls ObjectMap on a nil pointer -/
theorem fmt_flags_now :
    Generated.Query.fmtIsNilPanics = false ∧ Generated.Query.fmtCsvNilPanics = false := by decide

def goodFlags : FmtFlags := ⟨false, false⟩

mutual
theorem gedcom_no_panic : ∀ v, fmtGedcom goodFlags v ≠ .panic
  | .slice _ _ isNil vs => by
    unfold fmtGedcom
    cases isNil
    · simpa using gedcomList_no_panic vs
    · simp
  | .nil => by simp [fmtGedcom, Val.nonNillable, Val.isNilLike]
  | .str _ => by simp [fmtGedcom, Val.nonNillable, goodFlags]
  | .int _ => by simp [fmtGedcom, Val.nonNillable, goodFlags]
  | .bool _ => by simp [fmtGedcom, Val.nonNillable, goodFlags]
  | .float _ _ => by simp [fmtGedcom, Val.nonNillable, goodFlags]
  | .someBool => by simp [fmtGedcom, Val.nonNillable, goodFlags]
  | .doc _ => by simp [fmtGedcom, Val.nonNillable, Val.isNilLike]
  | .node _ _ => by simp [fmtGedcom, Val.nonNillable, Val.isNilLike]
  | .nilNode _ => by simp [fmtGedcom, Val.nonNillable, Val.isNilLike]
  | .tag _ => by simp [fmtGedcom, Val.nonNillable, goodFlags]
  | .raw _ _ => by simp [fmtGedcom, Val.nonNillable, Val.isNilLike]
  | .date _ _ => by simp [fmtGedcom, Val.nonNillable, goodFlags]
  | .named _ _ => by simp [fmtGedcom, Val.nonNillable, goodFlags]
  | .map _ => by simp [fmtGedcom, Val.nonNillable, Val.isNilLike]
theorem gedcomList_no_panic : ∀ vs, fmtGedcomList goodFlags vs ≠ .panic
  | [] => by simp [fmtGedcomList]
  | v :: vs => by
    unfold fmtGedcomList
    have h1 := gedcom_no_panic v
    have h2 := gedcomList_no_panic vs
    cases h : fmtGedcom goodFlags v <;> simp_all
end

mutual
theorem html_no_panic : ∀ v, fmtHtml goodFlags v ≠ .panic
  | .slice _ _ isNil vs => by
    unfold fmtHtml
    cases isNil
    · simpa using htmlList_no_panic vs
    · simp
  | .nil => by simp [fmtHtml, Val.nonNillable]
  | .str _ => by simp [fmtHtml, Val.nonNillable, goodFlags]
  | .int _ => by simp [fmtHtml, Val.nonNillable, goodFlags]
  | .bool _ => by simp [fmtHtml, Val.nonNillable, goodFlags]
  | .float _ _ => by simp [fmtHtml, Val.nonNillable, goodFlags]
  | .someBool => by simp [fmtHtml, Val.nonNillable, goodFlags]
  | .doc _ => by simp [fmtHtml, Val.nonNillable]
  | .node _ _ => by simp [fmtHtml, Val.nonNillable]
  | .nilNode _ => by simp [fmtHtml, Val.nonNillable]
  | .tag _ => by simp [fmtHtml, Val.nonNillable, goodFlags]
  | .raw _ _ => by simp [fmtHtml, Val.nonNillable]
  | .date _ _ => by simp [fmtHtml, Val.nonNillable, goodFlags]
  | .named _ _ => by simp [fmtHtml, Val.nonNillable, goodFlags]
  | .map _ => by simp [fmtHtml, Val.nonNillable]
theorem htmlList_no_panic : ∀ vs, fmtHtmlList goodFlags vs ≠ .panic
  | [] => by simp [fmtHtmlList]
  | v :: vs => by
    unfold fmtHtmlList
    have h1 := html_no_panic v
    have h2 := htmlList_no_panic vs
    cases h : fmtHtml goodFlags v <;> simp_all
end

theorem csv_no_panic (v : Val) : fmtCsv goodFlags v ≠ .panic := by
  cases v <;> simp [fmtCsv, goodFlags]

/-- `format_total`.  Every value the evaluator can return is written or refused with an error by
    every formatter (json, pretty-json, csv, gedcom, html and any unknown name): none panics —
    for the formatter flags of the current tree. -/
theorem format_total (format : String) (v : Val) :
    formatOutcome ⟨Generated.Query.fmtIsNilPanics, Generated.Query.fmtCsvNilPanics⟩ format v = .written ∨
    formatOutcome ⟨Generated.Query.fmtIsNilPanics, Generated.Query.fmtCsvNilPanics⟩ format v = .error := by
  rw [fmt_flags_now.1, fmt_flags_now.2]
  have key : formatOutcome goodFlags format v ≠ .panic := by
    unfold formatOutcome
    split
    · simp
    · simp
    · exact csv_no_panic v
    · exact gedcom_no_panic v
    · exact html_no_panic v
    · simp
  show formatOutcome goodFlags format v = .written ∨ formatOutcome goodFlags format v = .error
  cases h : formatOutcome goodFlags format v <;> simp_all

/-- the statement is false of formatters that test `IsNil` on every kind (the tree before the
    repair): a string result makes the gedcom and html formatters panic -/
theorem format_counterexample :
    formatOutcome ⟨true, true⟩ "gedcom" (.str (ascii "abc")) = .panic ∧
    formatOutcome ⟨true, true⟩ "html" (.int 3) = .panic ∧
    formatOutcome ⟨true, true⟩ "csv" (.slice "" (.ptr "NameNode") false [.nilNode "NameNode"]) = .panic := by
  decide

/-! ### the accessor menu against the reflected method tables -/

set_option maxRecDepth 100000 in
/-- `menu_classifies_reflected_methods`.  Every method reflection finds on the document, on
    gedcom.Tag, on gedcom.Date and on every node type (regenerated table) that a query can call —
    no arguments, at least one result — is either evaluated by the model's menu (asked of
    `callMenu` itself) or declared outside it in `outsideMenu`; and every declaration names a
    method that exists and is not in the menu.  A new exported method breaks this obligation until
    it is modelled or declared. -/
theorem menu_classifies_reflected_methods : menuClassified = true ∧ outsideMenuExact = true := by decide

/-! ### the whole pipeline of `gedcom query` -/

/-- `query_never_crashes`.  For every query string, document list and format, with the fuel the
    driver uses: parsing gives a syntax error or a program; evaluating the program (current
    tree: recover + cycle guard) gives a value or an error — or the model says that the query
    leaves the modelled accessor menu; a value is written or refused by the formatter.  No
    panic, no divergence anywhere. -/
theorem query_never_crashes (now : Nat) (s : Str) (docs : List Forest) (format : String) :
    parse s = .syntaxError ∨
    ∃ eng, parse s = .ok eng ∧
      ((∃ k, evalTop now (defaultFuel docs eng) docs eng = .error k) ∨
       (∃ w, evalTop now (defaultFuel docs eng) docs eng = .unsupported w) ∨
       (∃ v, evalTop now (defaultFuel docs eng) docs eng = .ok v ∧
          (formatOutcome ⟨Generated.Query.fmtIsNilPanics, Generated.Query.fmtCsvNilPanics⟩ format v = .written ∨
           formatOutcome ⟨Generated.Query.fmtIsNilPanics, Generated.Query.fmtCsvNilPanics⟩ format v = .error))) := by
  cases hp : parse s with
  | syntaxError => exact Or.inl rfl
  | ok eng =>
    refine Or.inr ⟨eng, rfl, ?_⟩
    cases he : evalTop now (defaultFuel docs eng) docs eng with
    | ok v => exact Or.inr (Or.inr ⟨v, rfl, format_total format v⟩)
    | error k => exact Or.inl ⟨k, rfl⟩
    | panic p => exact absurd he (evalTop_no_panic now _ docs eng p)
    | diverged => exact absurd he (evalTop_terminates now docs eng)
    | unsupported w => exact Or.inr (Or.inl ⟨w, rfl⟩)

/-! ### non-vacuity -/

/-- an acyclic program with two variables, one used inside a function argument -/
def exAcyclic : Engine :=
  [.mk (ascii "A") [.acc (ascii ".Individuals")],
   .mk (ascii "B") [.var (ascii "A"), .call (ascii "Only") [.mk [] [.var (ascii "A")]]],
   .mk [] [.var (ascii "B"), .call (ascii "Length") []]]

example : AcyclicVars exAcyclic :=
  ⟨fun x => if x = ascii "A" then 0 else if x = ascii "B" then 1 else 2, by decide⟩

/-- the cyclic witness is not acyclic: no rank can satisfy `rank X < rank X` -/
example : ¬ AcyclicVars cyclic := by
  intro ⟨rank, h⟩
  have := h (.mk (ascii "X") [.var (ascii "X")]) (by simp [cyclic]) (ascii "X") (by simp [varsS, varsEs, varsE])
  simp [Stmt.name] at this

/-- ill-typed pipeline, unknown accessor, wrong argument count, negative count: errors, not crashes -/
example : evalTop 2026 3 [[]] [.mk [] [.acc (ascii ".Nodes"), .acc (ascii ".Nodes"), .acc (ascii ".Nodes")]]
    = .error (.recovered .nilType) := by rfl
example : evalTop 2026 3 [[]] [.mk [] [.acc (ascii ".Foo")]] = .error .noSuchAccessor := by rfl
example : evalTop 2026 3 [[]] [.mk [] [.call (ascii "First") []]] = .error .argCount := by rfl
example : evalTop 2026 3 [[.mk (ascii "INDI") [] (ascii "I1") []]]
    [.mk [] [.acc (ascii ".Individuals"), .call (ascii "First") [.mk [] [.const (ascii "-1")]]]]
    = .error (.recovered .sliceBounds) := by rfl
example : evalTop 2026 3 [[]] [.mk [] [.call (ascii "Combine") [], .question]] = .error (.recovered .nilType) := by rfl

end Gedcom.C15
