/-
  C17 — the statistics page, the source list, the source pages and the header counts
  (`Gedcom.Model.PagesStats`), brought under the hide-mode non-interference of `Props/C17Pages`.

  * `*_erase`, `extra_pages_hide_independent`, `fullSite_hide_independent`: in hide mode every one
    of these pages, and the whole site including them, is the same for two documents that differ
    only in the private strings (names, dates, places, page keys, sort keys …) of living people.
  * What these pages *do* read from living people is stated exactly:
    - `individualStats_hide_drops_living`: the Individuals card is that of the document with the
      living people removed (at the regenerated fact `statsIndividualsHideLiving`);
    - `living_count_revealed_by_badge`: the Individuals badge of the header counts every INDI
      record, so badge − statistics total = number of living people
      (`badge_counts_living_counterexample`: adding a living person changes the hide-mode site);
    - `eventStats_counts_living_events_counterexample`: with the fact `statsEventsHideLiving = false`
      (the current tree) the Events card counts the events of living people per tag name;
      `eventStats_hide_drops_living_events`: with the fact true it would not.
    None of these numbers is a name, a date or a place, and none is written differently when the
    living people's personal data change — which is what the property demands and what
    `fullSite_hide_independent` proves.
  * `source_pages_read_no_individual`: below the header, the source list and the source pages are
    functions of the SOUR records alone.
-/
import Gedcom.Model.PagesStats
import Gedcom.Props.C17Pages
namespace Gedcom.C17
open Gedcom Gedcom.Living Gedcom.Pages

def gsf : SFlags := generatedSFlags

/-- the regenerated fact the hide-mode Individuals card rests on -/
theorem generated_stats_flags_safe : gsf.individualsHideLiving = true := by decide

def eraseX (x : DocX) : DocX := { x with d := erase x.d }

/-- two extended documents differ only in the private strings of living people -/
structure SameDocX (x x' : DocX) : Prop where
  d : SameDoc x.d x'.d
  famEv : x.famEv = x'.famEv
  sources : x.sources = x'.sources

theorem eraseX_eq_of_same {x x' : DocX} (h : SameDocX x x') : eraseX x = eraseX x' := by
  have h1 := erase_eq_of_same h.d
  have h2 := h.famEv
  have h3 := h.sources
  cases x; cases x'
  simp_all [eraseX]

/-! ## the cards -/

theorem filter_flatMap_map {α β} (g : α → α) (P : α → Bool) (f : α → List β)
    (hP : ∀ a, P (g a) = P a) (hf : ∀ a, f (g a) = f a) (l : List α) :
    ((l.map g).filter P).flatMap f = (l.filter P).flatMap f := by
  induction l with
  | nil => rfl
  | cons a as ih =>
    simp only [List.map_cons, List.filter_cons, hP]
    split
    · simp only [List.flatMap_cons, hf, ih]
    · exact ih

theorem nLiving_map_eraseP (l : List PPerson) : nLiving (l.map eraseP) = nLiving l := by
  induction l with
  | nil => rfl
  | cons p ps ih =>
    simp only [nLiving, List.map_cons, List.filter_cons, eraseP_pub] at ih ⊢
    split <;> simp [ih]

/-- the Individuals card reads the living flags only -/
theorem individualStats_erase (sf : SFlags) (d : DocA) (v : Vis) :
    individualStats sf (erase d).people v = individualStats sf d.people v := by
  simp [individualStats, erase, nLiving_map_eraseP]

theorem eventTags_erase (sf : SFlags) (d : DocA) (v : Vis) :
    eventTags sf (erase d).people v = eventTags sf d.people v := by
  unfold eventTags eventPeople
  simp only [erase]
  exact filter_flatMap_map eraseP _ _ (by intro p; simp) (by intro p; simp) _

/-- the Events card reads the living flags and which events exist, no private string -/
theorem eventStats_erase (sf : SFlags) (d : DocA) (v : Vis) :
    eventStats sf (erase d).people v = eventStats sf d.people v := by
  unfold eventStats
  rw [eventTags_erase]

theorem nPlacesOf_erase (d : DocA) (o : Opts) : nPlacesOf gf (erase d) .hide o = nPlacesOf gf d .hide o := by
  unfold nPlacesOf
  rw [places_erase]

theorem familyStats_erase (x : DocX) : familyStats (eraseX x) = familyStats x := by
  simp [familyStats, eraseX, erase]

theorem sourceStats_erase (x : DocX) : sourceStats (eraseX x) = sourceStats x := by
  simp [sourceStats, eraseX]

/-! ## the pages -/

theorem statisticsPage_erase (sf : SFlags) (x : DocX) (o : Opts) :
    statisticsPage gf sf (eraseX x) .hide o = statisticsPage gf sf x .hide o := by
  unfold statisticsPage
  rw [familyStats_erase, sourceStats_erase]
  simp only [eraseX, header_erase, nPlacesOf_erase, individualStats_erase, eventStats_erase]

theorem sourceListPage_erase (x : DocX) (o : Opts) :
    sourceListPage gf (eraseX x) .hide o = sourceListPage gf x .hide o := by
  unfold sourceListPage
  simp only [eraseX, header_erase, nPlacesOf_erase]

theorem sourcePage_erase (x : DocX) (o : Opts) (s : SrcA) :
    sourcePage gf (eraseX x) .hide o s = sourcePage gf x .hide o s := by
  unfold sourcePage
  simp only [eraseX, header_erase, nPlacesOf_erase]

theorem extraSite_erase (sf : SFlags) (x : DocX) (o : Opts) :
    extraSite gf sf (eraseX x) .hide o = extraSite gf sf x .hide o := by
  unfold extraSite
  simp only [statisticsPage_erase, sourceListPage_erase, sourcePage_erase]
  simp [eraseX]

theorem fullSite_erase (sf : SFlags) (x : DocX) (o : Opts) :
    fullSite gf sf (eraseX x) .hide o = fullSite gf sf x .hide o := by
  unfold fullSite
  rw [extraSite_erase]
  simp only [eraseX, site_erase]

/-- In hide mode the statistics page, the source list and every source page — header counts
    included — are the same for two documents that differ only in the private strings of living
    people (for all values of the two statistics facts). -/
theorem extra_pages_hide_independent {x x' : DocX} (h : SameDocX x x') (sf : SFlags) (o : Opts) :
    statisticsPage gf sf x' .hide o = statisticsPage gf sf x .hide o ∧
    sourceListPage gf x' .hide o = sourceListPage gf x .hide o ∧
    (∀ s, sourcePage gf x' .hide o s = sourcePage gf x .hide o s) := by
  have he := eraseX_eq_of_same h
  refine ⟨?_, ?_, ?_⟩
  · rw [← statisticsPage_erase sf x', ← statisticsPage_erase sf x, he]
  · rw [← sourceListPage_erase x', ← sourceListPage_erase x, he]
  · intro s; rw [← sourcePage_erase x', ← sourcePage_erase x, he]

/-- The whole hide-mode site — every file `sendFiles` writes: list pages, individual pages, place
    list and place pages, family list, surname list, source list, source pages, statistics — does
    not depend on the living people's private strings, for every choice of page groups. -/
theorem fullSite_hide_independent {x x' : DocX} (h : SameDocX x x') (sf : SFlags) (o : Opts) :
    fullSite gf sf x' .hide o = fullSite gf sf x .hide o := by
  rw [← fullSite_erase sf x', ← fullSite_erase sf x, eraseX_eq_of_same h]

/-- Below the header, the source list and the source pages read the SOUR records only: two
    documents with the same sources whose headers agree have the same source list and source pages
    — whatever their individuals are, in every mode. -/
theorem source_pages_read_no_individual (fl : Flags) (x x' : DocX) (v : Vis) (o : Opts)
    (hs : x.sources = x'.sources)
    (hh : ∀ extra, headerAtoms fl x.d v o (nPlacesOf fl x.d v o) extra = headerAtoms fl x'.d v o (nPlacesOf fl x'.d v o) extra) :
    sourceListPage fl x v o = sourceListPage fl x' v o ∧
    ∀ s, sourcePage fl x v o s = sourcePage fl x' v o s := by
  constructor
  · simp [sourceListPage, hs, hh]
  · intro s; simp [sourcePage, hh]

/-! ## what the statistics do read from living people -/

theorem length_sub_nLiving (ps : List PPerson) :
    ps.length - nLiving ps = (ps.filter (fun p => !p.pub.living)).length := by
  induction ps with
  | nil => rfl
  | cons p ps ih =>
    have hle : nLiving ps ≤ ps.length := by
      unfold nLiving; exact List.length_filter_le _ _
    simp only [nLiving, List.filter_cons, List.length_cons] at ih hle ⊢
    cases hl : p.pub.living <;> simp [hl] <;> omega

theorem nLiving_dead (ps : List PPerson) : nLiving (ps.filter (fun p => !p.pub.living)) = 0 := by
  simp [nLiving, List.filter_filter]

/-- `IndividualStatistics` in hide mode "pretends there were never any living individuals": the
    card is the one of the document with the living people removed. -/
theorem individualStats_hide_drops_living (sf : SFlags) (h : sf.individualsHideLiving = true) (ps : List PPerson) :
    individualStats sf ps .hide = individualStats sf (ps.filter (fun p => !p.pub.living)) .hide := by
  simp [individualStats, h, nLiving_dead, length_sub_nLiving]

/-- the document with the INDI records of living people removed (links are not followed here: only
    functions that read the people as a list are stated about it) -/
def dropLiving (d : DocA) : DocA := { d with people := d.people.filter (fun p => !p.pub.living) }

theorem filter_dead_filter (P : PPerson → Bool) (hP : ∀ p, P p = !p.pub.living) (l : List PPerson) :
    (l.filter (fun p => !p.pub.living)).filter P = l.filter P := by
  induction l with
  | nil => rfl
  | cons p ps ih =>
    cases hl : p.pub.living <;> simp [List.filter_cons, hP, hl, ih]

/-- **What a hide-mode site counts.**  Every number of the header and of the statistics that is
    computed from the individuals — the index letters (which list pages exist), the Surnames badge,
    the Places badge and card, the Individuals card — is, in hide mode, the number of the document
    with the living people removed.  The two exceptions are the Individuals badge
    (`living_count_revealed_by_badge`) and the Events card
    (`eventStats_counts_living_events_counterexample`). -/
theorem hide_counts_drop_living (sf : SFlags) (h : sf.individualsHideLiving = true) (d : DocA) (o : Opts) :
    indexLetters gf (dropLiving d) .hide = indexLetters gf d .hide ∧
    surnames gf (dropLiving d) .hide = surnames gf d .hide ∧
    nPlacesOf gf (dropLiving d) .hide o = nPlacesOf gf d .hide o ∧
    individualStats sf (dropLiving d).people .hide = individualStats sf d.people .hide := by
  have h1 := gf_facts.1
  have h2 := gf_facts.2.1
  have h3 := gf_facts.2.2
  refine ⟨?_, ?_, ?_, ?_⟩
  · unfold indexLetters
    simp only [h3, ↓reduceIte, dropLiving]
    rw [filter_dead_filter _ (fun _ => rfl)]
  · unfold surnames
    simp only [h1, Bool.true_and, dropLiving]
    rw [filter_dead_filter _ (by intro p; simp [hiddenP])]
  · have e : placeEvents gf (dropLiving d) .hide = placeEvents gf d .hide := by
      unfold placeEvents
      simp only [h2, Bool.true_and, dropLiving]
      rw [filter_dead_filter _ (by intro p; simp)]
    have k : placeKeyOf (dropLiving d) = placeKeyOf d := by funext e; simp [placeKeyOf, dropLiving]
    simp only [nPlacesOf, places, e, k]
  · exact (individualStats_hide_drops_living sf h d.people).symm

/-- a living person with no events recorded -/
def eraseEv (p : PPerson) : PPerson :=
  if p.pub.living then { p with st := { p.st with evTags := [] } } else p

/-- If `EventStatistics` skipped living people in hide mode (fact `statsEventsHideLiving`), the
    Events card would not depend on which events living people have. -/
theorem eventStats_hide_drops_living_events (sf : SFlags) (h : sf.eventsHideLiving = true) (ps : List PPerson) :
    eventStats sf (ps.map eraseEv) .hide = eventStats sf ps .hide := by
  have e : eventTags sf (ps.map eraseEv) .hide = eventTags sf ps .hide := by
    unfold eventTags eventPeople
    induction ps with
    | nil => rfl
    | cons p ps ih =>
      by_cases hl : p.pub.living = true
      · simp only [List.map_cons, List.filter_cons, h, eraseEv, hl, ↓reduceIte] at ih ⊢
        simpa using ih
      · have hd : p.pub.living = false := by simpa using hl
        have hp : eraseEv p = p := by simp [eraseEv, hd]
        simp only [List.map_cons, List.filter_cons, hp, h, hd] at ih ⊢
        simpa using ih
  unfold eventStats
  rw [e]

def pLivEv (tags : List Str) : PPerson := { pLiv [76] [80] with st := { evTags := tags } }
def docEv (tags : List Str) : DocX := ⟨⟨[pLivEv tags, pDead], [], [], []⟩, [], []⟩

/-- The current tree (`statsEventsHideLiving = false`): the hide-mode statistics page counts the
    events of living people — two documents that differ only in *which events* a living person has
    (no name, date or place involved) publish different statistics.  This is why `evTags` belongs to
    the structure of a record (`Rel`) and is held fixed by `SameDoc`. -/
theorem eventStats_counts_living_events_counterexample :
    statisticsPage gf ⟨true, false⟩ (docEv [bs "Birth"]) .hide oAll ≠
      statisticsPage gf ⟨true, false⟩ (docEv [bs "Birth", bs "Emigration"]) .hide oAll := by
  decide

/-- … and with the fact true they publish the same page -/
example : statisticsPage gf ⟨true, true⟩ (docEv [bs "Birth"]) .hide oAll =
    statisticsPage gf ⟨true, true⟩ (docEv [bs "Birth", bs "Emigration"]) .hide oAll := by decide

/-- What a hide-mode site says about the *number* of living people: the statistics show
    `Total = Dead =` the people who are not living and `Living = 0`, while the Individuals badge of
    every header (when there is a list page to link to) counts all INDI records — the difference is
    the number of living people. -/
theorem living_count_revealed_by_badge (fl : Flags) (sf : SFlags) (h : sf.individualsHideLiving = true)
    (d : DocA) (o : Opts) (n : Nat) (hb : (counts fl sf d .hide o).individualsBadge = some n) :
    (counts fl sf d .hide o).statsLiving = 0 ∧
    (counts fl sf d .hide o).statsTotal = (d.people.filter (fun p => !p.pub.living)).length ∧
    (counts fl sf d .hide o).statsDead = (counts fl sf d .hide o).statsTotal ∧
    n - (counts fl sf d .hide o).statsTotal = nLiving d.people := by
  have hle : nLiving d.people ≤ d.people.length := by
    unfold nLiving; exact List.length_filter_le _ _
  have hn : n = d.people.length := by
    simp only [counts] at hb
    split at hb
    · exact (Option.some.inj hb).symm
    · cases hb
  subst hn
  simp only [counts, h, Bool.and_true, beq_self_eq_true, ↓reduceIte, true_and, ← length_sub_nLiving]
  omega

/-- the hide-mode site is *not* independent of whether a living person exists: the header badge
    counts them (the property speaks of their personal data, not of their number) -/
theorem badge_counts_living_counterexample :
    fullSite gf gsf ⟨⟨[pDead], [], [], []⟩, [], []⟩ .hide oAll ≠
      fullSite gf gsf ⟨⟨[pLiv [76] [80], pDead], [], [], []⟩, [], []⟩ .hide oAll := by
  decide

/-! ## non-vacuity -/

def xA : DocX := ⟨docA, [(true, false)], [⟨bs "S1", bs "Register", [(bs "Title", bs "Register")]⟩]⟩
def xB : DocX := ⟨docB, [(true, false)], [⟨bs "S1", bs "Register", [(bs "Title", bs "Register")]⟩]⟩

theorem docsX_same : SameDocX xA xB := ⟨docs_same, rfl, rfl⟩

example : fullSite gf gsf xA .show oAll ≠ fullSite gf gsf xB .show oAll := by decide
example : (extraSite gf gsf xA .hide oAll).map (·.1) = [bs "sources.html", bs "S1.html", bs "statistics.html"] := by decide
example : individualStats gsf docA.people .hide =
    [lit "Individuals", lit "Total", lit "1", lit "Living", lit "0", lit "Dead", lit "1"] := by decide
example : individualStats gsf docA.people .placeholder =
    [lit "Individuals", lit "Total", lit "2", lit "Living", lit "1", lit "Dead", lit "1"] := by decide
example : numStr 1234567 = bs "1,234,567" ∧ numStr 999 = bs "999" ∧ numStr 1000 = bs "1,000" ∧ numStr 0 = bs "0" := by decide

end Gedcom.C17
