/-
  C17 — non-interference lifted to the page assembly (`Gedcom.Model.Pages`).

  `erase d` replaces the private strings of every living person of `d` by fixed defaults.  Each page
  of the hide-mode site is shown to be the same for `d` and `erase d` (`*_erase`), and two documents
  that differ only in the living people's private strings have the same erasure
  (`erase_eq_of_same`); so every page, and the whole modelled site — which files exist and the
  skeleton of each — is independent of the living people's names, dates, places, index letters and
  sort keys (`page_hide_independent`, `site_hide_independent`).  The page functions are the ones
  the driver executes and that are compared with the real page bytes on every run.
-/
import Gedcom.Model.Pages
namespace Gedcom.C17
open Gedcom Gedcom.Living Gedcom.Pages

def gf : Flags := generatedFlags

theorem gf_facts : gf.surnamesRespectVisibility = true ∧ gf.placesRespectHide = true ∧ gf.hideLettersFromDead = true := by
  decide

/-- the fact of the naming model of C19: only the people who get a page are given a key
    (regenerated; b935843) -/
theorem keys_skip_hidden : Generated.keysSkipHidden = true := by decide

/-- a living person with the private strings wiped -/
def eraseP (p : PPerson) : PPerson :=
  if p.pub.living then { p with priv := default, pp := default } else p

def erase (d : DocA) : DocA := { d with people := d.people.map eraseP }

@[simp] theorem eraseP_pub (p : PPerson) : (eraseP p).pub = p.pub := by
  unfold eraseP; split <;> rfl
@[simp] theorem eraseP_st (p : PPerson) : (eraseP p).st = p.st := by
  unfold eraseP; split <;> rfl
theorem eraseP_dead (p : PPerson) (h : p.pub.living = false) : eraseP p = p := by
  simp [eraseP, h]

/-- the people of two documents differ only in the private strings of living people -/
inductive SamePeople : List PPerson → List PPerson → Prop
  | nil : SamePeople [] []
  | cons {p q : PPerson} {ps qs} : p.pub = q.pub → p.st = q.st → (p.pub.living = false → p = q) →
      SamePeople ps qs → SamePeople (p :: ps) (q :: qs)

structure SameDoc (d d' : DocA) : Prop where
  people : SamePeople d.people d'.people
  fams : d.fams = d'.fams
  others : d.otherEvents = d'.otherEvents
  sources : d.sourcePtrs = d'.sourcePtrs

theorem eraseP_eq_of_same {p q : PPerson} (h1 : p.pub = q.pub) (h2 : p.st = q.st)
    (h3 : p.pub.living = false → p = q) : eraseP p = eraseP q := by
  by_cases hl : p.pub.living = true
  · have hq : q.pub.living = true := by rw [← h1]; exact hl
    cases p; cases q
    simp_all [eraseP]
  · have hl' : p.pub.living = false := by simpa using hl
    rw [h3 hl']

theorem erase_eq_of_same {d d' : DocA} (h : SameDoc d d') : erase d = erase d' := by
  have gen : ∀ l l' : List PPerson, SamePeople l l' → l.map eraseP = l'.map eraseP := by
    intro l l' hs
    induction hs with
    | nil => rfl
    | cons h1 h2 h3 _ ih => simp [eraseP_eq_of_same h1 h2 h3, ih]
  have hp := gen _ _ h.people
  have h1 := h.fams
  have h2 := h.others
  have h3 := h.sources
  cases d; cases d'
  simp_all [erase]

/-! ## lookups and components -/

theorem get_erase (d : DocA) (i : Option Nat) : get (erase d) i = (get d i).map eraseP := by
  cases i with
  | none => rfl
  | some k => simp [Pages.get, erase, List.getElem?_map]

theorem link_eraseP (o : Option PPerson) :
    individualLink (per (o.map eraseP)) .hide = individualLink (per o) .hide := by
  cases o with
  | none => rfl
  | some p =>
    by_cases hl : p.pub.living = true
    · simp [per, PPerson.person, individualLink, hl]
    · have : eraseP p = p := eraseP_dead p (by simpa using hl)
      simp [this]

theorem button_eraseP (o : Option PPerson) :
    individualButton (per (o.map eraseP)) .hide = individualButton (per o) .hide := by
  cases o with
  | none => rfl
  | some p =>
    by_cases hl : p.pub.living = true
    · simp [per, PPerson.person, individualButton, hl]
    · have : eraseP p = p := eraseP_dead p (by simpa using hl)
      simp [this]

/-- filtering after erasing: a filter that rejects living people sees the same list -/
theorem filter_map_eraseP (P : PPerson → Bool) (hP : ∀ p, p.pub.living = true → P p = false ∧ P (eraseP p) = false)
    (l : List PPerson) : (l.map eraseP).filter P = l.filter P := by
  induction l with
  | nil => rfl
  | cons p ps ih =>
    by_cases hl : p.pub.living = true
    · simp [List.filter_cons, (hP p hl).1, (hP p hl).2, ih]
    · have : eraseP p = p := eraseP_dead p (by simpa using hl)
      simp [List.filter_cons, this, ih]

theorem hiddenP_hide (p : PPerson) : hiddenP p .hide = p.pub.living := by
  simp [hiddenP]

/-! ## what is computed from all people -/

theorem indexLetters_erase (d : DocA) : indexLetters gf (erase d) .hide = indexLetters gf d .hide := by
  have h := gf_facts.2.2
  unfold indexLetters
  simp only [h, ↓reduceIte, erase]
  rw [filter_map_eraseP _ (by intro p hp; simp [hp])]

theorem surnames_erase (d : DocA) : surnames gf (erase d) .hide = surnames gf d .hide := by
  have h := gf_facts.1
  unfold surnames
  simp only [h, Bool.true_and, erase]
  rw [filter_map_eraseP _ (by intro p hp; simp [hiddenP, hp])]

theorem surnameCount_erase (d : DocA) (s : Str) :
    Pages.surnameCount gf (erase d) .hide s = Pages.surnameCount gf d .hide s := by
  have h := gf_facts.1
  unfold Pages.surnameCount
  simp only [h, Bool.true_and, erase]
  rw [filter_map_eraseP _ (by intro p hp; simp [hiddenP, hp])]

theorem placeEvents_erase (d : DocA) : placeEvents gf (erase d) .hide = placeEvents gf d .hide := by
  have h := gf_facts.2.1
  unfold placeEvents
  simp only [h, Bool.true_and, erase]
  rw [filter_map_eraseP _ (by intro p hp; simp [hp])]

theorem placeKeyOf_erase (d : DocA) : placeKeyOf (erase d) = placeKeyOf d := by
  funext e; simp [placeKeyOf, erase]

theorem places_erase (d : DocA) : places gf (erase d) .hide = places gf d .hide := by
  unfold places
  rw [placeEvents_erase, placeKeyOf_erase]

theorem header_erase (d : DocA) (o : Opts) (n : Nat) (extra : Str) :
    headerAtoms gf (erase d) .hide o n extra = headerAtoms gf d .hide o n extra := by
  unfold headerAtoms
  rw [indexLetters_erase, surnames_erase]
  simp [erase]

/-! ## pages -/

theorem individualListPage_erase (d : DocA) (o : Opts) (n : Nat) (l : UInt8) :
    individualListPage gf (erase d) .hide o n l = individualListPage gf d .hide o n l := by
  unfold individualListPage
  rw [header_erase, indexLetters_erase]
  have e : ((erase d).people.filter (fun p => p.pp.listLetter == l)).filter (fun p => !hiddenP p .hide) =
      (d.people.filter (fun p => p.pp.listLetter == l)).filter (fun p => !hiddenP p .hide) := by
    simp only [List.filter_filter, erase]
    exact filter_map_eraseP _ (by intro p hp; simp [hiddenP, hp]) _
  simp only [e]
  simp

theorem surnameListPage_erase (d : DocA) (o : Opts) (n : Nat) :
    surnameListPage gf (erase d) .hide o n = surnameListPage gf d .hide o n := by
  unfold surnameListPage
  rw [header_erase, surnames_erase]
  simp only [surnameCount_erase]

theorem placeListPage_erase (d : DocA) (o : Opts) :
    placeListPage gf (erase d) .hide o = placeListPage gf d .hide o := by
  unfold placeListPage
  rw [places_erase, header_erase]

theorem placePage_erase (d : DocA) (o : Opts) (p : PlaceA) :
    placePage gf (erase d) .hide o p = placePage gf d .hide o p := by
  unfold placePage
  rw [places_erase, header_erase]

theorem familyListPage_erase (d : DocA) (o : Opts) (n : Nat) :
    familyListPage gf (erase d) .hide o n = familyListPage gf d .hide o n := by
  unfold familyListPage
  rw [header_erase]
  simp only [get_erase, link_eraseP]
  simp [erase]

theorem keep_button_eraseP (l : List (Option PPerson)) :
    ((l.map (Option.map eraseP)).filter (keepChild .hide)).flatMap (fun c => fragAtoms (individualButton (per c) .hide)) =
    (l.filter (keepChild .hide)).flatMap (fun c => fragAtoms (individualButton (per c) .hide)) := by
  induction l with
  | nil => rfl
  | cons c cs ih =>
    have hk : keepChild .hide (c.map eraseP) = keepChild .hide c := by
      cases c <;> simp [keepChild]
    simp only [List.map_cons, List.filter_cons, hk]
    split
    · simp only [List.flatMap_cons, button_eraseP, ih]
    · exact ih

theorem childrenAtoms_erase (d : DocA) (cs : List (Option Nat)) :
    childrenAtoms (erase d) .hide cs = childrenAtoms d .hide cs := by
  unfold childrenAtoms
  have : cs.map (Pages.get (erase d)) = (cs.map (Pages.get d)).map (Option.map eraseP) := by
    simp [get_erase]
  rw [this, keep_button_eraseP]

theorem entryTail_erase (d : DocA) (cs : Option (List (Option Nat))) :
    entryTail (erase d) .hide cs = entryTail d .hide cs := by
  cases cs <;> simp [entryTail, childrenAtoms_erase]

theorem parentsAtoms_erase (d : DocA) (p : PPerson) : parentsAtoms (erase d) .hide p = parentsAtoms d .hide p := by
  unfold parentsAtoms
  simp only [get_erase, button_eraseP]

theorem descAtoms_erase (d : DocA) (x : Desc) : descAtoms (erase d) .hide x = descAtoms d .hide x := by
  cases x <;> simp [descAtoms, get_erase, link_eraseP]

theorem eventsAtoms_erase (d : DocA) (p : PPerson) : eventsAtoms (erase d) .hide p = eventsAtoms d .hide p := by
  unfold eventsAtoms
  simp only [descAtoms_erase]

theorem spouseEntryAtoms_erase (d : DocA) (e : Option Nat × Option (List (Option Nat))) :
    spouseEntryAtoms (erase d) .hide e = spouseEntryAtoms d .hide e := by
  unfold spouseEntryAtoms
  rw [get_erase, entryTail_erase]
  cases hg : Pages.get d e.1 with
  | none => simp
  | some q =>
    by_cases hl : q.pub.living = true
    · simp [hl]
    · have : eraseP q = q := eraseP_dead q (by simpa using hl)
      simp [this]

theorem spouseShown_erase (d : DocA) (e : Option Nat × Option (List (Option Nat))) :
    spouseShown (erase d) .hide e = spouseShown d .hide e := by
  unfold spouseShown
  rw [get_erase]
  cases Pages.get d e.1 <;> simp [keepChild]

theorem partnersAtoms_erase (d : DocA) (p : PPerson) : partnersAtoms (erase d) .hide p = partnersAtoms d .hide p := by
  unfold partnersAtoms
  have h1 : spouseEntryAtoms (erase d) .hide = spouseEntryAtoms d .hide := funext (spouseEntryAtoms_erase d)
  have h2 : spouseShown (erase d) .hide = spouseShown d .hide := funext (spouseShown_erase d)
  simp only [h1, h2, childrenAtoms_erase]

theorem individualPage_erase (d : DocA) (o : Opts) (n : Nat) (p : PPerson) :
    individualPage gf (erase d) .hide o n p = individualPage gf d .hide o n p := by
  unfold individualPage
  rw [header_erase, parentsAtoms_erase, eventsAtoms_erase, partnersAtoms_erase]

/-! ## the site -/

theorem siteOf_erase (d : DocA) (o : Opts) : siteOf gf (erase d) .hide o = siteOf gf d .hide o := by
  unfold siteOf
  rw [places_erase, indexLetters_erase]
  have e : (erase d).people.filter (fun p => !hiddenP p .hide) = d.people.filter (fun p => !hiddenP p .hide) := by
    simp only [erase]
    exact filter_map_eraseP _ (by intro p hp; simp [hiddenP, hp]) _
  simp only [e, individualListPage_erase, individualPage_erase, placeListPage_erase, placePage_erase,
    familyListPage_erase, surnameListPage_erase]

/-! ### the key hand-out of the naming model (`Publish.individualKeysV`) -/

/-- two name lists agree on the people that are not hidden -/
inductive AgreeOnShown : List Str → List Str → List Bool → Prop
  | nil : AgreeOnShown [] [] []
  | hidden (a b : Str) {as bs hs} : AgreeOnShown as bs hs → AgreeOnShown (a :: as) (b :: bs) (true :: hs)
  | shown (a : Str) {as bs hs} : AgreeOnShown as bs hs → AgreeOnShown (a :: as) (a :: bs) (false :: hs)

theorem zipFilter_agree {as bs : List Str} {hs : List Bool} (h : AgreeOnShown as bs hs) :
    Publish.zipFilter as hs = Publish.zipFilter bs hs := by
  induction h with
  | nil => rfl
  | hidden a b _ ih => simp [Publish.zipFilter, ih]
  | shown a _ ih => simp [Publish.zipFilter, ih]

/-- **Joint theorem with C19 (the b935843 property), for every site.**  The page keys of all
    people — hence every individual file name and every link target — are the same for two
    documents whose written names differ only for hidden people: a hidden living person takes no
    key, so nobody's `-1`, `-2`, … depends on a hidden namesake. -/
theorem keys_independent_of_hidden_names {names names' : List Str} {hidden : List Bool}
    (h : AgreeOnShown names names' hidden) (avoid : List Str) :
    Publish.individualKeysV names hidden avoid = Publish.individualKeysV names' hidden avoid := by
  unfold Publish.individualKeysV Publish.keyedNames
  simp only [keys_skip_hidden, ↓reduceIte, zipFilter_agree h]

/-- a hidden person is handed no key -/
theorem hidden_take_no_key (ks : List Str) (hs : List Bool) (i : Nat) (h : hs[i]? = some true) :
    (Publish.assignKeys ks hs)[i]? = some none := by
  induction hs generalizing ks i with
  | nil => simp at h
  | cons b bs ih =>
    cases i with
    | zero =>
      simp only [List.getElem?_cons_zero, Option.some.injEq] at h
      subst h
      cases ks <;> simp [Publish.assignKeys]
    | succ j =>
      simp only [List.getElem?_cons_succ] at h
      cases b with
      | true => simp only [Publish.assignKeys, List.getElem?_cons_succ]; exact ih _ j h
      | false =>
        cases ks with
        | nil => simp only [Publish.assignKeys, List.getElem?_cons_succ]; exact ih _ j h
        | cons k ks' => simp only [Publish.assignKeys, List.getElem?_cons_succ]; exact ih _ j h

theorem titles_agree (l : List PPerson) :
    AgreeOnShown ((l.map eraseP).map (fun p => p.pp.title)) (l.map (fun p => p.pp.title))
      (l.map (fun p => hiddenP p .hide)) := by
  induction l with
  | nil => exact .nil
  | cons p ps ih =>
    by_cases hl : p.pub.living = true
    · simp only [List.map_cons, hiddenP_hide, hl]
      exact .hidden _ _ (by simpa [hiddenP_hide] using ih)
    · have hd : p.pub.living = false := by simpa using hl
      simp only [List.map_cons, hiddenP_hide, hd, eraseP_dead p hd]
      exact .shown _ (by simpa [hiddenP_hide] using ih)

theorem hidden_flags_erase (l : List PPerson) (v : Vis) :
    (l.map eraseP).map (fun p => hiddenP p v) = l.map (fun p => hiddenP p v) := by
  simp [hiddenP]

theorem avoidKeys_erase (d : DocA) (o : Opts) : avoidKeys gf (erase d) .hide o = avoidKeys gf d .hide o := by
  unfold avoidKeys
  rw [places_erase]
  simp [erase]

theorem pageKeys_erase (d : DocA) (o : Opts) : pageKeys gf (erase d) .hide o = pageKeys gf d .hide o := by
  unfold pageKeys
  rw [avoidKeys_erase]
  simp only [erase, hidden_flags_erase]
  exact keys_independent_of_hidden_names (titles_agree d.people) _

/-- writing the keys commutes with erasing the living, because hidden people are handed `none` -/
theorem setPages_erase (ks : List Str) (l : List PPerson) :
    setPages (Publish.assignKeys ks (l.map (fun p => hiddenP p .hide))) (l.map eraseP) =
      (setPages (Publish.assignKeys ks (l.map (fun p => hiddenP p .hide))) l).map eraseP := by
  induction l generalizing ks with
  | nil => cases ks <;> simp [Publish.assignKeys, setPages]
  | cons p ps ih =>
    by_cases hl : p.pub.living = true
    · simp only [List.map_cons, hiddenP_hide, hl, Publish.assignKeys, setPages, List.cons.injEq, true_and]
      simpa [hiddenP_hide] using ih _
    · have hd : p.pub.living = false := by simpa using hl
      have he : eraseP p = p := eraseP_dead p hd
      cases ks with
      | nil =>
        simp only [List.map_cons, hiddenP_hide, hd, Publish.assignKeys, setPages, he, List.cons.injEq, true_and]
        simpa [hiddenP_hide] using ih []
      | cons k ks' =>
        have he' : eraseP { p with priv := { p.priv with page := k ++ Publish.html } } =
            { p with priv := { p.priv with page := k ++ Publish.html } } := eraseP_dead _ hd
        simp only [List.map_cons, hiddenP_hide, hd, Publish.assignKeys, setPages, he, he', List.cons.injEq, true_and]
        simpa [hiddenP_hide] using ih ks'

theorem rekey_erase (d : DocA) (o : Opts) : rekey gf (erase d) .hide o = erase (rekey gf d .hide o) := by
  unfold rekey
  rw [pageKeys_erase]
  simp only [erase]
  congr 1
  unfold pageKeys Publish.individualKeysV
  exact setPages_erase _ _

theorem site_erase (d : DocA) (o : Opts) : Pages.site gf (erase d) .hide o = Pages.site gf d .hide o := by
  unfold Pages.site
  rw [rekey_erase, siteOf_erase]

/-- Every page of the hide-mode site is the same for two documents that differ only in the private
    strings of living people: the individual list page of each letter, the surname list, the place
    list, each place page, the family list and each individual page. -/
theorem page_hide_independent {d d' : DocA} (h : SameDoc d d') (o : Opts) :
    (∀ n l, individualListPage gf d' .hide o n l = individualListPage gf d .hide o n l) ∧
    (∀ n, surnameListPage gf d' .hide o n = surnameListPage gf d .hide o n) ∧
    placeListPage gf d' .hide o = placeListPage gf d .hide o ∧
    (∀ p, placePage gf d' .hide o p = placePage gf d .hide o p) ∧
    (∀ n, familyListPage gf d' .hide o n = familyListPage gf d .hide o n) ∧
    (∀ n p, individualPage gf d' .hide o n p = individualPage gf d .hide o n p) := by
  have he := erase_eq_of_same h
  refine ⟨?_, ?_, ?_, ?_, ?_, ?_⟩
  · intro n l; rw [← individualListPage_erase d', ← individualListPage_erase d, he]
  · intro n; rw [← surnameListPage_erase d', ← surnameListPage_erase d, he]
  · rw [← placeListPage_erase d', ← placeListPage_erase d, he]
  · intro p; rw [← placePage_erase d', ← placePage_erase d, he]
  · intro n; rw [← familyListPage_erase d', ← familyListPage_erase d, he]
  · intro n p; rw [← individualPage_erase d', ← individualPage_erase d, he]

/-- The whole modelled hide-mode site — which files exist, in which order, and the skeleton of each
    — does not depend on the living people's private strings, for every choice of page groups. -/
theorem site_pages_hide_independent {d d' : DocA} (h : SameDoc d d') (o : Opts) :
    Pages.site gf d' .hide o = Pages.site gf d .hide o := by
  rw [← site_erase d', ← site_erase d, erase_eq_of_same h]

/-! ## the guard facts are load-bearing, and the hypotheses are satisfiable -/

def oAll : Opts := ⟨true, true, true, true, true, true⟩
def pLiv (surname place : Str) : PPerson :=
  { pub := ⟨true, .female⟩, st := {}, priv := { (default : Priv) with surname := surname, page := [108], names := [[76]] },
    pp := { idxLetter := 108, listLetter := 108, placeEvents := [⟨place, place, [79, 122], [49], [66], [48]⟩] } }
def pDead : PPerson :=
  { pub := ⟨false, .male⟩, st := { spouses := [(some 0, none)] },
    priv := { (default : Priv) with surname := [84], page := [116], names := [[79]] },
    pp := { idxLetter := 116, listLetter := 116, title := [79] } }
def docA : DocA := ⟨[pLiv [76] [80], pDead], [⟨some 1, some 0, [45]⟩], [], []⟩
def docB : DocA := ⟨[pLiv [77] [81], pDead], [⟨some 1, some 0, [45]⟩], [], []⟩

theorem docs_same : SameDoc docA docB :=
  ⟨.cons rfl rfl (by decide) (.cons rfl rfl (fun _ => rfl) .nil), rfl, rfl, rfl⟩

/-- with the facts of the unrepaired tree the surname page and the place list of the same two
    documents differ in hide mode (defect 18, at page level) … -/
theorem page_leak_counterexample :
    surnameListPage unrepairedFlags docA .hide oAll 0 ≠ surnameListPage unrepairedFlags docB .hide oAll 0 ∧
    placeListPage unrepairedFlags docA .hide oAll ≠ placeListPage unrepairedFlags docB .hide oAll := by
  decide

/-- … while in show mode the sites of course differ, and in hide mode they are equal and not empty -/
example : Pages.site gf docA .show oAll ≠ Pages.site gf docB .show oAll := by decide
example : (Pages.site gf docA .hide oAll).map (·.1) =
    [Pages.pageIndividuals 116, Publish.sanitize [79] ++ Publish.html, bs "places.html", bs "families.html",
     bs "surnames.html"] := by decide

/-- a living person with the written name `t`, recorded before `pDead` (whose written name is "O") -/
def nLiv (t : Str) : PPerson := { pLiv [76] [80] with pp := { (pLiv [76] [80]).pp with title := t } }

/-- Before b935843 every individual took a page name, hidden or not (`individualKeys` over all
    names): the key of a dead "O" recorded after a living "O" is `o-1`, and `o` once the living
    person is renamed — the dependence `keys_independent_of_hidden_names` rules out. -/
theorem page_key_leak_counterexample :
    (Publish.individualKeys [[79], [79]] [])[1]? ≠ (Publish.individualKeys [[80], [79]] [])[1]? := by
  decide

/-- … and with the regenerated facts the two documents publish the same files, the dead person as `o.html` -/
example : (Pages.site gf ⟨[nLiv [79], pDead], [], [], []⟩ .hide oAll).map (·.1) =
    (Pages.site gf ⟨[nLiv [80], pDead], [], [], []⟩ .hide oAll).map (·.1) := by decide
example : ((Pages.site gf ⟨[nLiv [79], pDead], [], [], []⟩ .hide oAll).map (·.1)).contains ([111] ++ Publish.html) = true := by
  decide
/-- a person called "Places" keeps off the fixed page: `places-1.html` -/
example : pageKeys gf ⟨[{ pDead with pp := { pDead.pp with title := bs "Places" } }], [], [], []⟩ .show oAll =
    [some (bs "places-1")] := by decide

end Gedcom.C17
