/-
  C07 — Deep equality ignores order and deep copies are independent.

  Model: Gedcom/Model/Equal.lean (`equalsShallow`, `deepEqual`, `deepEqualNodes` — the functions
  the driver runs for `deq` / `deqn`) and Gedcom/Model/Ident.lean (`deepCopy`, `copyTree`,
  `applyMut`, `render` — run for `copy` / `mut`).

  The guard.  Equality of two DATE values (`DateRange.Equals`) is neither symmetric nor transitive
  once constraints are involved (`Bef. 1900` equals `Bef. 1901` but not the other way round;
  `3 Sep 1943` = `Bef. Oct 1943` = `5 Sep 1943` ≠ `3 Sep 1943`).  Because `DeepEqualNodes` matches
  greedily, symmetry, permutation invariance and edit detection are false of the code in general
  (`perm_counterexample`, `symm_counterexample`).  They are proved under the explicit decidable
  guard
      `dateEquiv D = true`   — `dateValueEquals` is symmetric and transitive on the list `D`
      `okNode D t = true`    — every DATE value occurring in `t` is in `D`
  (take `D` = all DATE values of the trees compared; trees without DATE nodes satisfy it with
  `D = []`).  The guard excludes exactly the finding: nothing else is assumed — in particular
  RESI / EVEN nodes with several dates, whose *shallow* `Equals` ("some pair of dates is equal")
  is not transitive, are covered, because `DeepEqual` also matches the children.
  Reflexivity up to copying and every statement about copies hold without a guard.
-/
import Gedcom.Lemmas.EqualLaws
import Gedcom.Lemmas.Ident
import Gedcom.Lemmas.CopyDoc
namespace Gedcom.C07
open Gedcom

/-! ## deep equality -/

/-- FULL.  Every tree is deep-equal to a deep copy of itself, whatever the node kinds involved
    (plain, BIRT/DEAT/BURI/BAPM, RESI, EVEN, DATE incl. phrases and unparsable values, _UID incl.
    malformed ids — the latter only after the repair of `UniqueIDNode.Equals`). -/
theorem deepEqual_copy (ctx : Option (Nat × Str)) (next : Nat) (t c : INode) (n : Nat) (w : List Nat)
    (f : List Str)
    (h : deepCopyIn ctx next t = .ok c n w f) : deepEqual t.erase c.erase = true := by
  unfold deepCopyIn at h
  split at h
  · cases h
  · injection h with h1
    rw [← h1, copyTree_erase]
    exact deepEqual_refl _

/-- FULL (value form of the above). -/
theorem deepEqual_refl (t : Node) : deepEqual t t = true := Gedcom.deepEqual_refl t

/-- PARTIAL (guard).  Deep equality is symmetric.  The unguarded statement
    `∀ a b, deepEqual a b = deepEqual b a` is false: `symm_counterexample`. -/
theorem deepEqual_symm (D : List Str) (hD : dateEquiv D = true) (a b : Node)
    (ha : okNode D a = true) (hb : okNode D b = true) : deepEqual a b = deepEqual b a := by
  apply Bool.eq_iff_iff.mpr
  exact ⟨deepEqual_symm_of_ok D hD a b ha hb, deepEqual_symm_of_ok D hD b a hb ha⟩

/-- PARTIAL (guard).  Deep equality is transitive (with reflexivity and symmetry: an equivalence). -/
theorem deepEqual_trans (D : List Str) (hD : dateEquiv D = true) (a b c : Node)
    (ha : okNode D a = true) (hb : okNode D b = true) (hc : okNode D c = true)
    (h1 : deepEqual a b = true) (h2 : deepEqual b c = true) : deepEqual a c = true :=
  deepEqual_trans_of_ok D hD a b c ha hb hc h1 h2

/-- PARTIAL (guard).  A tree is deep-equal to any re-ordering of its children at any number of
    levels at once.  The unguarded statement `Reorder a b → deepEqual a b` is false:
    `perm_counterexample`. -/
theorem deepEqual_perm (D : List Str) (hD : dateEquiv D = true) (a b : Node) (h : Reorder a b)
    (ha : okNode D a = true) (hb : okNode D b = true) : deepEqual a b = true :=
  deepEqual_of_reorder D hD a.size a b (Nat.le_refl _) h ha hb

/-- PARTIAL (guard).  Trees that differ by one edit — the value of a plain node changed, a node
    inserted or a node deleted, at any position and depth — are never deep-equal.  (Insertions
    and deletions at the top level, and a changed root value, need no guard: the child counts or
    the roots differ; the guard is what makes the difference propagate upwards through the greedy
    matching of the ancestors' sibling lists.) -/
theorem edit_detected (D : List Str) (hD : dateEquiv D = true) (a b : Node) (h : Edit a b)
    (ha : okNode D a = true) (hb : okNode D b = true) : deepEqual a b = false :=
  deepEqual_of_edit D hD h ha hb

/-- The code's `DeepEqualNodes` (greedy, first unused match) decides the existence of a perfect
    matching whenever deep equality behaves on the nodes involved; in general it only implies one. -/
theorem deepEqualNodes_sound (l r : List Node) (h : deepEqualNodes l r = true) :
    G.Matched deepEqual l r := by
  rw [deepEqualNodes_eq_greedy] at h; exact G.greedy_sound _ _ _ h

theorem deepEqualNodes_complete (D : List Str) (hD : dateEquiv D = true) (l r : List Node)
    (hl : ∀ x ∈ l, okNode D x = true) (hr : ∀ x ∈ r, okNode D x = true)
    (h : G.Matched deepEqual l r) : deepEqualNodes l r = true := by
  rw [deepEqualNodes_eq_greedy]
  exact G.greedy_complete_on (okNode D) _
    (fun a b ha hb => deepEqual_symm_of_ok D hD a b ha hb)
    (fun a b c ha hb hc => deepEqual_trans_of_ok D hD a b c ha hb hc) _ _ hl hr h

/-! ## deep copies -/

/-- all existing objects have ids below the allocation counter -/
def Below (next : Nat) (t : INode) : Prop := ∀ i ∈ t.ids, i < next

/-- FULL.  A deep copy shares no node with its source. -/
theorem copy_fresh (ctx : Option (Nat × Str)) (next : Nat) (t c : INode) (n : Nat) (w : List Nat)
    (f : List Str)
    (hb : Below next t) (h : deepCopyIn ctx next t = .ok c n w f) : ∀ i ∈ c.ids, i ∉ t.ids := by
  unfold deepCopyIn at h
  split at h
  · cases h
  · injection h with h1
    intro i hi ht
    rw [← h1] at hi
    have := (copyTree_ids next t).2.1 i hi
    have := hb i ht
    omega

/-- FULL.  A deep copy has the value of its source, hence serialises to identical GEDCOM at every
    indent (and `NoIndent`). -/
theorem copy_render (ctx : Option (Nat × Str)) (next : Nat) (t c : INode) (n : Nat) (w : List Nat)
    (f : List Str)
    (h : deepCopyIn ctx next t = .ok c n w f) (indent : Option Nat) :
    c.erase = t.erase ∧ render indent c.erase = render indent t.erase := by
  unfold deepCopyIn at h
  split at h
  · cases h
  · injection h with h1
    rw [← h1, copyTree_erase]
    exact ⟨rfl, rfl⟩

/-- FULL.  Copying leaves the source untouched: every write of the walk (`AddNode`) goes to an
    object created by the walk. -/
theorem copy_source_untouched (ctx : Option (Nat × Str)) (next : Nat) (t c : INode) (n : Nat) (w : List Nat)
    (f : List Str)
    (hb : Below next t) (h : deepCopyIn ctx next t = .ok c n w f) : ∀ i ∈ w, i ∉ t.ids := by
  unfold deepCopyIn at h
  split at h
  · cases h
  · injection h with _ _ h3
    intro i hi ht
    rw [← h3] at hi
    have := (copyTree_ids next t).2.2 i hi
    have := hb i ht
    omega

/-- FULL.  Changing either never changes the other: a mutation (`AddNode`, `DeleteNode`,
    `SetNodes`) of any object of the copy leaves the source — hence its GEDCOM — as it was, and a
    mutation of any object of the source leaves the copy as it was. -/
theorem copy_frame (ctx : Option (Nat × Str)) (next : Nat) (t c : INode) (n : Nat) (w : List Nat)
    (f : List Str)
    (hb : Below next t) (h : deepCopyIn ctx next t = .ok c n w f) (m : Mut) :
    (m.target ∈ c.ids → applyMut m t = t) ∧ (m.target ∈ t.ids → applyMut m c = c) := by
  have hf := copy_fresh ctx next t c n w f hb h
  exact ⟨fun hc => applyMut_of_not_mem m t (hf _ hc),
    fun ht => applyMut_of_not_mem m c (fun hc => hf _ hc ht)⟩

/-! ## the documents involved (round 2) -/

/-- `deepCopy` of Model/Ident.lean is the case "no family outside the tree" -/
theorem deepCopy_eq (next : Nat) (t : INode) : deepCopy next t = deepCopyIn none next t := rfl

/-- FULL.  After the repair a copy never fails when the role nodes that are not below a FAM node
    have a family to belong to (they always do: HUSB / WIFE / CHIL nodes cannot be constructed
    without one) — in particular a HUSB / WIFE / CHIL node can be the root of the copy. -/
theorem copy_total (fi : Nat) (fp : Str) (next : Nat) (t : INode) :
    ∃ c n w f, deepCopyIn (some (fi, fp)) next t = .ok c n w f := by
  obtain ⟨r, hr, _⟩ := famWalk_isSome (some (fi, fp)) [] t rfl
  unfold deepCopyIn
  rw [hr]
  exact ⟨_, _, _, _, rfl⟩

/-- FULL.  What the copy asks the destination document for: `document.AddFamily(pointer)` exactly
    once per distinct source family that a role node of the walk belongs to, in the order they are
    first met, and nothing else: `f` lists the pointers, `ids` the source families. -/
theorem copy_families (ctx : Option (Nat × Str)) (next : Nat) (t c : INode) (n : Nat)
    (w : List Nat) (f : List Str) (h : deepCopyIn ctx next t = .ok c n w f) :
    f = (firstNew [] (famsUsed ctx t).2).2 ∧
    ∃ ids : List Nat, ids.Nodup ∧ ids.length = f.length ∧
      ∀ g, g ∈ ids ↔ g ∈ (famsUsed ctx t).2.map (·.1) := by
  unfold deepCopyIn at h
  split at h
  · cases h
  · rename_i fam' seen' adds hw
    injection h with _ _ _ h4
    have sp := (famWalk_spec ctx [] t fam' seen' adds hw).2
    have e1 : seen' = (firstNew [] (famsUsed ctx t).2).1 := congrArg Prod.fst sp
    have e2 : adds = (firstNew [] (famsUsed ctx t).2).2 := congrArg Prod.snd sp
    refine ⟨by rw [← h4, e2], seen', ?_, ?_, ?_⟩
    · rw [e1]; exact firstNew_nodup [] _ List.nodup_nil
    · obtain ⟨new, hn, hl⟩ := firstNew_shape [] (famsUsed ctx t).2
      rw [← h4, e1, e2, hn]; simpa using hl
    · intro g; rw [e1, firstNew_mem]; simp

/-- FULL.  Effect on the destination document: it is the old record list followed by one empty
    FAM record (no value, no children, the source family's pointer) per `AddFamily` call, each a
    new object; nothing is removed, reordered or rewritten.  The source document is not an
    argument of the walk at all.  When source and destination are the SAME document this means:
    the source record is still in place and unchanged (so is every other record), no node is
    shared — but the document has gained those empty FAM records (`same_doc_redirected`). -/
theorem copy_doc_effect (ctx : Option (Nat × Str)) (dst : Doc) (next : Nat) (t : INode)
    (r : CopyDocResult) (h : copyIntoDoc ctx dst next t = some r) :
    ∃ fams : List INode, r.doc = dst ++ fams ∧ fams.map (·.ptr) = r.famAdds ∧
      (∀ x ∈ fams, x.tag = tagFAM ∧ x.value = [] ∧ x.kids = []) ∧
      (∀ x ∈ fams, next ≤ x.id ∧ x.id ∉ r.copy.ids) ∧ (fams.map (·.id)).Nodup ∧
      r.doc.take dst.length = dst := by
  unfold copyIntoDoc at h
  split at h
  · cases h
  · rename_i c nx w adds hc
    injection h with h
    obtain ⟨h1, h2, h3, h4⟩ := newFams_spec nx adds
    refine ⟨(newFams nx adds).1, by rw [← h], by rw [← h]; exact h2, h4, ?_, ?_, by rw [← h]; simp⟩
    · intro x hx
      have hid : x.id ∈ List.range' nx adds.length := h3 ▸ List.mem_map_of_mem (f := (·.id)) hx
      have hge := (List.mem_range'_1.mp hid).1
      unfold deepCopyIn at hc
      split at hc
      · cases hc
      · injection hc with hc1 hc2
        have hi := copyTree_ids next t
        rw [← h]
        simp only
        refine ⟨by omega, fun hm => ?_⟩
        rw [← hc1] at hm
        have := (hi.2.1 _ hm).2
        omega
    · rw [h3]; exact List.nodup_range'

/-- FULL.  Copying into the document the source lives in redirects `NodeByPointer(p)` for every
    pointer `p` passed to `AddFamily`: the lookup now finds one of the new, empty FAM records
    (an object that did not exist before), not the source family. -/
theorem same_doc_redirected (ctx : Option (Nat × Str)) (dst : Doc) (next : Nat) (t : INode)
    (r : CopyDocResult) (h : copyIntoDoc ctx dst next t = some r) (p : Str) (hp : p ∈ r.famAdds) :
    ∃ i, r.doc.lookup p = some i ∧ next ≤ i := by
  obtain ⟨fams, hd, hptr, _, hfresh, _, _⟩ := copy_doc_effect ctx dst next t r h
  have hex : ∃ x ∈ fams, x.ptr = p := by
    rw [← hptr] at hp
    obtain ⟨x, hx, e⟩ := List.mem_map.mp hp
    exact ⟨x, hx, e⟩
  obtain ⟨x, hx, hxp⟩ := hex
  unfold Doc.lookup
  rw [hd, List.reverse_append, List.find?_append]
  cases hf : fams.reverse.find? (fun r => r.ptr == p) with
  | none =>
    have := List.find?_eq_none.mp hf x (List.mem_reverse.mpr hx)
    simp [hxp] at this
  | some y =>
    have hy := List.mem_reverse.mp (List.mem_of_find?_eq_some hf)
    exact ⟨y.id, by simp, (hfresh y hy).1⟩

/-! ## non-vacuity (tests on literals) -/

private def ex : Node :=
  .mk (lit "INDI") [] (lit "P1") [.mk (lit "NAME") (lit "A /B/") [] [], .mk (lit "NOTE") (lit "x") [] []]
private def ex' : Node :=
  .mk (lit "INDI") [] (lit "P1") [.mk (lit "NOTE") (lit "x") [] [], .mk (lit "NAME") (lit "A /B/") [] []]

/-- the guard is satisfiable by a non-trivial pair, and the re-ordering is a real one -/
example : dateEquiv [] = true ∧ okNode [] ex = true ∧ okNode [] ex' = true := by decide
example : Reorder ex ex' :=
  .mk (.cons (.mk .nil (List.Perm.refl _)) (.cons (.mk .nil (List.Perm.refl _)) .nil))
    (List.Perm.swap _ _ _)
example : deepEqual ex ex' = true := by decide
/-- an edit that is detected -/
example : Edit ex (.mk (lit "INDI") [] (lit "P1") [.mk (lit "NAME") (lit "A /B/") [] []]) :=
  Edit.delete (pre := [.mk (lit "NAME") (lit "A /B/") [] []]) (post := [])
/-- a copy that succeeds, is fresh, and a mutation that is visible in the copy only -/
example : ∃ c n w f, deepCopy 3 (labelNode 0 ex).1 = .ok c n w f ∧ c.ids = [3, 4, 5] ∧
    (applyMut (.clear 3) c).kids.length = 0 ∧ c.kids.length = 2 ∧ Below 3 (labelNode 0 ex).1 := by
  refine ⟨_, _, _, _, rfl, by decide, by decide, by decide, ?_⟩
  unfold Below; decide
/-- a HUSB node copied on its own: its family (object 7, pointer F1) lies outside the tree; the
    copy succeeds and asks the destination for one family F1 -/
example : ∃ c n w, deepCopyIn (some (7, lit "F1")) 1 (.mk 0 (lit "HUSB") (lit "@I1@") [] []) =
    .ok c n w [lit "F1"] := ⟨_, _, _, rfl⟩
/-- a FAM record with two role nodes copied into a document that already holds it: one empty FAM
    is appended and the pointer now resolves to it (object 6) instead of the source (object 0) -/
example :
    let fam : INode := .mk 0 (lit "FAM") [] (lit "F1")
      [.mk 1 (lit "HUSB") (lit "@I1@") [] [], .mk 2 (lit "WIFE") (lit "@I2@") [] []]
    (copyIntoDoc none [fam] 3 fam).map (fun r => (r.doc.length, r.famAdds.length, r.doc.lookup (lit "F1"))) =
      some (2, 1, some 6) ∧ Doc.lookup [fam] (lit "F1") = some 0 := by decide

/-! ## counterexamples to the unguarded statements (known finding: non-transitive sibling
    equality), replayed on the implementation by the harness -/

private def dn (v : String) : Node := .mk (lit "DATE") (lit v) [] []
/-- BIRT with three DATE children … -/
def permWitness : Node :=
  .mk (lit "BIRT") [] [] [dn "3 Sep 1943", dn "Bef. Oct 1943", dn "5 Sep 1943"]
/-- … and its rotation -/
def permWitness' : Node :=
  .mk (lit "BIRT") [] [] [dn "Bef. Oct 1943", dn "5 Sep 1943", dn "3 Sep 1943"]

theorem permWitness_reorder : Reorder permWitness permWitness' :=
  .mk (.cons (.mk .nil (List.Perm.refl _)) (.cons (.mk .nil (List.Perm.refl _))
      (.cons (.mk .nil (List.Perm.refl _)) .nil)))
    ((List.Perm.swap _ _ _).trans (List.Perm.cons _ (List.Perm.swap _ _ _)))

/-- COUNTEREXAMPLE.  Permutation invariance fails without the guard: the greedy matching pairs
    `3 Sep 1943` with `Bef. Oct 1943`, then `Bef. Oct 1943` with `5 Sep 1943`, and is left with
    `5 Sep 1943` against `3 Sep 1943`. -/
theorem perm_counterexample :
    Reorder permWitness permWitness' ∧ deepEqual permWitness permWitness' = false :=
  ⟨permWitness_reorder, by decide +kernel⟩

/-- COUNTEREXAMPLE.  Symmetry fails without the guard: `Bef. 1900` equals `Bef. 1901`
    (receiver before / argument before: "left.Years() < right.Years()") but not conversely. -/
theorem symm_counterexample :
    deepEqual (dn "Bef. 1900") (dn "Bef. 1901") = true ∧
    deepEqual (dn "Bef. 1901") (dn "Bef. 1900") = false := by
  constructor <;> decide +kernel

/-- the witnesses are excluded by the guard, as they must be -/
example : dateEquiv [lit "3 Sep 1943", lit "Bef. Oct 1943", lit "5 Sep 1943"] = false := by
  decide +kernel

end Gedcom.C07
